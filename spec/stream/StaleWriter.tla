---------------------------- MODULE StaleWriter ----------------------------
(* C16, directed stage "stale writer": no data written by a replaced publisher reaches readers
   after the replacement took effect  (internal/stream/sub_stream.go: SubStream.WriteUnit against
   SubStream.Initialize, both over Stream.mutex, a sync.RWMutex).

   Processes
     H  a third party that holds Stream.mutex for reading for a while (another in-flight WriteUnit,
        an offline track write, Stream.OutboundBytes() from API / metrics)
     S  something that makes a write SLOW between the stale guard and the fan-out (the unit carries new
        parameter sets and updateOutDesc has to wait for outDescMutex; a large unit; preemption)
     W  the publisher A that is being replaced: one call of SubStream.WriteUnit, in three parts:
        WAcquire (RLock), WEnter (the guard `Stream.subStream # ss => return`), WDeliver (fan-out to the
        readers; waits while S stalls it), WExit (RUnlock)
     R  the replacement: SubStream.Initialize of publisher B (swaps Stream.subStream under Lock, returns)
   and the readers' queues (`delivered`: what was handed to them, in order).

   The lock is Go's sync.RWMutex: any number of readers or one writer, and WRITER PREFERENCE:
   a Lock that is waiting (`pending`) blocks every new RLock until it has been served.

   Layer 1 follows the code: the guard is evaluated under RLock, and Initialize takes the WRITE lock, which is
   what makes a replacement WAIT for writes of the old publisher that are in progress.  Named deviations
   (FALSE = the code):  CheckOutsideLock  the guard is evaluated BEFORE RLock is requested;
                        InitUnderReadLock Initialize swaps under RLock, so it does not wait for writers inside.

   Gates (what a harness can do at a chosen moment): HAcq, HRel, SHold, SRel, WCall, RCall.  Everything else
   is internal.  s.eager = TRUE is the granularity of the replay: after a gate the internal steps run until
   nothing more can happen.  Both granularities are explored in one TLC run (Init picks s.eager and a mode).

   Layer 2 (the statement): no unit of A is handed to a reader after the swap has happened, in particular
   none after Initialize has returned.                                                                   *)
EXTENDS VerifCommon

CONSTANTS CheckOutsideLock,   \* named deviation; FALSE = the code
          InitUnderReadLock,  \* named deviation; FALSE = the code
          Modes               \* which third parties take part: subset of {"plain", "holder", "stall"}

VARIABLE s
vars == <<s>>

Init0(eager, mode) ==
    [eager   |-> eager,
     mode    |-> mode,
     readers |-> {},          \* who holds the lock for reading
     writer  |-> FALSE,       \* the lock is held for writing
     pending |-> FALSE,       \* a Lock() is waiting: new RLock()s wait behind it
     pcH     |-> IF mode = "holder" THEN "idle" ELSE "released",    \* idle, holding, released
     pcS     |-> IF mode = "stall" THEN "idle" ELSE "released",     \* idle, holding (writes are slow), released
     pcW     |-> "idle",      \* idle, started (CheckOutsideLock only), wantR, locked, entered, delivering, done
     pcR     |-> "idle",      \* idle, want, locked, done
     cur     |-> "A",         \* Stream.subStream
     delivered |-> <<>>,      \* units handed to the readers: [pub, afterSwap, afterReturn]
     sched   |-> <<>>]        \* the gates passed so far

\* ------------------------------------------------------------------ internal steps (pure)
CanRLock(t) == ~t.writer /\ ~t.pending

Internal == {"WCheck0", "WAcquire", "WEnter", "WDeliver", "WExit", "RAcquire", "RBody"}

IEnabled(t, i) ==
    CASE i = "WCheck0"  -> t.pcW = "started"
      [] i = "WAcquire" -> t.pcW = "wantR" /\ CanRLock(t)
      [] i = "WEnter"   -> t.pcW = "locked"
      [] i = "WDeliver" -> t.pcW = "entered" /\ t.pcS # "holding"
      [] i = "WExit"    -> t.pcW = "delivering"
      [] i = "RAcquire" -> t.pcR = "want" /\ (IF InitUnderReadLock THEN CanRLock(t) ELSE t.readers = {} /\ ~t.writer)
      [] i = "RBody"    -> t.pcR = "locked"

IApply(t, i) ==
    CASE i = "WCheck0"  ->            \* CheckOutsideLock: the guard, evaluated without the lock
           IF t.cur = "A" THEN [t EXCEPT !.pcW = "wantR"] ELSE [t EXCEPT !.pcW = "done"]
      [] i = "WAcquire" -> [t EXCEPT !.pcW = "locked", !.readers = @ \cup {"W"}]
      [] i = "WEnter"   ->            \* under RLock: the guard
           IF CheckOutsideLock \/ t.cur = "A" THEN [t EXCEPT !.pcW = "entered"]
           ELSE [t EXCEPT !.pcW = "done", !.readers = @ \ {"W"}]
      [] i = "WDeliver" ->            \* format update, remux, fan-out to the readers
           [t EXCEPT !.pcW = "delivering",
                     !.delivered = Append(@, [pub |-> "A", afterSwap |-> t.cur # "A", afterReturn |-> t.pcR = "done"])]
      [] i = "WExit"    -> [t EXCEPT !.pcW = "done", !.readers = @ \ {"W"}]
      [] i = "RAcquire" -> IF InitUnderReadLock THEN [t EXCEPT !.pcR = "locked", !.readers = @ \cup {"R"}]
                           ELSE [t EXCEPT !.pcR = "locked", !.writer = TRUE, !.pending = FALSE]
      [] i = "RBody"    ->            \* swap; Unlock; return
           [t EXCEPT !.pcR = "done", !.writer = FALSE, !.readers = @ \ {"R"}, !.cur = "B"]

\* run the internal steps until none is enabled.  After a gate the steps that are enabled belong to one process at a
\* time (writer preference serialises W behind a pending R, and R behind a W that is inside), so the order is forced
RECURSIVE Settle(_)
Settle(t) ==
    IF \E i \in Internal : IEnabled(t, i)
    THEN Settle(IApply(t, CHOOSE i \in Internal : IEnabled(t, i)))
    ELSE t

\* ------------------------------------------------------------------ gates (pure)
Gates == {"HAcq", "HRel", "SHold", "SRel", "WCall", "RCall"}

GEnabled(t, g) ==
    CASE g = "HAcq"  -> t.pcH = "idle" /\ CanRLock(t)        \* the harness never blocks itself
      [] g = "HRel"  -> t.pcH = "holding"
      [] g = "SHold" -> t.pcS = "idle" /\ t.pcW \in {"idle", "done"}     \* set up before the write begins
      [] g = "SRel"  -> t.pcS = "holding"
      [] g = "WCall" -> t.pcW = "idle"
      [] g = "RCall" -> t.pcR = "idle"

GApply(t, g) ==
    LET u == CASE g = "HAcq"  -> [t EXCEPT !.pcH = "holding", !.readers = @ \cup {"H"}]
               [] g = "HRel"  -> [t EXCEPT !.pcH = "released", !.readers = @ \ {"H"}]
               [] g = "SHold" -> [t EXCEPT !.pcS = "holding"]
               [] g = "SRel"  -> [t EXCEPT !.pcS = "released"]
               [] g = "WCall" -> [t EXCEPT !.pcW = IF CheckOutsideLock THEN "started" ELSE "wantR"]
               [] g = "RCall" -> [t EXCEPT !.pcR = "want", !.pending = ~InitUnderReadLock]   \* Lock() announces itself at once
        v == [u EXCEPT !.sched = Append(@, g)]
    IN IF t.eager THEN Settle(v) ELSE v

\* ------------------------------------------------------------------ actions
Gate(g)  == GEnabled(s, g) /\ s' = GApply(s, g)
Step(i)  == ~s.eager /\ IEnabled(s, i) /\ s' = IApply(s, i)

Init == s \in {Init0(e, m) : e \in BOOLEAN, m \in Modes}
Next == (\E g \in Gates : Gate(g)) \/ (\E i \in Internal : Step(i))
Spec == Init /\ [][Next]_vars

\* ------------------------------------------------------------------ layer 2: the statement
\* "no data written by a replaced or removed publisher reaches readers afterwards"
NoStaleDelivery(d) == \A k \in 1..Len(d) : ~(d[k].pub = "A" /\ (d[k].afterSwap \/ d[k].afterReturn))
PropNoStale == NoStaleDelivery(s.delivered)

\* design checks
TypeOK == /\ s.pcH \in {"idle", "holding", "released"} /\ s.pcS \in {"idle", "holding", "released"}
          /\ s.pcW \in {"idle", "started", "wantR", "locked", "entered", "delivering", "done"}
          /\ s.pcR \in {"idle", "want", "locked", "done"}
          /\ (s.writer => s.readers = {}) /\ ("H" \in s.readers <=> s.pcH = "holding")
          /\ ("W" \in s.readers <=> s.pcW \in {"locked", "entered", "delivering"})
          /\ (~InitUnderReadLock => ((s.writer <=> s.pcR = "locked") /\ (s.pending <=> s.pcR = "want")))
\* at the replay granularity every state is at rest (Settle reached a fixpoint)
Settled == s.eager => \A i \in Internal : ~IEnabled(s, i)

\* what an observer sees of W and R between gates
ObsW(t) == CASE t.pcW = "idle" -> "notstarted" [] t.pcW = "done" -> "done"
             [] t.pcW \in {"entered", "delivering"} -> "stalled"      \* inside WriteUnit, past the guard, not finished
             [] OTHER -> "blocked"                                     \* waiting for the stream mutex
ObsR(t) == CASE t.pcR = "idle" -> "notstarted" [] t.pcR = "done" -> "done" [] OTHER -> "pending"

\* generator: every complete schedule of the replay granularity
Finished == \A g \in Gates : ~GEnabled(s, g)
EmitScheds == (s.eager /\ Finished) => Emit("SCHED", [mode |-> s.mode, gates |-> s.sched])
=============================================================================
