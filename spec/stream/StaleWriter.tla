---------------------------- MODULE StaleWriter ----------------------------
(* C16, directed stage "stale writer": no data written by a replaced publisher reaches readers
   after the replacement took effect  (internal/stream/sub_stream.go: SubStream.WriteUnit against
   SubStream.Initialize, both over Stream.mutex, a sync.RWMutex).

   Processes
     H  a third party that holds Stream.mutex for reading for a while (another in-flight WriteUnit,
        an offline track write, Stream.OutboundBytes() from API / metrics)
     W  the publisher A that is being replaced: one call of SubStream.WriteUnit
     R  the replacement: SubStream.Initialize of publisher B (swaps Stream.subStream under Lock)
   and the readers' queues (`delivered`: what was handed to them, in order).

   The lock is Go's sync.RWMutex: any number of readers or one writer, and WRITER PREFERENCE:
   a Lock that is waiting (`pending`) blocks every new RLock until it has been served.

   Layer 1 follows WriteUnit as coded: RLock, then the guard `Stream.subStream # ss => return`,
   then the fan-out, then RUnlock.  The named deviation CheckOutsideLock (FALSE = the code) evaluates
   the guard BEFORE RLock is requested, so check and write are not atomic w.r.t. the swap any more.

   Gates (what a harness can do at a chosen moment): HAcq, HRel, WCall, RCall.  Everything else
   (lock grants, guard, fan-out, swap, unlocks) is internal.  s.eager = TRUE is the granularity of the
   replay: after a gate the internal steps run until nothing more can happen.  Both granularities are
   explored in one TLC run (Init picks s.eager).

   Layer 2 (the statement): no unit of A is handed to a reader after the swap has happened.          *)
EXTENDS VerifCommon

CONSTANTS CheckOutsideLock,   \* named deviation; FALSE = the code
          WithHolder          \* set of BOOLEAN: does a third party take part

VARIABLE s
vars == <<s>>

Init0(eager, holder) ==
    [eager   |-> eager,
     holder  |-> holder,
     readers |-> {},          \* who holds the lock for reading
     writer  |-> FALSE,       \* the lock is held for writing
     pending |-> FALSE,       \* a Lock() is waiting: new RLock()s wait behind it
     pcH     |-> IF holder THEN "idle" ELSE "released",     \* idle, holding, released
     pcW     |-> "idle",      \* idle, started (deviation only), wantR, locked, done
     pcR     |-> "idle",      \* idle, wantW, locked, done
     cur     |-> "A",         \* Stream.subStream
     delivered |-> <<>>,      \* units handed to the readers: [pub, afterSwap]
     sched   |-> <<>>]        \* the gates passed so far

\* ------------------------------------------------------------------ internal steps (pure)
CanRLock(t) == ~t.writer /\ ~t.pending

Internal == {"WCheck0", "WAcquire", "WBody", "RAcquire", "RBody"}

IEnabled(t, i) ==
    CASE i = "WCheck0"  -> t.pcW = "started"
      [] i = "WAcquire" -> t.pcW = "wantR" /\ CanRLock(t)
      [] i = "WBody"    -> t.pcW = "locked"
      [] i = "RAcquire" -> t.pcR = "wantW" /\ t.readers = {} /\ ~t.writer
      [] i = "RBody"    -> t.pcR = "locked"

IApply(t, i) ==
    CASE i = "WCheck0"  ->            \* deviation: the guard, evaluated without the lock
           IF t.cur = "A" THEN [t EXCEPT !.pcW = "wantR"] ELSE [t EXCEPT !.pcW = "done"]
      [] i = "WAcquire" -> [t EXCEPT !.pcW = "locked", !.readers = @ \cup {"W"}]
      [] i = "WBody"    ->            \* under RLock: (the code: guard;) fan-out; RUnlock
           LET pass == CheckOutsideLock \/ t.cur = "A"
           IN [t EXCEPT !.pcW = "done", !.readers = @ \ {"W"},
                        !.delivered = IF pass THEN Append(@, [pub |-> "A", afterSwap |-> t.cur # "A"]) ELSE @]
      [] i = "RAcquire" -> [t EXCEPT !.pcR = "locked", !.writer = TRUE, !.pending = FALSE]
      [] i = "RBody"    -> [t EXCEPT !.pcR = "done", !.writer = FALSE, !.cur = "B"]   \* swap; Unlock; return

\* run the internal steps until none is enabled.  After a gate at most one process can move at a time (writer
\* preference serialises W behind a pending R), so the order CHOOSE picks is the only one
RECURSIVE Settle(_)
Settle(t) ==
    IF \E i \in Internal : IEnabled(t, i)
    THEN Settle(IApply(t, CHOOSE i \in Internal : IEnabled(t, i)))
    ELSE t

\* ------------------------------------------------------------------ gates (pure)
Gates == {"HAcq", "HRel", "WCall", "RCall"}

GEnabled(t, g) ==
    CASE g = "HAcq"  -> t.pcH = "idle" /\ CanRLock(t)        \* the harness never blocks itself
      [] g = "HRel"  -> t.pcH = "holding"
      [] g = "WCall" -> t.pcW = "idle"
      [] g = "RCall" -> t.pcR = "idle"

GApply(t, g) ==
    LET u == CASE g = "HAcq"  -> [t EXCEPT !.pcH = "holding", !.readers = @ \cup {"H"}]
               [] g = "HRel"  -> [t EXCEPT !.pcH = "released", !.readers = @ \ {"H"}]
               [] g = "WCall" -> [t EXCEPT !.pcW = IF CheckOutsideLock THEN "started" ELSE "wantR"]
               [] g = "RCall" -> [t EXCEPT !.pcR = "wantW", !.pending = TRUE]     \* Lock() announces itself at once
        v == [u EXCEPT !.sched = Append(@, g)]
    IN IF t.eager THEN Settle(v) ELSE v

\* ------------------------------------------------------------------ actions
Gate(g)  == GEnabled(s, g) /\ s' = GApply(s, g)
Step(i)  == ~s.eager /\ IEnabled(s, i) /\ s' = IApply(s, i)

Init == s \in {Init0(e, h) : e \in BOOLEAN, h \in WithHolder}
Next == (\E g \in Gates : Gate(g)) \/ (\E i \in Internal : Step(i))
Spec == Init /\ [][Next]_vars

\* ------------------------------------------------------------------ layer 2: the statement
\* "no data written by a replaced or removed publisher reaches readers afterwards"
NoStaleDelivery(d) == \A k \in 1..Len(d) : ~(d[k].pub = "A" /\ d[k].afterSwap)
PropNoStale == NoStaleDelivery(s.delivered)

\* design checks
TypeOK == /\ s.pcH \in {"idle", "holding", "released"} /\ s.pcW \in {"idle", "started", "wantR", "locked", "done"}
          /\ s.pcR \in {"idle", "wantW", "locked", "done"}
          /\ (s.writer => s.readers = {}) /\ ("W" \in s.readers <=> s.pcW = "locked") /\ ("H" \in s.readers <=> s.pcH = "holding")
          /\ (s.writer <=> s.pcR = "locked") /\ (s.pending <=> s.pcR = "wantW")
\* at the replay granularity every state is at rest (Settle reached a fixpoint)
Settled == s.eager => \A i \in Internal : ~IEnabled(s, i)

\* what an observer sees of W and R between gates
ObsW(t) == CASE t.pcW = "idle" -> "notstarted" [] t.pcW = "done" -> "done" [] OTHER -> "blocked"
ObsR(t) == CASE t.pcR = "idle" -> "notstarted" [] t.pcR = "done" -> "done" [] OTHER -> "pending"

\* generator: every complete schedule of the replay granularity
Finished == \A g \in Gates : ~GEnabled(s, g)
EmitScheds == (s.eager /\ Finished) => Emit("SCHED", [holder |-> s.holder, gates |-> s.sched])
=============================================================================
