-------------------------- MODULE TraceStaleWriter --------------------------
(* Trace validation for the C16 stale-writer stage.  One ndjson record per schedule replayed on the REAL
   stream.Stream / SubStream (package stream, in-package control of Stream.mutex):

     id, mode, gates: << "HAcq" | "HRel" | "SHold" | "SRel" | "WCall" | "RCall" >>,
                               (SHold/SRel: the harness holds Stream.outDescMutex for reading, so that a write whose unit
                               carries new parameter sets stops inside WriteUnit, past the guard, before the fan-out)
     obs:  << [w, r, try] >>   after gate k, once every started goroutine has finished or is parked on the mutex
                               (read from runtime.Stack):  w = "notstarted" | "blocked" (parked in RWMutex.RLock of Stream.mutex)
                               | "stalled" (parked in RWMutex.Lock of outDescMutex: inside, nothing handed over yet) | "done"
                               r = "notstarted" | "pending" (parked in RWMutex.Lock) | "done" (Initialize returned)
                               try = "fails" | "succeeds" | "" : Stream.mutex.TryRLock() while the harness holds the read lock
     delivered: << tag >>      first payload byte of every unit the reader received, in order, after a sentinel written
                               by the new publisher has come through (so nothing is still queued)
     stale: tag                the tag of the unit publisher A wrote in gate WCall

   Verdict (the statement, Go's RWMutex contract assumed): A's unit must not reach the reader if its hand-over certainly
   came after the replacement: (a) Initialize had RETURNED while A's WriteUnit had not handed anything over yet (not started,
   waiting for the lock, or stopped inside before the fan-out), or (b) the replacement was waiting for the lock while A's
   WriteUnit had not obtained it yet (a waiting Lock blocks new RLocks, so the write is ordered after the swap).   Drift: equality with what layer 1 predicts for the schedule.    *)
EXTENDS StaleWriter

Trace == ndJsonDeserialize("C16sw_trace.ndjson")

VARIABLE l
TraceInit == l = 0 /\ s = Init0(TRUE, "plain")
TraceNext == l < Len(Trace) /\ l' = l + 1 /\ UNCHANGED s
TraceSpec == TraceInit /\ [][TraceNext]_<<l, s>>

\* A's write certainly took effect after the replacement
WriteOrderedAfterSwap(t) ==
    \E k \in 1..Len(t.obs) :
        \/ t.obs[k].r = "done" /\ t.obs[k].w \in {"notstarted", "blocked", "stalled"}
        \/ t.obs[k].r = "pending" /\ t.obs[k].w \in {"notstarted", "blocked"}
StaleReached(t) == \E i \in 1..Len(t.delivered) : t.delivered[i] = t.stale
\* "no data written by a replaced or removed publisher reaches readers afterwards"
StatementOK(t) == WriteOrderedAfterSwap(t) => ~StaleReached(t)

RECURSIVE ConformsFrom(_, _, _)
ConformsFrom(t, u, k) ==
    IF k > Len(t.gates)
    THEN StaleReached(t) = (u.delivered # <<>>)
    ELSE /\ GEnabled(u, t.gates[k])
         /\ LET n == GApply(u, t.gates[k]) IN
              /\ t.obs[k].w = ObsW(n) /\ t.obs[k].r = ObsR(n)
              /\ (t.obs[k].try # "" => (t.obs[k].try = "fails") = n.pending)
              /\ ConformsFrom(t, n, k + 1)
Conforms(t) == ConformsFrom(t, Init0(TRUE, t.mode), 1)

Verdicts == l >= 1 => Monitor(StatementOK(Trace[l]), [l |-> l, id |-> Trace[l].id, monitor |-> "NoStaleDelivery"])
Drift    == l >= 1 => (Conforms(Trace[l]) \/ Emit("DRIFT", [l |-> l, id |-> Trace[l].id]))
Accepted == TLCGet("stats").diameter - 1 = Len(Trace)
=============================================================================
