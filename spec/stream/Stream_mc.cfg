\* reference configuration (checks/C17.py writes its own per tier)
SPECIFICATION Spec
CONSTANTS
  Formats = {"f1","f2"}
  Readers = {"r1","r2"}
  SubChoices = {{"f1"},{"f2"},{"f1","f2"}}
  NSS = 2
  QS = {1}
  MaxWrites = 2
  MaxStale = 1
  Eager = FALSE
  Kinds = {"frame","frag","key","aud"}
  FragFormats = {"f1"}
  DevCountFramesOnly = FALSE
  DevSharedScratch = FALSE
INVARIANTS TypeOK PropAccounted PropExact PropAllReceived PropStoppedQuiet
PROPERTIES StepUnmodified StepOnlyOrder StepSkipOnlyWhenFull StepNoCallbackAfterEnd
CHECK_DEADLOCK FALSE
