\* reference configuration (checks/C22.py writes its own per tier)
SPECIFICATION Spec
CONSTANTS
  Codecs = {"h264", "h265", "mpeg4", "av1"}
  MaxAUs = 1
  MaxNALs = 3
  MaxNALs265 = 3
  EmitLen = 1
  DevH265UpdaterComparesStored = FALSE
  DevOfflineRestartKeepsParams = FALSE
INVARIANTS DesignAgrees EmitCases
CHECK_DEADLOCK FALSE
