\* the named deviation: the guard is evaluated before RLock -> PropNoStale must be violated
SPECIFICATION Spec
CONSTANTS
  CheckOutsideLock = TRUE
  WithHolder = {TRUE, FALSE}
INVARIANTS TypeOK Settled PropNoStale
CHECK_DEADLOCK FALSE
