------------------------- MODULE TraceStreamStress -------------------------
(* Trace validation for C17, free-running part: several writer goroutines (one per sub-stream and
   format), reader goroutines that are slow / bursty / failing, readers added and removed during
   delivery, a publisher switch; built with -race.  Every event carries a stamp drawn from ONE
   atomic counter, so  stamp(a) < stamp(b)  whenever a happened before b; operations are logged as
   start/end pairs by the goroutine that performs them and a reader's callbacks in the order its
   goroutine ran them.  One ndjson record per round:

     run, q, aa, foreign, nf,
     writes:   uid |-> <<f, ss, ws, we, chk>>   WriteUnit of unit uid (format f, sub-stream ss) was called
                                                at ws and had returned at we; chk = second half of the payload.
                                                uids of one writer (ss, f) increase in its program order
     switches: << <<ss, s, e>> >>               sub-stream ss became the current publisher between s and e
     lives:    << [id, subs, as, ae, rs, re,    one reader: AddReader called/returned, RemoveReader
                   disc, err,                   called/returned, OutboundFramesDiscarded() afterwards,
                   cbs: << <<f, uid, chk, t>> >>] >>   whether a callback returned an error; callbacks in
                                                goroutine order: callback of format f entered at t with unit uid
                                                (uid = 0: a payload the harness did not write)

   The formulas are the statement's, weakened exactly as far as concurrency requires: an operation
   takes effect somewhere between its start and end stamps, so every formula quantifies over what
   is CERTAIN given the stamps.  Logging order therefore cannot cause a false alarm.           *)
EXTENDS VerifCommon

Trace == ndJsonDeserialize("C17_stress.ndjson")

VARIABLE l
TraceInit == l = 0
TraceNext == l < Len(Trace) /\ l' = l + 1
TraceSpec == TraceInit /\ [][TraceNext]_l

\* ---- accessors
WF(w)   == w[1]
WSS(w)  == w[2]
WS(w)   == w[3]
WE(w)   == w[4]
WCHK(w) == w[5]
CF(c)   == c[1]
CU(c)   == c[2]
CCHK(c) == c[3]
CT(c)   == c[4]

SwTo(t, ss)    == CHOOSE s \in Range(t.switches) : s[1] = ss
HasNext(t, ss) == \E s \in Range(t.switches) : s[1] = ss + 1
\* the publisher of w was certainly / possibly current during the write
SurelyCurrent(t, w)   == WS(w) > SwTo(t, WSS(w))[3] /\ (HasNext(t, WSS(w)) => WE(w) < SwTo(t, WSS(w) + 1)[2])
PossiblyCurrent(t, w) == WE(w) > SwTo(t, WSS(w))[2] /\ (HasNext(t, WSS(w)) => WS(w) < SwTo(t, WSS(w) + 1)[3])

\* ---- "it receives the units written by the current publisher ... unmodified ... never units of
\*       formats it did not subscribe to" (and nothing from a publisher that was certainly replaced)
Only(t, L) ==
    \A i \in 1..Len(L.cbs) :
        LET c == L.cbs[i] IN
        /\ CF(c) \in Range(L.subs)
        /\ CU(c) = 0 => t.foreign
        /\ CU(c) # 0 => LET w == t.writes[CU(c)] IN
                         /\ WF(w) = CF(c) /\ WCHK(w) = CCHK(c)
                         /\ WS(w) < CT(c)
                         /\ PossiblyCurrent(t, w)

\* ---- "in write order, each at most once": a before b in the reader's callbacks is wrong if b's
\*       write had returned before a's write was called; units of one writer are ordered by uid
OrderF(t, s) ==
    IF \A k \in 1..Len(s) : WSS(t.writes[CU(s[k])]) = WSS(t.writes[CU(s[1])])
    THEN \A k \in 1..(Len(s) - 1) : CU(s[k]) < CU(s[k + 1])
    ELSE \A i \in 1..Len(s) : \A j \in (i + 1)..Len(s) :
            LET a == t.writes[CU(s[i])]  b == t.writes[CU(s[j])] IN
            IF WSS(a) = WSS(b) THEN CU(s[i]) < CU(s[j]) ELSE ~(WE(b) < WS(a))
Order(t, L) ==
    \A f \in Range(L.subs) : OrderF(t, SelectSeq(L.cbs, LAMBDA c : CF(c) = f /\ CU(c) # 0))

\* ---- "after a reader is removed its callbacks never run again"
AfterRemoval(t, L) == \A i \in 1..Len(L.cbs) : CT(L.cbs[i]) < L.re /\ CT(L.cbs[i]) > L.as

\* ---- "Units are skipped only when that reader's queue is full, and each skipped unit is counted"
Sure(t, L) == Cardinality({u \in 1..Len(t.writes) :
                 LET w == t.writes[u] IN
                 WF(w) \in Range(L.subs) /\ WS(w) > L.ae /\ WE(w) < L.rs /\ SurelyCurrent(t, w)})
Poss(t, L) == Cardinality({u \in 1..Len(t.writes) :
                 LET w == t.writes[u] IN
                 WF(w) \in Range(L.subs) /\ WE(w) > L.as /\ WS(w) < L.re /\ PossiblyCurrent(t, w)})
Tagged(L) == Cardinality({i \in 1..Len(L.cbs) : CU(L.cbs[i]) # 0})
\* every unit certainly written while subscribed was delivered, counted, or is one of the at most q
\* units still queued when the reader was removed; nothing is counted that was not written
Counted(t, L) ==
    /\ Tagged(L) + L.disc + t.q >= Sure(t, L)
    /\ ~t.foreign => Tagged(L) + L.disc <= Poss(t, L)
\* a unit can only have been skipped while q others were queued
SkipOnlyWhenFull(t, L) == (~t.foreign /\ L.disc > 0) => L.disc + t.q <= Poss(t, L)

MonOK(t, L, mon) ==
    CASE mon = "OnlyWrittenSubscribed"  -> Only(t, L)
      [] mon = "InOrderOnce"            -> Order(t, L)
      [] mon = "NoCallbackAfterRemoval" -> AfterRemoval(t, L)
      [] mon = "Counted"                -> Counted(t, L)
      [] mon = "SkipOnlyWhenFull"       -> SkipOnlyWhenFull(t, L)
Monitors == {"OnlyWrittenSubscribed", "InOrderOnce", "NoCallbackAfterRemoval", "Counted", "SkipOnlyWhenFull"}

RoundVerdict(t, ln) ==
    \A k \in 1..Len(t.lives) : \A mon \in Monitors :
        Monitor(MonOK(t, t.lives[k], mon),
                [l |-> ln, run |-> t.run, life |-> t.lives[k].id, monitor |-> mon])

Verdicts == l >= 1 => RoundVerdict(Trace[l], l)
Accepted == TLCGet("stats").diameter - 1 = Len(Trace)
=============================================================================
