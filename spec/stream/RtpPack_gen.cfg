SPECIFICATION Spec
INVARIANT EmitCases
CHECK_DEADLOCK FALSE
