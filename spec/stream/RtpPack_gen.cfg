SPECIFICATION Spec
CONSTANT Ms = {200, 1440, 1460}
INVARIANTS EmitCases EmitPersist
CHECK_DEADLOCK FALSE
