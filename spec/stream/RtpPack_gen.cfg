SPECIFICATION Spec
CONSTANT Ms = {200, 1440, 1460}
INVARIANT EmitCases
CHECK_DEADLOCK FALSE
