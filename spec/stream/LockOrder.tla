------------------------------ MODULE LockOrder ------------------------------
(* C40, design-level statement for internal/stream's two locks: Stream.mutex (M) and Stream.outDescMutex (D),
   both sync.RWMutex (a waiting Lock blocks new RLocks).

     writer   SubStream.WriteUnit of a unit that changes the parameter sets:   M.RLock ; D.Lock ; D.Unlock ; M.RUnlock
     rtsp     Stream.RTSPStream / RTSPSStream (an RTSP reader's DESCRIBE/SETUP): M.Lock ; M.Unlock
     copy     Stream.OutDescCopy:                                               D.RLock ; D.RUnlock

   Every site takes M before D.  Named deviation RTSPTakesOutDescFirst (FALSE = the code): rtsp takes D.RLock
   BEFORE M.Lock.  The statement "every operation completes" = no deadlock: TLC's deadlock check must pass for the
   code and must find a deadlock for the deviation.                                                            *)
EXTENDS Naturals, FiniteSets

CONSTANT RTSPTakesOutDescFirst

Procs == {"writer", "rtsp", "copy"}
Locks == {"M", "D"}

\* the lock operations of a process, in order: <<lock, "R" | "W">> acquisitions, released in reverse at the end
Plan(p) == CASE p = "writer" -> << <<"M", "R">>, <<"D", "W">> >>
             [] p = "rtsp"   -> IF RTSPTakesOutDescFirst THEN << <<"D", "R">>, <<"M", "W">> >> ELSE << <<"M", "W">> >>
             [] p = "copy"   -> << <<"D", "R">> >>

VARIABLES pc,        \* pc[p] = number of acquisitions done; Len+1 = released everything
          rd,        \* rd[l] = processes holding l for reading
          wr,        \* wr[l] = process holding l for writing, or ""
          waitW      \* waitW[l] = processes that have called Lock on l and wait
vars == <<pc, rd, wr, waitW>>

Len(s) == Cardinality(DOMAIN s)
Init == pc = [p \in Procs |-> 0] /\ rd = [l \in Locks |-> {}] /\ wr = [l \in Locks |-> ""] /\ waitW = [l \in Locks |-> {}]

\* calling Lock registers the caller as a waiting writer at once
Announce(p) ==
    /\ pc[p] < Len(Plan(p))
    /\ LET a == Plan(p)[pc[p] + 1] IN
         /\ a[2] = "W" /\ p \notin waitW[a[1]]
         /\ waitW' = [waitW EXCEPT ![a[1]] = @ \cup {p}]
    /\ UNCHANGED <<pc, rd, wr>>
Acquire(p) ==
    /\ pc[p] < Len(Plan(p))
    /\ LET a == Plan(p)[pc[p] + 1] IN
         IF a[2] = "R"
         THEN /\ wr[a[1]] = "" /\ waitW[a[1]] = {}            \* writer preference
              /\ rd' = [rd EXCEPT ![a[1]] = @ \cup {p}] /\ UNCHANGED <<wr, waitW>>
         ELSE /\ p \in waitW[a[1]] /\ wr[a[1]] = "" /\ rd[a[1]] = {}
              /\ wr' = [wr EXCEPT ![a[1]] = p] /\ waitW' = [waitW EXCEPT ![a[1]] = @ \ {p}] /\ UNCHANGED rd
    /\ pc' = [pc EXCEPT ![p] = @ + 1]
ReleaseAll(p) ==
    /\ pc[p] = Len(Plan(p))
    /\ rd' = [l \in Locks |-> rd[l] \ {p}] /\ wr' = [l \in Locks |-> IF wr[l] = p THEN "" ELSE wr[l]]
    /\ pc' = [pc EXCEPT ![p] = @ + 1] /\ UNCHANGED waitW
Done == (\A p \in Procs : pc[p] = Len(Plan(p)) + 1) /\ UNCHANGED vars     \* everything completed: not a deadlock

Next == (\E p \in Procs : Announce(p) \/ Acquire(p) \/ ReleaseAll(p)) \/ Done
Spec == Init /\ [][Next]_vars
=============================================================================
