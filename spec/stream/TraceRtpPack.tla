----------------------------- MODULE TraceRtpPack -----------------------------
(* Trace validation for C23. One ndjson record per run of the REAL internal/stream code
   (newRTPEncoder, subStreamFormat.writeUnitInner, newRTPDecoder):
     id, codec, branch, m, emits, pel, del, derrs2, units: << [class, generated, err, uniform, pts,
                                      pkts: <<[len, seq, tsoff]>>, psig, dsig] >>
   generated: the server produced the unit's RTP packets itself (otherwise the publisher's packets
   were passed through and the property does not apply). psig / dsig: [length, checksum] of every
   element of the delivered payload / of what the real depacketizer returned for the packets.   *)
(* Records with branch = "persist" are runs over ONE always-available Stream whose format lives
   through several sub-streams (phases: offline filler, publisher, RTP publisher): units = <<>>,
   emits[i].unit is the phase, and only the run-level formulas apply, over everything a reader of
   the format received across the phases.                                                       *)
EXTENDS RtpPack

Trace == ndJsonDeserialize("C23_trace.ndjson")

VARIABLE l
TraceInit == l = 0 /\ codec = "H264" /\ branch = "nonrtp"
TraceNext == l < Len(Trace) /\ l' = l + 1 /\ UNCHANGED <<codec, branch>>
TraceSpec == TraceInit /\ [][TraceNext]_<<l, codec, branch>>

Gen(r) == {k \in DOMAIN r.units : r.units[k].generated}
U(r, k) == [m |-> r.m, uniform |-> r.units[k].uniform, pkts |-> r.units[k].pkts,
            psig |-> r.units[k].psig, dsig |-> r.units[k].dsig, derrs |-> r.units[k].derrs]
\* the run's offset: that of the first generated packet
FirstGen(r) == CHOOSE k \in Gen(r) : \A j \in Gen(r) : k <= j
RunOff(r) == r.units[FirstGen(r)].pkts[1].tsoff

UnitOK(r, k, mon) ==
    CASE mon = "Fits"        -> Fits(U(r, k))
      [] mon = "Consecutive" -> Consecutive(U(r, k))
      [] mon = "Timestamp"   -> TimestampOK(U(r, k), RunOff(r))
      [] mon = "Lossless"    -> Lossless(U(r, k))
      [] mon = "NonEmpty"    -> Len(r.units[k].pkts) >= 1

Monitors == {"Fits", "Consecutive", "Timestamp", "Lossless", "NonEmpty"}

FirstBad(r, mon) ==
    LET B == {k \in Gen(r) : ~UnitOK(r, k, mon)}
    IN IF B = {} THEN 0 ELSE CHOOSE k \in B : \A j \in B : k <= j

\* ---- everything emitted while re-packetization was active (r.emits: one entry per call of
\* writeUnitInner that reached the output: [unit, active, nilp, uniform, pkts])
Act(r) == SelectSeq(r.emits, LAMBDA e : e.active)
RunOK(r, mon) ==
    CASE mon = "Fits"        -> FitsAll(Act(r), r.m)
      [] mon = "Consecutive" -> ConsecutiveAll(Act(r))
      [] mon = "Timestamp"   -> TimestampAll(Act(r))
      [] mon = "Lossless"    -> r.branch # "nonrtp" => LosslessOnce(r.pel, r.del, r.derrs2)
RunMonitors == {"Fits", "Consecutive", "Timestamp", "Lossless"}
\* the first active emission up to which the formula is already false (for the report)
FirstBadEmit(r, mon) ==
    LET a == Act(r)
        Upto(i) == [r EXCEPT !.emits = SubSeq(a, 1, i)]
        B == {i \in 1..Len(a) : ~RunOK(Upto(i), mon)}
    IN IF mon = "Lossless" \/ B = {} THEN 0 ELSE a[CHOOSE i \in B : \A j \in B : i <= j].unit

Verdicts == l >= 1 =>
    /\ \A mon \in Monitors :
          LET fb == FirstBad(Trace[l], mon) IN
          Monitor(fb = 0, [l |-> l, id |-> Trace[l].id, monitor |-> mon, scope |-> "unit", unit |-> fb])
    /\ \A mon \in RunMonitors :
          Monitor(RunOK(Trace[l], mon), [l |-> l, id |-> Trace[l].id, monitor |-> mon, scope |-> "run",
                                         unit |-> FirstBadEmit(Trace[l], mon)])

\* conformance with the code's shape (never a verdict): while re-packetization is active a call
\* whose packet yields no payload emits nothing
NilSilent(r) == \A i \in DOMAIN r.emits : (r.emits[i].active /\ r.emits[i].nilp) => r.emits[i].pkts = <<>>
Drift    == l >= 1 => (NilSilent(Trace[l]) \/ Emit("DRIFT", [l |-> l, id |-> Trace[l].id]))
Accepted == TLCGet("stats").diameter - 1 = Len(Trace)
=============================================================================
