SPECIFICATION TraceSpec
INVARIANTS Verdicts Drift
POSTCONDITION Accepted
CHECK_DEADLOCK FALSE
