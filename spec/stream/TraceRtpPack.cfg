SPECIFICATION TraceSpec
CONSTANT Ms = {200}
INVARIANTS Verdicts Drift
POSTCONDITION Accepted
CHECK_DEADLOCK FALSE
