------------------------------- MODULE RtpPack -------------------------------
(* C23  RTP re-packetization is size-bounded and lossless   (contract level)
   (internal/stream/rtp_encoder.go, rtp_decoder.go, sub_stream_format.go)

   The byte-level packetization is gortsplib's; this module states only the contract between a unit
   that passes through subStreamFormat.writeUnitInner and the RTP packets the server generates for it:

     Fits         every packet payload is at most the configured maximum M
     Consecutive  the packets of a unit have consecutive sequence numbers (mod 2^16)
     Timestamp    the packets carry (unit timestamp + one offset that is fixed for the format)
     Lossless     depacketizing the packets yields the payload of the delivered unit

   TLC enumerates codec x entry branch x M x sequence of payload-size classes (sizes relative to M);
   each case is a RUN: a fresh stream of one format through which the units are written in order,
   so that "one fixed offset per format" is judged across units.  For RTP publishers the runs also
   contain, after the packet that switches the format to re-packetization, frames that arrive in
   several RTP packets (oversized or small fragments) and packets that yield no payload; the same
   four formulas are then evaluated over EVERYTHING the format emits while re-packetization is
   active (FitsAll, ConsecutiveAll, TimestampAll, LosslessOnce), not only over delivered units.

   Timestamp, for codecs whose unit is one frame, covers every packet.  For sample-based audio
   (G711, LPCM) and for audio units that carry several frames (MPEG-4 audio, Opus, AC-3) RTP requires
   later packets to advance by the samples already sent, so there the formula covers the first packet
   of the unit (the statement's "unit's timestamp") and leaves the others open.               *)
EXTENDS VerifCommon

Codecs == {"H264", "H265", "AV1", "VP8", "VP9", "MPEG4Video", "MPEG4Audio", "Opus", "G711", "LPCM", "KLV", "AC3"}
\* payload made of several elements (NAL units, OBUs, access units, frames)
MultiElem == {"H264", "H265", "AV1", "MPEG4Audio", "Opus", "AC3"}
\* a unit is one frame: all packets share the timestamp
FrameCodecs == {"H264", "H265", "AV1", "VP8", "VP9", "MPEG4Video", "KLV"}
\* codecs for which the harness can produce incoming RTP packets larger than M
OversizeCodecs == {"H264", "H265", "AV1", "VP8", "VP9", "MPEG4Video", "MPEG4Audio", "KLV"}

CONSTANT Ms          \* configured maximum payload sizes, e.g. {200, 1440, 1460}
Branches == {"nonrtp", "remux", "oversize"}
BranchOK(codec, b) == CASE b = "nonrtp" -> TRUE
                        [] b = "remux" -> codec = "H264"          \* packetization-mode 0 forces remuxing
                        [] b = "oversize" -> codec \in OversizeCodecs

\* payload-size classes relative to M: [n elements, each of `size` bytes]
\* "2m": a frame that a publisher fragments into a few packets; "aud": an access unit delimiter alone
\* (H264/H265), which the remuxer strips, so that the publisher's packet yields no payload
Classes == {"half", "m-3", "m-1", "m", "m+1", "m+3", "2m", "3m", "3m+1", "many", "aud"}
\* "many small elements": within what the depacketizer of internal/stream accepts per unit
\* (at most 10 OBUs, 21 NAL units)
ManyN(codec) == IF codec = "AV1" THEN 8 ELSE 20
Shape(codec, c, m) == CASE c = "half" -> [n |-> 1, size |-> m \div 2]
                 [] c = "m-3"  -> [n |-> 1, size |-> m - 3]
                 [] c = "m-1"  -> [n |-> 1, size |-> m - 1]
                 [] c = "m"    -> [n |-> 1, size |-> m]
                 [] c = "m+1"  -> [n |-> 1, size |-> m + 1]
                 [] c = "m+3"  -> [n |-> 1, size |-> m + 3]
                 [] c = "2m"   -> [n |-> 1, size |-> 2 * m - 20]
                 [] c = "aud"  -> [n |-> 1, size |-> 3]
                 [] c = "3m"   -> [n |-> 1, size |-> 3 * m]
                 [] c = "3m+1" -> [n |-> 1, size |-> 3 * m + 1]
                 [] c = "many" -> [n |-> ManyN(codec), size |-> 40]
ClassOK(codec, c) == /\ c = "many" => codec \in MultiElem
                     /\ c = "aud" => FALSE          \* only in the publisher sequences below

\* How an RTP publisher packetizes a frame: "big" = its maximum is above M (oversized packets, one
\* packet per NAL unit for the forced remux), "small" = its maximum is below M, so that a frame
\* larger than that arrives as several RTP packets none of which is oversized.
PubMax(b, mode, m) == IF mode = "small" THEN m - 50
                      ELSE IF b = "remux" THEN 3 * m + 600 ELSE m + 300
CM(c, mode) == [class |-> c, mode |-> mode]
Big(cs) == [i \in 1..Len(cs) |-> CM(cs[i], "big")]
\* after the packet that activates re-packetization: frames that span several incoming packets
\* (oversized fragments, small fragments) and packets that decode to no payload
PublisherSeqs(cd) ==
    { <<CM("m+1", "big"), CM("3m", "big"), CM("half", "big")>>,
      <<CM("m+1", "big"), CM("2m", "small"), CM("half", "small")>>,
      <<CM("m+1", "big"), CM("3m", "small"), CM("half", "small"), CM("2m", "small"), CM("m", "big")>>,
      <<CM("3m", "big"), CM("3m", "small")>> }
    \cup (IF cd \in {"H264", "H265"}
          THEN { <<CM("m+1", "big"), CM("aud", "small"), CM("half", "small")>>,
                 <<CM("3m", "big"), CM("aud", "big"), CM("2m", "small"), CM("aud", "small")>> }
          ELSE {})

AllInOrder == <<"half", "m-3", "m-1", "m", "m+1", "m+3", "3m", "3m+1", "many">>
Sequences(codec) ==
    {SelectSeq(AllInOrder, LAMBDA c : ClassOK(codec, c))}
    \cup {<<c>> : c \in {x \in Classes : ClassOK(codec, x)}}
    \cup {<<"3m", "half">>, <<"m+1", "m">>}

\* ---- persistent streams: a format that lives through several sub-streams.  An always-available
\* stream keeps its formats (and their RTP encoders) while the source changes: the offline filler,
\* a publisher, the filler again, another publisher.  "One fixed offset per format" and the
\* continuity of sequence numbers are then statements about the whole life of the format.
\* (Whether the offset may change when the format itself is re-created because the tracks changed
\* is left open: the tracks never change in these runs.)
PersistCodecs == {"H264", "H265", "AV1", "VP9", "Opus", "MPEG4Audio", "G711", "LPCM"}
Offline == [kind |-> "offline", rtp |-> FALSE, cms |-> <<>>]
Pub(rtp, cms) == [kind |-> "pub", rtp |-> rtp, cms |-> cms]
\* what the publishers send: video frames around and above M (the RTP publisher also in fragments),
\* audio frames up to M
PubUnits(cd, rtp) ==
    IF cd \in {"H264", "H265", "AV1", "VP9"}
    THEN IF rtp THEN <<CM("m+1", "big"), CM("2m", "small"), CM("half", "small")>>
                ELSE <<CM("half", "big"), CM("m+1", "big"), CM("3m", "big")>>
    ELSE <<CM("half", "big"), CM("m-3", "big"), CM("m", "big")>>
PhaseSeqs(cd) ==
    { <<Offline, Pub(FALSE, PubUnits(cd, FALSE)), Offline, Pub(TRUE, PubUnits(cd, TRUE))>>,
      <<Offline, Pub(TRUE, PubUnits(cd, TRUE)), Pub(FALSE, PubUnits(cd, FALSE)), Offline>> }

\* ------------------------------------------------------------------ layer 2, over an observed unit
\* u = [m, uniform, pkts: <<[len, seq, tsoff]>>, psig, dsig, derrs]
Fits(u)        == \A i \in DOMAIN u.pkts : u.pkts[i].len <= u.m
Consecutive(u) == \A i \in 1..(Len(u.pkts) - 1) : u.pkts[i + 1].seq = (u.pkts[i].seq + 1) % 65536
\* tsoff = (packet timestamp - unit timestamp) mod 2^32, as a decimal string; off: the run's offset
TimestampOK(u, off) ==
    /\ Len(u.pkts) >= 1 => u.pkts[1].tsoff = off
    /\ u.uniform => \A i \in DOMAIN u.pkts : u.pkts[i].tsoff = off
Lossless(u)    == u.dsig = u.psig /\ u.derrs = <<>>

\* ------------------------------------------------------------------ layer 2, over everything emitted in a run
\* While the server generates the packets of a format (non-RTP publisher; after the forced remux or
\* an oversized packet switched an RTP publisher to re-packetization) EVERY packet it emits for the
\* format is a generated one, whatever call of writeUnitInner it leaves with.  es: the emissions of
\* the run made while re-packetization was active, in order, e = [pkts, uniform].
AllPkts(es)       == Flatten([i \in 1..Len(es) |-> es[i].pkts])
FitsAll(es, m)    == \A i \in DOMAIN es : \A j \in DOMAIN es[i].pkts : es[i].pkts[j].len <= m
ConsecutiveAll(es) ==
    LET ps == AllPkts(es) IN \A i \in 1..(Len(ps) - 1) : ps[i + 1].seq = (ps[i].seq + 1) % 65536
TimestampAll(es) ==
    LET ps == AllPkts(es) IN
    ps # <<>> => \A i \in DOMAIN es : TimestampOK([pkts |-> es[i].pkts, uniform |-> es[i].uniform], ps[1].tsoff)
\* depacketizing the emitted packets as one stream yields the delivered payloads, each exactly once
\* (pel / del: the elements of the delivered payloads / of what the depacketizer returned, in order)
LosslessOnce(pel, del, derrs) == del = pel /\ derrs = <<>>

\* ------------------------------------------------------------------ generator: one state per (codec, branch)
VARIABLES codec, branch
Init == codec \in Codecs /\ branch \in {b \in Branches : BranchOK(codec, b)}
Next == UNCHANGED <<codec, branch>>
Spec == Init /\ [][Next]_<<codec, branch>>

UnitsOf(cms, m) ==
    [i \in 1..Len(cms) |-> [class |-> cms[i].class, n |-> Shape(codec, cms[i].class, m).n,
                            size |-> Shape(codec, cms[i].class, m).size,
                            pub |-> PubMax(branch, cms[i].mode, m)]]
\* persistent-stream runs are emitted once per codec (by the state of the non-RTP branch)
EmitPersist ==
    (branch = "nonrtp" /\ codec \in PersistCodecs) =>
        \A m \in Ms : \A ps \in PhaseSeqs(codec) :
            Emit("PCASE", [codec |-> codec, branch |-> "persist", m |-> m,
                           phases |-> [i \in 1..Len(ps) |-> [kind |-> ps[i].kind, rtp |-> ps[i].rtp,
                                                              units |-> UnitsOf(ps[i].cms, m)]]])
EmitCases ==
    \A m \in Ms :
        /\ \A cs \in Sequences(codec) :
              Emit("CASE", [codec |-> codec, branch |-> branch, m |-> m, units |-> UnitsOf(Big(cs), m)])
        /\ branch # "nonrtp" =>
              \A cms \in PublisherSeqs(codec) :
                  Emit("CASE", [codec |-> codec, branch |-> branch, m |-> m, units |-> UnitsOf(cms, m)])
=============================================================================
