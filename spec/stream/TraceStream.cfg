SPECIFICATION TraceSpec
CONSTANTS
  Formats = {"f1","f2"}
  Readers = {"r1","r2"}
  SubChoices = {{"f1"},{"f2"},{"f1","f2"}}
  NSS = 2
  QS = {1}
  MaxWrites = 1000
  MaxStale = 1000
  Eager = TRUE
  Kinds = {"frame","frag","key","aud"}
  FragFormats = {"f1","f2"}
  DevCountFramesOnly = FALSE
  DevSharedScratch = FALSE
INVARIANTS Verdicts Drift
POSTCONDITION Accepted
CHECK_DEADLOCK FALSE
