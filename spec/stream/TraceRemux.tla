----------------------------- MODULE TraceRemux -----------------------------
(* Trace validation for C22.  One ndjson record per TLC-generated case replayed on the REAL code,
   once by calling the format updater / unit remuxer functions directly (via = "direct") and once end to end
   through Stream / SubStream.WriteUnit with a reader and OutDescCopy (via = "e2e"):

     id, codec, init, aus, via,
     delivered: << BOOLEAN >>        unit k reached the reader (direct: always TRUE)
     outs:  << << [t, k, p] >> >>    the delivered payload of unit k, NAL by NAL, decoded to instances
                                     (t = "?" for bytes that are no token of the case)
     descs: << [vps, sps, pps, cfg] >>   what the (published) description reports after unit k:
                                     "none" / "a" / "b" / "?" ; cfg = MPEG-4 configuration, decoded

   Verdicts: layer 2 of Remux.tla on every delivered unit.  Drift: equality with layer 1.        *)
EXTENDS Remux

Trace == ndJsonDeserialize("C22_trace.ndjson")

VARIABLE l
TraceInit == l = 0 /\ codec = "av1" /\ init = "none" /\ aus = <<>>
TraceNext == l < Len(Trace) /\ l' = l + 1 /\ UNCHANGED vars
TraceSpec == TraceInit /\ [][TraceNext]_<<l, vars>>

RECURSIVE Judge(_, _, _, _)
\* the set of (unit number, clause) pairs on which the statement is false
Judge(t, s2, k, acc) ==
    IF k > Len(t.aus) THEN acc
    ELSE LET au == t.aus[k]
             bad == IF ~t.delivered[k] THEN {}
                    ELSE (IF L2OutOK(t.codec, s2, au, k, t.outs[k]) THEN {} ELSE {<<k, "delivered unit">>})
                         \cup (IF L2DescOK(t.codec, s2, au, t.descs[k]) THEN {} ELSE {<<k, "published description">>})
         IN Judge(t, L2Step(t.codec, s2, au), k + 1, acc \cup bad)

RECURSIVE Conforms(_, _, _)
Conforms(t, s1, k) ==
    IF k > Len(t.aus) THEN TRUE
    ELSE LET r == L1Step(t.codec, s1, t.aus[k], k)
         IN /\ t.delivered[k] => t.outs[k] = r.out
            /\ (t.codec \in {"h264", "h265"} => \A i \in 1..Len(Kinds(t.codec)) :
                                                   t.descs[k][Kinds(t.codec)[i]] = r.desc[Kinds(t.codec)[i]])
            /\ (t.codec = "mpeg4" => t.descs[k].cfg = r.desc)
            /\ Conforms(t, r.s, k + 1)

\* context for the report: the statement-level state before unit k
RECURSIVE StateBefore(_, _, _, _)
StateBefore(t, s2, j, k) == IF j = k THEN s2 ELSE StateBefore(t, L2Step(t.codec, s2, t.aus[j]), j + 1, k)
\* a shape worth naming in reports: a unit that carries two parameter sets of one kind with different values
MultiValued(c, au) ==
    c \in {"h264", "h265"} /\ \E p, q \in 1..Len(au) :
        /\ p < q /\ au[p] \in ParamTokens /\ au[q] \in ParamTokens
        /\ Kind(au[p]) = Kind(au[q]) /\ Kind(au[p]) \in Range(Kinds(c)) /\ Val(au[p]) # Val(au[q])
MultiValuedUpTo(t, k) == \E j \in 1..k : MultiValued(t.codec, t.aus[j])
\* MPEG-4: an earlier frame began with a configuration that was followed by other chunks before its first GOV
ConfigRunHasMedia(t, k) ==
    t.codec = "mpeg4" /\ \E j \in 1..(k - 1) :
        LET fr == t.aus[j] IN Len(fr) >= 3 /\ fr[1] \in ConfigTokens /\ FirstGOVFrom2(fr) > 2

Verdict(t, ln) ==
    LET bad == Judge(t, L2Init(t.codec, t.init), 1, {})
    IN \A b \in bad :
         LET before == StateBefore(t, L2Init(t.codec, t.init), 1, b[1]) IN
         Emit("BAD", [l |-> ln, id |-> t.id, via |-> t.via, unit |-> b[1], clause |-> b[2],
                      before |-> IF t.codec = "mpeg4" THEN [cfg |-> before] ELSE before,
                      pattern |-> IF MultiValuedUpTo(t, b[1])
                                  THEN "unit-with-two-values-of-one-parameter-set"
                                  ELSE IF ConfigRunHasMedia(t, b[1])
                                  THEN "config-run-of-earlier-frame-contains-media"
                                  ELSE "other"])
Verdicts == l >= 1 => Verdict(Trace[l], l)
Drift    == l >= 1 => (Conforms(Trace[l], L1Init(Trace[l].codec, Trace[l].init), 1)
                       \/ Emit("DRIFT", [l |-> l, id |-> Trace[l].id, via |-> Trace[l].via]))
Accepted == TLCGet("stats").diameter - 1 = Len(Trace)
=============================================================================
