---------------------------- MODULE RemuxPhases ----------------------------
(* C22 on persistent (always-available) streams: the stream's own offline filler, publisher A, the filler
   again, publisher B.  Every combination of the publishers' description parameter sets (none / a / b) and
   of a small repertoire of unit lists is a case; layer 1 (with subStreamFormat.initialize2 as coded) is
   compared with the statement per phase, and the cases are replayed on a real always-available Stream
   (harness TestVerif_C22_Phases), whose observations TraceRemuxPhases.tla judges.                       *)
EXTENDS Remux

CONSTANTS Repertoire      \* which unit lists publishers use: subset of 1..4

VARIABLES pcodec, phases
pvars == <<pcodec, phases>>

AllP(c, v) == IF c = "h265" THEN <<"VPS_" \o v, "SPS_" \o v, "PPS_" \o v>> ELSE <<"SPS_" \o v, "PPS_" \o v>>
UnitList(c, n) ==
    CASE n = 1 -> << <<"IDR">> >>                                  \* a key frame, no in-band sets
      [] n = 2 -> << AllP(c, "b"), <<"IDR">> >>                    \* complete in-band sets, then a key frame
      [] n = 3 -> << <<"SPS_b", "IDR">> >>                         \* one in-band set together with the key frame
      [] n = 4 -> << <<"nonIDR">>, <<"AUD", "IDR">> >>

Offline == [kind |-> "offline", desc |-> "o", aus |-> <<>>]
Pub(c, d, n) == [kind |-> "pub", desc |-> d, aus |-> UnitList(c, n)]

PInit == /\ pcodec \in (Codecs \cap {"h264", "h265"}) /\ phases = <<Offline>>
         /\ codec = "av1" /\ init = "none" /\ aus = <<>>           \* Remux.tla's own variables are not used here
PNext == /\ Len(phases) < 4
         /\ IF phases[Len(phases)].kind = "offline"
            THEN \E d \in {"none", "a", "b"}, n \in Repertoire : phases' = Append(phases, Pub(pcodec, d, n))
            ELSE phases' = Append(phases, Offline)
         /\ UNCHANGED <<pcodec, vars>>
PSpec == PInit /\ [][PNext]_<<pvars, vars>>

\* unit numbers run over the whole case
RECURSIVE UnitsBefore(_, _)
UnitsBefore(phs, i) == IF i <= 1 THEN 0 ELSE UnitsBefore(phs, i - 1) + Len(phs[i - 1].aus)

\* layer 1 |= layer 2, phase by phase (reported, not fatal; the real code is judged by TraceRemuxPhases)
RECURSIVE AgreeUnits(_, _, _, _, _, _)
AgreeUnits(c, s1, s2, as, j, base) ==
    IF j > Len(as) THEN [ok |-> TRUE, s1 |-> s1, s2 |-> s2]
    ELSE LET r == L1Step(c, s1, as[j], base + j)
         IN IF L2OutOK(c, s2, as[j], base + j, r.out) /\ L2DescOK(c, s2, as[j], r.desc)
            THEN AgreeUnits(c, r.s, L2Step(c, s2, as[j]), as, j + 1, base)
            ELSE [ok |-> FALSE, s1 |-> s1, s2 |-> s2]
RECURSIVE AgreePhases(_, _, _, _, _)
AgreePhases(c, s1, s2, phs, i) ==
    IF i > Len(phs) THEN TRUE
    ELSE LET a1 == L1PhaseStart(c, s1, phs[i], i = 1)
             a2 == L2PhaseStart(c, s2, phs[i])
         IN IF phs[i].kind = "offline"
            \* the filler's key frames get layer 1's current sets: acceptable iff they are the statement's
            THEN /\ AcceptFiller(c, a2, PSNals(c, a1) \o <<Inst("IDR", 0, 0)>>)
                 /\ AgreePhases(c, a1, a2, phs, i + 1)
            ELSE LET r == AgreeUnits(c, a1, a2, phs[i].aus, 1, UnitsBefore(phs, i))
                 IN r.ok /\ AgreePhases(c, r.s1, r.s2, phs, i + 1)

PCase == [codec |-> pcodec, phases |-> phases]
PDesignAgrees == AgreePhases(pcodec, OfflinePS(pcodec), OfflinePS(pcodec), phases, 1) \/ Emit("PDESIGN", PCase)
PEmitCases == Len(phases) >= 3 => Emit("PCASE", PCase)
=============================================================================
