\* lib/stalewriter.py: layer 1 (both deviations FALSE) must satisfy PropNoStale; each named deviation must violate it
SPECIFICATION Spec
CONSTANTS
  CheckOutsideLock = FALSE
  InitUnderReadLock = TRUE
  Modes = {"plain", "holder", "stall"}
INVARIANTS TypeOK Settled PropNoStale
CHECK_DEADLOCK FALSE
