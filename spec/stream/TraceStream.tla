---------------------------- MODULE TraceStream ----------------------------
(* Trace validation for C17 (deterministic replay).  One ndjson record per run of the REAL
   Stream / SubStream / Reader driven step by step inside a synctest bubble (after every step
   the harness waits until every goroutine is durably blocked, so the observations are exact):

     run, q (WriteQueueSize), aa (always-available stream), src,
     rtp (the publisher writes RTP packets: UseRTPPackets; a unit is then identified by the bytes of its packet),
     steps: << [a, ss, f, r, S, k,       the action the harness performed (Stream.tla vocabulary; k = "frame" /
                                         "frag": the packet completes a frame / does not, i.e. the unit has no payload)
                skipped,                 the harness could not perform it (e.g. no callback to finish)
                cur,                     Write: ss was the sub-stream initialised last (the current publisher)
                pay,                     Write: the content written (payload bytes; NAL lists as len,bytes,len,bytes...)
                rpay,                    Write: the content of the unit right after WriteUnit returned (= after remuxing; deep copy)
                cbs: << [r, f, pay, w] >>,  callbacks that BEGAN during this step: reader, the format the callback was
                                         registered for, the content it was given (deep copy at entry), and w = the number of
                                         the Write step whose unit object it is (by pointer; 0 = not a unit the harness wrote)
                rels: << [r, w, pay] >>, callbacks that were RELEASED in this step (they had been blocked at the harness gate
                                         while further units were written): the content of the unit at that moment
                disc: [r |-> n],         Reader.OutboundFramesDiscarded() after the step (-1: reader not added yet)
                incb: [r |-> BOOLEAN],   a callback of r is in progress after the step
                ret:  [r |-> BOOLEAN]]   Stream.RemoveReader(r) has returned
             >>

   Verdicts: the statement's formulas of Stream.tla (layer 2) evaluated on this history.
   Drift:    whether the run is the behaviour layer 1 predicts (never a verdict).            *)
EXTENDS Stream

Trace == ndJsonDeserialize("C17_trace.ndjson")

VARIABLE l
TraceInit == l = 0 /\ st = Init0(1)
TraceNext == l < Len(Trace) /\ l' = l + 1 /\ UNCHANGED st
TraceSpec == TraceInit /\ [][TraceNext]_<<l, st>>

\* ------------------------------------------------------------------ the observed history
N(t) == Len(t.steps)
IsCurWrite(x) == x.a = "Write" /\ ~x.skipped /\ x.cur
\* payloads written to f by the current publisher in steps 1..k, in write order
WrittenTo(t, f, k) ==
    LET idx == SelectSeq([j \in 1..k |-> j], LAMBDA j : IsCurWrite(t.steps[j]) /\ t.steps[j].f = f)
    IN [i \in 1..Len(idx) |-> t.steps[idx[i]].rpay]
NWritten(t, k) == [f \in Formats |-> Len(WrittenTo(t, f, k))]
\* position of a payload among the units written to f (0: it is not one of them)
NumberOf(w, pay) == IF \E i \in 1..Len(w) : w[i] = pay THEN CHOOSE i \in 1..Len(w) : w[i] = pay ELSE 0
UnitOf(t, cb) == LET n == NumberOf(WrittenTo(t, cb.f, N(t)), cb.pay) IN [f |-> cb.f, n |-> n, ok |-> n # 0]
CbsOf(t, r, k) == SelectSeq(Flatten([j \in 1..k |-> t.steps[j].cbs]), LAMBDA c : c.r = r)
Delivered(t, r, k) == LET c == CbsOf(t, r, k) IN [i \in 1..Len(c) |-> UnitOf(t, c[i])]

StepsOf(t, name, r) == {j \in 1..N(t) : t.steps[j].a = name /\ t.steps[j].r = r /\ ~t.steps[j].skipped}
FirstOr(S, d) == IF S = {} THEN d ELSE CHOOSE j \in S : \A i \in S : j <= i
AddStep(t, r) == FirstOr(StepsOf(t, "AddReader", r), N(t) + 1)
RemStep(t, r) == FirstOr(StepsOf(t, "RemoveBegin", r), N(t) + 1)
ErrStep(t, r) == FirstOr(StepsOf(t, "CallbackError", r), N(t) + 1)
SubsOf(t, r)  == IF AddStep(t, r) <= N(t) THEN Range(t.steps[AddStep(t, r)].S) ELSE {}
\* units written (current publisher, subscribed format) while r was subscribed, up to step k
NW(t, r, k) == Cardinality({j \in 1..k : /\ IsCurWrite(t.steps[j]) /\ t.steps[j].f \in SubsOf(t, r)
                                         /\ AddStep(t, r) < j /\ j < RemStep(t, r)})
ND(t, r, k) == Len(CbsOf(t, r, k))
C(t, r, k)  == IF k = 0 THEN 0 ELSE Max(0, t.steps[k].disc[r])
Occ(t, r, k) == NW(t, r, k) - ND(t, r, k) - C(t, r, k)

\* ------------------------------------------------------------------ verdicts (layer 2 of Stream.tla)
MonOK(t, mon) ==
    CASE mon = "OnlyWrittenSubscribed" ->
           \A r \in Readers : OnlyWrittenSubscribed(NWritten(t, N(t)), Delivered(t, r, N(t)), SubsOf(t, r))
      [] mon = "UnmodifiedAfterRemux" ->      \* got = deep copy when the reader had it, written = deep copy at write time
           LET got(x) == [got |-> x.pay, written |-> IF x.w \in 1..N(t) THEN t.steps[x.w].rpay ELSE x.pay]
               all == Flatten([j \in 1..N(t) |-> SelectSeq(t.steps[j].cbs, LAMBDA c : c.w # 0) \o t.steps[j].rels])
           IN Unmodified([k \in 1..Len(all) |-> got(all[k])])
      [] mon = "InOrderOnce" ->
           \A r \in Readers : InOrderOnce(Delivered(t, r, N(t)))
      [] mon = "Accounted" ->
           \A r \in Readers : \A k \in AddStep(t, r)..N(t) :
               Accounted(NW(t, r, k), ND(t, r, k), C(t, r, k), t.q)
      [] mon = "SkipOnlyWhenFull" ->
           \A r \in Readers : \A k \in (AddStep(t, r) + 1)..N(t) :
               SkipOnlyWhenFull(Occ(t, r, k - 1), C(t, r, k - 1), C(t, r, k), t.q)
      [] mon = "AllReceived" ->        \* subscribed, never failed, no callback in progress, system at rest
           \A r \in Readers : \A k \in AddStep(t, r)..N(t) :
               (k < RemStep(t, r) /\ k < ErrStep(t, r) /\ ~t.steps[k].incb[r])
                   => AllReceived(NW(t, r, k), ND(t, r, k), C(t, r, k))
      [] mon = "NoCallbackAfterRemoval" ->
           \A r \in Readers : \A k \in 1..N(t) :
               t.steps[k].ret[r] => \A j \in (k + 1)..N(t) : \A i \in 1..Len(t.steps[j].cbs) : t.steps[j].cbs[i].r # r

Monitors == {"OnlyWrittenSubscribed", "UnmodifiedAfterRemux", "InOrderOnce", "Accounted", "SkipOnlyWhenFull", "AllReceived",
             "NoCallbackAfterRemoval"}

RunVerdict(t, ln) ==
    \A mon \in Monitors : Monitor(MonOK(t, mon), [l |-> ln, run |-> t.run, monitor |-> mon])

\* ------------------------------------------------------------------ conformance with layer 1 (never a verdict)
ActOf(x) == A(x.a, x.ss, x.f, x.r, Range(x.S), x.k)
\* what layer 1 says an observer sees of the step s -> n
PredCbs(s, n)  == {[r |-> r, f |-> n.held[r].f, n |-> n.held[r].n] : r \in {r \in Readers : Began(s, n, r)}}
ObsCbs(t, k)   == {[r |-> t.steps[k].cbs[i].r, f |-> t.steps[k].cbs[i].f, n |-> UnitOf(t, t.steps[k].cbs[i]).n] :
                      i \in 1..Len(t.steps[k].cbs)}
ObsDrop(t, k)  == {r \in Readers : C(t, r, k) # C(t, r, k - 1)}
ObsRet(t, k)   == {r \in Readers : t.steps[k].ret[r]}
ObsInCb(t, k)  == {r \in Readers : t.steps[k].incb[r]}

RECURSIVE ConformsFrom(_, _, _)
ConformsFrom(t, s, k) ==
    IF k > N(t) THEN TRUE
    ELSE LET x == t.steps[k] IN
         IF x.a = "Drain"       \* the harness lets every pending callback finish (not a model action): stop here
         THEN TRUE
         ELSE /\ ~x.skipped
              /\ Guard(s, ActOf(x))
              /\ LET n == Apply(s, ActOf(x)) IN
                   /\ PredCbs(s, n) = ObsCbs(t, k)
                   /\ Len(x.cbs) = Cardinality(ObsCbs(t, k))
                   /\ n.ev.drop = ObsDrop(t, k)
                   /\ {r \in Readers : n.held[r] # NoUnit} = ObsInCb(t, k)
                   \* RemoveReader returns as soon as the goroutine is gone: closed and nothing held
                   /\ {r \in Readers : n.phase[r] \in {"closed", "stopped"} /\ n.held[r] = NoUnit} = ObsRet(t, k)
                   /\ (x.a = "Write" => x.cur = (x.ss = s.cur))
                   /\ ConformsFrom(t, n, k + 1)

Conforms(t) == ConformsFrom(t, Init0(t.q), 1)

Verdicts == l >= 1 => RunVerdict(Trace[l], l)
Drift    == l >= 1 => (Conforms(Trace[l]) \/ Emit("DRIFT", [l |-> l, run |-> Trace[l].run]))
Accepted == TLCGet("stats").diameter - 1 = Len(Trace)
=============================================================================
