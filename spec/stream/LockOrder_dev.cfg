\* the named deviation: TLC must report a deadlock
SPECIFICATION Spec
CONSTANT RTSPTakesOutDescFirst = TRUE
CHECK_DEADLOCK TRUE
