------------------------------- MODULE Remux -------------------------------
(* C22  Remuxing preserves media and injects current parameters at keyframes
   (internal/stream/unit_remuxer.go, format_updater.go, sub_stream_format.go)

   Units are sequences of tokens over a per-codec alphabet:
     h264   SPS_a SPS_b PPS_a PPS_b AUD IDR nonIDR SEI
     h265   VPS_a VPS_b SPS_a SPS_b PPS_a PPS_b AUD IDR CRA nonIDR SEI
     mpeg4  config_a config_b GOV VOP                      (one frame = concatenation of its tokens)
     av1    TD OBU_a OBU_b
   The harness turns every token into bytes with the right type bits; parameter sets "a"/"b" have
   fixed bytes, every other NAL/OBU/chunk gets a payload naming its position, so an output NAL is
   identified as the instance [t, k, p] (token, unit number, position; k = p = 0 for parameter sets
   and configurations, which are identified by value).

   Layer 1 (operators L1...) follows the code: the format updater, then the unit remuxer on the updated format.
   Layer 2 (operators Accept..., Desc...) is the statement; where the statement leaves a choice (does "seen"
   include parameter sets that FOLLOW the key frame inside the same unit? what if only some of the
   parameter sets are known? in which order do they precede?) every reading is accepted.        *)
EXTENDS VerifCommon

CONSTANTS Codecs,     \* subset of {"h264","h265","mpeg4","av1"}
          MaxAUs,     \* units per sequence
          MaxNALs,    \* tokens per unit
          MaxNALs265, \* tokens per unit for h265 (its alphabet is the largest)
          EmitLen,    \* sequences of this length are printed as cases
          DevOfflineRestartKeepsParams,
                      \* named deviation, FALSE = the current code.  TRUE: when the offline sub stream of an always-available
                      \* stream is restarted it does not write its description's parameter sets into the stream, so the
                      \* departed publisher's sets stay current
          DevH265UpdaterComparesStored
                      \* named deviation, FALSE = the current code.  TRUE = the H.265 updater as it was before the
                      \* fix of finding C22-F1: each in-band VPS/SPS/PPS is compared with the value stored in the
                      \* format instead of the value chosen so far in the unit (kept to re-check old trees)

Alphabet(c) ==
    CASE c = "h264"  -> {"SPS_a", "SPS_b", "PPS_a", "PPS_b", "AUD", "IDR", "nonIDR", "SEI"}
      [] c = "h265"  -> {"VPS_a", "VPS_b", "SPS_a", "SPS_b", "PPS_a", "PPS_b", "AUD", "IDR", "CRA", "nonIDR", "SEI"}
      [] c = "mpeg4" -> {"config_a", "config_b", "GOV", "VOP"}
      [] c = "av1"   -> {"TD", "OBU_a", "OBU_b"}

\* parameter set values: a, b (publishers) and o (the sets of an always-available stream's own description,
\* which its built-in offline sub stream feeds; they only occur by value, never in a generated unit)
ParamTokens == {"VPS_a", "VPS_b", "VPS_o", "SPS_a", "SPS_b", "SPS_o", "PPS_a", "PPS_b", "PPS_o"}
Kind(t) == CASE t \in {"VPS_a", "VPS_b", "VPS_o"} -> "vps" [] t \in {"SPS_a", "SPS_b", "SPS_o"} -> "sps"
             [] t \in {"PPS_a", "PPS_b", "PPS_o"} -> "pps"
Val(t)  == CASE t \in {"VPS_a", "SPS_a", "PPS_a", "config_a"} -> "a" [] t \in {"VPS_b", "SPS_b", "PPS_b", "config_b"} -> "b"
             [] t \in {"VPS_o", "SPS_o", "PPS_o"} -> "o"
ParamTok(kind, v) == CASE kind = "vps" -> (CASE v = "a" -> "VPS_a" [] v = "b" -> "VPS_b" [] v = "o" -> "VPS_o")
                       [] kind = "sps" -> (CASE v = "a" -> "SPS_a" [] v = "b" -> "SPS_b" [] v = "o" -> "SPS_o")
                       [] kind = "pps" -> (CASE v = "a" -> "PPS_a" [] v = "b" -> "PPS_b" [] v = "o" -> "PPS_o")
Kinds(c)     == IF c = "h264" THEN <<"sps", "pps">> ELSE <<"vps", "sps", "pps">>
KeyTokens(c) == IF c = "h264" THEN {"IDR"} ELSE {"IDR", "CRA"}
ConfigTokens == {"config_a", "config_b"}

Inst(t, k, p) == [t |-> t, k |-> k, p |-> p]
ByValue(t)    == Inst(t, 0, 0)                \* parameter sets / configurations are identified by value
\* the instances of unit number k, with parameter sets and configurations by value
Insts(au, k) == [p \in 1..Len(au) |-> IF au[p] \in ParamTokens \cup ConfigTokens THEN ByValue(au[p]) ELSE Inst(au[p], k, p)]

NoPS == [vps |-> "none", sps |-> "none", pps |-> "none"]
InitPS(c, init) == IF init = "none" THEN NoPS
                   ELSE [vps |-> IF c = "h265" THEN "a" ELSE "none", sps |-> "a", pps |-> "a"]
PSNals(c, ps) == LET ks == Kinds(c) IN [i \in 1..Len(ks) |-> ByValue(ParamTok(ks[i], ps[ks[i]]))]
AllKnown(c, ps) == \A i \in 1..Len(Kinds(c)) : ps[Kinds(c)[i]] # "none"

\* ------------------------------------------------------------------ layer 1: H.264 / H.265 as coded
RECURSIVE UpdRunning(_, _, _)
UpdRunning(ps, au, p) ==       \* formatUpdaterH264 / formatUpdaterH265: compare with the running value
    IF p > Len(au) THEN ps
    ELSE IF au[p] \in ParamTokens /\ Val(au[p]) # ps[Kind(au[p])]
         THEN UpdRunning([ps EXCEPT ![Kind(au[p])] = Val(au[p])], au, p + 1)
         ELSE UpdRunning(ps, au, p + 1)

RECURSIVE UpdStored(_, _, _, _)
UpdStored(fmt, ps, au, p) ==   \* deviation DevH265UpdaterComparesStored: compare with the value stored in the FORMAT (fmt)
    IF p > Len(au) THEN ps
    ELSE IF au[p] \in ParamTokens /\ Val(au[p]) # fmt[Kind(au[p])]
         THEN UpdStored(fmt, [ps EXCEPT ![Kind(au[p])] = Val(au[p])], au, p + 1)
         ELSE UpdStored(fmt, ps, au, p + 1)

Filtered(c, au, k) ==          \* unitRemuxerH26x: parameter sets and access unit delimiters are dropped
    SelectSeq(Insts(au, k), LAMBDA i : i.t \notin ParamTokens /\ i.t # "AUD")
HasKey(c, au) == \E p \in 1..Len(au) : au[p] \in KeyTokens(c)

L1H26x(c, ps, au, k) ==
    LET ps2 == IF c = "h265" /\ DevH265UpdaterComparesStored THEN UpdStored(ps, ps, au, 1) ELSE UpdRunning(ps, au, 1)
        body == Filtered(c, au, k)
        out == IF HasKey(c, au) /\ AllKnown(c, ps2) THEN PSNals(c, ps2) \o body ELSE body
    IN [s |-> ps2, out |-> out, desc |-> ps2]

\* ------------------------------------------------------------------ layer 1: MPEG-4 Video as coded
\* state: the format's Config as a sequence of instances (it is whatever precedes the first GOV)
FirstGOVFrom2(fr) == IF \E p \in 2..Len(fr) : fr[p] = "GOV" THEN CHOOSE p \in 2..Len(fr) : fr[p] = "GOV" /\ \A q \in 2..(p - 1) : fr[q] # "GOV" ELSE 0
L1MPEG4(cfg, fr, k) ==
    LET ins == Insts(fr, k)
        g   == IF Len(fr) >= 1 /\ fr[1] \in ConfigTokens THEN FirstGOVFrom2(fr) ELSE 0
        cfg2 == IF g # 0 THEN SubSeq(ins, 1, g - 1) ELSE cfg           \* formatUpdaterMPEG4Video
        body == IF g # 0 THEN SubSeq(ins, g, Len(ins)) ELSE ins        \* unitRemuxerMPEG4Video: remove config
        out == IF \E p \in 1..Len(fr) : fr[p] = "GOV" THEN cfg2 \o body ELSE body   \* add config
    IN [s |-> cfg2, out |-> out, desc |-> cfg2]

\* ------------------------------------------------------------------ layer 1: AV1 as coded
L1AV1(tu, k) == [s |-> <<>>, out |-> SelectSeq(Insts(tu, k), LAMBDA i : i.t # "TD"), desc |-> <<>>]

L1Init(c, init) == CASE c \in {"h264", "h265"} -> InitPS(c, init)
                     [] c = "mpeg4" -> IF init = "none" THEN <<>> ELSE <<ByValue("config_a")>>
                     [] c = "av1" -> <<>>
L1Step(c, s, au, k) == CASE c \in {"h264", "h265"} -> L1H26x(c, s, au, k)
                         [] c = "mpeg4" -> L1MPEG4(s, au, k)
                         [] c = "av1" -> L1AV1(au, k)

\* ------------------------------------------------------------------ layer 2: the statement
\* "the most recent parameter sets seen in-band or in the session description"
RECURSIVE MostRecent(_, _, _)
MostRecent(ps, toks, p) ==
    IF p > Len(toks) THEN ps
    ELSE IF toks[p] \in ParamTokens THEN MostRecent([ps EXCEPT ![Kind(toks[p])] = Val(toks[p])], toks, p + 1)
         ELSE MostRecent(ps, toks, p + 1)
FirstKey(c, au) == CHOOSE p \in 1..Len(au) : au[p] \in KeyTokens(c) /\ \A q \in 1..(p - 1) : au[q] \notin KeyTokens(c)
\* "the unit's NAL units without parameter sets and delimiters, in order"
Media(c, au, k) == SelectSeq(Insts(au, k), LAMBDA i : i.t \notin ParamTokens /\ i.t # "AUD")
\* "preceded (when ... parameters are known) by the most recent parameter sets"
NoDup(s) == \A i, j \in 1..Len(s) : i # j => s[i] # s[j]
PrefixOK(c, ps, pre) ==
    LET known == {ByValue(ParamTok(kd, ps[kd])) : kd \in {x \in Range(Kinds(c)) : ps[x] # "none"}}
    IN IF AllKnown(c, ps) THEN Range(pre) = known /\ Len(pre) = Cardinality(known)      \* all of them, any order
       ELSE IF known = {} THEN pre = <<>>
       ELSE Range(pre) \subseteq known /\ NoDup(pre)                                    \* statement silent: none or the known ones
AcceptH26x(c, ps, au, k, out) ==
    LET m == Media(c, au, k) IN
    IF ~HasKey(c, au) THEN out = m
    ELSE /\ Len(out) >= Len(m)
         /\ SubSeq(out, Len(out) - Len(m) + 1, Len(out)) = m
         /\ \E seen \in {MostRecent(ps, au, 1), MostRecent(ps, SubSeq(au, 1, FirstKey(c, au)), 1)} :
               PrefixOK(c, seen, SubSeq(out, 1, Len(out) - Len(m)))
\* "which is also what the published description reports": d = [vps, sps, pps] as reported ("none"/"a"/"b"/other)
DescH26x(c, ps, au, d) ==
    LET want == MostRecent(ps, au, 1) IN \A i \in 1..Len(Kinds(c)) : d[Kinds(c)[i]] = want[Kinds(c)[i]]

\* MPEG-4 Video: "frames get the current configuration before a GOV ... nothing else is altered".
\* state: the SET of configurations that may be called current ("none" = no configuration).  A frame
\* that begins with a configuration immediately followed by a GOV makes it current; other placements
\* of a configuration are not addressed by the statement, so they only widen the set.
NoConfig(s) == SelectSeq(s, LAMBDA i : i.t \notin ConfigTokens)
L2StepMPEG4(cur, fr) ==
    IF Len(fr) >= 2 /\ fr[1] \in ConfigTokens /\ fr[2] = "GOV" THEN {Val(fr[1])}
    ELSE cur \cup {Val(fr[p]) : p \in {q \in 1..Len(fr) : fr[q] \in ConfigTokens}}
AcceptMPEG4(cur, fr, k, out) ==
    LET hasGOV == \E p \in 1..Len(fr) : fr[p] = "GOV"
        may == L2StepMPEG4(cur, fr)          \* what may be called current for this frame
    IN IF ~hasGOV THEN out = Insts(fr, k)                                   \* nothing is altered
       ELSE /\ NoConfig(out) = NoConfig(Insts(fr, k))                       \* the media is untouched
            /\ \A i \in 1..Len(out) : out[i].t \in ConfigTokens \cup {"GOV", "VOP"}
            /\ (Cardinality(may) = 1 /\ may # {"none"}) =>                   \* the configuration is unambiguous:
                  LET g == CHOOSE p \in 1..Len(out) : out[p].t = "GOV" /\ \A q \in 1..(p - 1) : out[q].t # "GOV"
                      x == CHOOSE v \in may : TRUE
                  IN \E q \in 1..(g - 1) : out[q].t \in ConfigTokens /\ Val(out[q].t) = x   \* it comes before the GOV

\* AV1: "temporal delimiters are removed; nothing else is altered"
AcceptAV1(tu, k, out) == out = SelectSeq(Insts(tu, k), LAMBDA i : i.t # "TD")

L2Init(c, init) == CASE c \in {"h264", "h265"} -> InitPS(c, init)
                     [] c = "mpeg4" -> {init}
                     [] c = "av1" -> <<>>
L2Step(c, s, au) == CASE c \in {"h264", "h265"} -> MostRecent(s, au, 1)
                      [] c = "mpeg4" -> L2StepMPEG4(s, au)
                      [] c = "av1" -> s
\* is (out, desc) an acceptable result of writing unit number k = au in state s ?
L2OutOK(c, s, au, k, out) ==
    CASE c \in {"h264", "h265"} -> AcceptH26x(c, s, au, k, out)
      [] c = "mpeg4" -> AcceptMPEG4(s, au, k, out)
      [] c = "av1" -> AcceptAV1(au, k, out)
L2DescOK(c, s, au, d) == c \in {"h264", "h265"} => DescH26x(c, s, au, d)

\* ------------------------------------------------------------------ sub-stream phases of an always-available stream
\* A persistent stream is fed by one sub stream after the other: its built-in offline filler, a publisher, the
\* filler again, another publisher ...  A phase is [kind |-> "offline" | "pub", desc |-> "o" | "none" | "a" | "b"
\* (the parameter sets in the sub stream's description), aus |-> the units a publisher writes].
\* "injects the CURRENT parameters": current = the sets of the description of the sub stream that is feeding,
\* updated by the in-band sets seen in that phase (a description without sets changes nothing).
OfflinePS(c) == [vps |-> IF c = "h265" THEN "o" ELSE "none", sps |-> "o", pps |-> "o"]
DescPS(c, d) == [vps |-> IF c = "h265" THEN d ELSE "none", sps |-> d, pps |-> d]
L2PhaseStart(c, ps, ph) ==
    IF ph.kind = "offline" THEN OfflinePS(c) ELSE IF ph.desc = "none" THEN ps ELSE DescPS(c, ph.desc)
\* as coded: subStreamFormat.initialize2 writes the description's sets as a unit (if it has all of them)
L1PhaseStart(c, ps, ph, first) ==
    IF ph.kind = "offline" /\ ~first /\ DevOfflineRestartKeepsParams THEN ps ELSE L2PhaseStart(c, ps, ph)
\* a unit of the offline filler as delivered (its input is not known to the harness): parameter sets may only
\* stand in front, and in front of a key frame they are the current ones
AcceptFiller(c, ps, f) ==
    LET isP(i) == i.t \in ParamTokens
        n == Cardinality({i \in 1..Len(f) : \A j \in 1..i : isP(f[j])})      \* length of the leading run of parameter sets
        pre == SubSeq(f, 1, n)
        rest == SubSeq(f, n + 1, Len(f))
        key == \E i \in 1..Len(rest) : rest[i].t \in KeyTokens(c)
    IN /\ \A i \in 1..Len(rest) : ~isP(rest[i])
       /\ IF key THEN PrefixOK(c, ps, pre) ELSE pre = <<>>

\* ------------------------------------------------------------------ bounded model: all sequences
VARIABLES codec, init, aus
vars == <<codec, init, aus>>

RECURSIVE SeqsUpTo(_, _)
SeqsUpTo(S, n) == IF n = 0 THEN {<<>>} ELSE LET r == SeqsUpTo(S, n - 1) IN r \cup {Append(s, x) : s \in r, x \in S}
Units(c) == SeqsUpTo(Alphabet(c), IF c = "h265" THEN MaxNALs265 ELSE MaxNALs) \ {<<>>}

Init == codec \in Codecs /\ init \in (IF codec = "av1" THEN {"none"} ELSE {"none", "a"}) /\ aus = <<>>
Next == /\ Len(aus) < MaxAUs
        /\ \E u \in Units(codec) : aus' = Append(aus, u)
        /\ UNCHANGED <<codec, init>>
Spec == Init /\ [][Next]_vars
\* for `-simulate`: one random unit per step (TLC evaluates invariants on every successor it generates,
\* so the sampler must generate exactly one)
SimNext == /\ Len(aus) < MaxAUs
           /\ aus' = Append(aus, RandomElement(Units(codec)))
           /\ UNCHANGED <<codec, init>>
SimSpec == Init /\ [][SimNext]_vars

\* layer 1 |= layer 2 for the whole sequence; a disagreement is reported, not fatal: whether the REAL
\* code violates the statement is decided by TraceRemux on what it actually produced
RECURSIVE Agree(_, _, _, _, _)
Agree(c, s1, s2, as, k) ==
    IF k > Len(as) THEN TRUE
    ELSE LET r == L1Step(c, s1, as[k], k)
         IN /\ L2OutOK(c, s2, as[k], k, r.out)
            /\ L2DescOK(c, s2, as[k], r.desc)
            /\ Agree(c, r.s, L2Step(c, s2, as[k]), as, k + 1)
Case == [codec |-> codec, init |-> init, aus |-> aus]
DesignAgrees == Agree(codec, L1Init(codec, init), L2Init(codec, init), aus, 1) \/ Emit("DESIGN", Case)
EmitCases == Len(aus) = EmitLen => Emit("CASE", Case)
=============================================================================
