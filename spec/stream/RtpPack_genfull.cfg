SPECIFICATION Spec
CONSTANT Ms = {100, 200, 576, 1188, 1440, 1450, 1460}
INVARIANTS EmitCases EmitPersist
CHECK_DEADLOCK FALSE
