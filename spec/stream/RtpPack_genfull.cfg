SPECIFICATION Spec
CONSTANT Ms = {100, 200, 1188, 1440, 1450, 1460, 8000}
INVARIANT EmitCases
CHECK_DEADLOCK FALSE
