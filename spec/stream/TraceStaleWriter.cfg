SPECIFICATION TraceSpec
CONSTANTS
  CheckOutsideLock = FALSE
  InitUnderReadLock = FALSE
  Modes = {"plain"}
INVARIANTS Verdicts Drift
POSTCONDITION Accepted
CHECK_DEADLOCK FALSE
