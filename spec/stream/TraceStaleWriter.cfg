SPECIFICATION TraceSpec
CONSTANTS
  CheckOutsideLock = FALSE
  WithHolder = {TRUE}
INVARIANTS Verdicts Drift
POSTCONDITION Accepted
CHECK_DEADLOCK FALSE
