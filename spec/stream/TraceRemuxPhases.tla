------------------------- MODULE TraceRemuxPhases -------------------------
(* Trace validation for C22 on persistent streams.  One ndjson record per case replayed on a REAL
   always-available Stream (offline filler running in real time, publishers as SubStreams with InDesc):

     id, codec, phases: << [kind, desc, aus] >>,
     obs: << [outs, desc] >>   per phase.  publisher phase: outs[j] = delivered payload of its j-th unit, decoded
                               to instances (unit numbers run over the whole case).  offline phase: outs = the filler
                               units the reader received in that phase up to and including the first key frame,
                               NAL by NAL: parameter sets by value (SPS_o ...), other NALs by type (IDR / CRA / nonIDR / x)
                               (the first phase is not observed: the reader is attached after it began; outs = << >>).
                               desc = [vps, sps, pps] reported by OutDescCopy() at the end of the phase.

   Verdicts: the statement per phase (Remux.tla layer 2 with L2PhaseStart).  Drift: equality with layer 1.    *)
EXTENDS RemuxPhases

Trace == ndJsonDeserialize("C22_phases.ndjson")

VARIABLE l
TraceInit == l = 0 /\ codec = "av1" /\ init = "none" /\ aus = <<>> /\ pcodec = "h264" /\ phases = <<>>
TraceNext == l < Len(Trace) /\ l' = l + 1 /\ UNCHANGED <<vars, pvars>>
TraceSpec == TraceInit /\ [][TraceNext]_<<l, vars, pvars>>

DescIs(c, d, ps) == \A i \in 1..Len(Kinds(c)) : d[Kinds(c)[i]] = ps[Kinds(c)[i]]

\* the set of (phase, unit, clause) triples on which the statement is false
RECURSIVE JudgeUnits(_, _, _, _, _, _, _)
JudgeUnits(t, i, s2, j, base, acc, dummy) ==
    LET as == t.phases[i].aus IN
    IF j > Len(as) THEN [s2 |-> s2, bad |-> acc]
    ELSE LET ok == L2OutOK(t.codec, s2, as[j], base + j, t.obs[i].outs[j])
         IN JudgeUnits(t, i, L2Step(t.codec, s2, as[j]), j + 1, base,
                       IF ok THEN acc ELSE acc \cup {<<i, j, "delivered unit">>}, dummy)
RECURSIVE JudgePhases(_, _, _, _)
JudgePhases(t, s2, i, acc) ==
    IF i > Len(t.phases) THEN acc
    ELSE LET ph == t.phases[i]
             a2 == L2PhaseStart(t.codec, s2, ph)
         IN IF ph.kind = "offline"
            THEN LET badf == {<<i, j, "offline filler unit">> : j \in {k \in 1..Len(t.obs[i].outs) :
                                                                       ~AcceptFiller(t.codec, a2, t.obs[i].outs[k])}}
                     badd == IF DescIs(t.codec, t.obs[i].desc, a2) THEN {} ELSE {<<i, 0, "published description">>}
                 IN JudgePhases(t, a2, i + 1, acc \cup badf \cup badd)
            ELSE LET r == JudgeUnits(t, i, a2, 1, UnitsBefore(t.phases, i), {}, 0)
                     badd == IF DescIs(t.codec, t.obs[i].desc, r.s2) THEN {} ELSE {<<i, 0, "published description">>}
                 IN JudgePhases(t, r.s2, i + 1, acc \cup r.bad \cup badd)

RECURSIVE ConfUnits(_, _, _, _, _)
ConfUnits(t, i, s1, j, base) ==
    LET as == t.phases[i].aus IN
    IF j > Len(as) THEN [ok |-> TRUE, s1 |-> s1]
    ELSE LET r == L1Step(t.codec, s1, as[j], base + j)
         IN IF t.obs[i].outs[j] = r.out THEN ConfUnits(t, i, r.s, j + 1, base) ELSE [ok |-> FALSE, s1 |-> s1]
RECURSIVE ConfPhases(_, _, _)
ConfPhases(t, s1, i) ==
    IF i > Len(t.phases) THEN TRUE
    ELSE LET a1 == L1PhaseStart(t.codec, s1, t.phases[i], i = 1)
         IN IF t.phases[i].kind = "offline"
            THEN DescIs(t.codec, t.obs[i].desc, a1) /\ ConfPhases(t, a1, i + 1)
            ELSE LET r == ConfUnits(t, i, a1, 1, UnitsBefore(t.phases, i))
                 IN r.ok /\ DescIs(t.codec, t.obs[i].desc, r.s1) /\ ConfPhases(t, r.s1, i + 1)

\* what preceded the failing phase, for the report: the previous publisher's description
PrevPub(t, i) == IF \E j \in 1..(i - 1) : t.phases[j].kind = "pub"
                 THEN t.phases[CHOOSE j \in 1..(i - 1) : t.phases[j].kind = "pub" /\ \A k \in (j + 1)..(i - 1) : t.phases[k].kind # "pub"].desc
                 ELSE "-"
Verdict(t, ln) ==
    \A b \in JudgePhases(t, OfflinePS(t.codec), 1, {}) :
        Emit("BAD", [l |-> ln, id |-> t.id, phase |-> b[1], unit |-> b[2], clause |-> b[3],
                     kind |-> t.phases[b[1]].kind, prevpub |-> PrevPub(t, b[1])])
Verdicts == l >= 1 => Verdict(Trace[l], l)
Drift    == l >= 1 => (ConfPhases(Trace[l], OfflinePS(Trace[l].codec), 1) \/ Emit("DRIFT", [l |-> l, id |-> Trace[l].id]))
Accepted == TLCGet("stats").diameter - 1 = Len(Trace)
=============================================================================
