SPECIFICATION TraceSpec
CONSTANTS
  Codecs = {"av1"}
  MaxAUs = 0
  MaxNALs = 0
  MaxNALs265 = 0
  EmitLen = 99
  DevH265UpdaterComparesStored = FALSE
  DevOfflineRestartKeepsParams = FALSE
INVARIANTS Verdicts Drift
POSTCONDITION Accepted
CHECK_DEADLOCK FALSE
