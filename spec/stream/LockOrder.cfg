SPECIFICATION Spec
CONSTANT RTSPTakesOutDescFirst = FALSE
CHECK_DEADLOCK TRUE
