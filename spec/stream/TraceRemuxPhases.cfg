SPECIFICATION TraceSpec
CONSTANTS
  Codecs = {"h264", "h265"}
  MaxAUs = 0
  MaxNALs = 0
  MaxNALs265 = 0
  EmitLen = 99
  DevH265UpdaterComparesStored = FALSE
  DevOfflineRestartKeepsParams = FALSE
  Repertoire = {1}
INVARIANTS Verdicts Drift
POSTCONDITION Accepted
CHECK_DEADLOCK FALSE
