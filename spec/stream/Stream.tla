------------------------------- MODULE Stream -------------------------------
(* C17  Readers get the publisher's units in order; drops are counted
   (internal/stream/stream.go, reader.go, sub_stream.go, sub_stream_format.go and the
    gortsplib ring buffer behind Reader.push / Reader.runInner)

   Layer 1: one action per critical section of the real code.
     Write(ss, f)      SubStream.WriteUnit: under Stream.mutex.RLock -- stale guard
                       (Stream.subStream # ss => return), then for every reader registered in
                       streamFormat.onDatas: Reader.push = RingBuffer.Push, which refuses when the
                       slot at writeIndex is occupied (= q units queued); a refusal increases
                       outboundFramesDiscarded.
     Pull(r)           Reader.runInner: RingBuffer.Pull frees the slot and the closure (hence the
                       OnData callback) starts; the unit is `held` until the callback returns.
     Done(r)           the callback returns nil.
     CallbackError(r)  the callback returns an error: runInner returns, the goroutine never pulls again
                       (the reader stays registered until somebody removes it).
     AddReader(r, S)   Reader.start + registration under Stream.mutex.Lock.
     RemoveBegin(r)    RemoveReader, first half: unregistration under Stream.mutex.Lock.
     RemoveClose(r)    Reader.stop, RingBuffer.Close: pending units are thrown away.
     RemoveEnd(r)      Reader.stop, <-r.err: returns once the goroutine has left runInner
                       (i.e. no callback is in progress).
     Switch            SubStream.Initialize of the next sub-stream (Stream.subStream = ss).

   Eager = TRUE gives the granularity a test harness can drive deterministically: a reader
   goroutine that can pull does so at once, and RemoveBegin;RemoveClose is one step.  Both
   granularities are model checked; the Eager graph is dumped and walked for the replay.

   A unit is [f, n, ok, k]: the n-th unit written to format f by a publisher that was current (ok); k is its
   kind: "frame" (decoded payload present), "key" / "aud" (payloads from which the remuxer strips in-band parameter
   sets / a delimiter and into which it injects the current sets), or "frag" (an RTP packet of a frame that is still incomplete: the
   publisher uses RTP packets and the frame spans several of them, so the unit has no payload).  Both kinds are
   units in the sense of the statement: each goes through every subscribed reader's queue and is delivered or counted.
   Units of publishers that are not current are never queued, so they need no identity.

   Layer 2: the statement's formulas are written over observable histories (sequences of callbacks
   begun, counters); TraceStream.tla evaluates them on recorded runs of the real code.  For model
   checking the histories are kept in the incremental form that makes the same formulas checkable
   step by step without blowing up the state space: last[r][f] (number of the last unit of f given to
   r), owed[r] (written to r's formats while subscribed - delivered - counted - thrown away by Close),
   and the event variable ev (whose discard counter moved in the last step).                       *)
EXTENDS VerifCommon

CONSTANTS Formats,      \* e.g. {"f1","f2"}
          Readers,      \* e.g. {"r1","r2"}
          SubChoices,   \* the subscription sets a reader may choose, e.g. {{"f1"},{"f2"},{"f1","f2"}}
          NSS,          \* number of sub-streams (publishers) that can become current, one after the other
          QS,           \* the values of Stream.WriteQueueSize explored (powers of two); st.q is the one in use
          MaxWrites,    \* writes per format by current publishers
          MaxStale,     \* writes through a sub-stream that is not current (total)
          Eager,
          Kinds,        \* kinds of units a publisher writes: "frame" (carries a decoded payload) and/or "frag" (an RTP
                        \* packet of a frame that is not complete yet: UseRTPPackets publisher, no payload)
          FragFormats,  \* formats on which "frag" units occur (video formats whose frames span several packets)
          DevSharedScratch,
                        \* named deviation, FALSE = the code.  TRUE: the remuxer keeps ONE buffer per format for the
                        \* payload it hands out, so every unit of a format shows the content of the unit written last
          DevCountFramesOnly
                        \* named deviation, FALSE = the code.  TRUE: a unit skipped on a full queue is counted only
                        \* if it carries a payload (kind "frame"); fragments are then dropped silently

VARIABLE st
vars == <<st>>

Phases == {"absent", "sub", "unsub", "closed", "stopped"}
NoUnit == [f |-> "", n |-> 0, ok |-> FALSE, k |-> ""]

Init0(q) ==
         [q     |-> q,
          cur   |-> 1,
          phase |-> [r \in Readers |-> "absent"],
          subs  |-> [r \in Readers |-> {}],
          reg   |-> [f \in Formats |-> {}],
          queue |-> [r \in Readers |-> <<>>],
          held  |-> [r \in Readers |-> NoUnit],
          dead  |-> [r \in Readers |-> FALSE],
          nwr   |-> [f \in Formats |-> 0],      \* units written to f by current publishers
          nst   |-> 0,                          \* units written by publishers that were not current
          last  |-> [r \in Readers |-> [f \in Formats |-> 0]],
          owed  |-> [r \in Readers |-> 0],
          ev    |-> [drop |-> {}, mod |-> {}]]   \* last step: whose counter moved; who was given altered content

\* ------------------------------------------------------------------ layer 1 (pure operators)
CanPull(s, r) == /\ s.phase[r] \in {"sub", "unsub", "closed"}
                 /\ ~s.dead[r] /\ s.held[r] = NoUnit /\ s.queue[r] # <<>>

\* the readers in P pull: the callback starts (a delivery)
PullSet(s, P) ==
    [s EXCEPT !.ev.mod = {r \in P : DevSharedScratch /\ Head(s.queue[r]).n # s.nwr[Head(s.queue[r]).f]},
              !.held  = [r \in Readers |-> IF r \in P THEN Head(s.queue[r]) ELSE @[r]],
              !.last  = [r \in Readers |-> IF r \in P
                                           THEN [@[r] EXCEPT ![Head(s.queue[r]).f] = Head(s.queue[r]).n]
                                           ELSE @[r]],
              !.owed  = [r \in Readers |-> IF r \in P THEN @[r] - 1 ELSE @[r]],
              !.queue = [r \in Readers |-> IF r \in P THEN Tail(@[r]) ELSE @[r]]]

Settle(s) == IF Eager THEN PullSet(s, {r \in Readers : CanPull(s, r)}) ELSE s
Quiet(s)  == [s EXCEPT !.ev = [drop |-> {}, mod |-> {}]]

WriteF(s, ss, f, k) ==
    IF ss # s.cur
    THEN [Quiet(s) EXCEPT !.nst = @ + 1]                       \* stale guard: nothing happens
    ELSE LET u    == [f |-> f, n |-> s.nwr[f] + 1, ok |-> TRUE, k |-> k]
             to   == s.reg[f]
             full == {r \in to : Len(s.queue[r]) >= s.q}
             \* Reader.push: every refused unit is counted, whatever it carries
             counted == IF DevCountFramesOnly /\ k # "frame" THEN {} ELSE full
         IN Settle([s EXCEPT
               !.nwr[f] = @ + 1,
               !.queue = [r \in Readers |-> IF r \in to \ full THEN Append(@[r], u) ELSE @[r]],
               \* owed = handed to the reader and not (yet) delivered, counted or thrown away by Close
               !.owed  = [r \in Readers |-> IF r \in to \ counted THEN @[r] + 1 ELSE @[r]],
               !.ev    = [drop |-> counted, mod |-> {}]])      \* outboundFramesDiscarded.Increase()

PullF(s, r)  == PullSet(Quiet(s), {r})
DoneF(s, r)  == Settle([Quiet(s) EXCEPT !.held[r] = NoUnit])
ErrF(s, r)   == [Quiet(s) EXCEPT !.held[r] = NoUnit, !.dead[r] = TRUE]
AddF(s, r, S) ==
    [Quiet(s) EXCEPT !.phase[r] = "sub", !.subs[r] = S,
                     !.reg = [f \in Formats |-> IF f \in S THEN @[f] \cup {r} ELSE @[f]]]
CloseF(s, r) ==                                    \* pending units are thrown away
    [Quiet(s) EXCEPT !.phase[r] = "closed", !.owed[r] = @ - Len(s.queue[r]), !.queue[r] = <<>>]
RemBeginF(s, r) ==
    LET u == [Quiet(s) EXCEPT !.phase[r] = "unsub", !.reg = [f \in Formats |-> @[f] \ {r}]]
    IN IF Eager THEN CloseF(u, r) ELSE u
RemEndF(s, r) == [Quiet(s) EXCEPT !.phase[r] = "stopped"]
SwitchF(s)    == [Quiet(s) EXCEPT !.cur = @ + 1]

\* what an observer sees of one step s -> t: callbacks begun and discard counters moved
Began(s, t, r)   == t.held[r] # NoUnit /\ t.held[r] # s.held[r]
Dropped(t, r)    == r \in t.ev.drop

\* ------------------------------------------------------------------ actions
\* an action is a record [a, ss, f, r, S, k] (unused fields: 0, "", {}); k = kind of the unit written
A(name, ss, f, r, S, k) == [a |-> name, ss |-> ss, f |-> f, r |-> r, S |-> S, k |-> k]

Guard(s, x) ==
    CASE x.a = "Write"         -> /\ x.ss \in 1..NSS /\ x.ss <= s.cur     \* a publisher that exists(ed)
                                  /\ x.k \in Kinds /\ (x.k = "frag" => x.f \in FragFormats)
                                  /\ IF x.ss = s.cur THEN s.nwr[x.f] < MaxWrites ELSE s.nst < MaxStale
      [] x.a = "Pull"          -> ~Eager /\ CanPull(s, x.r)
      [] x.a = "Done"          -> s.held[x.r] # NoUnit
      [] x.a = "CallbackError" -> s.held[x.r] # NoUnit
      [] x.a = "AddReader"     -> s.phase[x.r] = "absent"
      [] x.a = "RemoveBegin"   -> s.phase[x.r] = "sub"
      [] x.a = "RemoveClose"   -> s.phase[x.r] = "unsub"
      [] x.a = "RemoveEnd"     -> s.phase[x.r] = "closed" /\ s.held[x.r] = NoUnit
      [] x.a = "Switch"        -> s.cur < NSS

Apply(s, x) ==
    CASE x.a = "Write"         -> WriteF(s, x.ss, x.f, x.k)
      [] x.a = "Pull"          -> PullF(s, x.r)
      [] x.a = "Done"          -> DoneF(s, x.r)
      [] x.a = "CallbackError" -> ErrF(s, x.r)
      [] x.a = "AddReader"     -> AddF(s, x.r, x.S)
      [] x.a = "RemoveBegin"   -> RemBeginF(s, x.r)
      [] x.a = "RemoveClose"   -> CloseF(s, x.r)
      [] x.a = "RemoveEnd"     -> RemEndF(s, x.r)
      [] x.a = "Switch"        -> SwitchF(s)

Do(x) == Guard(st, x) /\ st' = Apply(st, x)

Write(ss, f, k)  == Do(A("Write", ss, f, "", {}, k))
Pull(r)          == Do(A("Pull", 0, "", r, {}, ""))
Done(r)          == Do(A("Done", 0, "", r, {}, ""))
CallbackError(r) == Do(A("CallbackError", 0, "", r, {}, ""))
AddReader(r, S)  == Do(A("AddReader", 0, "", r, S, ""))
RemoveBegin(r)   == Do(A("RemoveBegin", 0, "", r, {}, ""))
RemoveClose(r)   == Do(A("RemoveClose", 0, "", r, {}, ""))
RemoveEnd(r)     == Do(A("RemoveEnd", 0, "", r, {}, ""))
Switch           == Do(A("Switch", 0, "", "", {}, ""))

Init == st \in {Init0(q) : q \in QS}
Next == \/ \E ss \in 1..NSS, f \in Formats, k \in Kinds : Write(ss, f, k)
        \/ \E r \in Readers : Pull(r)
        \/ \E r \in Readers : Done(r)
        \/ \E r \in Readers : CallbackError(r)
        \/ \E r \in Readers, S \in SubChoices : AddReader(r, S)
        \/ \E r \in Readers : RemoveBegin(r)
        \/ \E r \in Readers : RemoveClose(r)
        \/ \E r \in Readers : RemoveEnd(r)
        \/ Switch
Spec == Init /\ [][Next]_vars

\* ------------------------------------------------------------------ layer 2: the statement
\* Everything below is a function of observable history only:
\*   nwritten[f]  number of units written to f by the publisher that was current, numbered 1.. in write order
\*   d            callbacks begun by one reader, in order: [f, n, ok] = the callback registered for format
\*                f was given the n-th unit written to f (ok: by a current publisher, payload as written;
\*                n = 0: not a unit that was written to f)
\*   S            the formats the reader registered a callback for

\* "it receives the units written by the current publisher ... unmodified ... and never units of formats
\*  it did not subscribe to": every delivered unit is one that was written, to that format, by the
\*  current publisher
OnlyWrittenSubscribed(nwritten, d, S) ==
    \A k \in 1..Len(d) : /\ d[k].f \in S
                         /\ d[k].ok
                         /\ d[k].n \in 1..nwritten[d[k].f]
\* "unmodified after remuxing": what a callback is given for unit i is the remuxed content unit i had when it was
\* written, however many units were written since.  c = sequence of [got, written] content pairs
Unmodified(c) == \A k \in 1..Len(c) : c[k].got = c[k].written
\* "in write order, each at most once" (per format)
InOrderOnce(d) ==
    \A i, j \in 1..Len(d) : (i < j /\ d[i].f = d[j].f) => d[i].n < d[j].n
\* "Units are skipped only when that reader's queue is full, and each skipped unit is counted":
\* nw = units written (by the current publisher, to subscribed formats) while the reader was subscribed,
\* nd = callbacks begun, c = discard counter (+ units thrown away when the reader was removed).  What is
\* neither delivered nor counted must still be queued, and the queue holds at most q units.
Accounted(nw, nd, c, q) == nw - nd - c >= 0 /\ nw - nd - c <= q
\* one step: the counter moves only by one and only if the queue was full before
\* (occ0 = nw - nd - c before the step)
SkipOnlyWhenFull(occ0, c0, c1, q) == c1 # c0 => (c1 = c0 + 1 /\ occ0 = q)
\* a reader that is still subscribed, never failed and has consumed everything it was given
\* (nothing held, nothing queued) has received or counted every unit
AllReceived(nw, nd, c) == nw = nd + c

\* --- the same formulas on the model, step by step (owed = nw - nd - c, maintained incrementally)
PropAccounted == \A r \in Readers : Accounted(st.owed[r], 0, 0, st.q)
PropExact     == \A r \in Readers : st.owed[r] = Len(st.queue[r])   \* written = delivered + queued + discarded
PropAllReceived ==
    \A r \in Readers : (st.phase[r] = "sub" /\ ~st.dead[r] /\ st.held[r] = NoUnit /\ st.queue[r] = <<>>)
                          => AllReceived(st.owed[r], 0, 0)
PropStoppedQuiet == \A r \in Readers : st.phase[r] = "stopped" => (st.held[r] = NoUnit /\ st.queue[r] = <<>>)
TypeOK == /\ st.cur \in 1..NSS
          /\ \A r \in Readers : st.phase[r] \in Phases /\ Len(st.queue[r]) <= st.q
          /\ \A f \in Formats : st.reg[f] = {r \in Readers : st.phase[r] = "sub" /\ f \in st.subs[r]}

\* action properties: each callback begun extends the reader's history consistently with the statement
StepOnlyOrder ==
    [][\A r \in Readers : Began(st, st', r) =>
          LET u == st'.held[r]
              prev == [f |-> u.f, n |-> st.last[r][u.f], ok |-> TRUE, k |-> u.k]   \* the last unit of that format given to r
          IN /\ OnlyWrittenSubscribed(st'.nwr, <<u>>, st'.subs[r])
             /\ InOrderOnce(<<prev, u>>)]_vars
StepSkipOnlyWhenFull ==
    [][\A r \in Readers :
         SkipOnlyWhenFull(st.owed[r], 0, IF Dropped(st', r) THEN 1 ELSE 0, st.q)]_vars
StepUnmodified == [][st'.ev.mod = {}]_vars     \* the model's contents are the unit numbers: altered = another unit's
StepNoCallbackAfterEnd ==
    [][\A r \in Readers : st.phase[r] = "stopped" => (~Began(st, st', r) /\ st'.phase[r] = "stopped")]_vars

\* ------------------------------------------------------------------ view for the replay graph
\* implementation state without histories (units are replaced by their formats)
ImplView == [q |-> st.q, cur |-> st.cur, phase |-> st.phase, subs |-> st.subs,
             queue |-> [r \in Readers |-> [i \in 1..Len(st.queue[r]) |-> <<st.queue[r][i].f, st.queue[r][i].k>>]],
             held |-> [r \in Readers |-> <<st.held[r].f, st.held[r].k>>],
             dead |-> st.dead, nwr |-> st.nwr, nst |-> st.nst]
=============================================================================
