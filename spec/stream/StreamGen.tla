----------------------------- MODULE StreamGen -----------------------------
(* C17 behaviour generator: Stream.tla plus the list of actions taken so far.  Used with
   `-simulate`: every behaviour that has run to completion (no action enabled any more) is
   printed as a RUN line; the harness replays it on the real Stream / SubStream / Reader.   *)
EXTENDS Stream

VARIABLE acts
gvars == <<st, acts>>

AllActs ==
    {A("Write", ss, f, "", {}, k) : ss \in 1..NSS, f \in Formats, k \in Kinds}
    \cup {A(n, 0, "", r, {}, "") : n \in {"Pull", "Done", "CallbackError", "RemoveBegin", "RemoveClose", "RemoveEnd"},
                               r \in Readers}
    \cup {A("AddReader", 0, "", r, S, "") : r \in Readers, S \in SubChoices}
    \cup {A("Switch", 0, "", "", {}, "")}

GInit == Init /\ acts = <<>>
GNext == \E x \in AllActs : Do(x) /\ acts' = Append(acts, x)
GSpec == GInit /\ [][GNext]_gvars

Finished == \A x \in AllActs : ~Guard(st, x)
EmitRuns == Finished => Emit("RUN", [q |-> st.q, acts |-> acts])
=============================================================================
