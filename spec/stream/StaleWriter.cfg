\* layer 1 = the code: the statement must hold (lib/stalewriter.py also runs CheckOutsideLock = TRUE and expects a violation)
SPECIFICATION Spec
CONSTANTS
  CheckOutsideLock = FALSE
  WithHolder = {TRUE, FALSE}
INVARIANTS TypeOK Settled PropNoStale EmitScheds
CHECK_DEADLOCK FALSE
