SPECIFICATION Spec
CONSTANTS
  Names = {"cam", "cam1"}
  StaticKey = "cam"
  RegexOrder <- PMRegexOrder
  Match <- PMMatch
  Hot = {0, 1}
  Cold = {0, 1}
  HotKeys = {"R1"}
  InitKeys = {"cam", "R1"}
  MaxReloads = 2
  MaxInc = 5
  SimDepth = 99
  Pubs = {"p1", "p2"}
INVARIANTS LoopIffLive SourceOnlyOnLivePath HooksClosedWithPath StreamOnlyOnLivePath
PROPERTY ClientsOfClosedPathAreClosed
VIEW View
CHECK_DEADLOCK FALSE
