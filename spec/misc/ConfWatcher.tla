---------------------------- MODULE ConfWatcher ----------------------------
(* C38  The configuration watcher never loses the final file content
   (internal/confwatcher/confwatcher.go run(); internal/core/core.go run(): on every signal the
    core loads the file's CURRENT content)

   Discrete time, one tick = 10 ms (AddWait = 1 = additionalWait, MinInterval = 100 = minInterval).
   A scenario is a sequence of at most MaxOps file-system operations on the watched file, each one
   scheduled Gap ticks after the previous one finished (Gaps = {0, < MinInterval, > MinInterval}).
   Operations are expanded into the system calls the harness really issues (os.WriteFile =
   open(O_TRUNC|O_CREATE) + write, os.Remove, os.Symlink + os.Rename), each system call appends the
   inotify events fsnotify reports for it to the event queue.
   Layouts: "plain" (the watched path W is a regular file) and "link" (W is a symbolic link to T1
   or T2 in the same directory, as in the package's own symlink tests; Swap re-points it atomically).

   The watcher is the loop of confwatcher.go, one atomic step per statement that reads the clock or
   the file system: dequeue + minimum-interval drop rule, EvalSymlinks(watched path),
   EvalSymlinks(event path) + decision, the additional wait, lastCalled / previousWatchedPath
   update, the (blocking) send on `signal`. The client is the core: on a signal it reads the
   current content through the watched path. All steps that are enabled at an instant interleave
   freely (races between operations scheduled with gap 0 and the watcher are explored); time
   advances only when nothing is enabled at the current instant.

   Statement (safety form): at quiescence, if the watched path resolves to a file, the content the
   client loaded last is the file's final content. A scenario that ends with the file deleted
   demands nothing (there is no final content to load).

   Fix = TRUE is the proposed minimal repair (an event that arrives within MinInterval of the last
   signal is not forgotten: a timer re-examines the watched path when the interval has elapsed).   *)
EXTENDS VerifCommon

CONSTANTS Layout, MaxOps, Gaps, MinInterval, AddWait, Fix

None  == "none"
Never == 0 - 1000000
Ver(k) == <<"v1", "v2", "v3", "v4", "v5", "v6">>[k]

VARIABLES now,                 \* clock
          files, link, tmp,    \* file system: content of W/T1/T2 (None = absent), target of W, target of the temporary link
          queue,               \* fsnotify events not yet read by the watcher: [name, op]
          wpc, ev, cur, prev, lastCalled, wakeAt, pending, pendingAt,   \* the watcher
          cpc, loaded, nsig,   \* the client (core)
          sched, at, nops, hist, finished, lastChange                    \* the scenario
vars == <<now, files, link, tmp, queue, wpc, ev, cur, prev, lastCalled, wakeAt, pending, pendingAt,
          cpc, loaded, nsig, sched, at, nops, hist, finished, lastChange>>

\* ---------------------------------------------------------------- file system
Exists(f) == files[f] # None
\* filepath.EvalSymlinks: "" if the path (or the link's target) does not exist
Resolve(name) ==
    CASE name = "W"   -> IF Layout = "plain" THEN (IF Exists("W") THEN "W" ELSE "")
                         ELSE (IF link # "" /\ Exists(link) THEN link ELSE "")
      [] name = "tmp" -> IF tmp # "" /\ Exists(tmp) THEN tmp ELSE ""
      [] OTHER        -> IF Exists(name) THEN name ELSE ""
Target == IF Layout = "plain" THEN "W" ELSE link
Other  == IF link = "T1" THEN "T2" ELSE "T1"

Prim(p, f, v) == [p |-> p, f |-> f, v |-> v]
WriteFile(f, v) == IF Exists(f) THEN <<Prim("trunc", f, ""), Prim("wr", f, v)>>
                                ELSE <<Prim("creat", f, ""), Prim("wr", f, v)>>
\* Touch: something else happens in the watched directory (a sibling file is written): an event that is neither a
\* Write nor a Create of the watched file, and not a change of the configuration
OpKinds == IF Layout = "plain" THEN {"Write", "Remove", "Create", "Touch"} ELSE {"Write", "Remove", "Create", "Swap", "Touch"}
Legal(op) == CASE op = "Write"  -> Exists(Target)
               [] op = "Remove" -> Exists(Target)
               [] op = "Create" -> ~Exists(Target)
               [] op = "Swap"   -> Layout = "link"
               [] op = "Touch"  -> TRUE
Prims(op, k) == CASE op = "Write"  -> WriteFile(Target, Ver(k))
                  [] op = "Create" -> WriteFile(Target, Ver(k))
                  [] op = "Remove" -> <<Prim("unlink", Target, "")>>
                  [] op = "Touch"  -> <<Prim("sib", "S", "")>>
                  [] op = "Swap"   -> WriteFile(Other, Ver(k)) \o <<Prim("symlink", Other, ""), Prim("rename", "", "")>>

Ev(n, o) == [name |-> n, op |-> o]
EventsOf(p) == CASE p.p = "trunc"   -> <<Ev(p.f, "Write")>>
                 [] p.p = "wr"      -> <<Ev(p.f, "Write")>>
                 [] p.p = "creat"   -> <<Ev(p.f, "Create")>>
                 [] p.p = "unlink"  -> <<Ev(p.f, "Remove")>>
                 [] p.p = "sib"     -> <<Ev("S", "Write")>>
                 [] p.p = "symlink" -> <<Ev("tmp", "Create")>>
                 [] p.p = "rename"  -> <<Ev("tmp", "Rename"), Ev("W", "Create")>>

\* ---------------------------------------------------------------- scenario
Choosing == sched = <<>> /\ ~finished

Choose(op, gap) ==
    /\ Choosing /\ nops < MaxOps /\ Legal(op) /\ (nops = 0 => gap = 0)
    /\ sched' = Prims(op, nops + 1) /\ at' = now + gap /\ nops' = nops + 1
    /\ hist' = Append(hist, [op |-> op, gap |-> gap])
    /\ UNCHANGED <<now, files, link, tmp, queue, wpc, ev, cur, prev, lastCalled, wakeAt, pending, pendingAt,
                   cpc, loaded, nsig, finished, lastChange>>

Finish ==
    /\ Choosing /\ nops >= 1 /\ finished' = TRUE
    /\ UNCHANGED <<now, files, link, tmp, queue, wpc, ev, cur, prev, lastCalled, wakeAt, pending, pendingAt,
                   cpc, loaded, nsig, sched, at, nops, hist, lastChange>>

DoPrim ==
    /\ sched # <<>> /\ at = now
    /\ LET p == Head(sched) IN
        /\ files' = CASE p.p = "trunc"  -> [files EXCEPT ![p.f] = ""]
                      [] p.p = "wr"     -> [files EXCEPT ![p.f] = p.v]
                      [] p.p = "creat"  -> [files EXCEPT ![p.f] = ""]
                      [] p.p = "unlink" -> [files EXCEPT ![p.f] = None]
                      [] OTHER          -> files
        /\ tmp'  = CASE p.p = "symlink" -> p.f [] p.p = "rename" -> "" [] OTHER -> tmp
        /\ link' = IF p.p = "rename" THEN tmp ELSE link
        /\ queue' = queue \o EventsOf(p)
    /\ sched' = Tail(sched) /\ lastChange' = (IF Head(sched).p = "sib" THEN lastChange ELSE now)
    /\ UNCHANGED <<now, wpc, ev, cur, prev, lastCalled, wakeAt, pending, pendingAt, cpc, loaded, nsig,
                   at, nops, hist, finished>>

\* ---------------------------------------------------------------- the watcher (confwatcher.go run)
InsideInterval == lastCalled # Never /\ now - lastCalled < MinInterval

\* case event := <-w.inner.Events: if time.Since(lastCalled) < minInterval { continue }
WDequeue ==
    /\ wpc = "idle" /\ queue # <<>> /\ queue' = Tail(queue)
    /\ IF InsideInterval
       THEN /\ wpc' = "idle" /\ ev' = ev
            /\ IF Fix THEN pending' = TRUE /\ pendingAt' = lastCalled + MinInterval
                      ELSE UNCHANGED <<pending, pendingAt>>
       ELSE wpc' = "evalcur" /\ ev' = Head(queue) /\ UNCHANGED <<pending, pendingAt>>
    /\ UNCHANGED <<now, files, link, tmp, cur, prev, lastCalled, wakeAt, cpc, loaded, nsig,
                   sched, at, nops, hist, finished, lastChange>>

\* Fix only: the timer armed by a suppressed event fires: look at the watched path again
WTimer ==
    /\ Fix /\ pending /\ wpc = "idle" /\ now >= pendingAt
    /\ pending' = FALSE /\ wpc' = "evalcur" /\ ev' = Ev("W", "Write")
    /\ UNCHANGED <<now, files, link, tmp, queue, cur, prev, lastCalled, wakeAt, pendingAt, cpc, loaded, nsig,
                   sched, at, nops, hist, finished, lastChange>>

\* currentWatchedPath, _ := filepath.EvalSymlinks(w.absolutePath)
WEvalCur ==
    /\ wpc = "evalcur" /\ cur' = Resolve("W") /\ wpc' = "evalpath"
    /\ UNCHANGED <<now, files, link, tmp, queue, ev, prev, lastCalled, wakeAt, pending, pendingAt, cpc, loaded, nsig,
                   sched, at, nops, hist, finished, lastChange>>

\* eventPath = EvalSymlinks(Abs(event.Name)); the three-way decision
WDecide ==
    /\ wpc = "evalpath"
    /\ LET ep == Resolve(ev.name) IN
       IF cur = "" THEN prev' = "" /\ wpc' = "idle" /\ wakeAt' = wakeAt
       ELSE IF cur # prev \/ (ep = cur /\ ev.op \in {"Write", "Create"})
            THEN wpc' = "sleep" /\ wakeAt' = now + AddWait /\ prev' = prev
            ELSE wpc' = "idle" /\ wakeAt' = wakeAt /\ prev' = prev
    /\ UNCHANGED <<now, files, link, tmp, queue, ev, cur, lastCalled, pending, pendingAt, cpc, loaded, nsig,
                   sched, at, nops, hist, finished, lastChange>>

\* time.Sleep(additionalWait); previousWatchedPath = currentWatchedPath; lastCalled = time.Now()
WWake ==
    /\ wpc = "sleep" /\ now = wakeAt
    /\ prev' = cur /\ lastCalled' = now /\ wpc' = "signal" /\ pending' = FALSE
    /\ UNCHANGED <<now, files, link, tmp, queue, ev, cur, wakeAt, pendingAt, cpc, loaded, nsig,
                   sched, at, nops, hist, finished, lastChange>>

\* w.signal <- struct{}{}   (unbuffered: taken when the core is in its select)
WSignal ==
    /\ wpc = "signal" /\ cpc = "idle" /\ wpc' = "idle" /\ cpc' = "read" /\ nsig' = nsig + 1
    /\ UNCHANGED <<now, files, link, tmp, queue, ev, cur, prev, lastCalled, wakeAt, pending, pendingAt, loaded,
                   sched, at, nops, hist, finished, lastChange>>

\* core: conf.Load(p.confPath): the CURRENT content
CRead ==
    /\ cpc = "read" /\ cpc' = "idle"
    /\ loaded' = IF Resolve("W") = "" THEN "err" ELSE files[Resolve("W")]
    /\ UNCHANGED <<now, files, link, tmp, queue, wpc, ev, cur, prev, lastCalled, wakeAt, pending, pendingAt, nsig,
                   sched, at, nops, hist, finished, lastChange>>

\* ---------------------------------------------------------------- time
Urgent == \/ (sched # <<>> /\ at = now)
          \/ (wpc = "idle" /\ queue # <<>>)
          \/ wpc \in {"evalcur", "evalpath", "signal"}
          \/ (wpc = "sleep" /\ wakeAt = now)
          \/ cpc = "read"
          \/ (Fix /\ pending /\ wpc = "idle" /\ now >= pendingAt)
Deadlines == (IF sched # <<>> THEN {at} ELSE {})
             \cup (IF wpc = "sleep" THEN {wakeAt} ELSE {})
             \cup (IF Fix /\ pending /\ pendingAt > now THEN {pendingAt} ELSE {})
Tick ==
    /\ ~Choosing /\ ~Urgent /\ Deadlines # {}
    /\ now' = CHOOSE t \in Deadlines : \A u \in Deadlines : t <= u
    /\ UNCHANGED <<files, link, tmp, queue, wpc, ev, cur, prev, lastCalled, wakeAt, pending, pendingAt,
                   cpc, loaded, nsig, sched, at, nops, hist, finished, lastChange>>

Init ==
    /\ now = 0
    /\ files = [f \in {"W", "T1", "T2", "S"} |-> IF f = "S" THEN "s"
                                             ELSE IF f = (IF Layout = "plain" THEN "W" ELSE "T1") THEN "v0" ELSE None]
    /\ link = (IF Layout = "plain" THEN "" ELSE "T1") /\ tmp = ""
    /\ queue = <<>>
    /\ wpc = "idle" /\ ev = Ev("W", "Write") /\ cur = "" /\ lastCalled = Never /\ wakeAt = 0
    /\ prev = (IF Layout = "plain" THEN "W" ELSE "T1")
    /\ pending = FALSE /\ pendingAt = 0
    /\ cpc = "idle" /\ loaded = "v0" /\ nsig = 0
    /\ sched = <<>> /\ at = 0 /\ nops = 0 /\ hist = <<>> /\ finished = FALSE /\ lastChange = 0

Next == \/ \E op \in OpKinds, g \in Gaps : Choose(op, g)
        \/ Finish \/ DoPrim \/ WDequeue \/ WTimer \/ WEvalCur \/ WDecide \/ WWake \/ WSignal \/ CRead \/ Tick
Spec == Init /\ [][Next]_vars

\* ---------------------------------------------------------------- the statement, safety form
Quiescent == finished /\ queue = <<>> /\ wpc = "idle" /\ cpc = "idle" /\ ~(Fix /\ pending)
\* on a record (used on the model's states and, by TraceConfWatcher, on what the real watcher did):
\* if the watched path resolves to a file at the end, what the server loaded last is that content
FinalLoadedRec(exists, loadedLast, final) == exists => loadedLast = final
FinalExists == Resolve("W") # ""
FinalOK == FinalLoadedRec(FinalExists, loaded, IF FinalExists THEN files[Resolve("W")] ELSE None)
\* as an invariant (expected to FAIL for Fix = FALSE: DESIGN.md section 8 row 11; must hold for Fix = TRUE)
FinalLoaded == Quiescent => FinalOK
\* every scenario end is reported, so that one exhaustive run yields the model's prediction per scenario
EmitEnd == Quiescent => Emit("END", [hist |-> hist, ok |-> FinalOK, exists |-> FinalExists, nsig |-> nsig])
\* the only way the modelled watcher loses the final content: the last change fell inside the
\* minimum interval that follows the last signal (checked, must hold)
LossOnlyInWindow ==
    (Quiescent /\ ~FinalOK) => (lastCalled # Never /\ lastChange > lastCalled /\ lastChange - lastCalled < MinInterval)
\* the model never gets stuck before quiescence (time always advances to the next deadline)
NoStuck == Quiescent \/ ENABLED Next
TypeOK == /\ wpc \in {"idle", "evalcur", "evalpath", "sleep", "signal"} /\ cpc \in {"idle", "read"}
          /\ nops \in 0..MaxOps /\ Len(hist) = nops /\ now >= 0
=============================================================================
