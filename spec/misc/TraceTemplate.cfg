SPECIFICATION TraceSpec
CONSTANTS MaxPieces = 0  ProfileNames = {}  Ns = {}
INVARIANT Verdicts
POSTCONDITION Accepted
CHECK_DEADLOCK FALSE
