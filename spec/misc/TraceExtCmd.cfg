SPECIFICATION TraceSpec
CONSTANTS
  Families = {}
  MaxPieces = 0
  Full = FALSE
  Profiles = {}
INVARIANT Verdicts
POSTCONDITION Accepted
CHECK_DEADLOCK FALSE
