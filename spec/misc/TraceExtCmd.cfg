SPECIFICATION TraceSpec
CONSTANTS
  Families = {}
  MaxPieces = 0
  Full = FALSE
  Profiles = {}
  Ambients = {}
  L1Variant = "fixed"
INVARIANT Verdicts
POSTCONDITION Accepted
CHECK_DEADLOCK FALSE
