---------------------------- MODULE TraceExtCmd ----------------------------
(* Trace validation for C21. One ndjson record per hook command really executed by the REAL
   externalcmd.Cmd (the test binary re-executed as the command dumps its arguments and environment):
     tmpl, env, status, restart     the case (template structure, passed variables, requested exit status)
     ran, argv                      the command started and dumped / its arguments (code points)
     envseen                        per passed variable, the values found under its name in the environment
     ambient, ambseen               what the harness put into the server process's own environment before the
                                    command was started / the values found under those names in the command's
     onexit                         the calls of OnExit until the harness closed the command
   TLC evaluates the statement's formula (ExtCmd.tla layer 2) on every record; records that differ from
   layer 1 (split, then os.Expand; exit code reported, or the deviation selected by L1Variant) are DRIFT.                                    *)
EXTENDS ExtCmd

Trace == ndJsonDeserialize("C21_trace.ndjson")

VARIABLE l
TraceInit == l = 0 /\ fam = "one" /\ first = PieceList[1] /\ prof = 1 /\ amb = "clean" /\ done = FALSE
TraceNext == l < Len(Trace) /\ l' = l + 1 /\ UNCHANGED vars
TraceSpec == TraceInit /\ [][TraceNext]_<<l, vars>>

FirstNums(r) == IF r.onexit = <<>> THEN <<>> ELSE r.onexit[1].nums
L1Conforms(r) ==
    /\ r.argv = r.l1                    \* L1Argv(tmpl, env), computed by TLC when the case was generated
    /\ FirstNums(r) = L1OnExit(r.status, r.restart)
    /\ (~r.ran \/ InheritedKept(r))

Verdicts ==
    l >= 1 => LET r == Trace[l]  f == Failing(r) IN
              /\ Monitor(f = {}, [l |-> l, monitors |-> f, badargs |-> ArgValueBad(r), badenv |-> EnvBad(r), inheritedwins |-> EnvInheritedWins(r),
                                   deviation |-> DeviationOf(FirstNums(r), r.status, r.restart)])
              /\ (L1Conforms(r) \/ Emit("DRIFT", [l |-> l]))
Accepted == TLCGet("stats").diameter - 1 = Len(Trace)
=============================================================================
