SPECIFICATION Spec
CONSTANTS
  Families = {"one", "two", "mega", "exit"}
  MaxPieces = 2
  Full = FALSE
  Profiles = {1, 2, 3, 4, 5, 6, 7, 8, 9, 10}
  Ambients = {"clean", "collide", "case", "unrelated"}
  L1Variant = "fixed"
INVARIANT L1MeetsL2OnArgs
INVARIANT EmitCases
CHECK_DEADLOCK FALSE
