---------------------------- MODULE TraceTemplate ----------------------------
(* Trace validation for C42: records produced by the real resolveSource / resolveDest (and the real
   staticsources.Handler run loop) on random templates, group counts and values outside the
   bounded model. For every record that the statement decides (not amb / undef / straddle) TLC
   demands that the real output is the single-pass substitution (Scan of Template.tla); records
   differing from the code-shaped layer 1 are DRIFT.                                        *)
EXTENDS Template

Trace == ndJsonDeserialize("C42_trace.ndjson")

VARIABLE l
TraceInit == l = 0 /\ env = [site |-> "source"] /\ first = "" /\ done = FALSE
TraceNext == l < Len(Trace) /\ l' = l + 1 /\ UNCHANGED vars
TraceSpec == TraceInit /\ [][TraceNext]_<<l, vars>>

EnvOf(x) == [site |-> x.site, n |-> Len(x.g), g |-> x.g, path |-> x.path, query |-> x.query]

Verdicts ==
    l >= 1 => LET x == Trace[l]
                  e == EnvOf(x)
                  r == Scan(x.tmpl, e)
                  open == r.amb \/ r.undef \/ Straddle(r, e)
              IN  /\ Monitor(open \/ OutChars(r) = x.out, [l |-> l, exp |-> Str(OutChars(r)), l1 |-> Str(L1(x.tmpl, e))])
                  /\ (~open \/ Emit("OPEN", [l |-> l]))
                  /\ (L1(x.tmpl, e) = x.out \/ Emit("DRIFT", [l |-> l]))
Accepted == TLCGet("stats").diameter - 1 = Len(Trace)
=============================================================================
