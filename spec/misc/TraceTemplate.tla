---------------------------- MODULE TraceTemplate ----------------------------
(* Trace validation for C42.

   kind "func": records produced by the real resolveSource / resolveDest (and one start of the real
   staticsources.Handler) on random templates, group counts and values outside the bounded model.
   For every record that the statement decides (not amb / undef / straddle) TLC demands that the
   real output is the single-pass substitution (Scan of Template.tla); records differing from the
   code-shaped layer 1 are DRIFT.

   kind "life": one script (scripts of TemplateLife.tla and random ones) replayed on a real
   staticsources.Handler with an injected source instance: x.ops is what the harness did, x.runs
   what every Run of the instance received (resolved source, and the template of the
   configuration passed along). TLC folds the operations (Template!LifeFold) to the (template in
   force, query of that start) of every run and demands, wherever the statement decides, that the
   run received exactly their single-pass substitution. A script whose number of runs differs from
   the fold is MISCOUNT (the harness lost or invented a run: infrastructure, not a verdict).   *)
EXTENDS Template

Trace == ndJsonDeserialize("C42_trace.ndjson")

VARIABLE l
TraceInit == l = 0 /\ env = [site |-> "source"] /\ first = "" /\ done = FALSE
TraceNext == l < Len(Trace) /\ l' = l + 1 /\ UNCHANGED vars
TraceSpec == TraceInit /\ [][TraceNext]_<<l, vars>>

EnvOf(x) == [site |-> x.site, n |-> Len(x.g), g |-> x.g, path |-> x.path, query |-> x.query]

FuncVerdict(x) ==
    LET e == EnvOf(x)
        r == Scan(x.tmpl, e)
        open == r.amb \/ r.undef \/ Straddle(r, e)
    IN  /\ Monitor(open \/ OutChars(r) = x.out, [l |-> l, exp |-> Str(OutChars(r)), l1 |-> Str(L1(x.tmpl, e))])
        /\ (~open \/ Emit("OPEN", [l |-> l]))
        /\ (L1(x.tmpl, e) = x.out \/ Emit("DRIFT", [l |-> l]))

LifeVerdict(x) ==
    LET want == LifeFold(LifeInit(x.t0), x.ops, 1).runs IN
    IF Len(want) # Len(x.runs) THEN Emit("MISCOUNT", [l |-> l, want |-> Len(want), got |-> Len(x.runs)])
    ELSE \A i \in 1..Len(want) :
        LET exp == LifeExp(want[i], x.g, x.path) IN
        /\ Monitor(exp.open \/ exp.out = x.runs[i].resolved,
                   [l |-> l, run |-> i, exp |-> Str(exp.out), l1 |-> Str(exp.l1),
                    tmpl |-> Str(want[i].tmpl), query |-> Str(want[i].query)])
        /\ (~exp.open \/ Emit("OPEN", [l |-> l, run |-> i]))
        /\ ((exp.l1 = x.runs[i].resolved /\ want[i].tmpl = x.runs[i].conf) \/ Emit("DRIFT", [l |-> l, run |-> i]))

Verdicts == l >= 1 => IF Trace[l].kind = "life" THEN LifeVerdict(Trace[l]) ELSE FuncVerdict(Trace[l])
Accepted == TLCGet("stats").diameter - 1 = Len(Trace)
=============================================================================
