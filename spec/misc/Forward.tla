------------------------------ MODULE Forward ------------------------------
(* C39  Forward destinations reconcile with configuration
   (internal/forward/manager.go Initialize / Start / Stop / ReloadConf, dest_handler.go start / stop)

   A path owns one forward.Manager. The manager holds one DestHandler per configured
   destination; a handler "runs" between start() and the end of stop() (its goroutine is alive,
   its done channel is open). The path calls Start when its stream becomes available, Stop when
   it becomes unavailable (strictly alternating: setAvailable / setNotAvailable) and ReloadConf
   with the new destination list on every configuration reload.

   Layer 1 (InitF, StartF, StopF, ReloadF) transcribes manager.go as pure operators on a state
   record so that the trace module can fold them over an observed run.
   Layer 2 (OnePerDest, NoneWhileStopped, ReloadOK) is written from the statement:
     "While a path's stream is available exactly one forwarder runs per configured destination,
      in configuration order; after a reload unchanged destinations keep running untouched,
      changed or removed ones are stopped and new ones started, and no forwarder runs while the
      stream is unavailable."
   An observation is  [conf, handlers, started, strays]:
     conf      the configured destination list (input of Initialize / the last ReloadConf)
     handlers  what the manager lists, in order: [id, dest, running, run, loops]
                 id    identity of the forwarder object (API id), numbered by first appearance
                 run   identity of its current run (0 = never started); a restart gives a new run
                 loops number of run loops of this forwarder that are alive (2 = it was started twice)
     started   the stream is available (what the caller did: Start was called more recently than Stop;
               never read from the manager's own bookkeeping)
     strays    ids of forwarders that are no longer listed but still run                      *)
EXTENDS VerifCommon

CONSTANTS Tokens, MaxLen, MaxSteps

Lists == UNION {[1..n -> Tokens] : n \in 0..MaxLen}

\* ------------------------------------------------------------------ layer 1: manager.go
InitF(list) ==
    [handlers |-> [i \in 1..Len(list) |-> [id |-> i, dest |-> list[i], running |-> FALSE, run |-> 0, loops |-> 0]],
     started |-> FALSE, nextId |-> Len(list) + 1, nextRun |-> 1, strays |-> {}]

\* Start: m.started = true; every handler start()ed in list order
StartF(s) ==
    [s EXCEPT !.started = TRUE,
              !.handlers = [i \in 1..Len(s.handlers) |->
                              [id |-> s.handlers[i].id, dest |-> s.handlers[i].dest,
                               running |-> TRUE, run |-> s.nextRun + i - 1, loops |-> 1]],
              !.nextRun = s.nextRun + Len(s.handlers)]

\* Stop: m.started = false; every handler stop()ped (stop waits for the goroutine)
StopF(s) ==
    [s EXCEPT !.started = FALSE,
              !.handlers = [i \in 1..Len(s.handlers) |->
                              [id |-> s.handlers[i].id, dest |-> s.handlers[i].dest,
                               running |-> FALSE, run |-> s.handlers[i].run, loops |-> 0]]]

\* ReloadConf: position by position; a handler is kept iff the same position holds an equal
\* conf.ForwardDest; otherwise a new handler is created (and started if m.started) and the old one
\* at that position, like all handlers beyond the new length, is closed (stopped if m.started;
\* handlers never run while ~m.started).
Kept(s, list, i) == i <= Len(s.handlers) /\ s.handlers[i].dest = list[i]
NewUpTo(s, list, i) == Cardinality({j \in 1..i : ~Kept(s, list, j)})
ReloadF(s, list) ==
    LET n == NewUpTo(s, list, Len(list)) IN
    [s EXCEPT !.handlers = [i \in 1..Len(list) |->
                              IF Kept(s, list, i) THEN s.handlers[i]
                              ELSE [id |-> s.nextId + NewUpTo(s, list, i) - 1, dest |-> list[i],
                                    running |-> s.started,
                                    run |-> IF s.started THEN s.nextRun + NewUpTo(s, list, i) - 1 ELSE 0,
                                    loops |-> IF s.started THEN 1 ELSE 0]],
              !.nextId = s.nextId + n,
              !.nextRun = IF s.started THEN s.nextRun + n ELSE s.nextRun]

ObsOf(s, c) == [conf |-> c, handlers |-> s.handlers, started |-> s.started, strays |-> s.strays]

\* ------------------------------------------------------------------ layer 2: the statement
Idx(o) == 1..Len(o.handlers)

\* "while a path's stream is available exactly one forwarder runs per configured destination, in
\*  configuration order": the listed forwarders are, position by position, the configured
\*  destinations, each one runs exactly once (one live run loop), they are distinct objects /
\*  distinct runs, nothing else runs.
OnePerDest(o) ==
    o.started =>
        /\ Len(o.handlers) = Len(o.conf)
        /\ \A i \in Idx(o) : o.handlers[i].dest = o.conf[i] /\ o.handlers[i].running /\ o.handlers[i].loops = 1
        /\ \A i, j \in Idx(o) : i # j => /\ o.handlers[i].id # o.handlers[j].id
                                         /\ o.handlers[i].run # o.handlers[j].run
        /\ o.strays = {}

\* "no forwarder runs while the stream is unavailable"
NoneWhileStopped(o) ==
    ~o.started => (\A i \in Idx(o) : ~o.handlers[i].running /\ o.handlers[i].loops = 0) /\ o.strays = {}

\* "after a reload unchanged destinations keep running untouched, changed or removed ones are
\*  stopped and new ones started" (o before, o2 after a reload, stream available throughout).
\*  The statement does not say whether a destination that merely moves to another position (or one
\*  of two equal destinations) counts as unchanged, so only the two unambiguous cases are demanded:
\*   - same destination at the same position: same forwarder object, same run, still running;
\*   - a destination that did not occur in the old list at all: a run that did not exist before.
\*  That changed/removed forwarders are stopped is OnePerDest(o2) (every run that is left belongs
\*  to a configured destination, strays = {}).
Untouched(o, o2) ==
    \A i \in Idx(o) :
        (i <= Len(o.conf) /\ i <= Len(o2.conf) /\ o.conf[i] = o2.conf[i] /\ o.handlers[i].dest = o.conf[i]) =>
            /\ i <= Len(o2.handlers)
            /\ o2.handlers[i].id = o.handlers[i].id
            /\ o2.handlers[i].run = o.handlers[i].run
            /\ o2.handlers[i].running /\ o2.handlers[i].loops = 1
NewStarted(o, o2) ==
    \A i \in Idx(o2) :
        (i <= Len(o2.conf) /\ o2.conf[i] \notin Range(o.conf)) =>
            /\ o2.handlers[i].run \notin {o.handlers[j].run : j \in Idx(o)}
            /\ o2.handlers[i].id \notin {o.handlers[j].id : j \in Idx(o)}
ReloadOK(o, o2) == (o.started /\ o2.started) => Untouched(o, o2) /\ NewStarted(o, o2)

\* ------------------------------------------------------------------ bounded model
VARIABLES phase, conf, st, steps, lastop
vars == <<phase, conf, st, steps, lastop>>

Init == phase = "new" /\ conf = <<>> /\ st = InitF(<<>>) /\ steps = 0 /\ lastop = "none"
Initialize(l) == /\ phase = "new" /\ phase' = "run" /\ conf' = l /\ st' = InitF(l)
                 /\ steps' = steps /\ lastop' = "Initialize"
Start == /\ phase = "run" /\ ~st.started /\ steps < MaxSteps
         /\ st' = StartF(st) /\ steps' = steps + 1 /\ lastop' = "Start" /\ UNCHANGED <<phase, conf>>
Stop == /\ phase = "run" /\ st.started /\ steps < MaxSteps
        /\ st' = StopF(st) /\ steps' = steps + 1 /\ lastop' = "Stop" /\ UNCHANGED <<phase, conf>>
ReloadConf(l) == /\ phase = "run" /\ steps < MaxSteps
                 /\ st' = ReloadF(st, l) /\ conf' = l /\ steps' = steps + 1 /\ lastop' = "Reload"
                 /\ UNCHANGED phase
Next == (\E l \in Lists : Initialize(l) \/ ReloadConf(l)) \/ Start \/ Stop
Spec == Init /\ [][Next]_vars

Obs == ObsOf(st, conf)
InvOnePerDest == OnePerDest(Obs)
InvNoneWhileStopped == NoneWhileStopped(Obs)
PropReload == [][lastop' = "Reload" => ReloadOK(Obs, Obs')]_vars
TypeOK == /\ conf \in Lists /\ st.started \in BOOLEAN
          /\ \A i \in 1..Len(st.handlers) : st.handlers[i].dest \in Tokens
\* state graph for the edge-covering walks: identity is abstracted away
GenView == <<phase, conf, st.started>>
=============================================================================
