------------------------------ MODULE ExtCmd ------------------------------
(* C21  Hook commands receive values verbatim and report their exit status
        (internal/externalcmd/cmd.go, cmd_os.go)

   A command template is a sequence of ARGUMENTS, each a sequence of PIECES:
     [t |-> "lit", s |-> text, q |-> "none" | "dq" | "sq"]                 literal text, optionally quoted
     [t |-> "var", name |-> N, form |-> "bare" | "brace", q |-> ...]       $N or ${N}, optionally quoted
   Template text is ASCII (TLC strings); values and observed arguments are sequences of code points.

   Layer 2 (the statement):
     ArgCount   the command receives exactly one argument per template argument, whatever the values
     ArgValue   argument i is the concatenation of its pieces, every variable reference replaced by the
                variable's value verbatim. Left open (counted, not judged): a reference inside single
                quotes (a shell would not substitute it) and a bare $N directly followed by text that
                begins with a name character after quote removal ($MTX_PATH"x": which name is meant?)
     Env        every pair the server passes is in the command's environment with exactly that value,
                whatever the server process itself inherited: the AMBIENT environment of the server is
                a dimension of the model (clean / the same names with other values / names that differ
                only in case / unrelated names). Whether inherited variables that the server does not
                pass reach the hook is said neither by the statement nor by docs/2-features/20-hooks.md:
                left open (layer 1: they are inherited; a difference is DRIFT)
     ExitStatus a hook that exits with status N # 0 is reported as failed with that status: OnExit is
                called with an error and the error names N
   Layer 1 (the code): the command line is split (shellquote: quotes removed) and os.Expand runs on each
   part (Expand below); OnExit receives "command exited with code N" for N # 0, and for N = 0 only with
   restart. The behaviour before the fix (commit "report the exit code of hook commands") is kept as the
   named deviation "ExitCodeDiscarded": every command counts as exited with code 0 (OnExit not called
   without restart, "code 0" with restart). Constant L1Variant selects which of the two layer 1 is
   ("fixed" by default); whatever it is, a failing execution whose OnExit calls are those of the deviation
   is reported with deviation = "ExitCodeDiscarded".                                                    *)
EXTENDS VerifCommon

CONSTANTS Families,     \* subset of {"one", "two", "mega", "exit"}
          MaxPieces,    \* pieces per argument in family "mega"
          Full,         \* TRUE: families "one", "two", "exit" with every profile and every pair; FALSE: a rotation
          Profiles,     \* value profiles (indices into ClassList)
          Ambients,     \* ambient environments of the server process (subset of AmbList's elements)
          L1Variant     \* "fixed" (the current code) or the name of a deviation: "ExitCodeDiscarded"

\* ------------------------------------------------------------------ code points
Ascii == " !\"#$%&'()*+,-./0123456789:;<=>?@ABCDEFGHIJKLMNOPQRSTUVWXYZ[\\]^_`abcdefghijklmnopqrstuvwxyz{|}~"
OrdF == [ch \in {SubSeq(Ascii, i, i) : i \in 1..Len(Ascii)} |-> 31 + CHOOSE i \in 1..Len(Ascii) : SubSeq(Ascii, i, i) = ch]
Ord(ch) == OrdF[ch]
Cp(s) == [i \in 1..Len(s) |-> Ord(SubSeq(s, i, i))]
Chars(s) == [i \in 1..Len(s) |-> SubSeq(s, i, i)]

\* ------------------------------------------------------------------ values
ClassList == <<"plain", "space", "quote", "dollar", "newline", "empty", "nonascii", "bslash", "glob", "dash">>
VPlain == Cp("cam1")
VSpace == Cp("a b  c")
VQuote == Cp("a\"b'c")
VDollar == Cp("a$MTX_QUERY${G1}$$")
VBslash == Cp("a\\b\\")
VGlob == Cp("* ?~")
VDash == Cp("-rf")
ClassVal(c) ==
    CASE c = "plain" -> VPlain [] c = "space" -> VSpace [] c = "quote" -> VQuote [] c = "dollar" -> VDollar
      [] c = "newline" -> <<97, 10, 98>> [] c = "empty" -> <<>> [] c = "nonascii" -> <<233, 8364, 128512>>
      [] c = "bslash" -> VBslash [] c = "glob" -> VGlob [] c = "dash" -> VDash

VarNames == <<"MTX_PATH", "MTX_QUERY", "G1">>
ClassAt(k) == ClassList[((k - 1) % Len(ClassList)) + 1]
\* profile p: MTX_PATH has class p, MTX_QUERY class p+1, G1 class p+2 (cyclically)
EnvOf(p) == [i \in 1..3 |-> [name |-> VarNames[i], class |-> ClassAt(p + i - 1), v |-> ClassVal(ClassAt(p + i - 1))]]
ValueOf(env, name) == LET i == CHOOSE i \in 1..Len(env) : env[i].name = name IN env[i].v
Defined(env, name) == \E i \in 1..Len(env) : env[i].name = name

\* ------------------------------------------------------------------ ambient environment of the server process
AmbList == <<"clean", "collide", "case", "unrelated">>
AV(n, v) == [name |-> n, v |-> v]
AmbCollide == <<AV("MTX_PATH", Cp("outer/path")), AV("MTX_QUERY", Cp("outer=1&x=$MTX_PATH")), AV("G1", Cp("outer g1"))>>
AmbCase == <<AV("mtx_path", Cp("lower/path")), AV("Mtx_Query", Cp("mixed=1")), AV("g1", Cp("lower g1"))>>
AmbUnrelated == <<AV("VF21_AMB_KEEP", Cp("kept value")), AV("VF21_AMB_EMPTY", <<>>)>>
AmbientEnv(a) == CASE a = "clean" -> <<>> [] a = "collide" -> AmbCollide [] a = "case" -> AmbCase [] a = "unrelated" -> AmbUnrelated
\* every name that any ambient sets (the harness removes them all before it installs one ambient)
AmbientNames == {AmbCollide[i].name : i \in 1..Len(AmbCollide)} \cup {AmbCase[i].name : i \in 1..Len(AmbCase)}
                \cup {AmbUnrelated[i].name : i \in 1..Len(AmbUnrelated)}

\* ------------------------------------------------------------------ templates
Lit(s, q) == [t |-> "lit", s |-> s, q |-> q, name |-> "", form |-> "", cp |-> Cp(s)]
Var(n, f, q) == [t |-> "var", s |-> "", q |-> q, name |-> n, form |-> f, cp |-> <<>>]
PieceList == << Lit("pre", "none"), Lit("-x", "none"), Lit("two words", "dq"), Lit("it s", "sq"),
                Var("MTX_PATH", "bare", "none"), Var("MTX_PATH", "brace", "none"), Var("MTX_PATH", "bare", "dq"),
                Var("MTX_PATH", "brace", "dq"), Var("MTX_PATH", "bare", "sq"),
                Var("MTX_QUERY", "bare", "none"), Var("MTX_QUERY", "brace", "dq"), Var("G1", "bare", "none") >>
Pieces == Range(PieceList)

Inner(p) == IF p.t = "lit" THEN p.s ELSE IF p.form = "bare" THEN "$" \o p.name ELSE "${" \o p.name \o "}"
Quote(q) == IF q = "dq" THEN "\"" ELSE IF q = "sq" THEN "'" ELSE ""
RenderPiece(p) == Quote(p.q) \o Inner(p) \o Quote(p.q)
RECURSIVE RenderArg(_)
RenderArg(a) == IF a = <<>> THEN "" ELSE RenderPiece(Head(a)) \o RenderArg(Tail(a))
RECURSIVE RenderTmpl(_)
RenderTmpl(tm) == IF Len(tm) = 1 THEN RenderArg(tm[1]) ELSE RenderArg(Head(tm)) \o " " \o RenderTmpl(Tail(tm))

\* ------------------------------------------------------------------ layer 2
NameChars == {SubSeq(Ascii, i, i) : i \in (17..26) \cup (34..59) \cup (66..91)} \cup {"_"}
IsNameChar(ch) == ch \in NameChars
\* text of a piece after quote removal
Unquoted(p) == Inner(p)
\* content of argument a is left open by the statement
OpenPiece(a, k) ==
    /\ a[k].t = "var"
    /\ \/ a[k].q = "sq"
       \/ a[k].form = "bare" /\ k < Len(a) /\ IsNameChar(SubSeq(Unquoted(a[k + 1]), 1, 1))
OpenArg(a) == \E k \in 1..Len(a) : OpenPiece(a, k)

PieceValue(p, env) == IF p.t = "lit" THEN p.cp ELSE ValueOf(env, p.name)
ExpectedArg(a, env) == Flatten([k \in 1..Len(a) |-> PieceValue(a[k], env)])

ArgCountOK(r) == Len(r.argv) = Len(r.tmpl)
ArgValueBad(r) == {i \in 1..Len(r.tmpl) : i <= Len(r.argv) /\ ~OpenArg(r.tmpl[i]) /\ r.argv[i] # ExpectedArg(r.tmpl[i], r.env)}
\* r.envseen[i] = the values found in the command's environment under the name of r.env[i]
EnvBad(r) == {i \in 1..Len(r.env) : ~(Len(r.envseen[i]) >= 1 /\ \A k \in 1..Len(r.envseen[i]) : r.envseen[i][k] = r.env[i].v)}
\* the bad server-supplied variable shows the value the server process inherited under the same name
EnvInheritedWins(r) == {i \in EnvBad(r) : \E k \in 1..Len(r.ambient) :
                           r.ambient[k].name = r.env[i].name /\ r.envseen[i] = <<r.ambient[k].v>>}
\* layer 1 only: an inherited variable that the server does not pass reaches the hook unchanged
\* (r.ambseen[k] = the values found in the command's environment under the name of r.ambient[k])
InheritedKept(r) == \A k \in 1..Len(r.ambient) :
                        Defined(r.env, r.ambient[k].name) \/ r.ambseen[k] = <<r.ambient[k].v>>
\* r.onexit = the calls of OnExit: [nonnil, nums (the integers in the error text)]
ExitStatusOK(r) ==
    r.status # 0 => /\ Len(r.onexit) >= 1
                    /\ r.onexit[1].nonnil
                    /\ \E k \in 1..Len(r.onexit[1].nums) : r.onexit[1].nums[k] = r.status

Failing(r) ==
    (IF r.ran /\ ArgCountOK(r) THEN {} ELSE {"ArgCount"}) \cup
    (IF ~r.ran \/ ~ArgCountOK(r) \/ ArgValueBad(r) = {} THEN {} ELSE {"ArgValue"}) \cup      \* positions are comparable only then
    (IF ~r.ran \/ EnvBad(r) = {} THEN {} ELSE {"Env"}) \cup
    (IF ExitStatusOK(r) THEN {} ELSE {"ExitStatus"})

\* ------------------------------------------------------------------ layer 1: os.Expand on the unquoted part
RECURSIVE UnquotedArg(_)
UnquotedArg(a) == IF a = <<>> THEN <<>> ELSE Chars(Unquoted(Head(a))) \o UnquotedArg(Tail(a))
RECURSIVE Str(_)
Str(cs) == IF cs = <<>> THEN "" ELSE Head(cs) \o Str(Tail(cs))
RECURSIVE NameRun(_, _)
NameRun(cs, i) == IF i <= Len(cs) /\ IsNameChar(cs[i]) THEN 1 + NameRun(cs, i + 1) ELSE 0
SpecialVar(ch) == ch \in {"*", "#", "$", "@", "!", "?", "-", "0", "1", "2", "3", "4", "5", "6", "7", "8", "9"}
Lookup(env, name) == IF Defined(env, name) THEN ValueOf(env, name) ELSE <<>>      \* os.Getenv of an unset name
RECURSIVE CloseBrace(_, _)
CloseBrace(cs, i) == IF i > Len(cs) THEN 0 ELSE IF cs[i] = "}" THEN i ELSE CloseBrace(cs, i + 1)
RECURSIVE ExpandAt(_, _, _)
ExpandAt(cs, i, env) ==
    IF i > Len(cs) THEN <<>>
    ELSE IF cs[i] # "$" \/ i = Len(cs) THEN <<Ord(cs[i])>> \o ExpandAt(cs, i + 1, env)
    ELSE IF cs[i + 1] = "{" THEN
        LET j == CloseBrace(cs, i + 2) IN
        IF j = 0 THEN ExpandAt(cs, i + 2, env)                                  \* bad syntax: "${" eaten
        ELSE Lookup(env, Str(SubSeq(cs, i + 2, j - 1))) \o ExpandAt(cs, j + 1, env)
    ELSE IF SpecialVar(cs[i + 1]) THEN Lookup(env, cs[i + 1]) \o ExpandAt(cs, i + 2, env)
    ELSE LET k == NameRun(cs, i + 1) IN
         IF k = 0 THEN <<Ord("$")>> \o ExpandAt(cs, i + 1, env)
         ELSE Lookup(env, Str(SubSeq(cs, i + 1, i + k))) \o ExpandAt(cs, i + 1 + k, env)
L1Arg(a, env) == ExpandAt(UnquotedArg(a), 1, env)
L1Argv(tm, env) == [i \in 1..Len(tm) |-> L1Arg(tm[i], env)]
\* the numbers named by the first OnExit call (<<>> = OnExit not called)
Deviations == {"ExitCodeDiscarded"}
OnExitDiscarded(status, restart) == IF restart THEN <<0>> ELSE <<>>
OnExitFixed(status, restart) == IF status # 0 THEN <<status>> ELSE IF restart THEN <<0>> ELSE <<>>
L1OnExit(status, restart) == IF L1Variant = "fixed" THEN OnExitFixed(status, restart) ELSE OnExitDiscarded(status, restart)
DeviationOf(nums, status, restart) ==
    IF nums = OnExitDiscarded(status, restart) /\ nums # OnExitFixed(status, restart) THEN "ExitCodeDiscarded" ELSE "none"
ASSUME L1Variant \in {"fixed"} \cup Deviations

\* ------------------------------------------------------------------ bounded model
\* families of cases:
\*   "one"   a single argument of one piece                                  (12, x profiles if Full)
\*   "two"   two arguments of one piece each                                 (24; 144 x 2 profiles if Full)
\*   "mega"  ONE command whose arguments are all arguments of <= MaxPieces pieces, in a fixed order
\*           (arguments are independent of each other in the statement, so one execution judges them all)
\*   "exit"  $MTX_PATH "two words" with every exit status, with and without restart
NP == Len(PieceList)
PieceNo(p) == CHOOSE i \in 1..NP : PieceList[i] = p
Args1 == [k \in 1..NP |-> <<PieceList[k]>>]
Args2 == [k \in 1..(NP * NP) |-> <<PieceList[((k - 1) \div NP) + 1], PieceList[((k - 1) % NP) + 1]>>]
Args3 == [k \in 1..(NP * NP * NP) |->
            <<PieceList[((k - 1) \div (NP * NP)) + 1], PieceList[(((k - 1) \div NP) % NP) + 1], PieceList[((k - 1) % NP) + 1]>>]
Mega == Args1 \o (IF MaxPieces >= 2 THEN Args2 ELSE <<>>) \o (IF MaxPieces >= 3 THEN Args3 ELSE <<>>)

Statuses == <<0, 1, 2, 3, 127, 255>>

\* which ambient environments a (family, first piece, profile) is executed in: clean and collide for every
\* "mega" command (the other two for two profiles); Full model: all four for family "one", clean and collide
\* for "exit", a rotation for the pairs of family "two"; small model: rotations
AmbAt(k) == AmbList[(k % Len(AmbList)) + 1]
AmbOK(f, fp, p, a) ==
    IF Full THEN CASE f = "two"  -> a = AmbAt(p)
                   [] f = "exit" -> a \in {"clean", "collide"}
                   [] f = "mega" -> a \in {"clean", "collide"} \/ p \in {2, 7}
                   [] OTHER -> TRUE
    ELSE CASE f = "one"  -> a = AmbAt(PieceNo(fp))
           [] f = "two"  -> a = AmbAt(PieceNo(fp) + 1)
           [] f = "exit" -> a = (IF p = 1 THEN "clean" ELSE "collide")
           [] f = "mega" -> a \in {"clean", "collide"} \/ p \in {2, 7}

VARIABLES fam, first, prof, amb, done
vars == <<fam, first, prof, amb, done>>
Init == fam \in Families /\ first \in Pieces /\ prof \in Profiles /\ amb \in Ambients /\ done = FALSE
        /\ AmbOK(fam, first, prof, amb)
        /\ (fam = "exit" => first = PieceList[5])
        /\ (fam = "mega" => first = PieceList[1])
        /\ ((fam \in {"one", "two"} /\ ~Full) => prof = (PieceNo(first) % Len(ClassList)) + 1)
        /\ ((fam = "two" /\ Full) => prof % 5 = PieceNo(first) % 5)          \* two profiles per first piece
        /\ ((fam = "exit" /\ ~Full) => prof \in {1, 4})
Next == ~done /\ done' = TRUE /\ UNCHANGED <<fam, first, prof, amb>>
Spec == Init /\ [][Next]_vars

Templates ==
    IF fam = "one" THEN { <<<<first>>>> }
    ELSE IF fam = "two" THEN { << <<first>>, <<b>> >> : b \in IF Full THEN Pieces
                                                              ELSE {PieceList[(PieceNo(first) % NP) + 1], PieceList[((PieceNo(first) + 6) % NP) + 1]} }
    ELSE IF fam = "mega" THEN { Mega }
    ELSE { << <<first>>, <<PieceList[3]>> >> }

Case(tm, status, restart) ==
    LET env == EnvOf(prof) IN
    [fam |-> fam, tmpl |-> tm, args |-> [i \in 1..Len(tm) |-> RenderArg(tm[i])], prof |-> prof, env |-> env,
     status |-> status, restart |-> restart, amb |-> amb, ambient |-> AmbientEnv(amb),
     ambnames |-> AmbientNames \cup {VarNames[i] : i \in 1..Len(VarNames)},
     exp |-> [i \in 1..Len(tm) |-> ExpectedArg(tm[i], env)], open |-> [i \in 1..Len(tm) |-> OpenArg(tm[i])],
     l1 |-> L1Argv(tm, env)]

\* layer 1 agrees with layer 2 wherever the statement decides the argument (so the code's argument
\* handling is expected to satisfy the statement on the whole bounded model)
L1MeetsL2OnArgs ==
    done => \A tm \in Templates : \A i \in 1..Len(tm) :
                OpenArg(tm[i]) \/ L1Arg(tm[i], EnvOf(prof)) = ExpectedArg(tm[i], EnvOf(prof))

EmitCases ==
    done => \A tm \in Templates :
        IF fam = "exit"
        THEN \A k \in 1..Len(Statuses) : \A rs \in BOOLEAN : Emit("CASE", Case(tm, Statuses[k], rs))
        ELSE Emit("CASE", Case(tm, Statuses[((PieceNo(tm[Len(tm)][1]) + prof) % Len(Statuses)) + 1], FALSE))
=============================================================================
