------------------------------ MODULE Template ------------------------------
(* C42  Source and destination templates substitute placeholders exactly
        (internal/staticsources/handler.go resolveSource, internal/forward/dest_handler.go resolveDest)

   Texts are sequences of one-character strings.

   Layer 2 (Scan) is the property statement: ONE left-to-right pass over the template; at each
   position the longest placeholder is taken ("$G" followed by its whole run of digits) and
   replaced by its value; inserted text is never looked at again. Placeholders per site, as
   documented in mediamtx.yml: static source = $G<n>, $MTX_QUERY; forward destination =
   $MTX_PATH, $G<n>.
   Excluded from the verdict (the statement does not decide them) and only counted:
     amb       "$G<digits>" whose digits are not the index of an existing group ("$G10" with one
               group, "$G0", "$G01", "$G5" with two groups)
     undef     a placeholder the site does not document ($MTX_PATH in a source, $MTX_QUERY in a
               destination)
     straddle  the single-pass output contains a placeholder shape that is not wholly inside
               one inserted value, i.e. is assembled from template text and an inserted value
               or from two inserted values ("$$G1" with G1 = "MTX_QUERY")

   Layer 1 (L1) follows the code: a chain of strings.ReplaceAll, group indices descending, then
   $MTX_QUERY (source); $MTX_PATH first, then groups descending (destination).

   Life cycle of a static source handler (LifeStep / LifeExp, used by TemplateLife.tla and
   TraceTemplate.tla): the substitution is not only a function, it is applied by a long-lived
   object. The statement's "$MTX_QUERY by the client query" means the query of the client that
   caused THIS start, and the template is the one in force when the source instance is
   (re)created. Every Run of the source instance must therefore receive
       Subst(template in force, capture groups of the path, query of that start)
   whatever happened before on the same handler (earlier starts with other queries, retries,
   configuration reloads while running / while retrying / while stopped).                   *)
EXTENDS VerifCommon, Wild

CONSTANTS MaxPieces,        \* templates are concatenations of 0..MaxPieces pieces
          ProfileNames,     \* value profiles used by the bounded model
          Ns                \* numbers of capture groups used by the bounded model

\* ------------------------------------------------------------------ text helpers
\* (index based: position i of text t, no copying of suffixes)
StartsAt(t, i, p) == i + Len(p) - 1 <= Len(t) /\ \A k \in 1..Len(p) : t[i + k - 1] = p[k]
IsDigit(c) == c \in {"0", "1", "2", "3", "4", "5", "6", "7", "8", "9"}
DigitVal(c) == CASE c = "0" -> 0 [] c = "1" -> 1 [] c = "2" -> 2 [] c = "3" -> 3 [] c = "4" -> 4
                 [] c = "5" -> 5 [] c = "6" -> 6 [] c = "7" -> 7 [] c = "8" -> 8 [] c = "9" -> 9
RECURSIVE DigitRunLen(_, _)          \* number of digits at positions i, i+1, ...
DigitRunLen(t, i) == IF i <= Len(t) /\ IsDigit(t[i]) THEN 1 + DigitRunLen(t, i + 1) ELSE 0
RECURSIVE NumVal(_, _, _)            \* value of the k digits starting at position i
NumVal(t, i, k) == IF k = 0 THEN 0 ELSE 10 * NumVal(t, i, k - 1) + DigitVal(t[i + k - 1])
RECURSIVE Str(_)                     \* characters -> TLC string (for compact output)
Str(t) == IF t = <<>> THEN "" ELSE Head(t) \o Str(Tail(t))

PathTok  == <<"$", "M", "T", "X", "_", "P", "A", "T", "H">>
QueryTok == <<"$", "M", "T", "X", "_", "Q", "U", "E", "R", "Y">>
GTok     == <<"$", "G">>

\* environment: [site, n, g (sequence of n texts), path, query]
HasPath(e)  == e.site = "dest"
HasQuery(e) == e.site = "source"

\* ------------------------------------------------------------------ layer 2: single pass
Lit(c)        == <<[c |-> c, src |-> 0]>>
Ins(v, id)    == [i \in 1..Len(v) |-> [c |-> v[i], src |-> id]]
Res(out, a, u) == [out |-> out, amb |-> a, undef |-> u]
Cat(pre, r)   == [out |-> pre \o r.out, amb |-> r.amb, undef |-> r.undef]
Flag(r, a, u) == [out |-> r.out, amb |-> r.amb \/ a, undef |-> r.undef \/ u]

\* ScanAt(t, i, e): substitution of t from position i on; an inserted value is tagged with the
\* position of its placeholder (src), template characters with 0
RECURSIVE ScanAt(_, _, _)
ScanAt(t, i, e) ==
    IF i > Len(t) THEN Res(<<>>, FALSE, FALSE)
    ELSE IF t[i] # "$" THEN Cat(Lit(t[i]), ScanAt(t, i + 1, e))
    ELSE IF StartsAt(t, i, PathTok) THEN
        IF HasPath(e) THEN Cat(Ins(e.path, i), ScanAt(t, i + Len(PathTok), e))
        ELSE Flag(Cat(Lit("$"), ScanAt(t, i + 1, e)), FALSE, TRUE)
    ELSE IF StartsAt(t, i, QueryTok) THEN
        IF HasQuery(e) THEN Cat(Ins(e.query, i), ScanAt(t, i + Len(QueryTok), e))
        ELSE Flag(Cat(Lit("$"), ScanAt(t, i + 1, e)), FALSE, TRUE)
    ELSE IF StartsAt(t, i, GTok) /\ DigitRunLen(t, i + 2) > 0 THEN
        LET k == DigitRunLen(t, i + 2)
            v == IF k <= 4 THEN NumVal(t, i + 2, k) ELSE 0
        IN  IF t[i + 2] # "0" /\ v \in 1..e.n
            THEN Cat(Ins(e.g[v], i), ScanAt(t, i + 2 + k, e))
            ELSE Flag(Cat(Lit("$"), ScanAt(t, i + 1, e)), TRUE, FALSE)
    ELSE Cat(Lit("$"), ScanAt(t, i + 1, e))
Scan(t, e) == ScanAt(t, 1, e)

OutChars(r) == [i \in 1..Len(r.out) |-> r.out[i].c]

\* a placeholder shape in the output that is not wholly inside one inserted value
ShapeLen(cs, i, e) ==
    IF cs[i] # "$" THEN 0
    ELSE IF HasPath(e) /\ StartsAt(cs, i, PathTok) THEN Len(PathTok)
    ELSE IF HasQuery(e) /\ StartsAt(cs, i, QueryTok) THEN Len(QueryTok)
    ELSE IF StartsAt(cs, i, GTok) /\ DigitRunLen(cs, i + 2) > 0 THEN 3
    ELSE 0
Straddle(r, e) ==
    LET cs == OutChars(r) IN
    \E i \in 1..Len(cs) :
        LET k == ShapeLen(cs, i, e) IN
        /\ k > 0
        /\ ~(r.out[i].src # 0 /\ \A j \in i..(i + k - 1) : r.out[j].src = r.out[i].src)

\* ------------------------------------------------------------------ layer 1: the code
RECURSIVE ReplaceAllAt(_, _, _, _)
ReplaceAllAt(s, i, old, new) ==
    IF i > Len(s) THEN <<>>
    ELSE IF StartsAt(s, i, old) THEN new \o ReplaceAllAt(s, i + Len(old), old, new)
    ELSE <<s[i]>> \o ReplaceAllAt(s, i + 1, old, new)
\* (every placeholder starts with "$": a text without "$" is returned as it is)
ReplaceAll(s, old, new) == IF HasChar(s, "$") THEN ReplaceAllAt(s, 1, old, new) ELSE s

RECURSIVE ReplaceGroups(_, _, _)      \* i = e.n down to 1
ReplaceGroups(s, e, i) ==
    IF i < 1 THEN s ELSE ReplaceGroups(ReplaceAll(s, GTok \o NatChars(i), e.g[i]), e, i - 1)

L1(t, e) ==
    IF e.site = "source" THEN ReplaceAll(ReplaceGroups(t, e, e.n), QueryTok, e.query)
    ELSE ReplaceGroups(ReplaceAll(t, PathTok, e.path), e, e.n)

\* ------------------------------------------------------------------ life cycle of a source handler
\* ops: [k |-> "Start", v |-> query]   the path starts the source (on demand: v = query of the client)
\*      [k |-> "Stop",  v |-> <<>>]
\*      [k |-> "Reload", v |-> template] a configuration reload changes the source template
\*      [k |-> "Fail",  v |-> <<>>]    the running instance returns an error (handler waits retryPause)
\*      [k |-> "Retry", v |-> <<>>]    the retry pause is over: the instance is created again
\* state: template in force, running, retrying, query of the current start, and for every Run of
\* the instance so far the (template, query) it has to be resolved from
LifeInit(t) == [tmpl |-> t, running |-> FALSE, retrying |-> FALSE, query |-> <<>>, runs |-> <<>>]
LifeEnabled(s, op) ==
    CASE op.k = "Start"  -> ~s.running
      [] op.k = "Stop"   -> s.running
      [] op.k = "Reload" -> TRUE
      [] op.k = "Fail"   -> s.running /\ ~s.retrying
      [] op.k = "Retry"  -> s.running /\ s.retrying
LifeStep(s, op) ==
    CASE op.k = "Start"  -> [s EXCEPT !.running = TRUE, !.query = op.v,
                                      !.runs = Append(@, [tmpl |-> s.tmpl, query |-> op.v])]
      [] op.k = "Stop"   -> [s EXCEPT !.running = FALSE, !.retrying = FALSE]
      [] op.k = "Reload" -> [s EXCEPT !.tmpl = op.v]
      [] op.k = "Fail"   -> [s EXCEPT !.retrying = TRUE]
      [] op.k = "Retry"  -> [s EXCEPT !.retrying = FALSE,
                                      !.runs = Append(@, [tmpl |-> s.tmpl, query |-> s.query])]
RECURSIVE LifeFold(_, _, _)
LifeFold(s, ops, i) == IF i > Len(ops) THEN s ELSE LifeFold(LifeStep(s, ops[i]), ops, i + 1)

SourceEnv(g, path, query) == [site |-> "source", n |-> Len(g), g |-> g, path |-> path, query |-> query]
\* what a run that has to be resolved from `want` = [tmpl, query] must receive: by the statement
\* (out, unless open) and by the code model (l1)
LifeExp(want, g, path) ==
    LET e == SourceEnv(g, path, want.query)
        r == Scan(want.tmpl, e)
    IN [out |-> OutChars(r), open |-> r.amb \/ r.undef \/ Straddle(r, e), l1 |-> L1(want.tmpl, e)]

\* ------------------------------------------------------------------ bounded model
Pieces == {"a", "/", "0", "1", "$G1", "$G2", "$G10", "$G11", "$MTX_PATH", "$MTX_QUERY", "$", "$G", "$Gx"}

RECURSIVE FlattenStr(_)
FlattenStr(ps) == IF ps = <<>> THEN <<>> ELSE Chars(Head(ps)) \o FlattenStr(Tail(ps))
\* templates are enumerated per first piece ("" = the empty template) so that TLC can spread the
\* work over its workers
Firsts == Pieces \cup {""}
TemplatesOf(first) ==
    IF first = "" THEN {<<>>}
    ELSE { Chars(first) \o FlattenStr(ps) : ps \in UNION {[1..k -> Pieces] : k \in 0..(MaxPieces - 1)} }

\* value profiles (group values and path names cannot contain '$'; the query can)
Plain(i)  == <<"g">> \o NatChars(i)
Tricky(i) == CASE i = 1 -> Chars("1") [] i = 2 -> Chars("0") [] i = 10 -> Chars("G1")
               [] i = 11 -> Chars("01") [] OTHER -> Chars("G2")
Empty(i)  == CASE i = 1 -> <<>> [] i = 2 -> Chars("MTX_QUERY") [] OTHER -> Chars("MTX_PATH")
Profiles == { [name |-> "plain",  g |-> [i \in 1..11 |-> Plain(i)],  path |-> Chars("cam/p"), query |-> Chars("k=v")],
              [name |-> "tricky", g |-> [i \in 1..11 |-> Tricky(i)], path |-> Chars("1G1"),
               query |-> Chars("$G1$MTX_QUERY$MTX_PATH")],
              [name |-> "empty",  g |-> [i \in 1..11 |-> Empty(i)],  path |-> Chars("MTX_QUERY"), query |-> <<>>] }
Env(site, n, p) == [site |-> site, n |-> n, g |-> SubSeq(p.g, 1, n), path |-> p.path, query |-> p.query, prof |-> p.name]
Envs == { Env(s, n, p) : s \in {"source", "dest"}, n \in Ns, p \in {q \in Profiles : q.name \in ProfileNames} }

VARIABLES env, first, done
vars == <<env, first, done>>
Init == env \in Envs /\ first \in Firsts /\ done = FALSE
Next == ~done /\ done' = TRUE /\ UNCHANGED <<env, first>>
Spec == Init /\ [][Next]_vars

CaseRec(t, e) ==
    LET r == Scan(t, e) IN
    [site |-> e.site, tmpl |-> Str(t), n |-> e.n, g |-> [i \in 1..e.n |-> Str(e.g[i])],
     path |-> Str(e.path), query |-> Str(e.query),
     exp |-> Str(OutChars(r)), l1 |-> Str(L1(t, e)),
     amb |-> r.amb, undef |-> r.undef, straddle |-> Straddle(r, e)]

\* sanity of both layers on the model: a template without '$' is returned unchanged
NoDollarUnchanged ==
    done => \A t \in TemplatesOf(first) : ~HasChar(t, "$") => OutChars(Scan(t, env)) = t /\ L1(t, env) = t

EmitCases == done => \A t \in TemplatesOf(first) : Emit("CASE", CaseRec(t, env))
=============================================================================
