---------------------------- MODULE TemplateLife ----------------------------
(* C42, life-cycle stage: scripts for the REAL staticsources.Handler.

   The bounded model explores every sequence of MaxOps operations (at most MaxFails instance
   failures, each costs one real retry pause) over three source templates and three client
   queries; every behaviour of that length is emitted as a script together with, for every Run the
   source instance will see, what it has to receive according to the statement
   (Template!LifeExp). The harness replays each script on a real Handler with an injected
   instance; TraceTemplate.tla judges what the instance really received.                     *)
EXTENDS Template

CONSTANTS MaxOps, MaxFails

LTmpls   == {Chars("rtsp://h/$G1?$MTX_QUERY"), Chars("rtsp://$G2/x$MTX_QUERY/$G1"), Chars("rtsp://h/$G1/$G2")}
LQueries == {Chars("k=1"), Chars("t=$G1&u=2"), <<>>}
LGroups  == <<Chars("a"), Chars("main")>>
LPath    == Chars("cam_a_main")

Op(k, v) == [k |-> k, v |-> v]
LOps == {Op("Start", q) : q \in LQueries} \cup {Op("Reload", t) : t \in LTmpls}
        \cup {Op("Stop", <<>>), Op("Fail", <<>>), Op("Retry", <<>>)}

VARIABLE life           \* [t0, s (Template!Life state), ops, fails]
lvars == <<life, vars>>

LInit == /\ env = [site |-> "source"] /\ first = "" /\ done = FALSE
         /\ life \in {[t0 |-> t, s |-> LifeInit(t), ops |-> <<>>, fails |-> 0] : t \in LTmpls}
LNext == /\ Len(life.ops) < MaxOps
         /\ \E op \in LOps :
              /\ LifeEnabled(life.s, op)
              /\ op.k = "Fail" => life.fails < MaxFails
              /\ op.k = "Reload" => op.v # life.s.tmpl
              /\ life' = [life EXCEPT !.s = LifeStep(@, op), !.ops = Append(@, op),
                                      !.fails = @ + (IF op.k = "Fail" THEN 1 ELSE 0)]
         /\ UNCHANGED vars
LSpec == LInit /\ [][LNext]_lvars

\* the fold used by the trace module agrees with the step-wise exploration
FoldAgrees == LifeFold(LifeInit(life.t0), life.ops, 1) = life.s

\* the query of a run is the query some Start of the script carried
RunsFollowStarts ==
    \A i \in 1..Len(life.s.runs) : \E j \in 1..Len(life.ops) :
        life.ops[j].k = "Start" /\ life.ops[j].v = life.s.runs[i].query

EmitScripts ==
    Len(life.ops) = MaxOps =>
        Emit("SCRIPT", [t0 |-> Str(life.t0), g |-> [i \in 1..Len(LGroups) |-> Str(LGroups[i])], path |-> Str(LPath),
                        ops |-> [i \in 1..Len(life.ops) |-> [k |-> life.ops[i].k, v |-> Str(life.ops[i].v)]],
                        exp |-> [i \in 1..Len(life.s.runs) |->
                                   LET x == LifeExp(life.s.runs[i], LGroups, LPath)
                                   IN [out |-> Str(x.out), open |-> x.open, l1 |-> Str(x.l1)]]])
=============================================================================
