SPECIFICATION Spec
CONSTANTS MaxPieces = 3  ProfileNames = {"plain", "tricky"}  Ns = {1, 11}
INVARIANT NoDollarUnchanged
INVARIANT EmitCases
CHECK_DEADLOCK FALSE
