SPECIFICATION Spec
CONSTANTS MaxPieces = 4  ProfileNames = {"tricky"}  Ns = {2, 11}
INVARIANT NoDollarUnchanged
INVARIANT EmitCases
CHECK_DEADLOCK FALSE
