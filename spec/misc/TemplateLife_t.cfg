SPECIFICATION LSpec
CONSTANTS MaxPieces = 0  ProfileNames = {}  Ns = {}  MaxOps = 6  MaxFails = 2
INVARIANT FoldAgrees
INVARIANT RunsFollowStarts
INVARIANT EmitScripts
CHECK_DEADLOCK FALSE
