-------------------------- MODULE TraceConfWatcher --------------------------
(* Trace validation for C38. One ndjson record per timing scenario replayed on the REAL
   confwatcher.ConfWatcher (harness internal/confwatcher/zz_verif_c38_test.go), real files, real time:
     run, layout, pred, ops: << [op, gap (nominal ms), s, e (measured, microseconds)] >>,
     signals: << [t, content] >> (when the harness, playing the core, got a signal and what it read),
     exists, final (the watched path at the end of the observation window), loaded (last content read;
     "v0" = the start-up load), obsEnd.
   Verdict = the statement's formula FinalLoadedRec (ConfWatcher.tla) on the record.
   Real time is involved, so a failing record is a verdict only if it is DECISIVE: every operation is
   clear, by margins of at least 5x the code's own tolerances, of every instant at which the watcher's
   behaviour switches (the signal that ends the additional wait - an operation is either finished
   before the client got the signal, or starts >= 5 x additionalWait after it -, the end of the
   minimum interval), the pauses and the observation window were kept, and the model predicts the
   same outcome for every interleaving of the scenario (pred # "mixed"; this covers the races inside
   a group of operations scheduled with gap 0: no signal fell into such a group, so the group was
   atomic for the client as in the model). Anything else is INCONCLUSIVE and is not a verdict.
   One more decisive shape (added after seeded change C38-s3): the FIRST operation of a scenario
   starts on an idle watcher (no event exists before it, no wait is running), so a signal that the
   client receives less than half of additionalWait after that operation STARTED, while the
   operation is a slow write that is still between its truncation and its data, cannot come from
   the loop of confwatcher.go as modelled (WDecide -> sleep AddWait -> WWake): the writer was not
   given the time to complete its job. If such a run also loses the final content it is a verdict of
   its own class (never the minimum-interval class).                                            *)
EXTENDS ConfWatcher

Trace == ndJsonDeserialize("C38_trace.ndjson")

VARIABLE l
TraceInit == l = 0 /\ Init
TraceNext == l < Len(Trace) /\ l' = l + 1 /\ UNCHANGED vars
TraceSpec == TraceInit /\ [][TraceNext]_<<l, vars>>

TickUs        == 10000
MinIntervalUs == MinInterval * TickUs      \* the design's constant, not read from the code
AddWaitUs     == AddWait * TickUs
MarginUs      == 200000                    \* 20 x additionalWait, a fifth of minInterval
WindowUs      == 2900000

NOps(r) == Len(r.ops)
GapsAsPlanned(r) == \A k \in 2..NOps(r) :
    r.ops[k].gap > 0 => LET d == r.ops[k].s - r.ops[k - 1].e
                        IN d >= r.ops[k].gap * 1000 /\ d <= r.ops[k].gap * 1000 + MarginUs
ClearOfSignals(r) == \A k \in 1..NOps(r), j \in 1..Len(r.signals) :
    LET g == r.signals[j].t IN
    \/ r.ops[k].e <= g
    \/ (r.ops[k].s >= g + 5 * AddWaitUs /\ r.ops[k].e <= g + MinIntervalUs - MarginUs)
    \/ r.ops[k].s >= g + MinIntervalUs + MarginUs
WindowKept(r) == r.obsEnd - r.ops[NOps(r)].e >= WindowUs

Why(r) == IF r.pred = "mixed" THEN "the model predicts different outcomes for different interleavings"
          ELSE IF ~GapsAsPlanned(r) THEN "a pause deviated from the plan by more than the margin"
          ELSE IF ~ClearOfSignals(r) THEN "an operation fell within a margin of a switching instant of the watcher"
          ELSE IF ~WindowKept(r) THEN "observation window too short"
          ELSE ""
Decisive(r) == Why(r) = ""

\* (a Touch is not a change of the configuration: it does not count as "the last change")
OpsAfter(r, g) == {k \in 1..NOps(r) : r.ops[k].e > g /\ r.ops[k].op # "Touch"}
Class(r) ==
    IF Len(r.signals) = 0 THEN "no_notification_at_all"
    ELSE LET g == r.signals[Len(r.signals)].t IN
         IF OpsAfter(r, g) = {} THEN "notified_after_the_last_change_but_stale_content"
         ELSE IF \A k \in OpsAfter(r, g) : r.ops[k].s > g /\ r.ops[k].e < g + MinIntervalUs
              THEN "last_change_within_min_interval_of_last_notification"
              ELSE "change_after_min_interval_not_notified"

Holds(r) == FinalLoadedRec(r.exists, r.loaded, r.final)

\* a signal reached the client while the first operation (on an idle watcher) was less than AddWait/2 old
Premature(r) == /\ NOps(r) >= 1 /\ WindowKept(r) /\ GapsAsPlanned(r)
                /\ \E j \in 1..Len(r.signals) :
                      /\ r.signals[j].t > r.ops[1].s
                      /\ r.signals[j].t < r.ops[1].s + (AddWaitUs \div 2)
                      /\ r.signals[j].t < r.ops[1].e

Verdicts == l >= 1 =>
    LET r == Trace[l] IN
    \/ Holds(r)
    \/ IF Premature(r) THEN Emit("BAD", [l |-> l, run |-> r.run, class |-> "notified_before_the_writer_had_additional_wait_to_finish"])
       ELSE IF Decisive(r) THEN Emit("BAD", [l |-> l, run |-> r.run, class |-> Class(r)])
                      ELSE Emit("INCONCLUSIVE", [l |-> l, run |-> r.run, why |-> Why(r), class |-> Class(r)])

\* conformance with the model's prediction (never a verdict)
Drift == l >= 1 =>
    LET r == Trace[l] IN
    \/ ~Decisive(r)
    \/ (r.pred = "loss") = ~Holds(r)
    \/ Emit("DRIFT", [l |-> l, run |-> r.run, pred |-> r.pred, holds |-> Holds(r)])
\* timing quality of the records that hold (for the evidence)
Timing == l >= 1 => (Decisive(Trace[l]) \/ ~Holds(Trace[l]) \/ Emit("LOOSE", [l |-> l, why |-> Why(Trace[l])]))

Accepted == TLCGet("stats").diameter - 1 = Len(Trace)
=============================================================================
