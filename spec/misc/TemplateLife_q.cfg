SPECIFICATION LSpec
CONSTANTS MaxPieces = 0  ProfileNames = {}  Ns = {}  MaxOps = 4  MaxFails = 1
INVARIANT FoldAgrees
INVARIANT RunsFollowStarts
INVARIANT EmitScripts
CHECK_DEADLOCK FALSE
