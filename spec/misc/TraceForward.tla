---------------------------- MODULE TraceForward ----------------------------
(* Trace validation for C39. One ndjson record per walk replayed on the REAL forward.Manager
   (harness internal/forward/zz_verif_c39_test.go):
     run, ops: << [k, l] >>, obs: << [conf, handlers: <<[id, dest, running, run, loops]>>, started, strays: <<id>>] >>
   ops[1] is Initialize; obs[k] is what the harness observed after ops[k] returned.
   TLC evaluates the statement's formulas (Forward.tla layer 2) on every observation / every reload
   step, and separately whether the run is the behaviour of layer 1 (conformance, DRIFT only). *)
EXTENDS Forward

Trace == ndJsonDeserialize("C39_trace.ndjson")

VARIABLE l
TraceInit == l = 0 /\ Init
TraceNext == l < Len(Trace) /\ l' = l + 1 /\ UNCHANGED vars
TraceSpec == TraceInit /\ [][TraceNext]_<<l, vars>>

AsObs(o) == [conf |-> o.conf, handlers |-> o.handlers, started |-> o.started, strays |-> Range(o.strays)]

StepOK(r, k, mon) ==
    LET o == AsObs(r.obs[k]) IN
    CASE mon = "OnePerDest"       -> OnePerDest(o)
      [] mon = "NoneWhileStopped" -> NoneWhileStopped(o)
      [] mon = "Reload"           -> (k > 1 /\ r.ops[k].k = "Reload") => ReloadOK(AsObs(r.obs[k - 1]), o)

Monitors == {"OnePerDest", "NoneWhileStopped", "Reload"}

FirstBad(r, mon) ==
    LET bad == {k \in 1..Len(r.obs) : ~StepOK(r, k, mon)}
    IN IF bad = {} THEN 0 ELSE CHOOSE k \in bad : \A j \in bad : k <= j

RunVerdict(r, ln) ==
    \A mon \in Monitors :
        LET b == FirstBad(r, mon) IN
        Monitor(b = 0, [l |-> ln, run |-> r.run, monitor |-> mon, step |-> b])

\* ---- conformance with layer 1 (never a verdict)
RECURSIVE SpecRun(_, _, _, _)
SpecRun(s, r, k, ok) ==
    IF k > Len(r.ops) THEN ok
    ELSE LET op == r.ops[k]
             n == CASE op.k = "Initialize" -> InitF(op.l)
                    [] op.k = "Start"      -> StartF(s)
                    [] op.k = "Stop"       -> StopF(s)
                    [] op.k = "Reload"     -> ReloadF(s, op.l)
             o == AsObs(r.obs[k])
         IN SpecRun(n, r, k + 1, ok /\ o.handlers = n.handlers /\ o.strays = {} /\ o.started = n.started
                                    /\ \A i \in 1..Len(r.obs[k].pos) : r.obs[k].pos[i] = i)

Conforms(r) == SpecRun(InitF(<<>>), r, 1, TRUE)

Verdicts == l >= 1 => RunVerdict(Trace[l], l)
Drift    == l >= 1 => (Conforms(Trace[l]) \/ Emit("DRIFT", [l |-> l, run |-> Trace[l].run]))
Accepted == TLCGet("stats").diameter - 1 = Len(Trace)
=============================================================================
