SPECIFICATION Spec
CONSTANTS MaxPieces = 3  ProfileNames = {"plain", "tricky", "empty"}  Ns = {0, 1, 2, 11}
INVARIANT NoDollarUnchanged
INVARIANT EmitCases
CHECK_DEADLOCK FALSE
