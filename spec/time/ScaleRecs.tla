------------------------------- MODULE ScaleRecs -------------------------------
(* Placeholder: checks/C24.py overwrites this module (in its scratch copy of spec/) with the calls
   observed on the real code, 40 per variable (Apalache's type checker is quadratic in the length of
   a tuple).  Three calls are kept here so that the module can be checked alone.                 *)
EXTENDS ScaleBig

VARIABLES
  \* @type: Seq(Int);
  j0

\* @type: Seq(Int);
Part0 == <<
  Judge(9223372032559808512, 4294967296, 4294967296, 9223372032559808512),
  Judge(-9223372036854775807, 90000, 1000000000, -830103483316929),
  Judge(123456789012, 1000000000, 90000, 1371742100133333)
>>

Init == j0 = Part0
Next == UNCHANGED <<j0>>
AllExact == AllZero(j0)
=============================================================================
