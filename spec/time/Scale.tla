-------------------------------- MODULE Scale --------------------------------
(* C24  Timestamp scaling is exact.
   The 16 copies of multiplyAndDivide / multiplyAndDivide2 / timestampToDuration /
   durationToTimestamp / durationGoToMp4 / durationMp4ToGo in internal/{stream, recorder,
   ntpestimator, playback, protocols/rtmp, protocols/mpegts, protocols/webrtc, protocols/hls}.

   Layer 2 (MulDiv) is the statement: the mathematically exact product, then the quotient truncated
   toward zero.  Layer 1 (ImplMulDiv) follows the code: split v into whole units and remainder, scale
   both.  Over the integers the two are equal (checked by TLC on the small domain); the code computes
   in 64 bits, which ImplWrap64 models (used by Apalache for conformance only).

   This module is read by TLC (ScaleMC.tla) and by Apalache (ScaleBig.tla): it extends Integers
   only and carries Apalache type annotations.                                              *)
EXTENDS Integers

\* @type: (Int, Int) => Int;
TruncDiv(a, d) == IF a >= 0 THEN a \div d ELSE -((-a) \div d)

\* ---- layer 2: the statement
\* @type: (Int, Int, Int) => Int;
MulDiv(v, m, d) == TruncDiv(v * m, d)

\* ---- layer 1: the code (Go: secs := v / d; dec := v % d; secs*m + dec*m/d), unbounded integers
\* @type: (Int, Int, Int) => Int;
ImplMulDiv(v, m, d) ==
    LET secs == TruncDiv(v, d)
        dec  == v - secs * d          \* Go's remainder has the sign of v
    IN secs * m + TruncDiv(dec * m, d)
=============================================================================
