------------------------------- MODULE ScaleBig -------------------------------
(* C24, 64-bit records for Apalache (TLC integers are 32-bit).  The root module ScaleRecs.tla is
   written by checks/C24.py: for every call (v, m, d) -> out observed on one copy of the helper in the
   REAL code it contains one application Judge(v, m, d, out).  Judge evaluates the statement:

       the exact result is representable  =>  out = MulDiv(v, m, d)

   0  the statement holds and the output is also what the 64-bit model of the code (layer 1) gives
   2  the statement holds, but the output differs from the 64-bit model (conformance drift)
   1  the statement is FALSE; the wrong output is what the 64-bit model predicts (int64 overflow)
   4  the statement is FALSE and the output is not explained by the model
   3  the exact result is not representable (the statement says nothing; the harness should not
      have recorded the input)

   apalache-mc check --length=0 --inv=AllExact ScaleRecs.tla                                  *)
EXTENDS Scale, Sequences

Min64 == -9223372036854775808
Max64 == 9223372036854775807
Two64 == 18446744073709551616

\* @type: (Int) => Bool;
Representable(x) == Min64 <= x /\ x <= Max64

\* two's-complement wrap of the result of an int64 operation
\* @type: (Int) => Int;
Wrap64(x) == ((x - Min64) % Two64) + Min64

\* the code in 64 bits: secs := v / d; dec := v % d; secs*m + dec*m/d
\* @type: (Int, Int, Int) => Int;
ImplWrap64(v, m, d) ==
    LET secs == TruncDiv(v, d)
        dec  == v - secs * d
    IN Wrap64(Wrap64(secs * m) + TruncDiv(Wrap64(dec * m), d))

\* @type: (Int, Int, Int, Int) => Int;
Judge(v, m, d, out) ==
    LET x == MulDiv(v, m, d)
        c == ImplWrap64(v, m, d)
    IN IF ~Representable(x) THEN 3
       ELSE IF out = x THEN (IF out = c THEN 0 ELSE 2)
       ELSE (IF out = c THEN 1 ELSE 4)

\* @type: (Seq(Int)) => Bool;
AllZero(s) == \A i \in DOMAIN s : s[i] = 0
=============================================================================
