------------------------------ MODULE Estimator ------------------------------
(* C25  Absolute timestamps track the wall clock  (internal/ntpestimator/estimator.go)

   Layer 1 (EstF) follows Estimator.Estimate: the first frame anchors (refNTP, refPTS) at the wall
   clock; afterwards computed = refNTP + (pts - refPTS); when computed is after the wall clock or
   more than Window behind it the estimator re-anchors and returns the wall clock.
   In the bounded model time is counted in whole seconds and the clock rate is 1 tick/s, so every
   boundary of the window is hit exactly.

   Layer 2 is the statement, written over what an observer sees of one frame
       [now, pts, out, jumped]       (jumped: the wall clock was stepped since the previous frame)
   with instants given as pairs [s, n] (seconds, nanoseconds) so that the same formulas judge the
   bounded model (n = 0) and traces of the real code with sub-second values (TLC integers are
   32-bit; nanosecond counts do not fit, pairs do).                                              *)
EXTENDS VerifCommon

CONSTANTS Advances,     \* ClockAdvance(k): the clock runs for k seconds
          Jumps,        \* ClockJump(k): the clock is stepped by k seconds (either sign)
          Deltas,       \* Frame(d): a frame arrives whose timestamp is d ticks after the previous one
          MaxSteps

\* alphabets of the bounded models (a TLC configuration file cannot write negative numbers)
JumpsA  == {-1, 6}
DeltasA == {0, 1, -1, 6}
JumpsB  == {-6, 1}
DeltasB == {1, 2, 5, -7}

Window == 5             \* seconds (the statement's "never more than 5 s behind")
Giga   == 1000000000

\* ------------------------------------------------------------------ instants as pairs
T(s) == [s |-> s, n |-> 0]
Norm(s, n) == IF n < 0 THEN [s |-> s - 1, n |-> n + Giga]
              ELSE IF n >= Giga THEN [s |-> s + 1, n |-> n - Giga]
              ELSE [s |-> s, n |-> n]
LE(a, b) == a.s < b.s \/ (a.s = b.s /\ a.n <= b.n)
LT(a, b) == a.s < b.s \/ (a.s = b.s /\ a.n < b.n)
Plus(a, b)  == Norm(a.s + b.s, a.n + b.n)
Minus(a, b) == Norm(a.s - b.s, a.n - b.n)      \* value = s*10^9 + n with 0 <= n < 10^9
Back(a, k)  == [s |-> a.s - k, n |-> a.n]

\* Clock rates the monitors can convert without leaving 32 bits: 10^9/rate = P/Q in lowest terms.
Ratio(rate) == CASE rate = 1     -> [p |-> Giga,   q |-> 1]
                 [] rate = 1000  -> [p |-> 1000000, q |-> 1]
                 [] rate = 8000  -> [p |-> 125000,  q |-> 1]
                 [] rate = 48000 -> [p |-> 62500,   q |-> 3]
                 [] rate = 90000 -> [p |-> 100000,  q |-> 9]

\* d > 0 ticks at `rate` as an instant difference: floor pair plus the remaining fraction num/q of a ns
TicksFloor(d, rate) ==
    LET pq == Ratio(rate)
        r  == d % rate
        a  == r \div pq.q
        b  == r % pq.q
    IN [t   |-> [s |-> d \div rate, n |-> a * pq.p + (b * pq.p) \div pq.q],
        num |-> (b * pq.p) % pq.q]

\* ------------------------------------------------------------------ layer 2: the statement
\* "never later than the wall clock"
NotLater(f) == LE(f.out, f.now)
\* "never more than 5 s behind it"
NotStale(f) == LE(Back(f.now, Window), f.out)

\* "while the clock runs steadily and frame timestamps advance, consecutive absolute timestamps
\*  differ exactly by the frame timestamp difference".  The first two clauses make this impossible
\* when the exact continuation prev.out + (pts difference) would itself be later than the clock or
\* more than 5 s behind it, so the formula demands exactness only where the continuation satisfies
\* them (Feasible).  `exactNs`: every timestamp difference of the run is a whole number of
\* nanoseconds; otherwise "exactly" can only mean "to the tick" and one tick of margin is left at
\* the two ends of the window (the statement does not fix the rounding).
Feasible(p, f, rate, exactNs) ==
    LET fl == TicksFloor(f.pts - p.pts, rate)
        c  == Plus(p.out, fl.t)                      \* floor of the exact continuation
        tk == TicksFloor(1, rate).t
    IN IF exactNs
       THEN LE(c, f.now) /\ LE(Back(f.now, Window), c)
       ELSE LT(Plus(c, tk), f.now) /\ LE(Plus(Back(f.now, Window), tk), c)

Steady(p, f) == ~f.jumped /\ f.pts > p.pts

ExactDiff(p, f, rate, exactNs) ==
    LET fl  == TicksFloor(f.pts - p.pts, rate)
        got == Minus(f.out, p.out)
        pq  == Ratio(rate)
    IN IF exactNs
       THEN fl.num = 0 /\ got = fl.t
       ELSE \* the observed difference, scaled back to ticks, is the timestamp difference
            LET e == Minus(got, fl.t) IN
            /\ e.s \in {-1, 0}
            /\ LET ens == e.s * Giga + e.n IN
               /\ ens >= -(pq.p \div pq.q) /\ ens <= pq.p \div pq.q
               /\ LET x == ens * pq.q - fl.num IN 2 * (IF x < 0 THEN -x ELSE x) < pq.p

Exact(p, f, rate, exactNs) ==
    (Steady(p, f) /\ Feasible(p, f, rate, exactNs)) => ExactDiff(p, f, rate, exactNs)

\* ------------------------------------------------------------------ layer 1: the code, seconds and 1 tick/s
\* st = [init, refNTP, refPTS]; returns the new state plus out
EstF(st, nw, p) ==
    IF ~st.init THEN [init |-> TRUE, refNTP |-> nw, refPTS |-> p, out |-> nw]
    ELSE LET computed == st.refNTP + (p - st.refPTS) IN
         IF computed > nw \/ computed < nw - Window
         THEN [init |-> TRUE, refNTP |-> nw, refPTS |-> p, out |-> nw]
         ELSE [init |-> TRUE, refNTP |-> st.refNTP, refPTS |-> st.refPTS, out |-> computed]

VARIABLES now, pts,                 \* environment: wall clock, timestamp of the last frame
          init, refNTP, refPTS,     \* the estimator
          jumped,                   \* clock stepped since the last frame
          cur, prev, nframes,       \* the last two frame observations
          hist                      \* the environment actions so far
vars == <<now, pts, init, refNTP, refPTS, jumped, cur, prev, nframes, hist>>

NoFrame == [now |-> T(0), pts |-> 0, out |-> T(0), jumped |-> FALSE]

Init == /\ now = 0 /\ pts = 0 /\ init = FALSE /\ refNTP = 0 /\ refPTS = 0
        /\ jumped = FALSE /\ cur = NoFrame /\ prev = NoFrame /\ nframes = 0 /\ hist = <<>>

ClockAdvance(k) ==
    /\ now' = now + k
    /\ hist' = Append(hist, [a |-> "adv", k |-> k])
    /\ UNCHANGED <<pts, init, refNTP, refPTS, jumped, cur, prev, nframes>>

ClockJump(k) ==
    /\ now' = now + k /\ jumped' = TRUE
    /\ hist' = Append(hist, [a |-> "jump", k |-> k])
    /\ UNCHANGED <<pts, init, refNTP, refPTS, cur, prev, nframes>>

Frame(d) ==
    LET p == pts + d
        n == EstF([init |-> init, refNTP |-> refNTP, refPTS |-> refPTS], now, p)
    IN /\ pts' = p /\ init' = n.init /\ refNTP' = n.refNTP /\ refPTS' = n.refPTS
       /\ prev' = cur
       /\ cur' = [now |-> T(now), pts |-> p, out |-> T(n.out), jumped |-> jumped]
       /\ nframes' = nframes + 1 /\ jumped' = FALSE
       /\ hist' = Append(hist, [a |-> "frame", k |-> d])
       /\ UNCHANGED now

Next == /\ Len(hist) < MaxSteps
        /\ \/ \E k \in Advances : ClockAdvance(k)
           \/ \E k \in Jumps : ClockJump(k)
           \/ \E d \in Deltas : Frame(d)
Spec == Init /\ [][Next]_vars

\* layer 1 |= layer 2 on the bounded model
MC_NotLater == nframes >= 1 => NotLater(cur)
MC_NotStale == nframes >= 1 => NotStale(cur)
MC_Exact    == nframes >= 2 => Exact(prev, cur, 1, TRUE)
\* the narrower reading of the third clause (the clock advanced by exactly the timestamp
\* difference): implied by MC_Exact, kept as a separate invariant for the record
MC_ExactLockstep ==
    (nframes >= 2 /\ Steady(prev, cur) /\ Minus(cur.now, prev.now) = T(cur.pts - prev.pts))
        => Minus(cur.out, prev.out) = T(cur.pts - prev.pts)
\* generator: every complete sequence of environment actions that ends with a frame (what is observed
\* of a sequence ending with a clock action is a prefix of what is observed of another sequence)
EmitRuns == (Len(hist) = MaxSteps /\ hist[MaxSteps].a = "frame") => Emit("RUN", [acts |-> hist])
=============================================================================
