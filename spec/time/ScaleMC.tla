------------------------------- MODULE ScaleMC -------------------------------
(* C24, bounded model for TLC: every (v, m, d) of the small domain.  TLC checks layer 1 = layer 2
   and prints one case per input; each case is replayed through every copy of the helper.       *)
EXTENDS Scale, VerifCommon

CONSTANTS MaxV, MaxR          \* v in -MaxV..MaxV, m and d in 1..MaxR

VARIABLES v, m, d
vars == <<v, m, d>>

Init == v \in (-MaxV)..MaxV /\ m \in 1..MaxR /\ d \in 1..MaxR
Next == UNCHANGED vars
Spec == Init /\ [][Next]_vars

ImplIsExact == ImplMulDiv(v, m, d) = MulDiv(v, m, d)
\* sanity of the oracle itself, straight from the words "quotient truncated toward zero":
\* out*d lies between 0 and v*m and is less than d away from it
OracleIsTruncation ==
    LET out == MulDiv(v, m, d)
        p   == v * m
    IN IF p >= 0 THEN out * d <= p /\ p < (out + 1) * d
       ELSE out * d >= p /\ p > (out - 1) * d

EmitCases == Emit("CASE", [v |-> v, m |-> m, d |-> d, out |-> MulDiv(v, m, d)])
=============================================================================
