SPECIFICATION TraceSpec
CONSTANTS
  Advances = {1}
  Jumps = {1}
  Deltas = {1}
  MaxSteps = 1
INVARIANTS Verdicts Drift
POSTCONDITION Accepted
CHECK_DEADLOCK FALSE
