--------------------------- MODULE TraceEstimator ---------------------------
(* Trace validation for C25. One ndjson record per run of the REAL ntpestimator.Estimator with the
   package clock (timeNow) driven by the harness:
     run, src, rate, exactNs, whole,
     frames: << [nowS, nowN, pts, outS, outN, jumped] >>
   Instants are (seconds, nanoseconds) relative to a base chosen by the harness, pts is in ticks of
   `rate` relative to a base timestamp.  TLC evaluates the statement's three formulas
   (Estimator.tla layer 2) on every frame of every run.  Runs whose values are whole seconds and whole
   multiples of the rate (`whole`: the replayed behaviours of the bounded model) are in addition
   compared with layer 1 (conformance; DRIFT, never a verdict).                                  *)
EXTENDS Estimator

Trace == ndJsonDeserialize("C25_trace.ndjson")

VARIABLE l
TraceInit == l = 0 /\ Init
TraceNext == l < Len(Trace) /\ l' = l + 1 /\ UNCHANGED vars
TraceSpec == TraceInit /\ [][TraceNext]_<<l, vars>>

Obs(x) == [now |-> [s |-> x.nowS, n |-> x.nowN], pts |-> x.pts,
           out |-> [s |-> x.outS, n |-> x.outN], jumped |-> x.jumped]

FrameOK(r, k, mon) ==
    CASE mon = "NotLater" -> NotLater(Obs(r.frames[k]))
      [] mon = "NotStale" -> NotStale(Obs(r.frames[k]))
      [] mon = "Exact"    -> k >= 2 => Exact(Obs(r.frames[k-1]), Obs(r.frames[k]), r.rate, r.exactNs)

Monitors == {"NotLater", "NotStale", "Exact"}

FirstBad(r, mon) ==
    LET B == {k \in 1..Len(r.frames) : ~FrameOK(r, k, mon)}
    IN IF B = {} THEN 0 ELSE CHOOSE k \in B : \A j \in B : k <= j

RunVerdict(r, ln) ==
    \A mon \in Monitors :
        LET fb == FirstBad(r, mon) IN
        Monitor(fb = 0, [l |-> ln, run |-> r.run, monitor |-> mon, frame |-> fb])

\* ---- conformance with layer 1 for whole-second runs
RECURSIVE SpecOuts(_, _, _, _)
SpecOuts(st, r, k, acc) ==
    IF k > Len(r.frames) THEN acc
    ELSE LET n == EstF(st, r.frames[k].nowS, r.frames[k].pts \div r.rate)
         IN SpecOuts([init |-> n.init, refNTP |-> n.refNTP, refPTS |-> n.refPTS], r, k + 1,
                     Append(acc, n.out))

Conforms(r) ==
    ~r.whole \/
    LET o == SpecOuts([init |-> FALSE, refNTP |-> 0, refPTS |-> 0], r, 1, <<>>)
    IN \A k \in 1..Len(r.frames) : r.frames[k].outS = o[k] /\ r.frames[k].outN = 0

Verdicts == l >= 1 => RunVerdict(Trace[l], l)
Drift    == l >= 1 => (Conforms(Trace[l]) \/ Emit("DRIFT", [l |-> l, run |-> Trace[l].run]))
Accepted == TLCGet("stats").diameter - 1 = Len(Trace)
=============================================================================
