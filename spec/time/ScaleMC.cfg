SPECIFICATION Spec
CONSTANTS
  MaxV = 40
  MaxR = 6
INVARIANTS ImplIsExact OracleIsTruncation EmitCases
CHECK_DEADLOCK FALSE
