\* Reference configuration (the check writes its own per tier, see checks/C30.py)
SPECIFICATION Spec
CONSTANTS
  CodeUnanchored = FALSE
  CodeNoRange = FALSE
  Zones = {"UTC", "Asia/Kolkata", "America/New_York"}
  AllowTs = TRUE
INVARIANTS TruthLemma IdealPassOK
INVARIANTS EmitUniverse EmitScenarios
CHECK_DEADLOCK FALSE
