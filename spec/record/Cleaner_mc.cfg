\* Reference configuration (the check writes its own per tier, see checks/C30.py)
SPECIFICATION Spec
CONSTANTS
  CodeUnanchored = FALSE
  CodeNoRange = FALSE
  Zones = {"UTC", "Asia/Kolkata", "America/New_York", "Europe/Berlin"}
  FormatKinds = {"chrono", "dayfirst", "timefirst", "unix", "withz", "dirday"}
  AllowTs = TRUE
  AllProfiles = TRUE
INVARIANTS TruthLemma IdealPassOK
INVARIANTS EmitUniverse EmitScenarios
CHECK_DEADLOCK FALSE
