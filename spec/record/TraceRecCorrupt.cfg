SPECIFICATION TraceSpec
CONSTANT MaxParts = 2
INVARIANT Verdicts
POSTCONDITION Accepted
CHECK_DEADLOCK FALSE
