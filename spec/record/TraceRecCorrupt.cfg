SPECIFICATION TraceSpec
CONSTANTS
  MaxParts = 2
  DevTornTailFailsGet = TRUE
  DevTimescaleZeroExits = FALSE
  DevNilTrafBoxExits = FALSE
  DevSampleSizeUnbounded = TRUE
INVARIANT Verdicts
POSTCONDITION Accepted
CHECK_DEADLOCK FALSE
