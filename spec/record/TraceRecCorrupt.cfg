SPECIFICATION TraceSpec
CONSTANTS
  MaxParts = 2
  PartEnds = {1}
  DevTornTailFailsGet = TRUE
  DevTimescaleZeroExits = FALSE
  DevRewritesFailedPart = FALSE
  DevNilTrafBoxExits = FALSE
  DevSampleSizeUnbounded = TRUE
INVARIANT Verdicts
POSTCONDITION Accepted
CHECK_DEADLOCK FALSE
