SPECIFICATION TraceSpec
CONSTANTS
  CodeUnanchored = FALSE
  CodeNoRange = FALSE
  Zones = {"UTC", "Asia/Kolkata", "America/New_York", "Europe/Berlin"}
  FormatKinds = {"chrono", "dayfirst", "timefirst", "unix", "withz", "dirday"}
  AllowTs = TRUE
  AllProfiles = TRUE
INVARIANT Verdicts
INVARIANT Drift
POSTCONDITION Accepted
CHECK_DEADLOCK FALSE
