SPECIFICATION TraceSpec
CONSTANTS
  CodeUnanchored = FALSE
  CodeNoRange = FALSE
  Zones = {"UTC", "Asia/Kolkata", "America/New_York"}
  AllowTs = TRUE
INVARIANT Verdicts
INVARIANT Drift
POSTCONDITION Accepted
CHECK_DEADLOCK FALSE
