\* Reference configuration (the check writes its own per tier, see checks/C26.py)
SPECIFICATION Spec
CONSTANTS
  CodeUnanchored = FALSE
  CodeNoRange = FALSE
  FormatIds = {1,2,3,4,5,6,7,8,9,10,11,12,13,14,15,16,17,18}
  Zones = {"UTC", "Asia/Kolkata", "America/Los_Angeles", "America/New_York"}
  PathIds = {1,2,3,4,5,6,7,8}
  CandZones = {"UTC", "America/New_York"}
  CandPathIds = {2,6}
  CandInstIds = {1,7}
  HistZones = {"America/New_York"}
  HistPathIds = {2}
  HistInstIds = {1,2,6}
INVARIANTS TableConsistent IdealRoundTrip IdealOnlyProducible
INVARIANTS EmitCases EmitHistories
CHECK_DEADLOCK FALSE
