SPECIFICATION CorruptSpec
CONSTANT MaxParts = 2
INVARIANT EmitShapes
CHECK_DEADLOCK FALSE
