SPECIFICATION CorruptSpec
CONSTANTS
  MaxParts = 2
  DevTornTailFailsGet = TRUE
  DevTimescaleZeroExits = FALSE
  DevNilTrafBoxExits = FALSE
  DevSampleSizeUnbounded = TRUE
INVARIANT EmitShapes
CHECK_DEADLOCK FALSE
