SPECIFICATION CorruptSpec
CONSTANTS
  MaxParts = 2
  PartEnds = {1}
  DevTornTailFailsGet = TRUE
  DevTimescaleZeroExits = FALSE
  DevRewritesFailedPart = FALSE
  DevNilTrafBoxExits = FALSE
  DevSampleSizeUnbounded = TRUE
INVARIANT EmitShapes
CHECK_DEADLOCK FALSE
