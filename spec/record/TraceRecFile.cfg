SPECIFICATION TraceSpec
CONSTANT MaxParts = 3
INVARIANT Verdicts
POSTCONDITION Accepted
CHECK_DEADLOCK FALSE
