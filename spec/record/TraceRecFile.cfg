SPECIFICATION TraceSpec
CONSTANTS
  MaxParts = 3
  PartEnds = {1}
  DevTornTailFailsGet = TRUE
  DevTimescaleZeroExits = FALSE
  DevRewritesFailedPart = FALSE
INVARIANT Verdicts
POSTCONDITION Accepted
CHECK_DEADLOCK FALSE
