---------------------------- MODULE TracePlayback ----------------------------
(* Trace validation for C29. One record per history: the media the REAL recorder wrote (runs of
   samples, as fed by the harness and found on disk) and what the REAL playback server answered
   for every list and get window of the case. TLC evaluates the statement's formulas (ListOK,
   GetOK of Playback.tla) on every answer; the expected values are computed here from the
   recorded media, never by the harness.                                                    *)
EXTENDS Playback

Trace == ndJsonDeserialize("C29_trace.ndjson")

VARIABLE l
TraceInit == l = 0 /\ params = [tracks |-> "v", segs |-> <<1>>, gap |-> 0, parts |-> 1, spp |-> 1, layout |-> "chrono"] /\ done = FALSE
TraceNext == l < Len(Trace) /\ l' = l + 1 /\ UNCHANGED vars
TraceSpec == TraceInit /\ [][TraceNext]_<<l, vars>>

Tag(r, op, i, m) == [l |-> l, id |-> r.id, op |-> op, i |-> i, monitor |-> m]

ListVerdict(r, i) ==
    LET o == r.lists[i]
        exp == ListSpec(r.runs, o.s, o.e)
    IN  IF o.status = 200 THEN Monitor(ListOK(r.runs, o.s, o.e, o.spans), Tag(r, "list", i, "spans_exact"))
        ELSE IF o.status = 404 THEN Monitor(exp = <<>>, Tag(r, "list", i, "media_in_window_not_listed"))
        ELSE Monitor(FALSE, Tag(r, "list", i, "error_status"))

GetVerdict(r, i) ==
    LET o == r.gets[i]
    IN  IF o.status = 200
        THEN Monitor(o.parsed /\ o.exact /\ GetOK(r.runs, o.s, o.d, o.got), Tag(r, "get", i, "samples_exact"))
        ELSE IF o.status = 404 THEN Monitor(GetEmpty(r.runs, o.s, o.d), Tag(r, "get", i, "media_in_window_not_served"))
        ELSE Monitor(FALSE, Tag(r, "get", i, "error_status"))

\* conformance with the planned split (layer 1) is information only
PlannedSegs(r) == SumSeq(r.p.segs)

Verdicts ==
    l >= 1 =>
      LET r == Trace[l] IN
        /\ Monitor(r.alive, Tag(r, "server", 0, "alive"))
        /\ r.alive =>
             /\ Monitor(r.unknown = 0 /\ r.runs # <<>>, Tag(r, "recorder", 0, "recorded_what_was_fed"))
             /\ \A i \in 1..Len(r.lists) : ListVerdict(r, i)
             /\ \A i \in 1..Len(r.gets) : GetVerdict(r, i)
             /\ (Len(r.segs) = PlannedSegs(r)) \/ Emit("DRIFT", Tag(r, "recorder", Len(r.segs), "segments_not_as_planned"))
Accepted == TLCGet("stats").diameter - 1 = Len(Trace)
=============================================================================
