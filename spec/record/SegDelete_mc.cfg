\* Reference configuration (the check writes its own per tier, see checks/C31.py)
SPECIFICATION Spec
CONSTANTS
  Zones = {"UTC", "Asia/Kolkata", "America/Los_Angeles", "America/New_York"}
INVARIANTS TableConsistent NamesDistinct IdealDeleteOK
INVARIANTS EmitGroup EmitDeletes
CHECK_DEADLOCK FALSE
