\* Reference configuration (the check writes its own per tier, see checks/C31.py)
SPECIFICATION Spec
CONSTANTS
  CodeUnanchored = FALSE
  CodeNoRange = FALSE
  CodeClientOffset = FALSE
  Zones = {"UTC", "Asia/Kolkata", "America/Los_Angeles", "America/New_York"}
INVARIANTS TableConsistent NamesDistinct IdealDeleteOK
INVARIANTS EmitGroup EmitDeletes
CHECK_DEADLOCK FALSE
