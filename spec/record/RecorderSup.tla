---------------------------- MODULE RecorderSup ----------------------------
(* X02  Recorder supervisor and instance lifecycle
   (internal/recorder/recorder.go Initialize / Close / run, recorder_instance.go initialize / close / run,
    the segment create / complete callbacks of format_fmp4*.go and format_mpegts*.go)

   STATEMENT (what a user of recorder.Recorder relies on; written from the component's purpose, the
   documentation of the record* settings and of the runOnRecordSegmentCreate / runOnRecordSegmentComplete
   hooks, and its interface -- not from the implementation).
   A Recorder is opened with Initialize and closed with Close. While it is open it reads the units of
   one stream and writes them into segment files; it tells its user about every segment through two
   callbacks, OnSegmentCreate(path) when the file has been created and OnSegmentComplete(path, duration)
   when the file is finished.
     S1 Alternate      The callbacks of one recorder strictly alternate, starting with a create: segment
                       k is completed before segment k+1 is created, a complete always carries the path
                       of the create before it; so no complete without a create, none twice, no second
                       create while a segment is open.
     S2 FreshPath      (units carry strictly increasing absolute times) a segment never reuses the path
                       of an earlier segment of the same recorder (os.Create would truncate a recording).
     S3 OneReader      At any time at most one instance of the recorder is attached to the stream and at
                       most one supervisor / instance / reader loop of it runs.
     S4 SegmentClosed  When an instance stops because of an error (time drift, maximum part size, a write
                       or create error) its open segment is closed: whenever the recorder is at rest, a
                       segment that was created and not completed belongs to an instance that is still
                       reading (no error was reported since it was created).
     S5 Restarts       A recorder that is open and at rest has exactly one instance reading the stream:
                       after an error a new instance is started once restartPause has elapsed (while
                       the pause is still running -- "long" pause -- nothing is demanded).
     S6 Recorded       Units written to an open, healthy recorder are recorded: once four consecutive
                       regular units (each one part duration long) have been written since the start,
                       since the restart that followed the last error, or since the directory became
                       writable again, a segment is open at rest (nothing is demanded while a "long"
                       restart pause is running, nor once the disk has been full). Together with S2: after
                       a restart the units go into a NEW segment.
     S7 ClosePrompt    Close returns without waiting for the restart pause: the recorder is never at
                       rest with a Close call pending.
     S8 AfterClose     When Close has returned: every created segment has been completed, no callback,
                       no instance start and no error arrives any more, no reader of the recorder is
                       attached to the stream, none of its loops is left, and the files below the
                       recording directory do not change any more, whatever is written to the stream.
   "At rest" (quiescent): every loop of the recorder is parked and no timer shorter than the run is
   pending. S5..S7 are liveness requirements evaluated at rest (liveness-at-quiescence); on logs of the
   real recorder they, S4 and the "no loop is left" part of S8 are judged only on observations marked sure (confirmed as provably stuck: the same
   blocking waits in five further goroutine dumps over two seconds, a pending Close blocked on r.done);
   the harness confirms every observation that would make one of them false before it logs it, and an
   observation that does not survive the confirmation was not at rest (the harness keeps waiting).

   Layer 1 is code-shaped: one action per critical section / select branch of the three loops
   (supervisor Recorder.run, recorderInstance.run, stream.Reader.run executing the format's OnData
   callback); the restart timer is a separate action; the format is abstracted to what decides the
   callbacks (segment none / pending / open, unwritten part data, the sample fMP4 holds back).
   Named deviations / parameters of the formats:
     Delay      fMP4 holds one sample back (it needs the next one to know the duration): 1, MPEG-TS: 0
     SizeLimit  only fMP4 enforces recordMaxPartSize
     InitLeak   fMP4 calls OnSegmentCreate and then writes the init section; when that write fails it
                closes the file and forgets it: no OnSegmentComplete ever follows, and a later close of
                the same segment object creates the file (and calls OnSegmentCreate) again.
                "fmp4fixed" is fMP4 without this deviation.
   Layer 2 (the formulas S1..S8) is evaluated on event sequences: on the history variable of the
   bounded model (exhaustive MC) and on the event logs of the REAL recorder (TraceRecorderSup.tla).

   Events (uniform records): init(a = long|short), w(a = unit kind), fault(a), closecall, closeret(fs),
   create(p), complete(p), rec (an instance started), err (an instance reported an error),
   q (observation at rest: r readers attached, g reader loops, ig instance loops, sg supervisor loops,
   cp Close pending, fs file system version, sure: confirmed as provably at rest), peek (r sampled at an arbitrary moment).
   Units: n regular (one part duration after the previous one), j a jump of more than the segment
   duration (forces a segment switch), d regular but with the absolute time jumped by 10 s (drift),
   b regular but larger than the maximum part size. A unit is "full" when it was written while the
   disk was full: a segment that starts with it can be created but every write to it fails.        *)
EXTENDS VerifCommon

CONSTANTS MaxW,        \* units written per behaviour
          MaxGen,      \* instances per behaviour
          MaxFault,    \* environment changes per behaviour
          MaxQ,        \* units waiting in the reader's queue
          Kinds, Faults, Pauses, Formats,
          History,     \* keep the event history (layer 2 on the model)
          Discipline,  \* the harness discipline: operations (except a racing Close) only at rest
          CanObserve,  \* observations at rest are steps of the behaviour (q events)
          ObsFirst     \* at rest the harness observes before it acts (keeps the history model small)

NoEv == [k |-> "-", a |-> "", p |-> 0, r |-> 0, g |-> 0, ig |-> 0, sg |-> 0, cp |-> FALSE, fs |-> 0, sure |-> FALSE]
E(k, a, p) == [NoEv EXCEPT !.k = k, !.a = a, !.p = p]

Delay(fm) == IF fm = "mpegts" THEN 0 ELSE 1
SizeLimit(fm) == fm # "mpegts"
InitLeak(fm) == fm = "fmp4"

\* ------------------------------------------------------------------ layer 1a: the format
F0 == [held |-> <<>>, started |-> FALSE, seg |-> "none", pdata |-> FALSE, cur |-> 0, doom |-> FALSE]
Ctx0(f, np, fsv) == [f |-> f, out |-> <<>>, fail |-> FALSE, np |-> np, fsv |-> fsv]

\* os.MkdirAll + os.Create + OnSegmentCreate (fMP4: + the write of the init section)
Mk(c, env, fm) ==
    IF env = "nodir" THEN [c EXCEPT !.fail = TRUE]
    ELSE LET pid == IF c.f.cur = 0 THEN c.np ELSE c.f.cur
             c1 == [c EXCEPT !.out = Append(@, E("create", "", pid)),
                             !.np = IF c.f.cur = 0 THEN c.np + 1 ELSE c.np,
                             !.f.cur = pid,
                             !.fsv = IF c.f.doom THEN @ ELSE @ + 1]
         IN IF c.f.doom /\ InitLeak(fm) THEN [c1 EXCEPT !.fail = TRUE]
            ELSE [c1 EXCEPT !.f.seg = "open"]

Wr(c) == IF c.f.doom THEN [c EXCEPT !.fail = TRUE] ELSE [c EXCEPT !.fsv = @ + 1]

\* closeCurPart / bufio Flush: write the data that is not on disk yet (creating the file first).
\* keep: fMP4's segment.close leaves the part in place when no file could be created.
Flush(c, env, fm, keep) ==
    IF ~c.f.pdata THEN c
    ELSE LET c1 == IF c.f.seg = "pending" THEN Mk(c, env, fm) ELSE c
             c2 == IF c1.fail THEN c1 ELSE Wr(c1)
         IN [c2 EXCEPT !.f.pdata = c2.fail /\ keep /\ c2.f.seg = "pending"]

\* segment.close(): flush, then (if a file exists) close it and call OnSegmentComplete, whatever the flush did
CloseSeg(c, env, fm) ==
    LET c1 == Flush(c, env, fm, Delay(fm) = 1)
    IN IF c1.f.seg = "open"
       THEN [c1 EXCEPT !.out = Append(@, E("complete", "", c1.f.cur)),
                       !.f.seg = "none", !.f.cur = 0, !.f.pdata = FALSE, !.f.doom = FALSE,
                       !.fsv = IF c1.f.doom THEN @ ELSE @ + 1]
       ELSE c1

NewSeg(c, doom) == [c EXCEPT !.f.seg = "pending", !.f.cur = 0, !.f.pdata = FALSE, !.f.doom = doom]

\* fMP4 track.write of the held sample s when its successor x arrives
Sample(c, s, x, env, fm) ==
    IF s.k = "d" /\ c.f.started THEN [c EXCEPT !.fail = TRUE]
    ELSE LET c0 == [c EXCEPT !.f.started = TRUE]
             c1 == IF c0.f.seg = "none" THEN NewSeg(c0, s.full) ELSE c0
             c2 == Flush(c1, env, fm, FALSE)
         IN IF c2.fail THEN c2
            ELSE IF s.k = "b" /\ SizeLimit(fm) THEN [c2 EXCEPT !.f.pdata = TRUE, !.fail = TRUE]
            ELSE LET c3 == [c2 EXCEPT !.f.pdata = TRUE]
                 IN IF x.k = "j"
                    THEN LET c4 == CloseSeg(c3, env, fm)
                         IN IF c4.fail THEN c4 ELSE NewSeg(c4, x.full)
                    ELSE c3

\* MPEG-TS track.write of the arriving unit x
ArriveM(c, x, env, fm) ==
    IF x.k = "d" /\ c.f.started THEN [c EXCEPT !.fail = TRUE]
    ELSE LET c0 == [c EXCEPT !.f.started = TRUE]
             c1 == CASE c0.f.seg = "none" -> NewSeg(c0, x.full)
                     [] c0.f.seg # "none" /\ x.k = "j" ->
                            LET c4 == CloseSeg(c0, env, fm)
                            IN IF c4.fail THEN c4 ELSE NewSeg(c4, x.full)
                     [] OTHER -> Flush(c0, env, fm, FALSE)
         IN IF c1.fail THEN c1 ELSE [c1 EXCEPT !.f.pdata = TRUE]

\* the OnData callback for one unit
Arrive(c, x, env, fm) ==
    IF Delay(fm) = 1
    THEN IF c.f.held = <<>> THEN [c EXCEPT !.f.held = <<x>>]
         ELSE Sample([c EXCEPT !.f.held = <<x>>], c.f.held[1], x, env, fm)
    ELSE ArriveM(c, x, env, fm)

\* format.close(): close the current segment, errors ignored
FormatClose(c, env, fm) == IF c.f.seg = "none" THEN c ELSE CloseSeg(c, env, fm)

\* ------------------------------------------------------------------ layer 2: the statement
Idx(ev) == 1..Len(ev)
Count(ev, i, kind) == Cardinality({j \in 1..i : ev[j].k = kind})
OpenAt(ev, i) == Count(ev, i, "create") - Count(ev, i, "complete")
LastIdx(ev, i, kinds) == LET s == {j \in 1..i : ev[j].k \in kinds}
                         IN IF s = {} THEN 0 ELSE CHOOSE j \in s : \A m \in s : m <= j
FirstIdxAfter(ev, i, kinds) == LET s == {j \in (i + 1)..Len(ev) : ev[j].k \in kinds}
                               IN IF s = {} THEN 0 ELSE CHOOSE j \in s : \A m \in s : j <= m
CloseRetAt(ev) == FirstIdxAfter(ev, 0, {"closeret"})
LongPause(ev) == \E j \in Idx(ev) : ev[j].k = "init" /\ ev[j].a = "long"
\* path of the segment that is open after event i (0: none)
LastCreate(ev, i) == LastIdx(ev, i, {"create"})

Monitors == {"Alternate", "FreshPath", "OneReader", "SegmentClosed", "Restarts", "Recorded", "ClosePrompt",
             "CloseBalanced", "CloseSilent", "CloseDetached", "CloseFiles"}     \* the last four are S8 AfterClose

\* S6: the regular units written since the recorder became healthy
Boundary(e) == e.k \in {"init", "err", "fault", "closecall", "closeret"} \/ (e.k = "w" /\ e.a # "n")
RegularSince(ev, i) ==
    LET \* the last boundary event: the last event before i of a boundary kind that is not a regular unit
        bs == {j \in 1..(i - 1) : Boundary(ev[j])}
        bb == IF bs = {} THEN 0 ELSE CHOOSE j \in bs : \A m \in bs : m <= j
        \* after an error or an environment change the recorder must have been at rest once
        start == IF bb > 0 /\ ev[bb].k \in {"err", "fault"} THEN FirstIdxAfter(ev, bb, {"q"}) ELSE bb
    IN IF bb = 0 \/ start = 0 \/ start >= i THEN 0
       ELSE Cardinality({j \in (start + 1)..(i - 1) : ev[j].k = "w" /\ ev[j].a = "n"})
Healthy(ev, i) ==
    /\ \A j \in 1..i : ev[j].k = "fault" => ev[j].a # "full"
    /\ LET lf == LastIdx(ev, i, {"fault"}) IN lf = 0 \/ ev[lf].a = "ok"
    /\ \A j \in 1..i : ev[j].k \notin {"closecall", "closeret"}

Holds(mon, ev, i) ==
    LET e == ev[i] IN
    CASE mon = "Alternate" ->
            /\ e.k = "create" => OpenAt(ev, i - 1) = 0
            /\ e.k = "complete" => /\ OpenAt(ev, i - 1) = 1
                                   /\ LastCreate(ev, i) > 0 /\ ev[LastCreate(ev, i)].p = e.p
      [] mon = "FreshPath" ->
            e.k = "create" => \A j \in 1..(i - 1) : ev[j].k = "create" => ev[j].p # e.p
      [] mon = "OneReader" ->
            /\ e.k \in {"q", "peek"} => e.r <= 1
            /\ e.k = "q" => e.g <= 1 /\ e.ig <= 1 /\ e.sg <= 1
      [] mon = "SegmentClosed" ->
            (e.k = "q" /\ e.sure /\ OpenAt(ev, i) > 0) =>
                /\ \A j \in LastCreate(ev, i)..i : ev[j].k # "err"
                /\ e.r = 1
      [] mon = "Restarts" ->
            (/\ e.k = "q" /\ e.sure
             /\ \A j \in 1..i : ev[j].k \notin {"closecall", "closeret"}
             /\ ~(LongPause(ev) /\ \E j \in 1..i : ev[j].k = "err")) => e.r = 1 /\ e.g = 1
      [] mon = "Recorded" ->
            (/\ e.k = "q" /\ e.sure /\ Healthy(ev, i) /\ RegularSince(ev, i) >= 4
             /\ ~(LongPause(ev) /\ \E j \in 1..i : ev[j].k = "err")) => OpenAt(ev, i) = 1 /\ e.r = 1
      [] mon = "ClosePrompt" ->
            (e.k = "q" /\ e.sure) => ~e.cp
      [] mon = "CloseBalanced" ->
            LET c == CloseRetAt(ev) IN i = c => OpenAt(ev, c) = 0
      [] mon = "CloseSilent" ->
            LET c == CloseRetAt(ev) IN (c > 0 /\ i > c) => e.k \notin {"create", "complete", "rec", "err"}
      [] mon = "CloseDetached" ->
            LET c == CloseRetAt(ev) IN
            (c > 0 /\ i > c) => /\ e.k \in {"q", "peek"} => e.r = 0
                                /\ (e.k = "q" /\ e.sure) => e.g = 0 /\ e.ig = 0 /\ e.sg = 0
      [] mon = "CloseFiles" ->
            LET c == CloseRetAt(ev) IN (c > 0 /\ i > c /\ e.k = "q") => e.fs = ev[c].fs

\* ------------------------------------------------------------------ layer 1b: the three loops
VARIABLES fm,        \* record format
          phase,     \* the user's view: new | open | closing (Close called) | closed (Close returned)
          sup,       \* Recorder.run: none | watch (first select) | join (waits for the instance after
                     \*   terminate) | pause (second select) | start (inside currentInstance.initialize) | done
          inst,      \* current recorderInstance: none | starting (initialize: format set up, not attached yet) |
                     \*   reading (run: select) | unreg (a branch was taken,
                     \*   RemoveReader next) | join (reader being stopped, format.close next) | stopped
          iterm,     \* the instance's terminate channel is closed
          rerr,      \* the reader loop ended with an error of the OnData callback
          q,         \* units waiting in the reader's ring buffer
          f,         \* format state of the current instance
          pend,      \* events the component is about to emit (callbacks / log lines of the running critical section)
          env,       \* ok | nodir | full
          pauseLong, \* the restart pause never ends during the behaviour
          gen, readers, nextp, fsv, nw, nfault,
          obsd,      \* the harness has observed the current state at rest
          out,       \* the event emitted by the last step (NoEv: silent)
          hist       \* history of events (History only)
vars == <<fm, phase, sup, inst, iterm, rerr, q, f, pend, env, pauseLong, gen, readers, nextp, fsv,
          nw, nfault, obsd, out, hist>>

Init == /\ fm \in Formats /\ phase = "new" /\ sup = "none" /\ inst = "none" /\ iterm = FALSE
        /\ rerr = FALSE /\ q = <<>> /\ f = F0 /\ pend = <<>> /\ env = "ok" /\ pauseLong = FALSE
        /\ gen = 0 /\ readers = 0 /\ nextp = 1 /\ fsv = 0 /\ nw = 0 /\ nfault = 0 /\ obsd = FALSE
        /\ out = NoEv /\ hist = <<>>

Log(e) == /\ out' = e
          /\ hist' = IF History /\ e.k # "-" THEN Append(hist, e) ELSE hist

\* nothing of the component can move without the environment (a short pause is a pending timer)
Quiescent ==
    /\ pend = <<>>
    /\ ~(inst = "reading" /\ ((~rerr /\ q # <<>>) \/ rerr \/ iterm))
    /\ inst \notin {"unreg", "join", "starting"}
    /\ ~(sup = "watch" /\ (inst = "stopped" \/ phase = "closing"))
    /\ ~(sup = "join" /\ inst = "stopped")
    /\ ~(sup = "pause" /\ (~pauseLong \/ phase = "closing"))
    /\ ~(phase = "closing" /\ sup = "done")

QEv == [NoEv EXCEPT !.k = "q", !.r = readers,
                    !.g = IF inst = "reading" /\ ~rerr THEN 1 ELSE 0,
                    !.ig = IF inst \in {"reading", "unreg", "join"} THEN 1 ELSE 0,
                    !.sg = IF sup \in {"watch", "join", "pause", "start"} THEN 1 ELSE 0,
                    !.cp = (phase = "closing"), !.fs = fsv, !.sure = TRUE]

\* the harness works at rest and looks before it acts
MayAct == IF Quiescent THEN (obsd \/ ~ObsFirst) ELSE ~Discipline

\* ---- the user (harness)
\* Initialize: the first instance is created and attached synchronously, then the supervisor loop starts
Initialize(pl, x) ==
    /\ x = fm
    /\ phase = "new" /\ phase' = "open" /\ pauseLong' = (pl = "long")
    /\ sup' = "watch" /\ inst' = "reading" /\ readers' = readers + 1 /\ gen' = 1 /\ f' = F0
    /\ pend' = <<E("rec", "", 0)>> /\ obsd' = FALSE
    /\ Log(E("init", pl, 0))
    /\ UNCHANGED <<fm, iterm, rerr, q, env, nextp, fsv, nw, nfault>>

\* a unit written to the stream reaches the queue of every attached reader
W(k) ==
    /\ phase \in {"open", "closing", "closed"} /\ nw < MaxW /\ MayAct
    /\ Len(q) < MaxQ
    /\ q' = IF inst \in {"reading", "unreg"} THEN Append(q, [k |-> k, full |-> (env = "full")]) ELSE q
    /\ nw' = nw + 1 /\ obsd' = FALSE
    /\ Log(E("w", k, 0))
    /\ UNCHANGED <<fm, phase, sup, inst, iterm, rerr, f, pend, env, pauseLong, gen, readers, nextp, fsv, nfault>>

Fault(x) ==
    /\ phase = "open" /\ x # env /\ nfault < MaxFault /\ MayAct
    /\ env' = x /\ nfault' = nfault + 1 /\ obsd' = FALSE
    /\ Log(E("fault", x, 0))
    /\ UNCHANGED <<fm, phase, sup, inst, iterm, rerr, q, f, pend, pauseLong, gen, readers, nextp, fsv, nw>>

\* Close: close(r.terminate); the label says whether the harness called it at rest
CloseCall(quiet) ==
    /\ phase = "open" /\ quiet = Quiescent /\ (quiet => obsd \/ ~ObsFirst)
    /\ phase' = "closing" /\ obsd' = FALSE
    /\ Log(E("closecall", "", 0))
    /\ UNCHANGED <<fm, sup, inst, iterm, rerr, q, f, pend, env, pauseLong, gen, readers, nextp, fsv, nw, nfault>>

\* <-r.done
CloseRet ==
    /\ phase = "closing" /\ sup = "done"
    /\ phase' = "closed" /\ obsd' = FALSE
    /\ Log([E("closeret", "", 0) EXCEPT !.fs = fsv])
    /\ UNCHANGED <<fm, sup, inst, iterm, rerr, q, f, pend, env, pauseLong, gen, readers, nextp, fsv, nw, nfault>>

Observe ==
    /\ CanObserve /\ phase # "new" /\ Quiescent /\ (~obsd \/ ~ObsFirst)
    /\ obsd' = TRUE
    /\ Log(QEv)
    /\ UNCHANGED <<fm, phase, sup, inst, iterm, rerr, q, f, pend, env, pauseLong, gen, readers, nextp, fsv, nw, nfault>>

\* ---- the component
\* whoever runs a critical section emits its callbacks / log lines one by one
EmitOne ==
    /\ pend # <<>>
    /\ pend' = Tail(pend) /\ obsd' = FALSE
    /\ Log(Head(pend))
    /\ UNCHANGED <<fm, phase, sup, inst, iterm, rerr, q, f, env, pauseLong, gen, readers, nextp, fsv, nw, nfault>>

\* stream.Reader.run: pull one unit, run the format's OnData callback; an error ends the loop
ProcUnit ==
    /\ inst \in {"reading", "unreg"} /\ ~rerr /\ q # <<>> /\ pend = <<>>
    /\ LET c == Arrive(Ctx0(f, nextp, fsv), Head(q), env, fm)
       IN /\ f' = c.f /\ pend' = c.out /\ rerr' = c.fail /\ nextp' = c.np /\ fsv' = c.fsv
    /\ q' = Tail(q) /\ obsd' = FALSE
    /\ Log(NoEv)
    /\ UNCHANGED <<fm, phase, sup, inst, iterm, env, pauseLong, gen, readers, nw, nfault>>

\* recorderInstance.run, select: case err := <-ri.reader.Error(): log it
InstSelectErr ==
    /\ inst = "reading" /\ rerr /\ pend = <<>>
    /\ inst' = "unreg" /\ pend' = <<E("err", "", 0)>> /\ obsd' = FALSE
    /\ Log(NoEv)
    /\ UNCHANGED <<fm, phase, sup, iterm, rerr, q, f, env, pauseLong, gen, readers, nextp, fsv, nw, nfault>>

\* recorderInstance.run, select: case <-ri.terminate
InstSelectTerm ==
    /\ inst = "reading" /\ iterm
    /\ inst' = "unreg" /\ obsd' = FALSE
    /\ Log(NoEv)
    /\ UNCHANGED <<fm, phase, sup, iterm, rerr, q, f, pend, env, pauseLong, gen, readers, nextp, fsv, nw, nfault>>

\* stream.RemoveReader: detach (the queue is discarded), then wait for the reader loop
InstRemove ==
    /\ inst = "unreg" /\ (IF pend = <<>> THEN TRUE ELSE pend[1].k # "err")
    /\ inst' = "join" /\ readers' = readers - 1 /\ q' = <<>> /\ obsd' = FALSE
    /\ Log(NoEv)
    /\ UNCHANGED <<fm, phase, sup, iterm, rerr, f, pend, env, pauseLong, gen, nextp, fsv, nw, nfault>>

\* the reader loop has ended: format.close(), close(ri.done)
InstJoin ==
    /\ inst = "join" /\ pend = <<>>
    /\ LET c == FormatClose(Ctx0(f, nextp, fsv), env, fm)
       IN /\ f' = c.f /\ pend' = c.out /\ nextp' = c.np /\ fsv' = c.fsv
    /\ inst' = "stopped" /\ obsd' = FALSE
    /\ Log(NoEv)
    /\ UNCHANGED <<fm, phase, sup, iterm, rerr, q, env, pauseLong, gen, readers, nw, nfault>>

\* Recorder.run, first select: case <-r.currentInstance.done: currentInstance.close()
SupInstDone ==
    /\ sup = "watch" /\ inst = "stopped" /\ pend = <<>>
    /\ sup' = "pause" /\ iterm' = TRUE /\ obsd' = FALSE
    /\ Log(NoEv)
    /\ UNCHANGED <<fm, phase, inst, rerr, q, f, pend, env, pauseLong, gen, readers, nextp, fsv, nw, nfault>>

\* Recorder.run, first select: case <-r.terminate: currentInstance.close() (signal, then wait)
SupTerm ==
    /\ sup = "watch" /\ phase = "closing"
    /\ sup' = "join" /\ iterm' = TRUE /\ obsd' = FALSE
    /\ Log(NoEv)
    /\ UNCHANGED <<fm, phase, inst, rerr, q, f, pend, env, pauseLong, gen, readers, nextp, fsv, nw, nfault>>

SupJoin ==
    /\ sup = "join" /\ inst = "stopped" /\ pend = <<>>
    /\ sup' = "done" /\ obsd' = FALSE
    /\ Log(NoEv)
    /\ UNCHANGED <<fm, phase, inst, iterm, rerr, q, f, pend, env, pauseLong, gen, readers, nextp, fsv, nw, nfault>>

\* Recorder.run, second select: case <-time.After(r.restartPause): a new instance is created and attached
PauseExpire ==
    /\ sup = "pause" /\ ~pauseLong /\ gen < MaxGen
    /\ sup' = "start" /\ inst' = "starting" /\ iterm' = FALSE /\ rerr' = FALSE /\ q' = <<>> /\ f' = F0
    /\ gen' = gen + 1 /\ pend' = <<E("rec", "", 0)>> /\ obsd' = FALSE
    /\ Log(NoEv)
    /\ UNCHANGED <<fm, phase, env, pauseLong, readers, nextp, fsv, nw, nfault>>

\* recorderInstance.initialize, after the format has been set up (and has logged "recording ..."):
\* stream.AddReader, go ri.run(); the supervisor goes back to its first select
InstAttach ==
    /\ sup = "start" /\ inst = "starting" /\ pend = <<>>
    /\ sup' = "watch" /\ inst' = "reading" /\ readers' = readers + 1 /\ obsd' = FALSE
    /\ Log(NoEv)
    /\ UNCHANGED <<fm, phase, iterm, rerr, q, f, pend, env, pauseLong, gen, nextp, fsv, nw, nfault>>

\* Recorder.run, second select: case <-r.terminate: return
PauseTerm ==
    /\ sup = "pause" /\ phase = "closing"
    /\ sup' = "done" /\ obsd' = FALSE
    /\ Log(NoEv)
    /\ UNCHANGED <<fm, phase, inst, iterm, rerr, q, f, pend, env, pauseLong, gen, readers, nextp, fsv, nw, nfault>>

Component == EmitOne \/ ProcUnit \/ InstSelectErr \/ InstSelectTerm \/ InstRemove \/ InstJoin
             \/ SupInstDone \/ SupTerm \/ SupJoin \/ PauseExpire \/ InstAttach \/ PauseTerm
User == (\E pl \in Pauses, x \in Formats : Initialize(pl, x)) \/ (\E k \in Kinds : W(k)) \/ (\E x \in Faults : Fault(x))
        \/ (\E b \in BOOLEAN : CloseCall(b)) \/ CloseRet \/ Observe
Next == User \/ Component
Spec == Init /\ [][Next]_vars

\* ---- the statement on the model
InvStatement == (out.k # "-" /\ Len(hist) > 0) => \A mon \in Monitors : Holds(mon, hist, Len(hist))
\* state-based companions (also checked without history)
InvOneReader == readers <= 1
InvClosed == phase = "closed" => readers = 0 /\ sup = "done" /\ inst \in {"stopped", "none"} /\ f.seg # "open" /\ pend = <<>>
InvNoHang == ~(Quiescent /\ phase = "closing")
InvRestarts == (Quiescent /\ phase = "open" /\ ~(sup = "pause" /\ pauseLong)) => inst = "reading" /\ readers = 1
TypeOK == /\ phase \in {"new", "open", "closing", "closed"}
          /\ sup \in {"none", "watch", "join", "pause", "start", "done"}
          /\ inst \in {"none", "starting", "reading", "unreg", "join", "stopped"}
          /\ f.seg \in {"none", "pending", "open"} /\ readers \in 0..2 /\ Len(q) <= MaxQ /\ Len(pend) <= 3

\* state graph for the edge-covering walks: counters and identities abstracted away
GenView == <<fm, phase, sup, inst, iterm, rerr, q, [f EXCEPT !.cur = IF f.cur = 0 THEN 0 ELSE 1],
             [i \in 1..Len(pend) |-> pend[i].k], env, pauseLong, gen, readers, obsd>>
\* a coarser graph for the quick tier (labels of unobservable steps are ignored by the replay anyway)
GenViewCoarse == <<fm, phase, sup, inst, rerr, q # <<>>, f.seg, f.pdata, f.doom,
                   IF f.held = <<>> THEN "" ELSE f.held[1].k, pend # <<>>, env, pauseLong, gen>>
=============================================================================
