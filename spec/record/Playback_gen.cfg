SPECIFICATION Spec
CONSTANTS
  TrackSets = {"v", "va", "a"}
  MaxRuns = 2
  Gaps = {0, 250}
  MaxSegs = 3
  MaxParts = 2
  SPPs = {1, 2}
  Layouts = {"chrono", "dayfirst", "timefirst"}
  CrossLayouts = FALSE
INVARIANT EmitCases
CHECK_DEADLOCK FALSE
