SPECIFICATION Spec
CONSTANTS
  TrackSets = {"v", "va", "a"}
  MaxRuns = 2
  Gaps = {0, 250}
  MaxSegs = 3
  MaxParts = 2
  SPPs = {1, 2}
INVARIANT EmitCases
CHECK_DEADLOCK FALSE
