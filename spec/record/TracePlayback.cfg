SPECIFICATION TraceSpec
CONSTANTS
  TrackSets = {}
  MaxRuns = 1
  Gaps = {}
  MaxSegs = 1
  MaxParts = 1
  SPPs = {}
INVARIANT Verdicts
POSTCONDITION Accepted
CHECK_DEADLOCK FALSE
