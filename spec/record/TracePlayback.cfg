SPECIFICATION TraceSpec
CONSTANTS
  TrackSets = {}
  MaxRuns = 1
  Gaps = {}
  MaxSegs = 1
  MaxParts = 1
  SPPs = {}
  Layouts = {"chrono"}
  CrossLayouts = FALSE
INVARIANT Verdicts
POSTCONDITION Accepted
CHECK_DEADLOCK FALSE
