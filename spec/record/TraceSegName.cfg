SPECIFICATION TraceSpec
CONSTANTS
  CodeUnanchored = FALSE
  CodeNoRange = FALSE
  FormatIds = {1}
  Zones = {"UTC", "Asia/Kolkata", "America/Los_Angeles", "America/New_York"}
  PathIds = {1}
  CandZones = {"UTC", "America/New_York"}
  CandPathIds = {1}
  CandInstIds = {1}
  HistZones = {"UTC"}
  HistPathIds = {1}
  HistInstIds = {1}
INVARIANT Verdicts
INVARIANT Drift
POSTCONDITION Accepted
CHECK_DEADLOCK FALSE
