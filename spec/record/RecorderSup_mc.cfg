SPECIFICATION Spec
CONSTANTS
  MaxW = 4
  MaxGen = 2
  MaxFault = 1
  MaxQ = 2
  Kinds = {"n", "j", "d", "b"}
  Faults = {"ok", "nodir", "full"}
  Pauses = {"long", "short"}
  Formats = {"fmp4fixed", "mpegts"}
  History = TRUE
  Discipline = FALSE
  CanObserve = TRUE
  ObsFirst = TRUE
INVARIANTS TypeOK InvStatement InvOneReader InvClosed InvNoHang InvRestarts
CHECK_DEADLOCK FALSE
