------------------------------ MODULE RecFile ------------------------------
(* C27  Recordings are playable up to the last complete part at any crash point
   (C28 extends this module with structural corruptions: RecCorrupt.tla)

   One fMP4 segment file as the recorder writes it (internal/recorder/format_fmp4_segment.go):
     unit 0      header  = ftyp box + moov box, one write         (writeInit)
     unit i >= 1 part i  = moof box + mdat box, one write         (writePart)
     after the last part: the duration patch (mvhd.DurationV0 rewritten in place) and Close.
   A unit is four zones: the 8-byte box header and the body of each of its two boxes. The disk is
   a sequence of cells, one per zone, tagged ok / torn (a strict, non-empty prefix of the zone's
   bytes) / zero / garbage. A crash keeps the cells written so far, possibly tears the cell in
   flight, and fills the rest of the write in flight by the tail mode: cut (nothing), zero-filled
   or garbage up to the length of the write.

   Layer 1 is the writer (the actions below) and the reader the statement asks for (Served).
   Layer 2 are the statement's formulas: Shape, ServesComplete, LostInLastPart, and for
   normally closed segments TrueDuration / StartsWithSync / Continuous (evaluated on recorded
   segments in TraceRecFile.tla; the writer model knows no time).                            *)
EXTENDS VerifCommon

CONSTANTS MaxParts          \* parts per segment in the bounded model

Modes == {"cut", "zero", "garbage"}
HdrZones  == <<"ftyp.h", "ftyp.b", "moov.h", "moov.b">>
PartZones == <<"moof.h", "moof.b", "mdat.h", "mdat.b">>
ZoneName(u, z) == IF u = 0 THEN HdrZones[z] ELSE PartZones[z]

Cell(u, z, st) == [u |-> u, z |-> z, st |-> st]
UnitCells(u)   == [z \in 1..4 |-> Cell(u, z, "ok")]

VARIABLES
    pc,        \* "new" | "writing" | "idle" | "patched" | "closed"
    disk,      \* sequence of cells
    flight,    \* cells of the write in flight that are not on the disk yet
    nunits,    \* units whose write has completed (header counts)
    patch,     \* bytes of the 4-byte duration field that carry the final value (0..4)
    crashed,   \* a crash has happened (terminal)
    cls        \* description of the crash point (meaningful when crashed)
vars == <<pc, disk, flight, nunits, patch, crashed, cls>>

NoClass == [k |-> 0, z |-> 0, torn |-> FALSE, mode |-> "cut", stage |-> "none"]

Init ==
    /\ pc = "new" /\ disk = <<>> /\ flight = <<>> /\ nunits = 0 /\ patch = 0
    /\ crashed = FALSE /\ cls = NoClass

StartUnit ==
    /\ ~crashed /\ pc \in {"new", "idle"} /\ nunits <= MaxParts
    /\ flight' = UnitCells(nunits) /\ pc' = "writing"
    /\ UNCHANGED <<disk, nunits, patch, crashed, cls>>

WriteCell ==
    /\ ~crashed /\ pc = "writing" /\ flight # <<>>
    /\ disk' = Append(disk, Head(flight)) /\ flight' = Tail(flight)
    /\ UNCHANGED <<pc, nunits, patch, crashed, cls>>

FinishUnit ==
    /\ ~crashed /\ pc = "writing" /\ flight = <<>>
    /\ pc' = "idle" /\ nunits' = nunits + 1
    /\ UNCHANGED <<disk, flight, patch, crashed, cls>>

\* the recorder patches the duration only when it closes a segment that has at least one part
PatchDuration ==
    /\ ~crashed /\ pc = "idle" /\ nunits >= 2
    /\ patch' = 4 /\ pc' = "patched"
    /\ UNCHANGED <<disk, flight, nunits, crashed, cls>>

Close ==
    /\ ~crashed /\ pc = "patched" /\ pc' = "closed"
    /\ UNCHANGED <<disk, flight, nunits, patch, crashed, cls>>

Filler(mode, cells) ==
    IF mode = "cut" THEN <<>> ELSE [i \in 1..Len(cells) |-> Cell(cells[i].u, cells[i].z, mode)]

\* crash while a unit is being written: the cell in flight may be torn
CrashWriting(mode, torn) ==
    /\ ~crashed /\ pc = "writing" /\ flight # <<>>
    /\ (torn \/ Len(flight) < 4)       \* nothing written yet and nothing torn = CrashIdle
    /\ crashed' = TRUE
    /\ LET c == Head(flight)
           rest == IF torn THEN Tail(flight) ELSE flight
           first == IF torn THEN <<Cell(c.u, c.z, "torn")>> ELSE <<>>
           tornfill == IF torn /\ mode # "cut" THEN <<Cell(c.u, c.z, mode)>> ELSE <<>>
       IN /\ disk' = disk \o first \o tornfill \o Filler(mode, rest)
          /\ cls' = [k |-> nunits, z |-> c.z, torn |-> torn, mode |-> mode, stage |-> "rec"]
    /\ UNCHANGED <<pc, flight, nunits, patch>>

\* crash between writes (nothing in flight); an allocated-but-unwritten tail may still follow
CrashIdle(mode) ==
    /\ ~crashed /\ pc \in {"new", "idle", "patched"} /\ flight = <<>>
    /\ crashed' = TRUE
    /\ disk' = disk \o (IF mode = "cut" THEN <<>> ELSE <<Cell(nunits, 0, mode)>>)
    /\ cls' = [k |-> nunits, z |-> 0, torn |-> FALSE, mode |-> mode,
               stage |-> IF pc = "patched" THEN "patched" ELSE IF pc = "new" THEN "new" ELSE "rec"]
    /\ UNCHANGED <<pc, flight, nunits, patch>>

\* crash inside the in-place duration patch: j of the 4 bytes carry the new value
CrashPatch(j) ==
    /\ ~crashed /\ pc = "idle" /\ nunits >= 2 /\ j \in 1..3
    /\ crashed' = TRUE /\ patch' = j
    /\ cls' = [k |-> nunits, z |-> 0, torn |-> TRUE, mode |-> "cut", stage |-> "patchtorn"]
    /\ UNCHANGED <<pc, disk, flight, nunits>>

Next ==
    \/ StartUnit \/ WriteCell \/ FinishUnit \/ PatchDuration \/ Close
    \/ \E m \in Modes, t \in BOOLEAN : CrashWriting(m, t)
    \/ \E m \in Modes : CrashIdle(m)
    \/ \E j \in 1..3 : CrashPatch(j)
Spec == Init /\ [][Next]_vars

\* ---------------------------------------------------------------- the reader the statement asks for
OkCellsOf(d, u) == { i \in 1..Len(d) : d[i].u = u /\ d[i].st = "ok" /\ d[i].z \in 1..4 }
UnitComplete(d, u) == Cardinality({ d[i].z : i \in OkCellsOf(d, u) }) = 4
HeaderOK(d) == UnitComplete(d, 0)
RECURSIVE CompletePrefix(_, _)
CompletePrefix(d, u) == IF u <= MaxParts + 1 /\ UnitComplete(d, u) THEN CompletePrefix(d, u + 1) ELSE u
\* number of complete units at the start of the file (header included)
CompleteUnits(d) == CompletePrefix(d, 0)
\* the parts playback has to serve
Served(d) == IF HeaderOK(d) THEN 1..(CompleteUnits(d) - 1) ELSE {}

\* ---------------------------------------------------------------- layer 2: the statement
\* "each segment on disk is a valid header followed by complete parts and at most one incomplete tail"
\* (when the crash hits the header write, the incomplete tail is the header itself)
Shape ==
    crashed =>
      LET c == CompleteUnits(disk) IN
        /\ \A i \in 1..(4 * c) : disk[i].st = "ok" /\ disk[i].u = (i - 1) \div 4 /\ disk[i].z = ((i - 1) % 4) + 1
        /\ \A i \in (4 * c + 1)..Len(disk) : disk[i].u = c
\* "playback serves every complete part": exactly the parts whose write had completed
ServesComplete == crashed => Served(disk) = 1..(nunits - 1)
\* "the media lost is bounded by the last part": whatever had been handed to the disk and is not
\* served belongs to the single write that was in flight
LostInLastPart ==
    crashed =>
      LET handed == { disk[i].u : i \in 1..Len(disk) } \cup { flight[i].u : i \in 1..Len(flight) }
      IN  \A u \in handed : u >= 1 /\ u \notin Served(disk) => u = nunits
\* the duration is final only once the whole field has been rewritten after the last part
PatchAfterParts == (patch > 0) => (flight = <<>> /\ nunits >= 2)
TypeOK ==
    /\ pc \in {"new", "writing", "idle", "patched", "closed"}
    /\ nunits \in 0..(MaxParts + 1) /\ patch \in 0..4 /\ crashed \in BOOLEAN

\* ---------------------------------------------------------------- generator: the crash classes
\* one class per (complete units, zone in flight, torn?, tail mode, closing stage), with what the
\* statement requires of playback for it
ClassOf == [k |-> cls.k, z |-> cls.z, zone |-> IF cls.z = 0 THEN "-" ELSE ZoneName(cls.k, cls.z),
            torn |-> cls.torn, mode |-> cls.mode, stage |-> cls.stage, patch |-> patch,
            hdr |-> HeaderOK(disk), parts |-> Cardinality(Served(disk))]
EmitClasses == crashed => Emit("CLASS", ClassOf)

\* ---------------------------------------------------------------- prediction, as a function of the class
\* (used by TraceRecFile: the prediction is recomputed from the class, never copied from the harness)
ClassHeaderOK(c) == c.k >= 1
ClassParts(c)    == IF c.k >= 1 THEN c.k - 1 ELSE 0
ClassPredictionSound ==
    crashed => /\ ClassHeaderOK(cls) = HeaderOK(disk)
               /\ ClassParts(cls) = Cardinality(Served(disk))

=============================================================================
