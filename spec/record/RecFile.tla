------------------------------ MODULE RecFile ------------------------------
(* C27  Recordings are playable up to the last complete part at any crash point
   (C28 extends this module with structural corruptions: RecCorrupt.tla)

   One fMP4 segment file as the recorder writes it (internal/recorder/format_fmp4_segment.go):
     unit 0      header  = ftyp box + moov box, one write         (writeInit)
     unit i >= 1 part i  = moof box + mdat box, one write         (writePart)
     after the last part: the duration patch (mvhd.DurationV0 rewritten in place) and Close.
   Every part ends at some instant (partEnd); parts hold samples of several tracks whose timestamps
   may be offset against each other, so a part written earlier can end LATER than the last one.
   The segment keeps the running maximum (endDTS) and writes it as the duration when it closes.
   A unit is four zones: the 8-byte box header and the body of each of its two boxes. The disk is
   a sequence of cells, one per zone, tagged ok / torn (a strict, non-empty prefix of the zone's
   bytes) / zero / garbage. A crash keeps the cells written so far, possibly tears the cell in
   flight, and fills the rest of the write in flight by the tail mode: cut (nothing), zero-filled
   or garbage up to the length of the write.

   Layer 1 is the writer (the actions below) and the reader the statement asks for (Served).
   Layer 2 are the statement's formulas: Shape, ServesComplete, LostInLastPart, and for
   normally closed segments TrueDuration / StartsWithSync / Continuous (evaluated on recorded
   segments in TraceRecFile.tla; the writer model knows no time).                            *)
EXTENDS VerifCommon

CONSTANTS MaxParts,         \* parts per segment in the bounded model
          PartEnds          \* instants (relative to the segment start) at which a part may end

\* Named deviations of the code from the statement (layer 1 switches). TRUE = the code shows the
\* deviation. The defaults in the cfg files describe the current tree:
CONSTANTS
    DevTornTailFailsGet,     \* C27-F1 (known): /get fails when the window reaches a half-written part
    DevRewritesFailedPart,   \* seeded C27-s7: after a failed part flush the part stays current and the
                             \* error-triggered close writes it again behind the torn bytes
    DevTimescaleZeroExits    \* C27-F2 = C28-F1 (fixed in 3adcf73): a zero-filled header remainder
                             \* (mvhd timescale 0) made the process exit

Modes == {"cut", "zero", "garbage"}
HdrZones  == <<"ftyp.h", "ftyp.b", "moov.h", "moov.b">>
PartZones == <<"moof.h", "moof.b", "mdat.h", "mdat.b">>
ZoneName(u, z) == IF u = 0 THEN HdrZones[z] ELSE PartZones[z]

Cell(u, z, st) == [u |-> u, z |-> z, st |-> st]
UnitCells(u)   == [z \in 1..4 |-> Cell(u, z, "ok")]

VARIABLES
    pc,        \* "new" | "writing" | "idle" | "patched" | "closed"
    disk,      \* sequence of cells
    flight,    \* cells of the write in flight that are not on the disk yet
    nunits,    \* units whose write has completed (header counts)
    patch,     \* bytes of the 4-byte duration field that carry the final value (0..4)
    crashed,   \* a crash has happened (terminal)
    cls,       \* description of the crash point (meaningful when crashed)
    partEnd,   \* partEnd[i] = instant at which the last sample of part i ends (parts started so far)
    endDTS,    \* the segment's running maximum of sample ends (formatFMP4Segment.endDTS)
    durHdr,    \* the duration written by the patch (0 = not written)
    after      \* what followed a failed write: "none" | "exit" | "close_lifted" | "close_limited"
vars == <<pc, disk, flight, nunits, patch, crashed, cls, partEnd, endDTS, durHdr, after>>

NoClass == [k |-> 0, z |-> 0, torn |-> FALSE, mode |-> "cut", stage |-> "none"]

Init ==
    /\ pc = "new" /\ disk = <<>> /\ flight = <<>> /\ nunits = 0 /\ patch = 0
    /\ crashed = FALSE /\ cls = NoClass
    /\ partEnd = <<>> /\ endDTS = 0 /\ durHdr = 0 /\ after = "none"

\* the header is written together with the first part; a part is handed to the disk when it is
\* closed, the segment has by then seen all its samples (write() updates endDTS sample by sample)
StartUnit ==
    /\ ~crashed /\ pc \in {"new", "idle"} /\ nunits <= MaxParts
    /\ flight' = UnitCells(nunits) /\ pc' = "writing"
    /\ IF nunits = 0 THEN UNCHANGED <<partEnd, endDTS>>
       ELSE \E e \in PartEnds : partEnd' = Append(partEnd, e) /\ endDTS' = Max(endDTS, e)
    /\ UNCHANGED <<disk, nunits, patch, crashed, cls, durHdr, after>>

WriteCell ==
    /\ ~crashed /\ pc = "writing" /\ flight # <<>>
    /\ disk' = Append(disk, Head(flight)) /\ flight' = Tail(flight)
    /\ UNCHANGED <<pc, nunits, patch, crashed, cls, partEnd, endDTS, durHdr, after>>

FinishUnit ==
    /\ ~crashed /\ pc = "writing" /\ flight = <<>>
    /\ pc' = "idle" /\ nunits' = nunits + 1
    /\ UNCHANGED <<disk, flight, patch, crashed, cls, partEnd, endDTS, durHdr, after>>

\* the recorder patches the duration only when it closes a segment that has at least one part
PatchDuration ==
    /\ ~crashed /\ pc = "idle" /\ nunits >= 2
    /\ patch' = 4 /\ pc' = "patched" /\ durHdr' = endDTS
    /\ UNCHANGED <<disk, flight, nunits, crashed, cls, partEnd, endDTS, after>>

Close ==
    /\ ~crashed /\ pc = "patched" /\ pc' = "closed"
    /\ UNCHANGED <<disk, flight, nunits, patch, crashed, cls, partEnd, endDTS, durHdr, after>>

Filler(mode, cells) ==
    IF mode = "cut" THEN <<>> ELSE [i \in 1..Len(cells) |-> Cell(cells[i].u, cells[i].z, mode)]

\* crash while a unit is being written: the cell in flight may be torn
CrashWriting(mode, torn) ==
    /\ ~crashed /\ pc = "writing" /\ flight # <<>>
    /\ (torn \/ Len(flight) < 4)       \* nothing written yet and nothing torn = CrashIdle
    /\ crashed' = TRUE
    /\ LET c == Head(flight)
           rest == IF torn THEN Tail(flight) ELSE flight
           first == IF torn THEN <<Cell(c.u, c.z, "torn")>> ELSE <<>>
           tornfill == IF torn /\ mode # "cut" THEN <<Cell(c.u, c.z, mode)>> ELSE <<>>
       IN /\ disk' = disk \o first \o tornfill \o Filler(mode, rest)
          /\ cls' = [k |-> nunits, z |-> c.z, torn |-> torn, mode |-> mode, stage |-> "rec"]
    /\ UNCHANGED <<pc, flight, nunits, patch, partEnd, endDTS, durHdr, after>>

\* crash between writes (nothing in flight); an allocated-but-unwritten tail may still follow
CrashIdle(mode) ==
    /\ ~crashed /\ pc \in {"new", "idle", "patched"} /\ flight = <<>>
    /\ crashed' = TRUE
    /\ disk' = disk \o (IF mode = "cut" THEN <<>> ELSE <<Cell(nunits, 0, mode)>>)
    /\ cls' = [k |-> nunits, z |-> 0, torn |-> FALSE, mode |-> mode,
               stage |-> IF pc = "patched" THEN "patched" ELSE IF pc = "new" THEN "new" ELSE "rec"]
    /\ UNCHANGED <<pc, flight, nunits, patch, partEnd, endDTS, durHdr, after>>

\* crash inside the in-place duration patch: j of the 4 bytes carry the new value
CrashPatch(j) ==
    /\ ~crashed /\ pc = "idle" /\ nunits >= 2 /\ j \in 1..3
    /\ crashed' = TRUE /\ patch' = j
    /\ cls' = [k |-> nunits, z |-> 0, torn |-> TRUE, mode |-> "cut", stage |-> "patchtorn"]
    /\ UNCHANGED <<pc, disk, flight, nunits, partEnd, endDTS, durHdr, after>>

\* ---- write faults: the write of a part fails after some bytes (short write: disk full, quota,
\* file size limit). Either the process stops there, or the recorder handles the error: the
\* instance closes the segment (duration patch + close) - with the limit lifted before the close or
\* still in place - and recording goes on in another file.
FailWrite(torn) ==
    /\ ~crashed /\ pc = "writing" /\ flight # <<>> /\ nunits >= 1
    /\ LET c == Head(flight) IN
         /\ disk' = disk \o (IF torn THEN <<Cell(c.u, c.z, "torn")>> ELSE <<>>)
         /\ cls' = [k |-> nunits, z |-> c.z, torn |-> torn, mode |-> "cut", stage |-> "fault"]
    /\ flight' = <<>> /\ pc' = "failed"
    /\ UNCHANGED <<nunits, patch, crashed, partEnd, endDTS, durHdr, after>>
FaultExit ==
    /\ ~crashed /\ pc = "failed" /\ crashed' = TRUE /\ after' = "exit"
    /\ UNCHANGED <<pc, disk, flight, nunits, patch, cls, partEnd, endDTS, durHdr>>
\* the code forgets the failed part (formatFMP4Segment.write sets curPart = nil before it returns the
\* error), so the close only patches the duration
ErrorClose(lifted) ==
    /\ ~crashed /\ pc = "failed"
    /\ disk' = IF ~DevRewritesFailedPart THEN disk
               ELSE IF lifted THEN disk \o UnitCells(nunits)
               ELSE disk \o <<Cell(nunits, 1, "torn")>>
    /\ patch' = 4 /\ durHdr' = endDTS /\ pc' = "closed"
    /\ after' = IF lifted THEN "close_lifted" ELSE "close_limited"
    /\ UNCHANGED <<flight, nunits, crashed, cls, partEnd, endDTS>>

Next ==
    \/ \E t \in BOOLEAN : FailWrite(t)
    \/ FaultExit \/ \E li \in BOOLEAN : ErrorClose(li)
    \/ StartUnit \/ WriteCell \/ FinishUnit \/ PatchDuration \/ Close
    \/ \E m \in Modes, t \in BOOLEAN : CrashWriting(m, t)
    \/ \E m \in Modes : CrashIdle(m)
    \/ \E j \in 1..3 : CrashPatch(j)
Spec == Init /\ [][Next]_vars

\* ---------------------------------------------------------------- the reader the statement asks for
OkCellsOf(d, u) == { i \in 1..Len(d) : d[i].u = u /\ d[i].st = "ok" /\ d[i].z \in 1..4 }
UnitComplete(d, u) == Cardinality({ d[i].z : i \in OkCellsOf(d, u) }) = 4
HeaderOK(d) == UnitComplete(d, 0)
RECURSIVE CompletePrefix(_, _)
CompletePrefix(d, u) == IF u <= MaxParts + 1 /\ UnitComplete(d, u) THEN CompletePrefix(d, u + 1) ELSE u
\* number of complete units at the start of the file (header included)
CompleteUnits(d) == CompletePrefix(d, 0)
\* the parts playback has to serve
Served(d) == IF HeaderOK(d) THEN 1..(CompleteUnits(d) - 1) ELSE {}

\* ---------------------------------------------------------------- layer 2: the statement
\* "each segment on disk is a valid header followed by complete parts and at most one incomplete tail"
\* (when the crash hits the header write, the incomplete tail is the header itself)
ShapeOf(d) ==
      LET c == CompleteUnits(d) IN
        /\ \A i \in 1..(4 * c) : d[i].st = "ok" /\ d[i].u = (i - 1) \div 4 /\ d[i].z = ((i - 1) % 4) + 1
        /\ \A i \in (4 * c + 1)..Len(d) : d[i].u = c
Shape == crashed => ShapeOf(disk)
\* the same after a write fault that the recorder survived: the incomplete piece is the TAIL of the
\* file it closed, nothing follows it
ShapeAfterFault == (pc \in {"failed", "closed"} /\ after # "exit") => ShapeOf(disk)
\* "playback serves every complete part": exactly the parts whose write had completed
ServesComplete == crashed => Served(disk) = 1..(nunits - 1)
\* "the media lost is bounded by the last part": whatever had been handed to the disk and is not
\* served belongs to the single write that was in flight
LostInLastPart ==
    crashed =>
      LET handed == { disk[i].u : i \in 1..Len(disk) } \cup { flight[i].u : i \in 1..Len(flight) }
      IN  \A u \in handed : u >= 1 /\ u \notin Served(disk) => u = nunits
\* "segments closed normally record their true duration": the end of the latest-ending sample of
\* ANY part, not of the last part
SetMaxOf(S) == CHOOSE x \in S : \A y \in S : y <= x
TrueDurationRecorded ==
    (~crashed /\ pc \in {"patched", "closed"}) =>
        durHdr = SetMaxOf({ partEnd[i] : i \in 1..Len(partEnd) })
\* the duration is final only once the whole field has been rewritten after the last part
PatchAfterParts == (patch > 0) => (flight = <<>> /\ (nunits >= 2 \/ after # "none"))
TypeOK ==
    /\ pc \in {"new", "writing", "idle", "patched", "closed", "failed"}
    /\ nunits \in 0..(MaxParts + 1) /\ patch \in 0..4 /\ crashed \in BOOLEAN

\* ---------------------------------------------------------------- generator: the crash classes
\* one class per (complete units, zone in flight, torn?, tail mode, closing stage), with what the
\* statement requires of playback for it. For every part k (first, middle, last) and every tail mode
\* the classes are: between writes (z = 0) | inside the 8-byte moof header (moof.h torn) | moof header
\* complete, body missing (moof.b, not torn) | inside the moof body (moof.b torn) | at the end of the
\* moof (mdat.h, not torn) | inside the mdat header (mdat.h torn) | mdat header complete (mdat.b, not
\* torn) | inside the payload (mdat.b torn); the same for the header unit with ftyp / moov. The
\* harness must reach every class in every tier (it fails otherwise); quick takes the edges and the
\* middle of each class plus a stride, thorough every byte offset.
ClassOf == [k |-> cls.k, z |-> cls.z, zone |-> IF cls.z = 0 THEN "-" ELSE ZoneName(cls.k, cls.z),
            torn |-> cls.torn, mode |-> cls.mode, stage |-> cls.stage, patch |-> patch,
            hdr |-> HeaderOK(disk), parts |-> Cardinality(Served(disk))]
EmitClasses == (crashed /\ cls.stage # "fault") => Emit("CLASS", ClassOf)
\* generator: the write faults (part k, zone reached, torn?, what follows)
EmitFaults ==
    (after # "none") => Emit("FAULT", [k |-> cls.k, z |-> cls.z, zone |-> ZoneName(cls.k, cls.z),
                                      torn |-> cls.torn, after |-> after])

\* ---------------------------------------------------------------- what the statement requires, per class
\* (used by TraceRecFile: recomputed from the class, never copied from the harness)
ClassHeaderOK(c) == c.k >= 1
ClassParts(c)    == IF c.k >= 1 THEN c.k - 1 ELSE 0
ClassPredictionSound ==
    crashed => /\ ClassHeaderOK(cls) = HeaderOK(disk)
               /\ ClassParts(cls) = Cardinality(Served(disk))

\* ---------------------------------------------------------------- layer 1: the code's readers, per class
\* internal/playback/segment_fmp4.go as of cc06103. Where the outcome depends on the byte at which a
\* zone is torn the operators return the SET of outcomes the code can show.
InWrite(c)  == c.z > 0
ZoneOf(c)   == IF c.z = 0 THEN "-" ELSE ZoneName(c.k, c.z)
Filled(c)   == c.mode \in {"zero", "garbage"}
\* segmentFMP4ReadHeader: needs ftyp, the moov header and a moov body mediacommon accepts; a
\* zero-filled or stale remainder late in the moov body (user data) still parses
L1HeaderReadable(c) ==
    IF c.k >= 1 THEN {TRUE}
    ELSE IF ZoneOf(c) = "moov.b" /\ c.torn /\ Filled(c) THEN {TRUE, FALSE}
    ELSE {FALSE}
\* the process exits (old behaviour only): integer division by the mvhd timescale
L1MayExit(c) == DevTimescaleZeroExits /\ c.k = 0 /\ ZoneOf(c) = "moov.b" /\ c.mode = "zero"
\* /get over the earlier segment and this one, given that this one's header was readable:
\* [ok, parts] = answered with data? how many parts of this segment are served completely?
\* seekAndMux fails as a whole (nothing is served, not even the earlier segment) when
\* ReadBoxStructure meets a box that overruns the file or a payload it cannot read.
Out(ok, n) == [ok |-> ok, parts |-> n]
L1Get(c) ==
    LET n == ClassParts(c)
        fail == IF DevTornTailFailsGet THEN {Out(FALSE, 0)} ELSE {Out(TRUE, n)}
    IN  IF c.k = 0 \/ ~InWrite(c) THEN {Out(TRUE, n)}
        ELSE CASE ZoneOf(c) = "moof.h" -> IF c.mode = "garbage" THEN fail \cup {Out(TRUE, n)}  \* stale size may overrun the file
                                          ELSE {Out(TRUE, n)}            \* fewer than 8 bytes / zero size: end of file
               [] ZoneOf(c) = "moof.b" -> IF c.mode = "cut" \/ ~c.torn THEN fail
                                          ELSE fail \cup {Out(TRUE, n)}   \* filled trun entries may parse
               [] ZoneOf(c) = "mdat.h" -> IF c.mode = "cut" THEN fail
                                          ELSE IF c.mode = "garbage" /\ c.torn THEN fail \cup {Out(TRUE, n)}
                                          ELSE {Out(TRUE, n)}
               [] ZoneOf(c) = "mdat.b" -> IF c.mode = "cut" THEN fail
                                          ELSE {Out(TRUE, n), Out(TRUE, n + 1)} \* filler may equal the lost bytes
               [] OTHER -> {Out(TRUE, n)}
\* samples beyond the complete parts (payload zero / stale, sizes from a filled trun) can be served
L1ExtrasPossible(c) == c.k >= 1 /\ InWrite(c) /\ Filled(c) /\ ZoneOf(c) \in {"moof.b", "mdat.h", "mdat.b"}
\* an unreadable header fails every request that reaches the file, /list for the whole path
L1GetWhenHeaderUnreadable == Out(FALSE, 0)
\* /list: needs every header and, for a segment whose header duration is 0, one moof+mdat pair whose
\* mdat header is on disk (segmentFMP4ReadDurationFromParts seeks past the payload without reading it)
L1ListOK(c, hdr) ==
    hdr /\ (c.k >= 2 \/ (c.k = 1 /\ ZoneOf(c) = "mdat.b"))

\* every layer-1 outcome either satisfies the statement or is one of the named deviations
Satisfies(c, o) == ClassHeaderOK(c) => (o.ok /\ o.parts >= ClassParts(c))
DeviationsExplainAll ==
    crashed =>
      /\ \A o \in L1Get(cls) :
            Satisfies(cls, o) \/ (DevTornTailFailsGet /\ InWrite(cls) /\ cls.k >= 1 /\ ~o.ok)
      /\ L1MayExit(cls) => DevTimescaleZeroExits
      /\ (ClassHeaderOK(cls) => L1HeaderReadable(cls) = {TRUE})

=============================================================================
