-------------------------- MODULE TraceRecorderSup --------------------------
(* Trace validation for X02. One ndjson record per run of the REAL recorder.Recorder
   (harness internal/recorder/zz_verif_x02_test.go):
     run, fmt ("fmp4" | "mpegts"), ops (what the harness was asked to do), ev: the event log
     << [k, a, p, r, g, ig, sg, cp, fs] >> (see RecorderSup.tla).
   Verdicts: TLC evaluates the statement's formulas (RecorderSup.tla layer 2, Holds) on every event of
   every log; a failing formula is reported as a BAD line (first failing event per run and formula).
   Conformance (never a verdict): the log must be a behaviour of layer 1. The layer-1 actions are taken
   one by one; an action that emits an event must emit the next event of the log, silent actions
   (critical sections without callback / log line) are interleaved freely, a "peek" event must show the
   number of attached readers of the current model state. AT lines report how far each log could be
   followed; a log that cannot be followed to its end is DRIFT.                                       *)
EXTENDS RecorderSup

Trace == ndJsonDeserialize("X02_trace.ndjson")

VARIABLES run, pos
tvars == <<vars, run, pos>>

Ev == Trace[run].ev

Match(m, e) ==
    /\ m.k = e.k
    /\ m.k \in {"create", "complete"} => m.p = e.p
    /\ m.k \in {"w", "fault", "init"} => m.a = e.a
    /\ m.k = "q" => m.r = e.r /\ m.g = e.g /\ m.ig = e.ig /\ m.sg = e.sg /\ m.cp = e.cp

TraceInit == /\ run \in 1..Len(Trace) /\ pos = 0 /\ Init /\ fm = Trace[run].fmt

TraceNext ==
    \/ /\ Next /\ UNCHANGED run
       /\ IF out'.k = "-" THEN pos' = pos
          ELSE pos < Len(Ev) /\ Match(out', Ev[pos + 1]) /\ pos' = pos + 1
    \/ /\ pos < Len(Ev) /\ Ev[pos + 1].k = "peek" /\ Ev[pos + 1].r = readers
       /\ pos' = pos + 1 /\ UNCHANGED <<vars, run>>

TraceSpec == TraceInit /\ [][TraceNext]_tvars

\* ---- verdicts: the statement on the real event log
FirstBad(ev, mon) ==
    LET bad == {i \in Idx(ev) : ~Holds(mon, ev, i)}
    IN IF bad = {} THEN 0 ELSE CHOOSE i \in bad : \A j \in bad : i <= j

\* the segment a failure is about: the earliest segment that is created and not completed at the failing event
\* (if there is none: the last one created)
Unmatched(ev, i) == {j \in 1..i : /\ ev[j].k = "create"
                                  /\ ~\E m \in (j + 1)..i : ev[m].k = "complete" /\ ev[m].p = ev[j].p}
AboutPath(ev, b) ==
    LET um == Unmatched(ev, b)
        lc == LastCreate(ev, b)
    IN IF um # {} THEN ev[CHOOSE j \in um : \A m \in um : j <= m].p
       ELSE IF lc = 0 THEN 0 ELSE ev[lc].p

RunVerdict(r, ln) ==
    \A mon \in Monitors :
        LET b == FirstBad(r.ev, mon)
        IN Monitor(b = 0, [l |-> ln, run |-> r.run, monitor |-> mon, step |-> b,
                           p |-> IF b = 0 THEN 0 ELSE AboutPath(r.ev, b)])

Verdicts == (pos = 0 /\ phase = "new") => RunVerdict(Trace[run], run)
\* ---- conformance: how far the log was followed
Progress == /\ (pos > 0 /\ out.k # "-") => Emit("AT", [l |-> run, pos |-> pos])
            /\ (pos = Len(Ev)) => Emit("DONE", [l |-> run])
=============================================================================
