------------------------------ MODULE SegName ------------------------------
(* C26  Segment file names encode path and start instant losslessly
        (internal/recordstore/path.go: Path.Encode / Path.Decode)
   C31 uses the same vocabulary (Encode, local broken-down time) for delete-by-instant.

   Strings are TLA+ strings; TLC evaluates Len, \o and SubSeq on them, a character is SubSeq(s,k,k).
   A format is a sequence of tokens: the ten specifiers of the recorder, every other token is a literal.

   Instants are (u, us) = Unix seconds (fits TLC's 32-bit integers until 2038) and microseconds. The offset
   of every server zone at every instant comes from a table computed at check time from the tz database by
   Python's zoneinfo (independent of Go's time package); the broken-down local time is computed HERE from
   u + offset by the civil-from-days rule of the proleptic Gregorian calendar and cross-checked against the
   table's own broken-down fields (TableConsistent).

   Layer 2 (from the statement):
     RoundTripOK  - the name produced for (format, path, instant) is recognized, as that path, as that
                    instant to the microsecond when the format identifies it unambiguously, and in every
                    case as a (path, instant) that renders to exactly this name;
     Producible   - "a whole name the recorder could have produced": OVER-approximated (any string for
                    %path, any offset for %z, any in-range digits), so that "recognized => Producible" can
                    only fail for names that no recorder run, in any zone, for any path, could have written.
   Layer 1 (from the code): DecodeImpl = the regular expression Decode builds, as a backtracking matcher
     (leftmost, %path non-greedy), with the code's two deviations from the ideal as named switches:
     UnanchoredSearch (the expression is searched, not anchored to the whole name) and NoRangeCheck (two
     digits are accepted for month/day/hour/minute/second whatever their value).                          *)
EXTENDS VerifCommon, C26Table

CONSTANTS FormatIds,     \* which of AllFormats are explored
          Zones,         \* server zones (keys of the offset table)
          PathIds,       \* which of AllPaths
          CandZones,     \* zones in which candidate file names are generated
          CandPathIds,   \* paths whose names are mutated into candidate file names
          CandInstIds    \* instants (indices of the table) whose names are mutated

\* Table: generated at check time (module C26Table):
\*   <<[u, us, off: zone -> minutes, bd: zone -> [Y,m,d,H,M,S], twice: zone -> BOOLEAN]>>
InstIds == DOMAIN Table

Specs == {"%path", "%Y", "%m", "%d", "%H", "%M", "%S", "%f", "%z", "%s"}
SixFields == {"%Y", "%m", "%d", "%H", "%M", "%S"}

\* Record path formats after the extension has been added (PathAddExtension). All are accepted by
\* conf.Path.validate: they contain %path and either %s or all of %Y %m %d %H %M %S.
AllFormats == <<
  <<"/r/", "%path", "/", "%Y", "-", "%m", "-", "%d", "_", "%H", "-", "%M", "-", "%S", "-", "%f", ".mp4">>,     \* 1 default
  <<"%path", "/", "%Y", "-", "%m", "-", "%d", "_", "%H", "-", "%M", "-", "%S", "-", "%f", ".mp4">>,            \* 2 relative
  <<"/r/", "%path", "/", "%s", ".mp4">>,                                                                       \* 3 unix seconds
  <<"/r/", "%path", "/", "%s", ".", "%f", ".mp4">>,                                                            \* 4 unix + micros
  <<"/r/", "%path", "/", "%Y", "-", "%m", "-", "%d", "_", "%H", "-", "%M", "-", "%S", "-", "%f", "_", "%z", ".mp4">>, \* 5 zone
  <<"/r/", "%Y", "/", "%m", "/", "%d", "/", "%path", "/", "%H", "-", "%M", "-", "%S", "-", "%f", ".ts">>,      \* 6 nested, path in the middle
  <<"/r/", "%Y", "-", "%m", "-", "%d", "/", "%path", "_", "%H", "%M", "%S", "_", "%f", ".mp4">>,               \* 7 adjacent fields
  <<"/r(1)[x]+{y}|^$*?\\w/", "%path", "/", "%Y", ".", "%m", ".", "%d", "(", "%H", ")", "%M", "|", "%S", "+", "%f", ".mp4">>, \* 8 metacharacters
  <<"/r/", "%path", "/", "%Y", "-", "%m", "-", "%d", "_", "%H", "-", "%M", "-", "%S", ".mp4">>,                \* 9 no micros
  <<"/r/", "%path", "/", "%Y", "%m", "%d", "%H", "%M", "%S", "%f", ".mp4">>,                                   \* 10 no separators
  <<"/r/", "%path", "/", "%Y", "/", "%Y", "-", "%m", "-", "%d", "_", "%H", "-", "%M", "-", "%S", "-", "%f", ".mp4">>, \* 11 repeated %Y
  <<"/r/", "%path", "-", "%Y", "-", "%m", "-", "%d", "_", "%H", "-", "%M", "-", "%S", "-", "%f", "%z", ".mp4">>,      \* 12 zone glued
  <<"/r/", "%z", "/", "%path", "/", "%s", "-", "%f", ".mp4">>,                                                 \* 13 zone first, unix
  <<"/r/", "%path", "/", "%d", "-", "%m", "-", "%Y", "_", "%S", "-", "%M", "-", "%H", "-", "%f", ".mp4">>,     \* 14 permuted
  <<"/r/", "%path", "/", "%s", "_", "%Y", "-", "%m", "-", "%d", "_", "%H", "-", "%M", "-", "%S", "-", "%f", ".mp4">>  \* 15 both
>>

AllPaths == <<"a", "a/b", "a-1", "cam.1_x", "2008-11-07_11-22-04-123456", "x/2008-11-07_11-22-04-123456.mp4",
              "1638447323", "a/Z">>

HasTok(fmt, t) == \E i \in 1..Len(fmt) : fmt[i] = t
AcceptedFormat(fmt) == HasTok(fmt, "%path") /\ (HasTok(fmt, "%s") \/ \A t \in SixFields : HasTok(fmt, t))

\* ---------------------------------------------------------------- decimal strings
Dig == <<"0", "1", "2", "3", "4", "5", "6", "7", "8", "9">>
DigitSet == Range(Dig)
RECURSIVE Pad(_, _)
Pad(n, w) == IF w = 0 THEN "" ELSE Pad(n \div 10, w - 1) \o Dig[(n % 10) + 1]
Ch(s, k) == SubSeq(s, k, k)
IsDigits(s) == \A k \in 1..Len(s) : Ch(s, k) \in DigitSet
DigVal(c) == CHOOSE d \in 0..9 : Dig[d + 1] = c
Val2(s) == 10 * DigVal(Ch(s, 1)) + DigVal(Ch(s, 2))

RECURSIVE Cat(_)
Cat(ss) == IF ss = <<>> THEN "" ELSE Head(ss) \o Cat(Tail(ss))
FmtStr(fmt) == Cat(fmt)

\* ---------------------------------------------------------------- calendar
\* days since 1970-01-01 -> proleptic Gregorian date (all intermediate values < 2^31)
Civil(days) ==
    LET z   == days + 719468
        era == z \div 146097
        doe == z - era * 146097
        yoe == (doe - doe \div 1460 + doe \div 36524 - doe \div 146096) \div 365
        doy == doe - (365 * yoe + yoe \div 4 - yoe \div 100)
        mp  == (5 * doy + 2) \div 153
        d   == doy - (153 * mp + 2) \div 5 + 1
        m   == IF mp < 10 THEN mp + 3 ELSE mp - 9
        y   == yoe + era * 400 + (IF m <= 2 THEN 1 ELSE 0)
    IN [Y |-> y, m |-> m, d |-> d]

\* broken-down time of instant (u, us) written with UTC offset off (minutes)
BD(u, us, off) ==
    LET ls  == u + off * 60
        c   == Civil(ls \div 86400)
        sod == ls % 86400
    IN [Y |-> c.Y, m |-> c.m, d |-> c.d, H |-> sod \div 3600, M |-> (sod % 3600) \div 60, S |-> sod % 60,
        us |-> us, off |-> off, u |-> u]

LocalBD(i, zone) == BD(Table[i].u, Table[i].us, Table[i].off[zone])

TableConsistent ==
    \A i \in InstIds : \A z \in Zones :
        LET b == LocalBD(i, z)  t == Table[i].bd[z]
        IN b.Y = t.Y /\ b.m = t.m /\ b.d = t.d /\ b.H = t.H /\ b.M = t.M /\ b.S = t.S

\* ---------------------------------------------------------------- Encode (what the recorder writes)
Abs(n) == IF n < 0 THEN -n ELSE n
OffStr(off) == IF off = 0 THEN "Z"
               ELSE (IF off > 0 THEN "+" ELSE "-") \o Pad(Abs(off) \div 60, 2) \o Pad(Abs(off) % 60, 2)

Render(tok, p, b) ==
    CASE tok = "%path" -> p
      [] tok = "%Y" -> ToString(b.Y)
      [] tok = "%m" -> Pad(b.m, 2)
      [] tok = "%d" -> Pad(b.d, 2)
      [] tok = "%H" -> Pad(b.H, 2)
      [] tok = "%M" -> Pad(b.M, 2)
      [] tok = "%S" -> Pad(b.S, 2)
      [] tok = "%f" -> Pad(b.us, 6)
      [] tok = "%z" -> OffStr(b.off)
      [] tok = "%s" -> ToString(b.u)
      [] OTHER -> tok

RECURSIVE Enc(_, _, _, _)
Enc(fmt, i, p, b) == IF i > Len(fmt) THEN "" ELSE Render(fmt[i], p, b) \o Enc(fmt, i + 1, p, b)
Encode(fmt, p, b) == Enc(fmt, 1, p, b)

\* the format FindSegments / the recorder use for one path: %path replaced by the name (a literal)
Subst(fmt, p) == [i \in 1..Len(fmt) |-> IF fmt[i] = "%path" THEN p ELSE fmt[i]]

\* ---------------------------------------------------------------- layer 2: producible whole names
Width(tok) == CASE tok = "%Y" -> 4 [] tok = "%f" -> 6 [] tok = "%s" -> 10 [] OTHER -> 2
InRange(tok, s) ==
    CASE tok = "%m" -> Val2(s) \in 1..12
      [] tok = "%d" -> Val2(s) \in 1..31
      [] tok = "%H" -> Val2(s) \in 0..23
      [] tok = "%M" -> Val2(s) \in 0..59
      [] tok = "%S" -> Val2(s) \in 0..59
      [] OTHER -> TRUE

\* PM(fmt, i, f, j, rng): tokens i.. of fmt can account for f from position j to its END
RECURSIVE PM(_, _, _, _, _)
PM(fmt, i, f, j, rng) ==
    IF i > Len(fmt) THEN j = Len(f) + 1
    ELSE LET t == fmt[i] IN
      IF t = "%path" THEN \E k \in j..(Len(f) + 1) : PM(fmt, i + 1, f, k, rng)
      ELSE IF t = "%z" THEN
           \/ j <= Len(f) /\ Ch(f, j) = "Z" /\ PM(fmt, i + 1, f, j + 1, rng)
           \/ j + 4 <= Len(f) /\ Ch(f, j) \in {"+", "-"} /\ IsDigits(SubSeq(f, j + 1, j + 4))
                /\ PM(fmt, i + 1, f, j + 5, rng)
      ELSE IF t \in Specs THEN
           LET w == Width(t)  s == SubSeq(f, j, j + w - 1)
           IN j + w - 1 <= Len(f) /\ IsDigits(s) /\ (rng => InRange(t, s)) /\ PM(fmt, i + 1, f, j + w, rng)
      ELSE j + Len(t) - 1 <= Len(f) /\ SubSeq(f, j, j + Len(t) - 1) = t /\ PM(fmt, i + 1, f, j + Len(t), rng)

WholeNameMatch(fmt, f) == PM(fmt, 1, f, 1, FALSE)     \* every character accounted for by the format
Producible(fmt, f)     == PM(fmt, 1, f, 1, TRUE)      \* ... and every field within its calendar range

\* ---------------------------------------------------------------- layer 1: the code's Decode
Dev(unanch, norange) == [unanchored |-> unanch, norange |-> norange]
NoDev   == Dev(FALSE, FALSE)      \* the ideal
RealDev == Dev(TRUE, TRUE)        \* what path.go does today
Fail == [ok |-> FALSE, b |-> <<>>]

\* BT: first successful binding in backtracking order (%path shortest first), from position j
RECURSIVE BT(_, _, _, _, _), TryPath(_, _, _, _, _, _)
TryPath(fmt, i, f, j, k, dev) ==
    IF k > Len(f) + 1 THEN Fail
    ELSE LET r == BT(fmt, i + 1, f, k, dev)
         IN IF r.ok THEN [ok |-> TRUE, b |-> <<[t |-> "%path", s |-> SubSeq(f, j, k - 1)]>> \o r.b]
            ELSE TryPath(fmt, i, f, j, k + 1, dev)

BT(fmt, i, f, j, dev) ==
    IF i > Len(fmt) THEN [ok |-> (dev.unanchored \/ j = Len(f) + 1), b |-> <<>>]
    ELSE LET t == fmt[i] IN
      IF t = "%path" THEN TryPath(fmt, i, f, j, j, dev)
      ELSE IF t = "%z" THEN
           IF j <= Len(f) /\ Ch(f, j) = "Z" THEN
                LET r == BT(fmt, i + 1, f, j + 1, dev)
                IN IF r.ok THEN [ok |-> TRUE, b |-> <<[t |-> t, s |-> "Z"]>> \o r.b] ELSE Fail
           ELSE IF j + 4 <= Len(f) /\ Ch(f, j) \in {"+", "-"} /\ IsDigits(SubSeq(f, j + 1, j + 4)) THEN
                LET r == BT(fmt, i + 1, f, j + 5, dev)
                IN IF r.ok THEN [ok |-> TRUE, b |-> <<[t |-> t, s |-> SubSeq(f, j, j + 4)]>> \o r.b] ELSE Fail
           ELSE Fail
      ELSE IF t \in Specs THEN
           LET w == Width(t)  s == SubSeq(f, j, j + w - 1)
           IN IF j + w - 1 <= Len(f) /\ IsDigits(s) /\ (dev.norange \/ InRange(t, s)) THEN
                   LET r == BT(fmt, i + 1, f, j + w, dev)
                   IN IF r.ok THEN [ok |-> TRUE, b |-> <<[t |-> t, s |-> s]>> \o r.b] ELSE Fail
              ELSE Fail
      ELSE IF j + Len(t) - 1 <= Len(f) /\ SubSeq(f, j, j + Len(t) - 1) = t
           THEN BT(fmt, i + 1, f, j + Len(t), dev) ELSE Fail

\* value bound to a specifier: the LAST group of that name wins (values[groupMapping[i]] = match)
LastOf(b, tok, dflt) ==
    LET is == {i \in 1..Len(b) : b[i].t = tok}
    IN IF is = {} THEN dflt ELSE b[CHOOSE x \in is : \A y \in is : x >= y].s

\* leftmost: the first start position from which the expression matches
RECURSIVE TryStart(_, _, _, _)
TryStart(fmt, f, s, dev) ==
    IF s > Len(f) + 1 THEN Fail
    ELSE LET r == BT(fmt, 1, f, s, dev)
         IN IF r.ok THEN r ELSE IF dev.unanchored THEN TryStart(fmt, f, s + 1, dev) ELSE Fail

DecodeImpl(fmt, f, dev) ==
    LET r == TryStart(fmt, f, 1, dev)
    IN IF r.ok THEN [ok |-> TRUE, path |-> LastOf(r.b, "%path", ""), b |-> r.b]
       ELSE [ok |-> FALSE, path |-> "", b |-> <<>>]

\* ---------------------------------------------------------------- layer 2: the round trip, on an observation
\* o = what the real Decode returned for the real name: [ok, path, u, us, off]
\* (off = UTC offset of the returned time.Time at that instant, minutes)
FormatHasMicros(fmt) == HasTok(fmt, "%f")

\* consist: the real name is the spec's name, so the spec's Encode can be used to judge the returned pair
RoundTripOK(fmt, p, u, us, name, pathUnamb, instUnamb, o, checkPath, consist) ==
    /\ o.ok
    /\ (checkPath /\ pathUnamb) => o.path = p
    /\ instUnamb => (~o.big /\ o.u = u /\ o.us = us)
    /\ (consist /\ ~o.big) => Encode(fmt, IF checkPath THEN o.path ELSE p, BD(o.u, o.us, o.off)) = name

\* ---------------------------------------------------------------- bounded model / generator
VARIABLES fid, zone, tab, done
vars == <<fid, zone, tab, done>>

Fmt == AllFormats[fid]
Keys == PathIds \X InstIds

Init == fid \in FormatIds /\ zone \in Zones /\ tab = <<>> /\ done = FALSE
Eval == /\ ~done /\ done' = TRUE /\ UNCHANGED <<fid, zone>>
        /\ tab' = [k \in Keys |-> Encode(Fmt, AllPaths[k[1]], LocalBD(k[2], zone))]
Next == Eval
Spec == Init /\ [][Next]_vars

PathUnamb(k) == \A k2 \in Keys : tab[k2] = tab[k] => k2[1] = k[1]
\* "the format identifies the instant unambiguously": it shows the microseconds, and either the Unix second, or
\* the six calendar fields together with the offset or in a zone where that wall-clock reading occurs only once
\* (Table[i].twice: clocks set back); and no other pair of the bounded domain renders to the same name.
InstUnamb(k) == /\ FormatHasMicros(Fmt)
                /\ HasTok(Fmt, "%s") \/ HasTok(Fmt, "%z") \/ ~Table[k[2]].twice[zone]
                /\ \A k2 \in Keys : tab[k2] = tab[k] => k2[2] = k[2]

\* candidate file names: mutations of true names
MetaChars == {".", "+", "(", ")", "[", "]", "{", "}", "|", "^", "$", "*", "?", "\\"}
ReplaceAt(f, k, c) == SubSeq(f, 1, k - 1) \o c \o SubSeq(f, k + 1, Len(f))
Mutations(k) ==
    LET f == tab[k]
        b == LocalBD(k[2], zone)
        p == AllPaths[k[1]]
    IN {f \o ".bak", f \o "~", f \o "/x.txt", f \o "0",
        "/old" \o f, "x" \o f, "old/" \o f,
        SubSeq(f, 1, Len(f) - 1), SubSeq(f, 2, Len(f)), SubSeq(f, 1, Len(f) - 4),
        Encode(Fmt, p, [b EXCEPT !.m = 13]), Encode(Fmt, p, [b EXCEPT !.m = 0]),
        Encode(Fmt, p, [b EXCEPT !.H = 25]), Encode(Fmt, p, [b EXCEPT !.M = 61]),
        Encode(Fmt, p, [b EXCEPT !.d = 32]), Encode(Fmt, p, [b EXCEPT !.S = 60]),
        f \o f, ""}
       \cup {ReplaceAt(f, j, "x") : j \in {j \in 1..Len(f) : Ch(f, j) \in MetaChars}}
       \cup {ReplaceAt(f, j, "x") : j \in {j \in 1..Len(f) : Ch(f, j) \in DigitSet /\ j % 7 = 0}}

CandKeys == {k \in Keys : zone \in CandZones /\ k[1] \in CandPathIds /\ k[2] \in CandInstIds}
TrueNames == Range(tab)

\* ---- the ideal design (layer 1 without deviations) satisfies layer 2 on the bounded domain
\* fields recovered from the name equal the local broken-down fields of the instant
FieldsRecovered(r, p, b) ==
    \A i \in 1..Len(r.b) : r.b[i].s = Render(r.b[i].t, p, b)

IdealRoundTrip ==
    done => \A k \in Keys :
        LET r == DecodeImpl(Fmt, tab[k], NoDev)
        IN /\ r.ok
           /\ PathUnamb(k) => r.path = AllPaths[k[1]]
           /\ (PathUnamb(k) /\ InstUnamb(k)) => FieldsRecovered(r, AllPaths[k[1]], LocalBD(k[2], zone))
           /\ Producible(Fmt, tab[k])

IdealOnlyProducible ==
    done => \A k \in CandKeys : \A c \in Mutations(k) :
        DecodeImpl(Fmt, c, NoDev).ok <=> Producible(Fmt, c)

ASSUME FormatsAccepted == \A i \in DOMAIN AllFormats : AcceptedFormat(AllFormats[i])

\* ---- generator
EmitCases ==
    done =>
      /\ \A k \in Keys :
           Emit("ENC", [fid |-> fid, fmt |-> Fmt, zone |-> zone, pid |-> k[1], p |-> AllPaths[k[1]], inst |-> k[2],
                        u |-> Table[k[2]].u, us |-> Table[k[2]].us, off |-> Table[k[2]].off[zone],
                        name |-> tab[k], pathUnamb |-> PathUnamb(k), instUnamb |-> InstUnamb(k)])
      /\ \A k \in CandKeys : \A c \in Mutations(k) \ TrueNames :
           Emit("CAND", [fid |-> fid, fmt |-> Fmt, zone |-> zone, p |-> AllPaths[k[1]], file |-> c])
=============================================================================
