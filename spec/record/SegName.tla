------------------------------ MODULE SegName ------------------------------
(* C26  Segment file names encode path and start instant losslessly
        (internal/recordstore/path.go: Path.Encode / Path.Decode)
   C31 uses the same vocabulary (Encode, local broken-down time) for delete-by-instant.

   A format is a sequence of tokens: the ten specifiers of the recorder, every other token is a literal
   (SegNameBase.tla: Encode, Producible, DecodeImpl, calendar).

   Instants are (d, s, us) = days since 1970, second of the day (UTC), microseconds: Unix seconds do not fit TLC's
   32-bit integers from 2038-01-19 on, and the table reaches 9999999999 (the last 10-digit %s). The offset
   of every server zone at every instant comes from a table computed at check time from the tz database by
   Python's zoneinfo (independent of Go's time package); the broken-down local time is computed in
   SegNameBase.tla from day, second and offset by the civil-from-days rule of the proleptic Gregorian calendar and
   cross-checked against the table's own broken-down fields (TableConsistent).

   Layer 2 (from the statement):
     RoundTripOK  - the name produced for (format, path, instant) is recognized, as that path, as that
                    instant to the microsecond when the format identifies it unambiguously, and in every
                    case as a (path, instant) that renders to exactly this name;
     (history independence: the same formula for every call of a process that uses several formats, see Collide)
     Producible   - "a whole name the recorder could have produced": OVER-approximated (any string for
                    %path, any offset for %z, any in-range digits), so that "recognized => Producible" can
                    only fail for names that no recorder run, in any zone, for any path, could have written.
   Layer 1 (from the code): DecodeImpl = the regular expression Decode builds, as a backtracking matcher
     (leftmost, %path non-greedy). Two deviations from the ideal are named switches (constants CodeUnanchored,
     CodeNoRange of SegNameBase.tla): UnanchoredSearch (the expression is searched, not anchored to the whole
     name) and NoRangeCheck (two digits are accepted for month/day/hour/minute/second whatever their value).
     The original code had both (findings C26-F1/F2); the repaired code has neither (default FALSE).       *)
EXTENDS SegNameBase

CONSTANTS FormatIds,     \* which of AllFormats are explored
          Zones,         \* server zones (keys of the offset table)
          PathIds,       \* which of AllPaths
          CandZones,     \* zones in which candidate file names are generated
          CandPathIds,   \* paths whose names are mutated into candidate file names
          CandInstIds,   \* instants (indices of the table) whose names are mutated
          HistZones,     \* zones in which histories over colliding formats are generated
          HistPathIds,   \* paths and
          HistInstIds    \* instants of the calls of a history

\* Record path formats after the extension has been added (PathAddExtension). All are accepted by
\* conf.Path.validate: they contain %path and either %s or all of %Y %m %d %H %M %S.
AllFormats == <<
  <<"/r/", "%path", "/", "%Y", "-", "%m", "-", "%d", "_", "%H", "-", "%M", "-", "%S", "-", "%f", ".mp4">>,     \* 1 default
  <<"%path", "/", "%Y", "-", "%m", "-", "%d", "_", "%H", "-", "%M", "-", "%S", "-", "%f", ".mp4">>,            \* 2 relative
  <<"/r/", "%path", "/", "%s", ".mp4">>,                                                                       \* 3 unix seconds
  <<"/r/", "%path", "/", "%s", ".", "%f", ".mp4">>,                                                            \* 4 unix + micros
  <<"/r/", "%path", "/", "%Y", "-", "%m", "-", "%d", "_", "%H", "-", "%M", "-", "%S", "-", "%f", "_", "%z", ".mp4">>, \* 5 zone
  <<"/r/", "%Y", "/", "%m", "/", "%d", "/", "%path", "/", "%H", "-", "%M", "-", "%S", "-", "%f", ".ts">>,      \* 6 nested, path in the middle
  <<"/r/", "%Y", "-", "%m", "-", "%d", "/", "%path", "_", "%H", "%M", "%S", "_", "%f", ".mp4">>,               \* 7 adjacent fields
  <<"/r(1)[x]+{y}|^$*?\\w/", "%path", "/", "%Y", ".", "%m", ".", "%d", "(", "%H", ")", "%M", "|", "%S", "+", "%f", ".mp4">>, \* 8 metacharacters
  <<"/r/", "%path", "/", "%Y", "-", "%m", "-", "%d", "_", "%H", "-", "%M", "-", "%S", ".mp4">>,                \* 9 no micros
  <<"/r/", "%path", "/", "%Y", "%m", "%d", "%H", "%M", "%S", "%f", ".mp4">>,                                   \* 10 no separators
  <<"/r/", "%path", "/", "%Y", "/", "%Y", "-", "%m", "-", "%d", "_", "%H", "-", "%M", "-", "%S", "-", "%f", ".mp4">>, \* 11 repeated %Y
  <<"/r/", "%path", "-", "%Y", "-", "%m", "-", "%d", "_", "%H", "-", "%M", "-", "%S", "-", "%f", "%z", ".mp4">>,      \* 12 zone glued
  <<"/r/", "%z", "/", "%path", "/", "%s", "-", "%f", ".mp4">>,                                                 \* 13 zone first, unix
  <<"/r/", "%path", "/", "%d", "-", "%m", "-", "%Y", "_", "%S", "-", "%M", "-", "%H", "-", "%f", ".mp4">>,     \* 14 permuted
  <<"/r/", "%path", "/", "%s", "_", "%Y", "-", "%m", "-", "%d", "_", "%H", "-", "%M", "-", "%S", "-", "%f", ".mp4">>, \* 15 both
  \* permutations of the same-width elements of format 1, same literals (they collide with it, see Collide)
  <<"/r/", "%path", "/", "%Y", "-", "%d", "-", "%m", "_", "%H", "-", "%M", "-", "%S", "-", "%f", ".mp4">>,     \* 16 month <-> day
  <<"/r/", "%path", "/", "%Y", "-", "%m", "-", "%d", "_", "%S", "-", "%M", "-", "%H", "-", "%f", ".mp4">>,     \* 17 hour <-> second
  <<"/r/", "%path", "/", "%Y", "-", "%M", "-", "%d", "_", "%H", "-", "%m", "-", "%S", "-", "%f", ".mp4">>      \* 18 month <-> minute
>>

\* Two formats collide when they differ only in the order of elements of the same width (%m %d %H %M %S are all
\* two digits): the same names match both, with different meanings. Whatever an implementation remembers between
\* calls (compiled expressions, ...) must not leak from one to the other: histories below.
Class(tok) == IF tok \in {"%m", "%d", "%H", "%M", "%S"} THEN "%2" ELSE tok
Shape(fmt) == [i \in 1..Len(fmt) |-> Class(fmt[i])]
Collide(a, b) == a # b /\ Shape(AllFormats[a]) = Shape(AllFormats[b])
ASSUME SomeCollide == \E a, b \in DOMAIN AllFormats : Collide(a, b)

AllPaths == <<"a", "a/b", "a-1", "cam.1_x", "2008-11-07_11-22-04-123456", "x/2008-11-07_11-22-04-123456.mp4",
              "1638447323", "a/Z">>

\* ---------------------------------------------------------------- layer 2: the round trip, on an observation
\* o = what the real Decode returned for the real name: [ok, path, d, s, us, off]  (d, s: day and second of day, UTC)
\* (off = UTC offset of the returned time.Time at that instant, minutes)
FormatHasMicros(fmt) == HasTok(fmt, "%f")

\* consist: the real name is the spec's name, so the spec's Encode can be used to judge the returned pair
RoundTripOK(fmt, p, d, sd, us, name, pathUnamb, instUnamb, o, checkPath, consist) ==
    /\ o.ok
    /\ (checkPath /\ pathUnamb) => o.path = p
    /\ instUnamb => (~o.big /\ o.d = d /\ o.s = sd /\ o.us = us)
    /\ (consist /\ ~o.big) => Encode(fmt, IF checkPath THEN o.path ELSE p, BDds(o.d, o.s, o.us, o.off)) = name

\* ---------------------------------------------------------------- bounded model / generator
VARIABLES fid, zone, tab, done
vars == <<fid, zone, tab, done>>

Fmt == AllFormats[fid]
Keys == PathIds \X InstIds

Init == fid \in FormatIds /\ zone \in Zones /\ tab = <<>> /\ done = FALSE
Eval == /\ ~done /\ done' = TRUE /\ UNCHANGED <<fid, zone>>
        /\ tab' = [k \in Keys |-> Encode(Fmt, AllPaths[k[1]], LocalBD(k[2], zone))]
Next == Eval
Spec == Init /\ [][Next]_vars

PathUnamb(k) == \A k2 \in Keys : tab[k2] = tab[k] => k2[1] = k[1]
\* "the format identifies the instant unambiguously": it shows the microseconds, and either the Unix second, or
\* the six calendar fields together with the offset or in a zone where that wall-clock reading occurs only once
\* (Table[i].twice: clocks set back); and no other pair of the bounded domain renders to the same name.
InstUnamb(k) == /\ FormatHasMicros(Fmt)
                /\ HasTok(Fmt, "%s") \/ HasTok(Fmt, "%z") \/ ~Table[k[2]].twice[zone]
                /\ \A k2 \in Keys : tab[k2] = tab[k] => k2[2] = k[2]

\* candidate file names: mutations of true names
MetaChars == {".", "+", "(", ")", "[", "]", "{", "}", "|", "^", "$", "*", "?", "\\"}
ReplaceAt(f, k, c) == SubSeq(f, 1, k - 1) \o c \o SubSeq(f, k + 1, Len(f))
Mutations(k) ==
    LET f == tab[k]
        b == LocalBD(k[2], zone)
        p == AllPaths[k[1]]
    IN {f \o ".bak", f \o "~", f \o "/x.txt", f \o "0",
        "/old" \o f, "x" \o f, "old/" \o f,
        SubSeq(f, 1, Len(f) - 1), SubSeq(f, 2, Len(f)), SubSeq(f, 1, Len(f) - 4),
        Encode(Fmt, p, [b EXCEPT !.m = 13]), Encode(Fmt, p, [b EXCEPT !.m = 0]),
        Encode(Fmt, p, [b EXCEPT !.H = 25]), Encode(Fmt, p, [b EXCEPT !.M = 61]),
        Encode(Fmt, p, [b EXCEPT !.d = 32]), Encode(Fmt, p, [b EXCEPT !.S = 60]),
        f \o f, ""}
       \cup {ReplaceAt(f, j, "x") : j \in {j \in 1..Len(f) : Ch(f, j) \in MetaChars}}
       \cup {ReplaceAt(f, j, "x") : j \in {j \in 1..Len(f) : Ch(f, j) \in DigitSet /\ j % 7 = 0}}

CandKeys == {k \in Keys : zone \in CandZones /\ k[1] \in CandPathIds /\ k[2] \in CandInstIds}
TrueNames == Range(tab)

\* ---- the ideal design (layer 1 without deviations) satisfies layer 2 on the bounded domain
\* fields recovered from the name equal the local broken-down fields of the instant
FieldsRecovered(r, p, b) ==
    \A i \in 1..Len(r.b) : r.b[i].s = Render(r.b[i].t, p, b)

IdealRoundTrip ==
    done => \A k \in Keys :
        LET r == DecodeImpl(Fmt, tab[k], NoDev)
        IN /\ r.ok
           /\ PathUnamb(k) => r.path = AllPaths[k[1]]
           /\ (PathUnamb(k) /\ InstUnamb(k)) => FieldsRecovered(r, AllPaths[k[1]], LocalBD(k[2], zone))
           /\ Producible(Fmt, tab[k])

IdealOnlyProducible ==
    done => \A k \in CandKeys : \A c \in Mutations(k) :
        DecodeImpl(Fmt, c, NoDev).ok <=> Producible(Fmt, c)

ASSUME FormatsAccepted == \A i \in DOMAIN AllFormats : AcceptedFormat(AllFormats[i])

\* ---- histories (layer 2: history independence). The statement quantifies over every format, path and instant:
\* it holds for a call whatever calls the same process made before. A history is a sequence of formats A, B, ...
\* that collide; in a FRESH process, for each format in turn, the names of HistPathIds x HistInstIds are produced
\* and decoded (Encode / Decode under A, then under B, ...). Every call is judged by the same per-call formula
\* (RoundTripOK) as anywhere else. Orders A,B and B,A and the interleaving A,B,A, for every pair (A, B) of
\* colliding formats in which A is the lowest-numbered format of its shape.
Representative(a) == \A b \in FormatIds : Collide(a, b) => a < b
HistCall(k) == k[1] \in HistPathIds /\ k[2] \in HistInstIds
EmitHistories ==
    (done /\ zone \in HistZones /\ Representative(fid)) =>
        \A b \in {x \in FormatIds : Collide(fid, x)} :
            Emit("HIST", [zone |-> zone, a |-> fid, b |-> b, orders |-> << <<fid, b>>, <<b, fid>>, <<fid, b, fid>> >>])

\* ---- generator
EmitCases ==
    done =>
      /\ \A k \in Keys :
           Emit("ENC", [fid |-> fid, fmt |-> Fmt, zone |-> zone, pid |-> k[1], p |-> AllPaths[k[1]], inst |-> k[2],
                        d |-> Table[k[2]].d, s |-> Table[k[2]].s, us |-> Table[k[2]].us, off |-> Table[k[2]].off[zone],
                        name |-> tab[k], pathUnamb |-> PathUnamb(k), instUnamb |-> InstUnamb(k), inhist |-> HistCall(k)])
      /\ \A k \in CandKeys : \A c \in Mutations(k) \ TrueNames :
           Emit("CAND", [fid |-> fid, fmt |-> Fmt, zone |-> zone, p |-> AllPaths[k[1]], file |-> c])
=============================================================================
