--------------------------- MODULE TraceSegDelete ---------------------------
(* Trace validation for C31. One ndjson record per scenario run on the REAL API server (package api) and, for
   kind "list", also on the REAL playback server (package playback), under the server zone of the record:
     kind "del":     zone, g, d, s, us, w, written; obs = [status, gone: <<file indices missing afterwards>>]
     kind "listdel": zone, g, idx (the file whose listed start was sent back); obs = [used: [d, s, us, off], status, gone]
     kind "list":    zone, g; api = <<[d, s, us, off]>> (recordings/get, in the order returned),
                               pb  = <<[d, s, us, off]>> (playback /list)
   (d, s: day since 1970 and second of the day, UTC)
   Files are identified by the index of their start instant in SegTable; every scenario starts from the full tree. *)
EXTENDS SegDelete

Trace == ndJsonDeserialize("C31_trace.ndjson")

NB == 16
VARIABLES l, bucket
TraceInit == l = 0 /\ bucket = 0 /\ z = "UTC" /\ g = 1 /\ tgt = 0 /\ w = 0 /\ after = {} /\ done = FALSE
TraceNext == /\ l = 0 /\ UNCHANGED vars
             /\ \/ bucket = 0 /\ bucket' \in 1..NB /\ l' = 0
                \/ bucket > 0 /\ bucket' = bucket /\ l' \in {i \in 1..Len(Trace) : i % NB = bucket - 1}
TraceSpec == TraceInit /\ [][TraceNext]_<<l, bucket, vars>>

AfterOf(r) == InstIds \ Range(r.obs.gone)

\* files in the order a listing returns them: by start instant
Before(i, j) == \/ Table[i].d < Table[j].d
                \/ Table[i].d = Table[j].d /\ Table[i].s < Table[j].s
                \/ Table[i].d = Table[j].d /\ Table[i].s = Table[j].s /\ Table[i].us < Table[j].us
Rank(j) == 1 + Cardinality({i \in InstIds : Before(i, j)})
FileAt(k) == CHOOSE j \in InstIds : Rank(j) = k

ListOK(r, lst) ==
    /\ Len(lst) = Cardinality(InstIds)
    /\ \A k \in 1..Len(lst) : ListedEntryOK(r.g, r.zone, FileAt(k), lst[k])
SameInstants(a, b) == Len(a) = Len(b) /\ \A k \in 1..Len(a) : a[k].d = b[k].d /\ a[k].s = b[k].s /\ a[k].us = b[k].us

Explain(r, d, s, us, ww) ==
    \* named only if the deviation reproduces what happened and the handler without it would not have done the same
    IF /\ AfterOf(r) = DeleteImpl(r.g, r.zone, InstIds, d, s, us, ww, TRUE)
       /\ AfterOf(r) # DeleteImpl(r.g, r.zone, InstIds, d, s, us, ww, FALSE)
    THEN "ClientOffsetRendering" ELSE "none"

Verdict(r, ln) ==
    CASE r.kind = "del" ->
           Monitor(DeleteOK(InstIds, AfterOf(r), r.d, r.s, r.us),
                   [l |-> ln, monitor |-> "DeleteExact", explained |-> Explain(r, r.d, r.s, r.us, r.w)])
      [] r.kind = "listdel" ->
           \* what the list said about file idx was sent back: exactly that file must be gone
           Monitor(AfterOf(r) = InstIds \ {r.idx},
                   [l |-> ln, monitor |-> "DeleteAsListed", explained |-> Explain(r, r.obs.used.d, r.obs.used.s, r.obs.used.us, r.obs.used.off)])
      [] r.kind = "list" ->
           /\ Monitor(ListOK(r, r.api), [l |-> ln, monitor |-> "ApiListInstants", explained |-> "none"])
           /\ Monitor(ListOK(r, r.pb), [l |-> ln, monitor |-> "PlaybackListInstants", explained |-> "none"])
           /\ Monitor(SameInstants(r.api, r.pb), [l |-> ln, monitor |-> "ListsAgree", explained |-> "none"])

Conforms(r) ==
    CASE r.kind = "del" -> AfterOf(r) = DeleteImpl(r.g, r.zone, InstIds, r.d, r.s, r.us, r.w, CodeClientOffset)
      [] r.kind = "listdel" -> AfterOf(r) = DeleteImpl(r.g, r.zone, InstIds, r.obs.used.d, r.obs.used.s, r.obs.used.us, r.obs.used.off, CodeClientOffset)
      [] OTHER -> TRUE

Verdicts == l >= 1 => Verdict(Trace[l], l)
Drift    == l >= 1 => (Conforms(Trace[l]) \/ Emit("DRIFT", [l |-> l]))
Accepted == TLCGet("stats").distinct = 1 + NB + Len(Trace)
=============================================================================
