----------------------------- MODULE RecCorrupt -----------------------------
(* C28  Playback endpoints survive any recording directory content.
   Extends the segment file model of RecFile.tla (crash tails: truncated, zero-filled, garbage)
   with structural corruptions of the box tree the recorder writes, foreign files, and
   non-files where segments are expected. TLC enumerates the shapes; the statement only asks
   that every request is answered with data or an error and that the process stays alive.   *)
EXTENDS RecFile

\* Named deviations (layer 1 switches, TRUE = the code shows the deviation; cfg defaults = current tree):
\*   DevTimescaleZeroExits (declared in RecFile)  C28-F1, fixed in 3adcf73
CONSTANTS
    DevNilTrafBoxExits,       \* C28-F2 (fixed in cc06103): tfhd/tfdt missing or after trun in the first traf
                              \* of the first moof made segmentFMP4MuxParts dereference nil
    DevSampleSizeUnbounded    \* C28-F3 (known): a buffer of the declared sample size is allocated before
                              \* reading; 0xFFFFFFFF aborts the process under the 3 GiB limit

\* ---------------------------------------------------------------- C28: structural corruption shapes
\* The box tree of a segment as the recorder writes it, for a file with two tracks and two parts.
\* Shapes are enumerated here (CorruptShapes, ForeignKinds, NodeKinds); the only requirement is
\* Survives(obs): every request answered with data or an error, and the process alive.
Containers == {"moov", "moov/trak", "moov/trak/mdia", "moov/trak/mdia/minf", "moov/trak/mdia/minf/stbl",
               "moov/mvex", "moov/udta", "moof", "moof/traf"}
\* box path -> the numeric fields playback's parser (or the libraries it calls) reads from it
Fields == [
    ftyp  |-> {"size"},
    moov  |-> {"size"},
    mvhd  |-> {"size", "version", "timescale", "duration"},
    trak  |-> {"size"},
    tkhd  |-> {"size", "trackid"},
    mdhd  |-> {"size", "timescale"},
    stsd  |-> {"size", "entrycount"},
    trex  |-> {"size", "trackid"},
    mtxi  |-> {"size", "version", "segnumber", "dts", "ntp"},
    moof  |-> {"size"},
    mfhd  |-> {"size", "seqnumber"},
    traf  |-> {"size"},
    tfhd  |-> {"size", "flags", "trackid"},
    tfdt  |-> {"size", "version", "basetime"},
    trun  |-> {"size", "flags", "samplecount", "dataoffset", "sampleduration", "samplesize"},
    mdat  |-> {"size"} ]
Values == {"zero", "one", "seven", "minus1", "plus1", "max"}
\* which occurrence of the box is hit: in the header, in the first or in the last part; first or second track
Where == {"p1t1", "p1t2", "p2t1", "p2t2"}
InPart(b) == b \in {"moof", "mfhd", "traf", "tfhd", "tfdt", "trun", "mdat"}
PerTrack(b) == b \in {"trak", "tkhd", "mdhd", "stsd", "trex", "traf", "tfhd", "tfdt", "trun"}
Sites(b) == IF InPart(b) THEN (IF PerTrack(b) THEN Where ELSE {"p1t1", "p2t1"})
            ELSE (IF PerTrack(b) THEN {"p1t1", "p1t2"} ELSE {"p1t1"})
FieldShapes == { [kind |-> "field", box |-> b, field |-> f, val |-> v, site |-> s] :
                   b \in DOMAIN Fields, f \in UNION { Fields[x] : x \in DOMAIN Fields }, v \in Values, s \in Where }
ValidFieldShape(sh) == sh.field \in Fields[sh.box] /\ sh.site \in Sites(sh.box)
\* structural edits on children of moof / traf / moov (sizes of the parents are kept consistent)
Children == [ moof |-> <<"mfhd", "traf1", "traf2">>,
              traf |-> <<"tfhd", "tfdt", "trun">>,
              moov |-> <<"mvhd", "trak1", "trak2", "mvex", "udta">>,
              top  |-> <<"ftyp", "moov", "moof1", "mdat1", "moof2", "mdat2">> ]
StructShapes ==
    { [kind |-> "drop", parent |-> p, a |-> i, b |-> 0, site |-> s] :
        p \in DOMAIN Children, i \in 1..6, s \in Where }
    \cup { [kind |-> "dup", parent |-> p, a |-> i, b |-> 0, site |-> s] :
        p \in DOMAIN Children, i \in 1..6, s \in Where }
    \cup { [kind |-> "swap", parent |-> p, a |-> i, b |-> j, site |-> s] :
        p \in DOMAIN Children, i \in 1..6, j \in 1..6, s \in Where }
ParentSites(p) == IF p = "traf" THEN Where ELSE IF p = "moof" THEN {"p1t1", "p2t1"} ELSE {"p1t1"}
ValidStructShape(sh) ==
    /\ sh.a <= Len(Children[sh.parent]) /\ sh.site \in ParentSites(sh.parent)
    /\ sh.kind = "swap" => (sh.a < sh.b /\ sh.b <= Len(Children[sh.parent]))
ForeignKinds == {"empty", "text", "mpegts", "plainmp4", "zeros4k", "ftyponly", "headeronly",
                 "dir", "symlink_dir", "symlink_missing", "symlink_loop", "symlink_good", "unreadable"}
\* the corrupted file stands alone, or between two good segments of the same stream
Neighbours == {"alone", "between"}

\* directory content = two or three files written by the recorder whose headers are valid one by
\* one but do not fit each other: the file after the first one
Inconsistencies == {"extra_track", "missing_track", "codec", "timescale"}
\* ... while its mtxi box says that it continues the first file (same stream id, number + 1), says
\* that it does not, is absent, or is absent in both files (legacy concatenation by time and tracks)
MtxiRelations == {"continuing", "not_continuing", "absent", "absent_both"}
PairShapes == { [kind |-> "pair", incons |-> i, mtxi |-> m, files |-> n] :
                  i \in Inconsistencies, m \in MtxiRelations, n \in {2, 3} }

VARIABLES cdone
CorruptInit == Init /\ cdone = FALSE
CorruptNext == ~cdone /\ cdone' = TRUE /\ UNCHANGED vars
CorruptSpec == CorruptInit /\ [][CorruptNext]_<<cdone, vars>>
EmitShapes ==
    cdone =>
      /\ \A sh \in PairShapes : Emit("SHAPE", [sh |-> sh, nb |-> "pair"])
      /\ \A sh \in FieldShapes : ValidFieldShape(sh) => \A nb \in Neighbours : Emit("SHAPE", [sh |-> sh, nb |-> nb])
      /\ \A sh \in StructShapes : ValidStructShape(sh) => \A nb \in Neighbours : Emit("SHAPE", [sh |-> sh, nb |-> nb])
      /\ \A fk \in ForeignKinds : \A nb \in Neighbours :
            Emit("SHAPE", [sh |-> [kind |-> "foreign", what |-> fk], nb |-> nb])

\* ---------------------------------------------------------------- layer 1: what the code does with a shape
\* shapes after which the mvhd timescale reads 0 (Unmarshal is given whatever box follows the moov header)
TimescaleZeroShape(sh) ==
    \/ (sh.kind = "field" /\ sh.box = "mvhd" /\ sh.field = "timescale" /\ sh.val = "zero")
    \/ (sh.kind = "drop" /\ sh.parent = "moov" /\ sh.a = 1)
    \/ (sh.kind = "swap" /\ sh.parent = "moov" /\ sh.a = 1 /\ sh.b \in {2, 3})
\* shapes that leave trun (or tfdt) of the very first traf without its predecessors
NilTrafShape(sh) ==
    /\ sh.kind \in {"drop", "swap"} /\ sh.parent = "traf" /\ sh.site = "p1t1"
    /\ (sh.kind = "drop" => sh.a \in {1, 2})
SampleSizeMaxShape(sh) == sh.kind = "field" /\ sh.box = "trun" /\ sh.field = "samplesize" /\ sh.val = "max"
L1Exits(sh, server) ==
    /\ server = "playback"
    /\ \/ (DevTimescaleZeroExits /\ TimescaleZeroShape(sh))
       \/ (DevNilTrafBoxExits /\ NilTrafShape(sh))
       \/ (DevSampleSizeUnbounded /\ SampleSizeMaxShape(sh))
\* foreign files /list takes for a segment: ftyp + a moov mediacommon accepts, and a duration in the
\* header or at least one part - a header-only file of a closed segment and a plain MP4 qualify
L1ListedAsSegment(what) == what \in {"plainmp4", "headeronly", "symlink_good", "unreadable"}

\* C28 layer 2: "answer with data or an error and never crash the server process"
Answered(r) == r.status \in 200..599
Survives(obs) == obs.alive /\ \A i \in 1..Len(obs.responses) : Answered(obs.responses[i])
=============================================================================
