SPECIFICATION Spec
CONSTANT MaxParts = 3
INVARIANTS TypeOK Shape ServesComplete LostInLastPart PatchAfterParts ClassPredictionSound
INVARIANT EmitClasses
CHECK_DEADLOCK FALSE
