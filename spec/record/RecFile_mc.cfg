SPECIFICATION Spec
CONSTANTS
  MaxParts = 3
  DevTornTailFailsGet = TRUE
  DevTimescaleZeroExits = FALSE
INVARIANTS TypeOK Shape ServesComplete LostInLastPart PatchAfterParts ClassPredictionSound DeviationsExplainAll
INVARIANT EmitClasses
CHECK_DEADLOCK FALSE
