SPECIFICATION Spec
CONSTANTS
  MaxParts = 3
  PartEnds = {1, 2, 3}
  DevTornTailFailsGet = TRUE
  DevTimescaleZeroExits = FALSE
INVARIANTS TypeOK Shape ServesComplete LostInLastPart PatchAfterParts TrueDurationRecorded ClassPredictionSound DeviationsExplainAll
INVARIANT EmitClasses
CHECK_DEADLOCK FALSE
