SPECIFICATION Spec
CONSTANTS
  MaxParts = 3
  PartEnds = {1, 2, 3}
  DevTornTailFailsGet = TRUE
  DevTimescaleZeroExits = FALSE
  DevRewritesFailedPart = FALSE
INVARIANTS TypeOK Shape ShapeAfterFault ServesComplete LostInLastPart PatchAfterParts TrueDurationRecorded ClassPredictionSound DeviationsExplainAll
INVARIANT EmitClasses
INVARIANT EmitFaults
CHECK_DEADLOCK FALSE
