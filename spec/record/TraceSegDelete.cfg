SPECIFICATION TraceSpec
CONSTANTS
  Zones = {"UTC", "Asia/Kolkata", "America/Los_Angeles", "America/New_York"}
INVARIANT Verdicts
INVARIANT Drift
POSTCONDITION Accepted
CHECK_DEADLOCK FALSE
