SPECIFICATION TraceSpec
CONSTANTS
  CodeUnanchored = FALSE
  CodeNoRange = FALSE
  CodeClientOffset = FALSE
  Zones = {"UTC", "Asia/Kolkata", "America/Los_Angeles", "America/New_York"}
INVARIANT Verdicts
INVARIANT Drift
POSTCONDITION Accepted
CHECK_DEADLOCK FALSE
