------------------------------ MODULE Playback ------------------------------
(* C29  Playback list/get return exactly the recorded media in range
   (internal/playback/on_list.go, on_get.go, muxer_fmp4.go, internal/recordstore/segment.go)

   Time is an integer grid (milliseconds). The recorded media of a path is a sequence of RUNS
   (one recorder instance = one stream id; a restart starts a new run, possibly after a gap);
   a run is a sequence of samples [tr, id, t, d, sync] (track, identity, absolute start, duration,
   random-access?) per track in recorded order. On disk a run is split into segments and
   segments into parts; the split is invisible in what the statement asks of list and get:

   Layer 2 (the statement):
     ListSpec(media, S, E)  the recorded media clipped to the window, one span per run
                            ("merge only consecutive segments of one stream")
     GetOK(media, S, D, got) per track: the samples with S <= t < S+D, in recorded order, at
                            times relative to S, preceded only by samples since the last
                            random-access point before S
   Layer 1 (shaped like the code): the same answers computed segment by segment
     (ListBySegments: one span per segment, merged when the next segment continues the stream;
      VisibleBySegments: the samples of the segments that intersect the window).
   TLC checks layer 1 = layer 2 for every history and window of the bounded model and emits the
   histories and windows as stimuli for the real recorder and the real playback server.      *)
EXTENDS VerifCommon

CONSTANTS
    TrackSets,      \* subset of {"v", "va", "a"}
    MaxRuns,        \* 1..2
    Gaps,           \* gaps between runs, ms (0 = restart without gap)
    MaxSegs,        \* segments in the whole history
    MaxParts,       \* parts per segment
    SPPs,           \* video frames (audio-only: samples) per part
    Layouts,        \* file-name layouts of the record path: subset of {"chrono", "dayfirst", "timefirst"}
    CrossLayouts    \* TRUE: every history with every layout; FALSE: layouts rotate over the histories

FrameV == 40      \* ms between video frames
FrameA == 30      \* ms between audio samples
NONE == -1000000  \* "no bound given" for list

SetMax(S) == CHOOSE x \in S : \A y \in S : y <= x
SetMin(S) == CHOOSE x \in S : \A y \in S : x <= y

\* ---------------------------------------------------------------- histories (stimuli)
\* params: [tracks, segs (sequence: segments of each run), gap, parts, spp]
HasV(tracks) == tracks \in {"v", "va"}
HasA(tracks) == tracks \in {"va", "a"}
VTrack(tracks) == 1
ATrack(tracks) == IF tracks = "a" THEN 1 ELSE 2
Lead(tracks) == IF HasV(tracks) THEN FrameV ELSE FrameA       \* the track that drives the split
PartMs(p) == p.spp * Lead(p.tracks)
SegMs(p)  == p.parts * PartMs(p)
RunLen(p, r) == p.segs[r] * SegMs(p)
Ceil(a, b) == (a + b - 1) \div b

\* samples of one track of run r starting at base; ids are unique in the history
TrackSamples(tr, video, base, len, step, gop, idbase) ==
    [i \in 1..Ceil(len, step) |->
        [tr |-> tr, id |-> idbase + i, t |-> base + (i - 1) * step, d |-> step,
         sync |-> IF video THEN ((i - 1) % gop = 0) ELSE TRUE]]

RunSamples(p, r, base) ==
    LET len == RunLen(p, r)
        v == IF HasV(p.tracks)
             THEN TrackSamples(VTrack(p.tracks), TRUE, base, len, FrameV, p.spp * p.parts, r * 1000)
             ELSE <<>>
        a == IF HasA(p.tracks)
             THEN TrackSamples(ATrack(p.tracks), FALSE, base, len, FrameA, 1, r * 1000 + 500)
             ELSE <<>>
    IN  v \o a
RunEndOf(ss) == SetMax({ ss[i].t + ss[i].d : i \in 1..Len(ss) })
RunStartOf(ss) == SetMin({ ss[i].t : i \in 1..Len(ss) })

RECURSIVE MediaFrom(_, _, _)
MediaFrom(p, r, base) ==
    IF r > Len(p.segs) THEN <<>>
    ELSE LET ss == RunSamples(p, r, base)
         IN  <<ss>> \o MediaFrom(p, r + 1, RunEndOf(ss) + p.gap)
Media(p) == MediaFrom(p, 1, 0)          \* sequence of runs, each a sequence of samples

\* ---------------------------------------------------------------- layer 2: the statement
Span(s, e) == [s |-> s, d |-> e - s]
RECURSIVE ListSpecFrom(_, _, _, _)
ListSpecFrom(media, r, S, E) ==
    IF r > Len(media) THEN <<>>
    ELSE LET lo == IF S = NONE THEN RunStartOf(media[r]) ELSE Max(RunStartOf(media[r]), S)
             hi == IF E = NONE THEN RunEndOf(media[r]) ELSE Min(RunEndOf(media[r]), E)
         IN  (IF lo < hi THEN <<Span(lo, hi)>> ELSE <<>>) \o ListSpecFrom(media, r + 1, S, E)
ListSpec(media, S, E) == ListSpecFrom(media, 1, S, E)

\* what list returned, as a sequence of [s, d]: time-ordered, non-overlapping, and - zero-length
\* spans cover nothing and are left open - exactly the expected spans
Ordered(spans) ==
    /\ \A i \in 1..Len(spans) : spans[i].d >= 0
    /\ \A i \in 1..(Len(spans) - 1) : spans[i].s + spans[i].d <= spans[i + 1].s
NonEmpty(spans) == SelectSeq(spans, LAMBDA x : x.d > 0)
ListOK(media, S, E, spans) == Ordered(spans) /\ NonEmpty(spans) = ListSpec(media, S, E)

AllSamples(media) == Flatten(media)
OfTrack(ss, tr) == SelectSeq(ss, LAMBDA x : x.tr = tr)
TracksOf(ss) == { ss[i].tr : i \in 1..Len(ss) }
InWindow(ss, S, D) == SelectSeq(ss, LAMBDA x : S <= x.t /\ x.t < S + D)
\* the samples of a track that may precede the window: those since its last random-access
\* sample that starts at or before S (none if there is no such sample)
LeadAllowed(ss, S) ==
    LET syncs == { i \in 1..Len(ss) : ss[i].sync /\ ss[i].t <= S }
    IN  IF syncs = {} THEN <<>>
        ELSE SelectSeq(SubSeq(ss, SetMax(syncs), Len(ss)), LAMBDA x : x.t < S)
IsSuffix(a, b) == Len(a) <= Len(b) /\ a = SubSeq(b, Len(b) - Len(a) + 1, Len(b))
\* got: what get returned for one track, a sequence of [id, rel] in served order
TrackGetOK(ss, S, D, got) ==
    LET vis == InWindow(ss, S, D)
        n == Len(got) - Len(vis)
    IN  /\ n >= 0
        /\ \A i \in 1..Len(vis) : got[n + i].id = vis[i].id /\ got[n + i].rel = vis[i].t - S
        /\ LET lead == [i \in 1..n |-> got[i].id]
               allowed == LeadAllowed(ss, S)
           IN  IsSuffix(lead, [i \in 1..Len(allowed) |-> allowed[i].id])
GetOK(media, S, D, got) ==
    LET all == AllSamples(media)
    IN  \A tr \in TracksOf(all) :
          LET g == SelectSeq(got, LAMBDA x : x.tr = tr)
          IN  \* a track without visible samples may be left out altogether
              (InWindow(OfTrack(all, tr), S, D) = <<>> /\ g = <<>>)
              \/ TrackGetOK(OfTrack(all, tr), S, D, g)
GetEmpty(media, S, D) == InWindow(AllSamples(media), S, D) = <<>>

\* ---------------------------------------------------------------- layer 1: segment by segment
\* the planned split: segment k of a run holds the samples that start in its SegMs-long slot
SegSamples(p, ss, base, k) == SelectSeq(ss, LAMBDA x : base + (k - 1) * SegMs(p) <= x.t /\ x.t < base + k * SegMs(p))
SegsOfRun(p, r, ss) ==
    LET base == RunStartOf(ss)
    IN  [k \in 1..p.segs[r] |->
           LET xs == SegSamples(p, ss, base, k)
           IN  [run |-> r, number |-> k - 1, start |-> RunStartOf(xs), end |-> RunEndOf(xs), samples |-> xs]]
Segments(p) == LET m == Media(p) IN Flatten([r \in 1..Len(m) |-> SegsOfRun(p, r, m[r])])
Continues(a, b) == a.run = b.run /\ b.number = a.number + 1
RECURSIVE Concat(_, _)
Concat(segs, acc) ==
    IF segs = <<>> THEN acc
    ELSE LET g == Head(segs) IN
         IF acc # <<>> /\ Continues(acc[Len(acc)].last, g)
         THEN Concat(Tail(segs), [acc EXCEPT ![Len(acc)] = [s |-> @.s, e |-> Max(@.e, g.end), last |-> g]])
         ELSE Concat(Tail(segs), Append(acc, [s |-> g.start, e |-> g.end, last |-> g]))
ListBySegments(p, S, E) ==
    LET merged == Concat(Segments(p), <<>>)
        clipped == [i \in 1..Len(merged) |->
                      [lo |-> IF S = NONE THEN merged[i].s ELSE Max(merged[i].s, S),
                       hi |-> IF E = NONE THEN merged[i].e ELSE Min(merged[i].e, E)]]
        kept == SelectSeq(clipped, LAMBDA x : x.lo < x.hi)
    IN  [i \in 1..Len(kept) |-> Span(kept[i].lo, kept[i].hi)]
VisibleBySegments(p, S, D) ==
    LET segs == Segments(p)
        hit == SelectSeq(segs, LAMBDA g : g.start < S + D /\ S < g.end + SegMs(p))
    IN  InWindow(Flatten([i \in 1..Len(hit) |-> hit[i].samples]), S, D)

\* ---------------------------------------------------------------- windows
\* every boundary of the history (run and segment starts and ends, one sample start inside a part) -1, 0, +1
Boundaries(p) ==
    LET segs == Segments(p)
        pts == { segs[i].start : i \in 1..Len(segs) } \cup { segs[i].end : i \in 1..Len(segs) }
               \cup { segs[1].samples[Len(segs[1].samples)].t }
    IN  { b + k : b \in pts, k \in {-1, 0, 1} }

\* ---------------------------------------------------------------- bounded model
VARIABLES params, done
vars == <<params, done>>
RECURSIVE SumSeq(_)
SumSeq(s) == IF s = <<>> THEN 0 ELSE Head(s) + SumSeq(Tail(s))
\* The layout of the file names is invisible in the statement (the media and the windows are
\* instants); it is a dimension of the stimuli: the harness dates every history across a month
\* boundary at midnight, where the order of day-first and time-first names is not the order of
\* the instants, so that whatever walks the directory in name order is exercised out of order.
LayoutSeq == SelectSeq(<<"chrono", "dayfirst", "timefirst">>, LAMBDA x : x \in Layouts)
LayoutIndex(p) ==
    SumSeq(p.segs) + Len(p.segs) + p.parts + p.spp + (IF p.gap > 0 THEN 1 ELSE 0)
      + (IF p.tracks = "v" THEN 0 ELSE IF p.tracks = "va" THEN 1 ELSE 2)
ParamSpace ==
    { p \in [tracks : TrackSets, segs : UNION { [1..n -> 1..MaxSegs] : n \in 1..MaxRuns },
             gap : Gaps, parts : 1..MaxParts, spp : SPPs, layout : Layouts] :
        /\ SumSeq(p.segs) <= MaxSegs
        /\ (Len(p.segs) = 1 => p.gap = SetMin(Gaps))
        /\ (CrossLayouts \/ p.layout = LayoutSeq[(LayoutIndex(p) % Len(LayoutSeq)) + 1]) }
Init == params \in ParamSpace /\ done = FALSE
Eval == ~done /\ done' = TRUE /\ UNCHANGED params
Next == Eval
Spec == Init /\ [][Next]_vars

ListWindows(p) == LET B == Boundaries(p) \cup {NONE} IN { <<s, e>> \in B \X B : s = NONE \/ e = NONE \/ s < e }
GetWindows(p)  == LET B == Boundaries(p) IN { <<s, e - s>> : <<s, e>> \in { x \in B \X B : x[1] < x[2] } }

\* layer 1 = layer 2 on every history and window of the model
SplitInvisible ==
    done =>
      LET m == Media(params) IN
        /\ \A w \in ListWindows(params) : ListBySegments(params, w[1], w[2]) = ListSpec(m, w[1], w[2])
        /\ \A w \in GetWindows(params) : \A tr \in TracksOf(AllSamples(m)) :
              OfTrack(VisibleBySegments(params, w[1], w[2]), tr) = OfTrack(InWindow(AllSamples(m), w[1], w[2]), tr)
\* the ideal answer satisfies the statement's formulas (sanity of layer 2)
SpecSane ==
    done =>
      LET m == Media(params) all == AllSamples(m) IN
        /\ \A w \in ListWindows(params) : ListOK(m, w[1], w[2], ListSpec(m, w[1], w[2]))
        /\ \A w \in GetWindows(params) :
              GetOK(m, w[1], w[2],
                    LET vis == InWindow(all, w[1], w[2])
                    IN  [i \in 1..Len(vis) |-> [tr |-> vis[i].tr, id |-> vis[i].id, rel |-> vis[i].t - w[1]]])

\* generator: one case per history, with its windows
EmitCases ==
    done => Emit("HIST", [p |-> params, partMs |-> PartMs(params), segMs |-> SegMs(params),
                          runs |-> Media(params),
                          lists |-> ListWindows(params), gets |-> GetWindows(params)])
=============================================================================
