---------------------------- MODULE TraceSegName ----------------------------
(* Trace validation for C26. One ndjson record per case replayed on the REAL Path.Encode / Path.Decode
   (harness/internal/recordstore/zz_verif_c26_test.go), under the server zone of the case:

   kind = "enc":  fmt, zone, p, d, s, us, off, name (the spec's name), pathUnamb, instUnamb,
                  obs = [name  |-> what the recorder's two steps (substitute %path, Path{Start}.Encode) wrote,
                         a     |-> Decode(format, name)               (how regexp path confs find paths),
                         b     |-> Decode(format with %path substituted, name)   (how FindSegments lists)]
   kind = "cand": fmt, zone, p, file, obs = [a |-> Decode(format, file), b |-> Decode(substituted format, file)]
   a, b = [ok, path, d, s, us, off, big]  (d, s: day since 1970 and second of the day, UTC)   (big: the instant does not fit the model's integers)

   TLC evaluates the statement's formulas (layer 2 of SegName.tla) on every record; a failing one is
   reported with the named deviation of layer 1 that explains it, if one does. Conformance of (ok, path)
   with layer 1 (CodeDev: the deviations the cfg switches on) is reported as DRIFT only.                              *)
EXTENDS SegName

Trace == ndJsonDeserialize("C26_trace.ndjson")

\* Records are independent, so the trace is not walked as a chain: the initial state fans out into NB bucket
\* states and each bucket state into its share of the records; TLC's workers evaluate the buckets in parallel.
\* Accepted: every record was reached (and judged) exactly once.
NB == 16
VARIABLES l, bucket
TraceInit == l = 0 /\ bucket = 0 /\ fid = 1 /\ zone = "UTC" /\ tab = <<>> /\ done = FALSE
TraceNext == /\ l = 0 /\ UNCHANGED vars
             /\ \/ bucket = 0 /\ bucket' \in 1..NB /\ l' = 0
                \/ bucket > 0 /\ bucket' = bucket /\ l' \in {i \in 1..Len(Trace) : i % NB = bucket - 1}
TraceSpec == TraceInit /\ [][TraceNext]_<<l, bucket, vars>>

Proj(r) == [ok |-> r.ok, path |-> r.path]
ObsProj(o, withPath) == [ok |-> o.ok, path |-> IF withPath /\ o.ok THEN o.path ELSE ""]
ImplProj(fmt, f, dev, withPath) ==
    LET r == DecodeImpl(fmt, f, dev) IN [ok |-> r.ok, path |-> IF withPath /\ r.ok THEN r.path ELSE ""]

\* which named deviation accounts for a failed formula (annotation of the verdict, not the verdict): the
\* observation is what the decoder WITH that deviation returns, and the decoder without it gives the right answer
ExplainRecognized(fmt, f, o, withPath) ==
    IF \E nr \in BOOLEAN : /\ ObsProj(o, withPath) = ImplProj(fmt, f, Dev(TRUE, nr), withPath)
                            /\ ~DecodeImpl(fmt, f, Dev(FALSE, nr)).ok
    THEN "UnanchoredSearch"
    ELSE IF \E ua \in BOOLEAN : /\ ObsProj(o, withPath) = ImplProj(fmt, f, Dev(ua, TRUE), withPath)
                                 /\ ~DecodeImpl(fmt, f, Dev(ua, FALSE)).ok
    THEN "NoRangeCheck"
    ELSE "none"

ExplainRoundTrip(fmt, f, p, o, withPath) ==
    IF /\ o.ok
       /\ \E nr \in BOOLEAN :
            /\ ObsProj(o, withPath) = ImplProj(fmt, f, Dev(TRUE, nr), withPath)
            /\ ImplProj(fmt, f, Dev(FALSE, nr), withPath) = [ok |-> TRUE, path |-> IF withPath THEN p ELSE ""]
            /\ ObsProj(o, withPath) # ImplProj(fmt, f, Dev(FALSE, nr), withPath)
    THEN "UnanchoredSearch"
    ELSE "none"

EncVerdict(r, ln) ==
    LET same == r.obs.name = r.name
        sf   == Subst(r.fmt, r.p)
    IN /\ Monitor(RoundTripOK(r.fmt, r.p, r.d, r.s, r.us, r.obs.name, r.pathUnamb, r.instUnamb, r.obs.a, TRUE, same),
                  [l |-> ln, monitor |-> "RoundTrip", explained |-> ExplainRoundTrip(r.fmt, r.obs.name, r.p, r.obs.a, TRUE)])
       /\ Monitor(RoundTripOK(r.fmt, r.p, r.d, r.s, r.us, r.obs.name, r.pathUnamb, r.instUnamb, r.obs.b, FALSE, same),
                  [l |-> ln, monitor |-> "RoundTripSubst", explained |-> ExplainRoundTrip(sf, r.obs.name, r.p, r.obs.b, FALSE)])

CandVerdict(r, ln) ==
    LET sf == Subst(r.fmt, r.p)
    IN /\ Monitor(r.obs.a.ok => WholeNameMatch(r.fmt, r.file),
                  [l |-> ln, monitor |-> "WholeName", explained |-> ExplainRecognized(r.fmt, r.file, r.obs.a, TRUE)])
       /\ Monitor((r.obs.a.ok /\ WholeNameMatch(r.fmt, r.file)) => Producible(r.fmt, r.file),
                  [l |-> ln, monitor |-> "ValidFields", explained |-> ExplainRecognized(r.fmt, r.file, r.obs.a, TRUE)])
       /\ Monitor(r.obs.b.ok => WholeNameMatch(sf, r.file),
                  [l |-> ln, monitor |-> "WholeNameSubst", explained |-> ExplainRecognized(sf, r.file, r.obs.b, FALSE)])
       /\ Monitor((r.obs.b.ok /\ WholeNameMatch(sf, r.file)) => Producible(sf, r.file),
                  [l |-> ln, monitor |-> "ValidFieldsSubst", explained |-> ExplainRecognized(sf, r.file, r.obs.b, FALSE)])

Verdicts == l >= 1 => LET r == Trace[l] IN IF r.kind = "enc" THEN EncVerdict(r, l) ELSE CandVerdict(r, l)

\* ---- conformance with layer 1 = the decoder with the deviations the cfg says the code has (never a verdict)
Conforms(r) ==
    LET f  == IF r.kind = "enc" THEN r.obs.name ELSE r.file
        sf == Subst(r.fmt, r.p)
    IN /\ (r.kind = "enc" => r.obs.name = r.name /\ r.obs.direct = r.name)
       /\ ObsProj(r.obs.a, TRUE) = ImplProj(r.fmt, f, CodeDev, TRUE)
       /\ ObsProj(r.obs.b, FALSE) = ImplProj(sf, f, CodeDev, FALSE)

Drift    == l >= 1 => (Conforms(Trace[l]) \/ Emit("DRIFT", [l |-> l]))
Accepted == TLCGet("stats").distinct = 1 + NB + Len(Trace)
=============================================================================
