SPECIFICATION Spec
CONSTANTS
  Pubs = {"p1","p2"}
  Readers = {"r1","r2"}
  Descs = {"d1"}
  SourceKind = "publisher"
  Override = TRUE
  MaxReaders = 1
  OnDemandPub = FALSE
  Regex = FALSE
  Fallback = FALSE
  MaxSteps = 6
INVARIANTS TypeOK MonC16 MonC18 MonC19 MonC20 NoDeadWait
CHECK_DEADLOCK FALSE
