---------------------------- MODULE PathManager ----------------------------
(* C15  Live paths reconcile with configuration after reloads
   (internal/core/path_manager.go doReloadConf / createPath, internal/core/path.go reloadConf)

   Configuration maps over four keys: one static path configuration and three regular-expression
   configurations (two overlapping patterns and all_others). Each present configuration has a
   hot-reloadable value and a cold value. Live paths: the static one plus paths created on
   demand for requested names (kept busy by a publisher).

   Layer 1 follows doReloadConf: confsToRecreate/confsToReload, the loop over live paths
   (closed when the name no longer resolves, re-homed when it resolves to another
   configuration that "can be updated" and yields the same capture groups, closed when recreated, `go pa.reloadConf(c)` when
   reloaded), replacement of the map, creation of new static paths. The goroutine spawned by
   `go pa.reloadConf(c)` is a separate Deliver step, so deliveries may overtake each other.
   Layer 2 is the statement, evaluated whenever no delivery is in flight.                 *)
EXTENDS VerifCommon

CONSTANTS
    Names,        \* requested path names
    StaticKey,    \* the static configuration's name (a member of Names)
    RegexOrder,   \* sequence of regex configuration keys in resolution order (all_others last)
    Match,        \* Match[k][n] = sequence of capture groups, or <<"no">> when k does not match n
    Hot, Cold,    \* value sets
    HotKeys,      \* keys whose hot value varies (the others always carry the first hot value)
    InitKeys,     \* keys present initially
    MaxReloads, MaxInc,
    SimDepth      \* length at which a simulated behaviour is emitted

Keys == {StaticKey} \cup Range(RegexOrder)
Absent == [hot |-> -1, cold |-> -1]
IsPresent(c) == c # Absent
H0 == CHOOSE h \in Hot : \A x \in Hot : h <= x
C0 == CHOOSE c \in Cold : \A x \in Cold : c <= x
ConfMaps == {m \in [Keys -> {Absent} \cup [hot : Hot, cold : Cold]] :
                \A k \in Keys \ HotKeys : m[k] = Absent \/ m[k].hot = H0}
NoMatch == <<"no">>

\* ---- resolution (the statement of C14, over the abstract tables)
RECURSIVE FirstMatch(_, _, _)
FirstMatch(cm, n, i) ==
    IF i > Len(RegexOrder) THEN "none"
    ELSE IF IsPresent(cm[RegexOrder[i]]) /\ Match[RegexOrder[i]][n] # NoMatch THEN RegexOrder[i]
    ELSE FirstMatch(cm, n, i + 1)
ResolveKey(cm, n) == IF n = StaticKey /\ IsPresent(cm[StaticKey]) THEN StaticKey ELSE FirstMatch(cm, n, 1)
GroupsOf(k, n) == IF k = StaticKey THEN <<>> ELSE Match[k][n]

Dead == [alive |-> FALSE, inc |-> 0, key |-> "none", conf |-> Absent, groups |-> <<>>]

VARIABLES cm,        \* the manager's configuration map
          live,      \* name -> path ([alive, inc, key = confName, conf = what the path runs with, groups])
          inflight,  \* set of undelivered [name, inc, conf, seq]
          nseq, ninc, nreload,
          closedIncs,\* history: incarnations that were closed (their clients were disconnected)
          busy,      \* names whose live path is kept busy by a publisher (Request .. Release / closed by a reload)
          hist       \* history: the actions taken (replay script); hidden by the VIEW
vars == <<cm, live, inflight, nseq, ninc, nreload, closedIncs, busy, hist>>

CanUpdate(old, new) == old.cold = new.cold      \* pathConfCanBeUpdated: only hot fields (and name/regexp) differ

\* ---- doReloadConf
ReloadEffect(newcm) ==
    LET recreate == {k \in Keys : IsPresent(cm[k]) /\ IsPresent(newcm[k]) /\ cm[k] # newcm[k] /\ ~CanUpdate(cm[k], newcm[k])}
        reload   == {k \in Keys : IsPresent(cm[k]) /\ IsPresent(newcm[k]) /\ cm[k] # newcm[k] /\ CanUpdate(cm[k], newcm[k])}
        \* per live path: "close" | "rehome" | "reload" | "keep"
        Fate(n) ==
            LET k == ResolveKey(newcm, n) IN
            IF k = "none" THEN "close"
            ELSE IF k # live[n].key
                 THEN IF CanUpdate(cm[live[n].key], newcm[k]) /\ GroupsOf(k, n) = live[n].groups
                      THEN "rehome" ELSE "close"     \* capture groups cannot be updated in place
                 ELSE IF k \in recreate THEN "close"
                 ELSE IF k \in reload THEN "reload" ELSE "keep"
        alive == {n \in Names : live[n].alive}
        closed == {n \in alive : Fate(n) = "close"}
        sends == {n \in alive : Fate(n) \in {"rehome", "reload"}}
        live1 == [n \in Names |->
                    IF n \in closed THEN Dead
                    ELSE IF n \in alive /\ Fate(n) = "rehome"
                         THEN [live[n] EXCEPT !.key = ResolveKey(newcm, n)]     \* confName updated; groups are equal
                         ELSE live[n]]
        \* new static paths
        mk == IsPresent(newcm[StaticKey]) /\ ~live1[StaticKey].alive
        live2 == IF mk THEN [live1 EXCEPT ![StaticKey] =
                               [alive |-> TRUE, inc |-> ninc + 1, key |-> StaticKey,
                                conf |-> newcm[StaticKey], groups |-> <<>>]]
                 ELSE live1
        \* deliveries get increasing sequence numbers in an arbitrary but fixed order
        order == CHOOSE f \in [sends -> 1..Cardinality(sends)] : \A a, b \in sends : a # b => f[a] # f[b]
    IN [live |-> live2,
        inflight |-> inflight \cup {[name |-> n, inc |-> live[n].inc,
                                     conf |-> newcm[ResolveKey(newcm, n)], seq |-> nseq + order[n], rl |-> nreload + 1] : n \in sends},
        nseq |-> nseq + Cardinality(sends),
        ninc |-> IF mk THEN ninc + 1 ELSE ninc,
        closed |-> {live[n].inc : n \in closed}]

Reload(newcm) ==
    /\ nreload < MaxReloads
    /\ newcm # cm
    /\ ninc < MaxInc
    /\ LET e == ReloadEffect(newcm) IN
        /\ cm' = newcm
        /\ live' = e.live
        /\ inflight' = e.inflight
        /\ nseq' = e.nseq
        /\ ninc' = e.ninc
        /\ closedIncs' = closedIncs \cup e.closed
        /\ busy' = {n \in busy : e.live[n].alive /\ e.live[n].inc = live[n].inc}   \* closing a path closes its publisher
    /\ nreload' = nreload + 1
    /\ hist' = Append(hist, [a |-> "Reload", cm |-> newcm, name |-> "", rl |-> nreload + 1])

\* the goroutine `go pa.reloadConf(c)` hands its configuration to the path loop (or finds the path gone)
Deliver(d) ==
    /\ d \in inflight
    /\ inflight' = inflight \ {d}
    /\ live' = IF live[d.name].alive /\ live[d.name].inc = d.inc
               THEN [live EXCEPT ![d.name].conf = d.conf] ELSE live
    /\ hist' = Append(hist, [a |-> "Deliver", cm |-> cm, name |-> d.name, rl |-> d.rl])
    /\ UNCHANGED <<cm, nseq, ninc, nreload, closedIncs, busy>>

\* a client publishes to a name: the manager creates the path if it resolves (createPath).
\* The static configuration's own name can be requested too while that configuration is absent: the
\* name then lives under a regular-expression configuration (and may later be re-homed to the static one).
Request(n) ==
    /\ ~live[n].alive
    /\ (n = StaticKey => ~IsPresent(cm[StaticKey]))
    /\ ninc < MaxInc
    /\ LET k == ResolveKey(cm, n) IN
        /\ k # "none"
        /\ live' = [live EXCEPT ![n] = [alive |-> TRUE, inc |-> ninc + 1, key |-> k, conf |-> cm[k], groups |-> GroupsOf(k, n)]]
    /\ ninc' = ninc + 1
    /\ busy' = busy \cup {n}
    /\ hist' = Append(hist, [a |-> "Request", cm |-> cm, name |-> n, rl |-> 0])
    /\ UNCHANGED <<cm, inflight, nseq, nreload, closedIncs>>

\* the publisher leaves (only explored when no delivery for the path is in flight: what the path itself
\* runs with is then what the manager recorded). path.shouldClose: a path that runs with a
\* regular-expression configuration and has nobody left closes itself; a path of a static
\* configuration stays - whatever configuration it was created under.
Release(n) ==
    /\ n \in busy /\ live[n].alive
    /\ \A d \in inflight : d.name # n
    /\ busy' = busy \ {n}
    /\ live' = IF live[n].key # StaticKey THEN [live EXCEPT ![n] = Dead] ELSE live
    /\ hist' = Append(hist, [a |-> "Release", cm |-> cm, name |-> n, rl |-> 0])
    /\ UNCHANGED <<cm, inflight, nseq, ninc, nreload, closedIncs>>

InitCM == [k \in Keys |-> IF k \in InitKeys THEN [hot |-> H0, cold |-> C0] ELSE Absent]

Init == /\ cm \in {InitCM}
        /\ live = [n \in Names |-> IF n = StaticKey /\ IsPresent(cm[StaticKey])
                                   THEN [alive |-> TRUE, inc |-> 1, key |-> StaticKey, conf |-> cm[StaticKey], groups |-> <<>>]
                                   ELSE Dead]
        /\ inflight = {} /\ nseq = 0 /\ ninc = 1 /\ nreload = 0 /\ closedIncs = {} /\ busy = {} /\ hist = <<>>

Next == \/ \E c \in ConfMaps : Reload(c)
        \/ \E d \in inflight : Deliver(d)
        \/ \E n \in Names : Request(n) \/ Release(n)
Spec == Init /\ [][Next]_vars

View == <<cm, live, inflight, nseq, ninc, nreload, closedIncs, busy>>
EmitRun == (Len(hist) = SimDepth \/ (hist # <<>> /\ ~ENABLED Next)) => Emit("RUN", [h |-> hist])

\* =================================================================== layer 2: the statement
\* evaluated on (configuration map, live paths) when nothing is in flight
Quiescent == inflight = {}

StaticHasPath(c, lv)  == IsPresent(c[StaticKey]) => lv[StaticKey].alive
LiveResolves(c, lv)   == \A n \in Names : lv[n].alive => ResolveKey(c, n) # "none"
RunsResolvedConf(c, lv) ==
    \A n \in Names : (lv[n].alive /\ ResolveKey(c, n) # "none") => lv[n].conf = c[ResolveKey(c, n)]
RunsResolvedGroups(c, lv) ==
    \A n \in Names : (lv[n].alive /\ ResolveKey(c, n) # "none") => lv[n].groups = GroupsOf(ResolveKey(c, n), n)

\* Keeping/recreating across one reload (old map c0 and paths lv0, new map c1 and paths lv1):
\* a path whose resolved configuration changed only in hot fields (and whose groups are the same)
\* keeps its incarnation; any other change ends the incarnation.
KeptIffHotOnly(c0, lv0, c1, lv1) ==
    \A n \in Names :
        lv0[n].alive =>
            LET k0 == ResolveKey(c0, n)
                k1 == ResolveKey(c1, n)
                hotOnly == /\ k0 # "none" /\ k1 # "none"
                           /\ c0[k0].cold = c1[k1].cold
                           /\ GroupsOf(k0, n) = GroupsOf(k1, n)
                kept == lv1[n].alive /\ lv1[n].inc = lv0[n].inc
            IN kept <=> hotOnly

InvStatic   == Quiescent => StaticHasPath(cm, live)
InvResolves == Quiescent => LiveResolves(cm, live)
InvConf     == Quiescent => RunsResolvedConf(cm, live)
InvGroups   == Quiescent => RunsResolvedGroups(cm, live)
\* action property: across a Reload step taken from a quiescent, consistent state
KeptProp == [][ (cm' # cm /\ Quiescent /\ RunsResolvedConf(cm, live) /\ RunsResolvedGroups(cm, live))
                  => KeptIffHotOnly(cm, live, cm', live') ]_vars
=============================================================================
