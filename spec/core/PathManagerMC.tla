---------------------------- MODULE PathManagerMC ----------------------------
\* Model instance for PathManager.tla: the concrete keys and the regular-expression ground truth.
\* R2 and R1 are two overlapping patterns with two and one capture group; AO is all_others.
\* (The patterns themselves are in the harness: they cannot be written in a TLA+ comment.)
\* Resolution order is by configuration name with all_others last: R2 sorts before R1.
\* The harness re-derives this table with Go's regexp and refuses to run if it differs.
EXTENDS PathManager

RegexOrderDef == <<"R2", "R1", "AO">>
MatchDef == [k \in {"R2", "R1", "AO"} |->
    CASE k = "R2" -> [n \in {"cam", "cam1", "dog"} |->
                        CASE n = "cam" -> <<"c", "am">> [] n = "cam1" -> <<"c", "am1">> [] OTHER -> <<"no">>]
      [] k = "R1" -> [n \in {"cam", "cam1", "dog"} |->
                        CASE n = "cam" -> <<"">> [] n = "cam1" -> <<"1">> [] OTHER -> <<"no">>]
      [] OTHER    -> [n \in {"cam", "cam1", "dog"} |-> <<>>]]
=============================================================================
