---------------------------- MODULE PathManagerMC ----------------------------
\* Model instance for PathManager.tla: the concrete keys and the regular-expression ground truth.
\* R1 and R2 are two overlapping patterns with one capture group each; AO is all_others.
\* (The patterns themselves are in the harness: they cannot be written in a TLA+ comment.)
\* Resolution order is by configuration name with all_others last: R1 sorts before R2.
\* The harness re-derives this table with Go's regexp and refuses to run if it differs.
EXTENDS PathManager

RegexOrderDef == <<"R1", "R2", "AO">>
\* R1 captures what follows "cam"; R2 swallows an optional "1" first: for the name "cam" both give the
\* same group, for "cam1" they differ - so two live paths that move together from R1 to R2
\* disagree on whether they can be kept
MatchDef == [k \in {"R2", "R1", "AO"} |->
    CASE k = "R1" -> [n \in {"cam", "cam1", "dog"} |->
                        CASE n = "cam" -> <<"">> [] n = "cam1" -> <<"1">> [] OTHER -> <<"no">>]
      [] k = "R2" -> [n \in {"cam", "cam1", "dog"} |->
                        CASE n = "cam" -> <<"">> [] n = "cam1" -> <<"">> [] OTHER -> <<"no">>]
      [] OTHER    -> [n \in {"cam", "cam1", "dog"} |-> <<>>]]
=============================================================================
