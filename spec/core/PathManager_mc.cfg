SPECIFICATION Spec
CONSTANTS
  Names = {"cam", "cam1", "dog"}
  StaticKey = "cam"
  RegexOrder <- RegexOrderDef
  Match <- MatchDef
  Hot = {0, 1}
  Cold = {0, 1}
  HotKeys = {"cam", "R1"}
  InitKeys = {"cam", "R1"}
  MaxReloads = 2
  MaxInc = 6
INVARIANTS InvStatic InvResolves
CHECK_DEADLOCK FALSE
