-------------------------------- MODULE Path --------------------------------
(* The path event loop of mediamtx (internal/core/path.go) — one state machine, four property
   groups: C16 (single source / override), C18 (reader limit and teardown), C19 (held requests
   answered exactly once, on-demand start/stop/restart), C20 (hook pairs).

   Layer 1 is written in state-passing style: every function of path.go that runs inside the
   event loop is an operator  st -> st  on the record `st` (the fields of `path` that matter),
   appending the externally observable events it causes to st.ev, in the order the code
   produces them. One action of the spec = one `case` of path.runInner (plus termination).
   Because the loop is sequential, a step is a pure function of (st, input): the trace module
   folds the same operators over a recorded run (conformance) while the statement's monitors
   (layer 2, bottom of this file) are evaluated on the OBSERVED events only.

   Events:  [t |-> "resp",  c |-> client, v |-> kind, s |-> stream number]
            [t |-> "close", c |-> client, v |-> "",   s |-> 0]      Close() called on a publisher/reader
            [t |-> "cmd",   c |-> hook,   v |-> "start" | "stop", s |-> 0]   external command started / closed
            [t |-> "static",c |-> "",     v |-> "start" | "stop", s |-> 0]   static source handler started / stopped
            [t |-> "data",  c |-> reader, v |-> publisher, s |-> 0]          a unit written by that publisher reached the reader *)
EXTENDS VerifCommon

CONSTANTS
    Pubs, Readers, Descs,        \* client identifiers (strings)
    SourceKind,                  \* "publisher" | "static" | "staticOnDemand" | "redirect"
    Override,                    \* overridePublisher
    MaxReaders,                  \* 0 = unlimited
    OnDemandPub,                 \* runOnDemand configured (source must be "publisher")
    Regex,                       \* the path comes from a regular-expression configuration
    Fallback,                    \* a fallback is configured
    AlwaysAvail,                 \* alwaysAvailable: the stream exists for the whole life of the path; an
                                 \* offline sub-stream feeds it while no publisher is attached
    MaxSteps,                    \* bound on the length of behaviours
    KeepHist,                    \* FALSE: do not record the history (walk generation)
    InitFailureTakesStreamDown   \* TRUE = the code; FALSE = the defect repaired in /repo: the stream stayed
                                 \* available without a source when SubStream.Initialize failed

HasStatic      == SourceKind \in {"static", "staticOnDemand"}
OnDemandStatic == SourceKind = "staticOnDemand"

E(t, c, v, s) == [t |-> t, c |-> c, v |-> v, s |-> s]
Resp(c, v, s) == E("resp", c, v, s)
Ev(st, e)     == [st EXCEPT !.ev = Append(@, e)]

\* ------------------------------------------------------------------ state of one path incarnation
NewPath ==
    [alive     |-> TRUE,
     source    |-> IF SourceKind = "redirect" THEN "redirect" ELSE IF HasStatic THEN "static" ELSE "none",
     stream    |-> 0,          \* 0 = not available, else the number of the stream
     readers   |-> {},
     dHold     |-> <<>>,       \* describe requests on hold
     rHold     |-> <<>>,       \* reader-add requests on hold
     od        |-> "initial",  \* on-demand state (static source or publisher)
     readyT    |-> FALSE,      \* on-demand ready timer armed
     closeT    |-> FALSE,      \* on-demand close timer armed
     staticRun |-> FALSE,      \* static source handler running
     hAvail    |-> FALSE,      \* onUnavailableHook set
     hOnline   |-> FALSE,      \* onOfflineHook set
     hDemand   |-> FALSE,      \* onUnDemandHook set
     cur       |-> "none",     \* whose sub-stream feeds the stream: a publisher, "static", "offline" or "none"
     ev        |-> <<>>]

\* path.run() before the loop: a static source that is not on demand is started at once
StartPath(nstream) ==
    LET p == NewPath IN
    IF AlwaysAvail
    THEN \* run(): setAvailable(nil, ...) before the loop; the offline sub-stream feeds the stream
         Ev([p EXCEPT !.stream = nstream + 1, !.hAvail = TRUE, !.cur = "offline"], E("cmd", "available", "start", 0))
    ELSE IF HasStatic /\ ~OnDemandStatic
    THEN Ev([p EXCEPT !.staticRun = TRUE], E("static", "", "start", 0))
    ELSE p

\* ------------------------------------------------------------------ helpers (same names as the code)
SetOffline(st) ==
    IF ~st.hOnline THEN st
    ELSE Ev(Ev([st EXCEPT !.hOnline = FALSE], E("cmd", "online", "stop", 0)), E("cmd", "offline", "start", 0))

SetOnline(st) ==
    LET a == SetOffline(st) IN Ev([a EXCEPT !.hOnline = TRUE], E("cmd", "online", "start", 0))

\* setAvailable (never fails in this model: Stream.Initialize only fails on bad descriptions)
SetAvailable(st, n) ==
    LET a == Ev([st EXCEPT !.stream = n, !.hAvail = TRUE], E("cmd", "available", "start", 0))
    IN SetOnline(a)

\* readers are closed in map order: the spec fixes one order; monitors never depend on it
RECURSIVE CloseAll(_, _)
CloseAll(st, rs) ==
    IF rs = {} THEN st
    ELSE LET r == CHOOSE x \in rs : TRUE IN CloseAll(Ev(st, E("close", r, "", 0)), rs \ {r})

SetNotAvailable(st) ==
    LET a == SetOffline(st)
        b == CloseAll([a EXCEPT !.readers = {}], a.readers)
        c == Ev(Ev([b EXCEPT !.hAvail = FALSE], E("cmd", "available", "stop", 0)), E("cmd", "unavailable", "start", 0))
    IN [c EXCEPT !.stream = 0, !.cur = "none"]

StaticStart(st) ==     \* onDemandStaticSourceStart
    Ev([st EXCEPT !.staticRun = TRUE, !.readyT = TRUE, !.od = "waiting"], E("static", "", "start", 0))

StaticScheduleClose(st) == [st EXCEPT !.closeT = TRUE, !.od = "closing"]

StaticStop(st) ==      \* onDemandStaticSourceStop
    LET a == IF st.od = "closing" THEN [st EXCEPT !.closeT = FALSE] ELSE st
    IN Ev([a EXCEPT !.od = "initial", !.staticRun = FALSE], E("static", "", "stop", 0))

PubStart(st) ==        \* onDemandPublisherStart
    Ev([st EXCEPT !.hDemand = TRUE, !.readyT = TRUE, !.od = "waiting"], E("cmd", "demand", "start", 0))

PubScheduleClose(st) == [st EXCEPT !.closeT = TRUE, !.od = "closing"]

PubStop(st) ==         \* onDemandPublisherStop
    LET a == IF st.od = "closing" THEN [st EXCEPT !.closeT = FALSE] ELSE st
    IN Ev(Ev([a EXCEPT !.od = "initial", !.hDemand = FALSE], E("cmd", "demand", "stop", 0)),
          E("cmd", "undemand", "start", 0))

\* addReaderPost
AddReaderPost(st, r) ==
    IF r \in st.readers THEN Ev(st, Resp(r, "stream", st.stream))
    ELSE IF MaxReaders # 0 /\ Cardinality(st.readers) >= MaxReaders THEN Ev(st, Resp(r, "err_max", 0))
    ELSE LET a == [st EXCEPT !.readers = @ \cup {r}]
             b == IF (OnDemandStatic \/ OnDemandPub) /\ a.od = "closing"
                  THEN [a EXCEPT !.od = "ready", !.closeT = FALSE] ELSE a
         IN Ev(b, Resp(r, "stream", b.stream))

RECURSIVE AnswerDescribes(_, _, _, _)
AnswerDescribes(st, ds, v, s) ==
    IF ds = <<>> THEN st ELSE AnswerDescribes(Ev(st, Resp(Head(ds), v, s)), Tail(ds), v, s)
RECURSIVE AnswerReaders(_, _, _)
AnswerReaders(st, rs, v) ==
    IF rs = <<>> THEN st ELSE AnswerReaders(Ev(st, Resp(Head(rs), v, 0)), Tail(rs), v)
RECURSIVE PostReaders(_, _)
PostReaders(st, rs) ==
    IF rs = <<>> THEN st ELSE PostReaders(AddReaderPost(st, Head(rs)), Tail(rs))

ConsumeOnHold(st) ==
    LET a == AnswerDescribes([st EXCEPT !.dHold = <<>>], st.dHold, "stream", st.stream)
    IN PostReaders([a EXCEPT !.rHold = <<>>], st.rHold)

TimeoutHolds(st) ==
    LET a == AnswerDescribes([st EXCEPT !.dHold = <<>>], st.dHold, "err_timeout", 0)
    IN AnswerReaders([a EXCEPT !.rHold = <<>>], st.rHold, "err_timeout")

ExecuteRemovePublisher(st) ==
    IF AlwaysAvail THEN [SetOffline(st) EXCEPT !.source = "none", !.cur = "offline"]   \* StartOfflineSubStream
    ELSE [SetNotAvailable(st) EXCEPT !.source = "none"]

\* ------------------------------------------------------------------ the cases of runInner
DoAddPublisher(st, p, n) ==
    IF SourceKind # "publisher" THEN Ev(st, Resp(p, "err_notpub", 0))
    ELSE IF st.source # "none" /\ ~Override THEN Ev(st, Resp(p, "err_busy", 0))
    ELSE LET a == IF st.source # "none"
                  THEN ExecuteRemovePublisher(Ev(st, E("close", st.source, "", 0)))
                  ELSE st
             b == IF AlwaysAvail THEN a ELSE SetAvailable(a, n)
             c0 == [b EXCEPT !.source = p, !.cur = p]
             c == IF AlwaysAvail THEN SetOnline(c0) ELSE c0
             d == IF OnDemandPub /\ c.od # "initial"
                  THEN PubScheduleClose([c EXCEPT !.readyT = FALSE]) ELSE c
             e == ConsumeOnHold(d)
         IN Ev(e, Resp(p, "stream", e.stream))

\* a publisher whose sub-stream cannot be initialized (e.g. RTP packets of a packetization the
\* server cannot decode): subStream.Initialize() fails AFTER setAvailable(); the stream that was
\* just made available is taken down again and the publisher gets the error; held requests keep
\* waiting for the start timeout
DoAddPublisherBad(st, p, n) ==
    IF SourceKind # "publisher" THEN Ev(st, Resp(p, "err_notpub", 0))
    ELSE IF st.source # "none" /\ ~Override THEN Ev(st, Resp(p, "err_busy", 0))
    ELSE LET a == IF st.source # "none"
                  THEN ExecuteRemovePublisher(Ev(st, E("close", st.source, "", 0)))
                  ELSE st
             b == IF AlwaysAvail THEN a ELSE SetAvailable(a, n)
             c == IF ~AlwaysAvail /\ InitFailureTakesStreamDown THEN SetNotAvailable(b) ELSE b
         IN Ev(c, Resp(p, "err_init", 0))

DoRemovePublisher(st, p) == IF st.source = p THEN ExecuteRemovePublisher(st) ELSE st

DoAddReader(st, r) ==
    IF st.stream # 0 THEN AddReaderPost(st, r)
    ELSE IF OnDemandStatic
    THEN LET a == IF st.od = "initial" THEN StaticStart(st) ELSE st
         IN [a EXCEPT !.rHold = Append(@, r)]
    ELSE IF OnDemandPub
    THEN LET a == IF st.od = "initial" THEN PubStart(st) ELSE st
         IN [a EXCEPT !.rHold = Append(@, r)]
    ELSE Ev(st, Resp(r, "err_nostream", 0))

DoRemoveReader(st, r) ==
    LET a == IF r \in st.readers THEN [st EXCEPT !.readers = @ \ {r}] ELSE st
    IN IF a.readers = {} /\ a.od = "ready"
       THEN IF OnDemandStatic THEN StaticScheduleClose(a)
            ELSE IF OnDemandPub THEN PubScheduleClose(a) ELSE a
       ELSE a

DoDescribe(st, d) ==
    IF st.source = "redirect" THEN Ev(st, Resp(d, "redirect", 0))
    ELSE IF st.stream # 0 THEN Ev(st, Resp(d, "stream", st.stream))
    ELSE IF OnDemandStatic
    THEN LET a == IF st.od = "initial" THEN StaticStart(st) ELSE st
         IN [a EXCEPT !.dHold = Append(@, d)]
    ELSE IF OnDemandPub
    THEN LET a == IF st.od = "initial" THEN PubStart(st) ELSE st
         IN [a EXCEPT !.dHold = Append(@, d)]
    ELSE IF Fallback THEN Ev(st, Resp(d, "redirect", 0))
    ELSE Ev(st, Resp(d, "err_nostream", 0))

DoStaticSetReady(st, n) ==
    LET a == [SetAvailable(st, n) EXCEPT !.cur = "static"]
        b == IF OnDemandStatic THEN StaticScheduleClose([a EXCEPT !.readyT = FALSE]) ELSE a
        c == ConsumeOnHold(b)
    IN Ev(c, Resp("static", "ok", n))

DoStaticSetNotReady(st) ==
    LET a == SetNotAvailable(st)
    IN IF OnDemandStatic /\ a.od # "initial" THEN StaticStop(a) ELSE a

DoReadyTimer(st) ==
    LET a == TimeoutHolds([st EXCEPT !.readyT = FALSE])
    IN IF OnDemandStatic THEN StaticStop(a) ELSE PubStop(a)

DoCloseTimer(st) ==
    IF OnDemandStatic THEN StaticStop(SetNotAvailable([st EXCEPT !.closeT = FALSE]))
    ELSE PubStop([st EXCEPT !.closeT = FALSE])

\* a publisher writes one unit through the sub-stream handle it was given (data plane): it reaches
\* the attached readers iff that sub-stream still feeds the stream
RECURSIVE DataTo(_, _, _)
DataTo(st, rs, p) ==
    IF rs = {} THEN st
    ELSE LET r == CHOOSE x \in rs : TRUE IN DataTo(Ev(st, E("data", r, p, 0)), rs \ {r}, p)
DoWrite(st, p) == IF st.stream # 0 /\ st.cur = p THEN DataTo(st, st.readers, p) ELSE st

\* the tail of run() after the loop ended
DoTerminate(st) ==
    LET a == [st EXCEPT !.readyT = FALSE, !.closeT = FALSE, !.alive = FALSE]
        b == AnswerDescribes([a EXCEPT !.dHold = <<>>], a.dHold, "err_terminated", 0)
        c == AnswerReaders([b EXCEPT !.rHold = <<>>], b.rHold, "err_terminated")
        d == IF c.source = "static"
             THEN IF c.staticRun THEN Ev([c EXCEPT !.staticRun = FALSE], E("static", "", "stop", 0)) ELSE c
             ELSE IF c.source \in Pubs THEN Ev(c, E("close", c.source, "", 0)) ELSE c
        e == IF d.hDemand THEN Ev(Ev([d EXCEPT !.hDemand = FALSE], E("cmd", "demand", "stop", 0)),
                                  E("cmd", "undemand", "start", 0)) ELSE d
    IN IF e.stream # 0 THEN SetNotAvailable(e) ELSE e

ShouldClose(st) ==
    Regex /\ st.source = "none" /\ st.readers = {} /\ st.dHold = <<>> /\ st.rHold = <<>>

\* after most cases: if shouldClose() the manager is asked to close the idle path, which
\* (no request being in flight in a sequential run) terminates it
MaybeIdleClose(st) == IF st.alive /\ ShouldClose(st) THEN DoTerminate(st) ELSE st

\* ------------------------------------------------------------------ one input = one step
\* in: [a |-> action, c |-> client]; n = number for a stream created in this step
Step(st0, in, n) ==
    LET st == [st0 EXCEPT !.ev = <<>>] IN
    CASE in.a = "AddPublisher"    -> MaybeIdleClose(DoAddPublisher(st, in.c, n))
      [] in.a = "AddPublisherBad" -> MaybeIdleClose(DoAddPublisherBad(st, in.c, n))
      [] in.a = "RemovePublisher" -> MaybeIdleClose(DoRemovePublisher(st, in.c))
      [] in.a = "Write"           -> DoWrite(st, in.c)
      [] in.a = "AddReader"       -> MaybeIdleClose(DoAddReader(st, in.c))
      [] in.a = "RemoveReader"    -> MaybeIdleClose(DoRemoveReader(st, in.c))
      [] in.a = "Describe"        -> MaybeIdleClose(DoDescribe(st, in.c))
      [] in.a = "StaticReady"     -> DoStaticSetReady(st, n)
      [] in.a = "StaticNotReady"  -> MaybeIdleClose(DoStaticSetNotReady(st))
      [] in.a = "ReadyTimer"      -> MaybeIdleClose(DoReadyTimer(st))
      [] in.a = "CloseTimer"      -> IF OnDemandStatic THEN MaybeIdleClose(DoCloseTimer(st)) ELSE DoCloseTimer(st)
      [] in.a = "Terminate"       -> DoTerminate(st)

\* a request for a path that does not exist (terminated regex path): the manager creates a new one
Dead == [NewPath EXCEPT !.alive = FALSE, !.source = "none"]

\* ------------------------------------------------------------------ the bounded model
VARIABLES st,        \* the path
          nstream,   \* streams created so far
          pstat,     \* publisher session: "idle" | "attached" | "closed" (Close() was called on it)
          rstat,     \* reader session:    "idle" | "held" | "attached" | "closed"
          dstat,     \* describe request:  "new" | "held" | "done"
          confGone,  \* the configuration of the path was removed (Terminate by reload)
          steps,
          hist       \* history: sequence of [in, ev] (hidden by the VIEW)
vars == <<st, nstream, pstat, rstat, dstat, confGone, steps, hist>>

RespOf(ev, c) == SelectSeq(ev, LAMBDA e : e.t = "resp" /\ e.c = c)
Closed(ev, c) == \E i \in 1..Len(ev) : ev[i].t = "close" /\ ev[i].c = c

\* client bookkeeping after a step with events ev
UpdP(ps, ev, in) ==
    [p \in Pubs |->
        LET r == RespOf(ev, p) IN
        IF in.a = "RemovePublisher" /\ in.c = p THEN "idle"
        ELSE IF r # <<>> /\ r[Len(r)].v = "stream" /\ ~(Closed(ev, p) /\ in.c # p) THEN "attached"
        ELSE IF Closed(ev, p) /\ ps[p] = "attached" THEN "closed"
        ELSE ps[p]]
UpdR(rs, ev, in, held) ==
    [r \in Readers |->
        LET x == RespOf(ev, r) IN
        IF in.a = "RemoveReader" /\ in.c = r THEN "idle"
        ELSE IF Closed(ev, r) THEN "closed"
        ELSE IF x # <<>> THEN (IF x[Len(x)].v = "stream" THEN "attached"
                               ELSE IF rs[r] = "held" THEN "idle" ELSE rs[r])
        ELSE IF r \in held THEN "held"
        ELSE rs[r]]
UpdD(ds, ev, held) ==
    [d \in Descs |-> IF RespOf(ev, d) # <<>> THEN "done" ELSE IF d \in held THEN "held" ELSE ds[d]]

\* the effect of one input on (path, stream counter); creates the path when a request arrives
\* for a name whose (regex) path does not exist
ApplyIn(s, ns, gone, in) ==
    LET base == IF s.alive THEN s
                ELSE IF in.a \in {"AddPublisher", "AddPublisherBad", "AddReader", "Describe"} /\ ~gone
                     THEN StartPath(ns) ELSE s
        n  == ns + 1
        s1 == IF base.alive THEN Step(base, in, n) ELSE [base EXCEPT !.ev = <<>>]
        \* events of StartPath belong to this step too
        s2 == IF ~s.alive /\ base.alive THEN [s1 EXCEPT !.ev = base.ev \o @] ELSE s1
        used == \E i \in 1..Len(s2.ev) : s2.ev[i].s = n
    IN [st |-> s2, ns |-> IF used \/ s2.stream = n THEN n ELSE ns]

Do(in) ==
    /\ steps < MaxSteps
    /\ LET r == ApplyIn(st, nstream, confGone, in)
           s2 == r.st
       IN /\ st' = s2
          /\ nstream' = r.ns
          /\ pstat' = UpdP(pstat, s2.ev, in)
          /\ rstat' = UpdR(rstat, s2.ev, in, Range(s2.rHold))
          /\ dstat' = UpdD(dstat, s2.ev, Range(s2.dHold))
          /\ confGone' = (confGone \/ in.a = "Terminate")
          /\ steps' = steps + 1
          /\ hist' = IF KeepHist THEN Append(hist, [in |-> in, ev |-> s2.ev]) ELSE hist

In(a, c) == [a |-> a, c |-> c]

\* (a publisher that already holds the path may announce again: it then competes with itself)
AddPublisher(p)    == pstat[p] \in {"idle", "attached"} /\ (st.alive \/ ~confGone) /\ Do(In("AddPublisher", p))
AddPublisherBad(p) == pstat[p] = "idle" /\ (st.alive \/ ~confGone) /\ SourceKind = "publisher" /\ Do(In("AddPublisherBad", p))
RemovePublisher(p) == pstat[p] \in {"attached", "closed"} /\ Do(In("RemovePublisher", p))
\* a publisher can write as long as it holds a handle: while attached, and also after it was replaced
\* (closed) - that is the stale write the statement is about
Write(p)           == pstat[p] \in {"attached", "closed"} /\ st.alive /\ Do(In("Write", p))
AddReader(r)       == rstat[r] \in {"idle", "attached"} /\ (st.alive \/ ~confGone) /\ Do(In("AddReader", r))
RemoveReader(r)    == rstat[r] \in {"attached", "closed"} /\ Do(In("RemoveReader", r))
Describe(d)        == dstat[d] = "new" /\ (st.alive \/ ~confGone) /\ Do(In("Describe", d))
StaticReady        == st.alive /\ st.staticRun /\ st.stream = 0 /\ Do(In("StaticReady", "static"))
StaticNotReady     == st.alive /\ st.staticRun /\ st.stream # 0 /\ Do(In("StaticNotReady", "static"))
ReadyTimer         == st.alive /\ st.readyT /\ Do(In("ReadyTimer", "timer"))
CloseTimer         == st.alive /\ st.closeT /\ Do(In("CloseTimer", "timer"))
Terminate          == st.alive /\ ~confGone /\ Do(In("Terminate", "manager"))

Init == /\ st = (IF Regex THEN Dead ELSE StartPath(0))
        /\ nstream = (IF AlwaysAvail /\ ~Regex THEN 1 ELSE 0)
        /\ pstat = [p \in Pubs |-> "idle"]
        /\ rstat = [r \in Readers |-> "idle"]
        /\ dstat = [d \in Descs |-> "new"]
        /\ confGone = FALSE
        /\ steps = 0
        \* the events of the path's creation are the first entry of the history
        /\ hist = <<[in |-> [a |-> "Init", c |-> "init"], ev |-> (IF Regex THEN <<>> ELSE StartPath(0).ev)]>>

Next == \/ \E p \in Pubs : AddPublisher(p) \/ AddPublisherBad(p) \/ RemovePublisher(p) \/ Write(p)
        \/ \E r \in Readers : AddReader(r) \/ RemoveReader(r)
        \/ \E d \in Descs : Describe(d)
        \/ StaticReady \/ StaticNotReady \/ ReadyTimer \/ CloseTimer \/ Terminate

Spec == Init /\ [][Next]_vars

View == <<[st EXCEPT !.ev = <<>>], nstream, pstat, rstat, dstat, confGone, steps>>
\* view for walk generation: stream numbers and step counts are irrelevant to what can happen next
GenView == <<[st EXCEPT !.ev = <<>>, !.stream = IF @ = 0 THEN 0 ELSE 1], pstat, rstat, dstat, confGone>>

\* =================================================================== layer 2: the statement
\* Monitors are functions of the OBSERVED history only: h = sequence of [in, ev].
AllEv(h) == Flatten([i \in 1..Len(h) |-> h[i].ev])

\* --- C16: the publishers that hold the path after the events e[1..k]:
\* a publisher holds it from its successful AddPublisher response until Close() is called on it
\* or it removes itself.  Removal by the publisher is an input, so it is folded in per step.
RECURSIVE HoldersAfter(_, _, _)
HoldersAfter(hold, ev, k) ==
    IF k > Len(ev) THEN hold
    ELSE LET e == ev[k]
             h2 == IF e.t = "resp" /\ e.c \in Pubs /\ e.v = "stream" THEN hold \cup {e.c}
                   ELSE IF e.t = "close" /\ e.c \in Pubs THEN hold \ {e.c}
                   ELSE hold
         IN HoldersAfter(h2, ev, k + 1)

RECURSIVE HoldersUpTo(_, _)
HoldersUpTo(h, i) ==      \* holders after step i
    IF i = 0 THEN {}
    ELSE LET before == HoldersUpTo(h, i - 1)
             b2 == IF h[i].in.a = "RemovePublisher" THEN before \ {h[i].in.c} ELSE before
         IN HoldersAfter(b2, h[i].ev, 1)

\* at most one publisher holds the path at any point inside any step
RECURSIVE MaxHolders(_, _, _)
MaxHolders(hold, ev, k) ==
    IF k > Len(ev) THEN Cardinality(hold)
    ELSE Max(Cardinality(hold), MaxHolders(HoldersAfter(hold, <<ev[k]>>, 1), ev, k + 1))

C16_AtMostOneSource(h) ==
    \A i \in 1..Len(h) :
        LET b == HoldersUpTo(h, i - 1)
            b2 == IF h[i].in.a = "RemovePublisher" THEN b \ {h[i].in.c} ELSE b
        IN MaxHolders(b2, h[i].ev, 1) <= 1

\* a new publisher is rejected while another is active, unless override is enabled
C16_RejectedUnlessOverride(h, override) ==
    \A i \in 1..Len(h) :
        (h[i].in.a \in {"AddPublisher", "AddPublisherBad"} /\ ~override /\ HoldersUpTo(h, i - 1) \ {h[i].in.c} # {})
            => \A k \in 1..Len(h[i].ev) :
                   ~(h[i].ev[k].t = "resp" /\ h[i].ev[k].c = h[i].in.c /\ h[i].ev[k].v = "stream")

\* with override the previous publisher is closed before the new one is attached
\* (= before the new one's success response)
C16_ClosedBeforeAttach(h) ==
    \A i \in 1..Len(h) :
        h[i].in.a = "AddPublisher" =>
            \A k \in 1..Len(h[i].ev) :
                (h[i].ev[k].t = "resp" /\ h[i].ev[k].c = h[i].in.c /\ h[i].ev[k].v = "stream") =>
                    \A q \in HoldersUpTo(h, i - 1) \ {h[i].in.c} :
                        \E j \in 1..(k - 1) : h[i].ev[j].t = "close" /\ h[i].ev[j].c = q

\* --- C18: readers attached (successful response, not closed, not removed)
RECURSIVE AttachedAfter(_, _, _)
AttachedAfter(att, ev, k) ==
    IF k > Len(ev) THEN att
    ELSE LET e == ev[k]
             a2 == IF e.t = "resp" /\ e.c \in Readers /\ e.v = "stream" THEN att \cup {e.c}
                   ELSE IF e.t = "close" /\ e.c \in Readers THEN att \ {e.c}
                   ELSE att
         IN AttachedAfter(a2, ev, k + 1)
RECURSIVE AttachedUpTo(_, _)
AttachedUpTo(h, i) ==
    IF i = 0 THEN {}
    ELSE LET before == AttachedUpTo(h, i - 1)
             b2 == IF h[i].in.a = "RemoveReader" THEN before \ {h[i].in.c} ELSE before
         IN AttachedAfter(b2, h[i].ev, 1)
RECURSIVE MaxAttached(_, _, _)
MaxAttached(att, ev, k) ==
    IF k > Len(ev) THEN Cardinality(att)
    ELSE Max(Cardinality(att), MaxAttached(AttachedAfter(att, <<ev[k]>>, 1), ev, k + 1))

\* no data written by a replaced or removed publisher reaches (attached) readers afterwards
C16_NoStaleData(h) ==
    \A i \in 1..Len(h) :
        (h[i].in.a = "Write" /\ h[i].in.c \notin HoldersUpTo(h, i - 1)) =>
            \A k \in 1..Len(h[i].ev) :
                ~(h[i].ev[k].t = "data" /\ h[i].ev[k].v = h[i].in.c /\ h[i].ev[k].c \in AttachedUpTo(h, i - 1))

C18_ReaderLimit(h, maxReaders) ==
    maxReaders # 0 =>
        \A i \in 1..Len(h) :
            LET b == AttachedUpTo(h, i - 1)
                b2 == IF h[i].in.a = "RemoveReader" THEN b \ {h[i].in.c} ELSE b
            IN MaxAttached(b2, h[i].ev, 1) <= maxReaders

\* a reader that is already attached is not counted twice: re-adding it succeeds
C18_NoDoubleCount(h) ==
    \A i \in 1..Len(h) :
        (h[i].in.a = "AddReader" /\ h[i].in.c \in AttachedUpTo(h, i - 1)) =>
            \E k \in 1..Len(h[i].ev) :
                h[i].ev[k].t = "resp" /\ h[i].ev[k].c = h[i].in.c /\ h[i].ev[k].v = "stream"

\* the stream goes away  <=>  the unavailable command is launched; at that point no reader of it
\* is still attached (all were closed), and every reader attached before was closed in that step
C18_TeardownOnUnavailable(h) ==
    \A i \in 1..Len(h) :
        \A k \in 1..Len(h[i].ev) :
            (h[i].ev[k].t = "cmd" /\ h[i].ev[k].c = "unavailable") =>
                LET b == AttachedUpTo(h, i - 1)
                    b2 == IF h[i].in.a = "RemoveReader" THEN b \ {h[i].in.c} ELSE b
                IN AttachedAfter(b2, SubSeq(h[i].ev, 1, k), 1) = {}

\* --- C19: every request gets at most one response, ever; exactly one once the path has
\* terminated or the ready timer has fired; the response is the stream iff a source became
\* ready first
RespCount(h, c, i) ==   \* responses to client c in steps i..Len(h)
    Len(SelectSeq(AllEv(SubSeq(h, i, Len(h))), LAMBDA e : e.t = "resp" /\ e.c = c))

RequestSteps(h) == {i \in 1..Len(h) : h[i].in.a \in {"AddReader", "Describe", "AddPublisher", "AddPublisherBad"}}

\* the next request step of the same client, or Len(h)+1
NextReq(h, i) ==
    LET later == {j \in RequestSteps(h) : j > i /\ h[j].in.c = h[i].in.c}
    IN IF later = {} THEN Len(h) + 1 ELSE CHOOSE j \in later : \A x \in later : j <= x

RespBetween(h, c, i, j) ==  \* responses to c in steps i..j-1
    Len(SelectSeq(AllEv(SubSeq(h, i, j - 1)), LAMBDA e : e.t = "resp" /\ e.c = c))

C19_AtMostOneResponse(h) ==
    \A i \in RequestSteps(h) : RespBetween(h, h[i].in.c, i, NextReq(h, i)) <= 1

\* no response without a request
C19_NoSpuriousResponse(h) ==
    \A i \in 1..Len(h) : \A k \in 1..Len(h[i].ev) :
        (h[i].ev[k].t = "resp" /\ h[i].ev[k].c \in (Pubs \cup Readers \cup Descs)) =>
            \E j \in RequestSteps(h) : j <= i /\ h[j].in.c = h[i].ev[k].c

\* a step that ends a waiting period (ready timer, termination) leaves no request unanswered
C19_AnsweredWhenWaitEnds(h) ==
    \A i \in 1..Len(h) :
        (h[i].in.a \in {"ReadyTimer", "Terminate"}) =>
            \A j \in RequestSteps(h) : (j < i /\ NextReq(h, j) > i) => RespBetween(h, h[j].in.c, j, i + 1) = 1

\* availability of the stream after a sequence of events (between the launch of the available
\* command and the launch of the unavailable command)
RECURSIVE AvailAfter(_, _, _)
AvailAfter(avail, ev, k) ==
    IF k > Len(ev) THEN avail
    ELSE LET e == ev[k] IN
         IF e.t = "cmd" /\ e.c = "available" /\ e.v = "start" THEN AvailAfter(TRUE, ev, k + 1)
         ELSE IF e.t = "cmd" /\ e.c = "unavailable" THEN AvailAfter(FALSE, ev, k + 1)
         ELSE AvailAfter(avail, ev, k + 1)
\* a source becoming ready answers every waiting reader/describe request (with the stream or,
\* for readers over the limit, an error)
C19_AnsweredWhenReady(h) ==
    \A i \in 1..Len(h) :
        (/\ \E k \in 1..Len(h[i].ev) : h[i].ev[k].t = "cmd" /\ h[i].ev[k].c = "available" /\ h[i].ev[k].v = "start"
         /\ AvailAfter(FALSE, h[i].ev, 1)) =>      \* ... and is still available when the step ends
            \A j \in RequestSteps(h) :
                (j < i /\ NextReq(h, j) > i /\ h[j].in.a \in {"AddReader", "Describe"})
                    => RespBetween(h, h[j].in.c, j, i + 1) = 1

\* a describe is answered with the stream only while one exists: stream responses carry the
\* number of the stream that is available at that moment
RECURSIVE StreamAfter(_, _, _)
StreamAfter(cur, ev, k) ==   \* available stream number after events 1..k-1... folded
    IF k > Len(ev) THEN cur
    ELSE LET e == ev[k]
             c2 == IF e.t = "cmd" /\ e.c = "unavailable" THEN 0
                   ELSE IF e.t = "resp" /\ e.v \in {"stream", "ok"} /\ e.s # 0 THEN e.s
                   ELSE cur
         IN StreamAfter(c2, ev, k + 1)

\* a reader/describe request is answered with the stream only while a stream is available:
\* a stream response in step i requires that the stream was available when the step began or
\* became available during the step (availability = between the launch of the available
\* command and the launch of the unavailable command). Step granularity, because responses
\* are logged by the requesters' goroutines.
C19_StreamOnlyWhileAvailable(h) ==
    \A i \in 1..Len(h) :
        (\E k \in 1..Len(h[i].ev) : h[i].ev[k].t = "resp" /\ h[i].ev[k].v = "stream" /\ h[i].ev[k].c \in (Readers \cup Descs))
            => \/ AvailAfter(FALSE, AllEv(SubSeq(h, 1, i - 1)), 1)
               \/ \E k \in 1..Len(h[i].ev) : h[i].ev[k].t = "cmd" /\ h[i].ev[k].c = "available" /\ h[i].ev[k].v = "start"

\* on-demand: started on first demand, not started twice, stopped only when running
C19_DemandAlternates(h, startEv, stopEv) ==
    LET es == SelectSeq(AllEv(h), LAMBDA e : (e.t = startEv.t /\ e.c = startEv.c /\ e.v = startEv.v)
                                          \/ (e.t = stopEv.t /\ e.c = stopEv.c /\ e.v = stopEv.v))
    IN \A k \in 1..Len(es) :
           IF k % 2 = 1 THEN es[k].v = startEv.v /\ es[k].c = startEv.c
           ELSE es[k].v = stopEv.v /\ es[k].c = stopEv.c

\* on demand (od configurations): a request that has to wait starts the source/command if it
\* is not running
C19_StartedOnDemand(h, startEv, stopEv) ==
    \A i \in RequestSteps(h) :
        (h[i].in.a \in {"AddReader", "Describe"} /\ RespBetween(h, h[i].in.c, i, i + 1) = 0) =>
            LET es == SelectSeq(AllEv(SubSeq(h, 1, i)),
                                LAMBDA e : (e.t = startEv.t /\ e.c = startEv.c /\ e.v = startEv.v)
                                        \/ (e.t = stopEv.t /\ e.c = stopEv.c /\ e.v = stopEv.v))
            IN Len(es) % 2 = 1     \* running after the step

\* --- C20: hook pairs. For each family the start command and the stop command strictly
\* alternate, beginning with start; after the path terminated no pair is open.
HookSeq(h, startHook, stopHook) ==
    SelectSeq(AllEv(h), LAMBDA e : e.t = "cmd" /\ e.v = "start" /\ e.c \in {startHook, stopHook})
C20_Alternate(h, startHook, stopHook) ==
    LET es == HookSeq(h, startHook, stopHook)
    IN \A k \in 1..Len(es) : es[k].c = (IF k % 2 = 1 THEN startHook ELSE stopHook)
\* the long-running start command is closed exactly when its stop command is launched
C20_StartCmdClosed(h, startHook, stopHook) ==
    LET es == SelectSeq(AllEv(h), LAMBDA e : e.t = "cmd" /\ ((e.c = startHook) \/ (e.c = stopHook /\ e.v = "start")))
    IN \A k \in 1..Len(es) :
           CASE k % 3 = 1 -> es[k].c = startHook /\ es[k].v = "start"
             [] k % 3 = 2 -> es[k].c = startHook /\ es[k].v = "stop"
             [] OTHER     -> es[k].c = stopHook
C20_ClosedAtEnd(h, startHook, stopHook) ==
    \A i \in 1..Len(h) :
        \* a step in which the path terminated: afterwards the pair is closed
        (h[i].in.a = "Terminate") => Len(HookSeq(SubSeq(h, 1, i), startHook, stopHook)) % 2 = 0

Families == {<<"available", "unavailable">>, <<"online", "offline">>, <<"demand", "undemand">>}

\* ------------------------------------------------------------------ invariants for MC
\* (hist is hidden by the VIEW; the monitors are monotone in the history, so checking them on
\*  the full history of every reachable state is what TLC does without the VIEW in the
\*  smaller configurations, and on one representative history per view-state otherwise)
MonC16 == /\ C16_AtMostOneSource(hist) /\ C16_RejectedUnlessOverride(hist, Override) /\ C16_ClosedBeforeAttach(hist)
          /\ C16_NoStaleData(hist)
MonC18 == C18_ReaderLimit(hist, MaxReaders) /\ C18_NoDoubleCount(hist) /\ C18_TeardownOnUnavailable(hist)
MonC19 == /\ C19_AtMostOneResponse(hist) /\ C19_NoSpuriousResponse(hist)
          /\ C19_AnsweredWhenWaitEnds(hist) /\ C19_AnsweredWhenReady(hist)
          /\ C19_StreamOnlyWhileAvailable(hist)
          /\ OnDemandStatic => /\ C19_DemandAlternates(hist, E("static", "", "start", 0), E("static", "", "stop", 0))
                               /\ C19_StartedOnDemand(hist, E("static", "", "start", 0), E("static", "", "stop", 0))
          /\ OnDemandPub => /\ C19_DemandAlternates(hist, E("cmd", "demand", "start", 0), E("cmd", "demand", "stop", 0))
                            /\ C19_StartedOnDemand(hist, E("cmd", "demand", "start", 0), E("cmd", "demand", "stop", 0))
MonC20 == \A f \in Families : /\ C20_Alternate(hist, f[1], f[2]) /\ C20_StartCmdClosed(hist, f[1], f[2])
                              /\ C20_ClosedAtEnd(hist, f[1], f[2])

\* state invariants of the implementation-shaped layer (design checks)
TypeOK == /\ st.stream = 0 => st.readers = {}
          /\ st.hAvail <=> st.stream # 0
          /\ (st.dHold # <<>> \/ st.rHold # <<>>) => st.stream = 0
          /\ st.readyT => st.od = "waiting"
          /\ st.closeT => st.od = "closing"
          /\ ~st.alive => (st.stream = 0 /\ st.dHold = <<>> /\ st.rHold = <<>> /\ ~st.hAvail /\ ~st.hOnline /\ ~st.hDemand)

\* liveness-as-safety: a held request can always still be answered by a timer or a ready event
\* (a state with held requests in which no timer is armed, nothing is running that could become
\*  ready, is a dead wait)
NoDeadWait == (st.alive /\ (st.dHold # <<>> \/ st.rHold # <<>>)) => (st.readyT \/ st.od \in {"waiting"})

EmitHist == steps = MaxSteps => Emit("RUN", [h |-> hist])
=============================================================================
