----------------------------- MODULE TraceReload -----------------------------
\* Trace validation for C13: one record per reload experiment on the real Core
\* (harness internal/core/zz_verif_c13_test.go). TLC evaluates NoStaleParam, NoStaleRef and
\* Minimal on what was observed, and (DRIFT only) whether the set of recreated components is
\* the one layer 1 (the extracted close predicates) predicts.
EXTENDS ReloadMC

Trace == ndJsonDeserialize("C13_trace.ndjson")

VARIABLE l
TraceInit == l = 0 /\ Init
TraceNext == l < Len(Trace) /\ l' = l + 1 /\ UNCHANGED vars
TraceSpec == TraceInit /\ [][TraceNext]_<<l, vars>>

SetOf(s) == {s[i] : i \in 1..Len(s)}
\* references that force a recreation: those handed to the constructor (RefsT, from go/ast)
RefsOf(r) == RefsT

Verdict(r, ln) ==
    /\ Monitor(NoStaleParam(SetOf(r.stale)), [l |-> ln, monitor |-> "NoStaleParam", params |-> r.params, comps |-> r.stale])
    /\ Monitor(NoStaleRef(SetOf(r.staleRefs)), [l |-> ln, monitor |-> "NoStaleRef", params |-> r.params, comps |-> r.staleRefs])
    /\ Monitor(Minimal(SetOf(r.params), SetOf(r.recreated), RefsOf(r)),
               [l |-> ln, monitor |-> "Minimal", params |-> r.params,
                comps |-> SetOf(r.recreated) \ NeededObs(SetOf(r.params), RefsOf(r))])

\* conformance: layer 1 predicts exactly the components whose instance changed, among those
\* that exist before or after
\* (the record cleaner's predicate depends on the CONTENT of the path configurations, which the
\*  extracted table cannot express: experiments that change the paths are not compared)
Conforms(r) == "paths" \in SetOf(r.params) \/ SetOf(r.recreated) = CloseSet(SetOf(r.params)) \cap (SetOf(r.present) \cup SetOf(r.presentLive) \cup SetOf(r.recreated))

Verdicts == l >= 1 => Verdict(Trace[l], l)
Drift == l >= 1 => (Conforms(Trace[l]) \/ Emit("DRIFT", [l |-> l, params |-> Trace[l].params]))
Accepted == TLCGet("stats").diameter - 1 = Len(Trace)
=============================================================================
