--------------------------- MODULE TracePathManager ---------------------------
\* Trace validation for C15. One ndjson record per run of the REAL pathManager
\* (harness internal/core/zz_verif_pm_test.go): steps = << [act, cm, live, pending, done, closed] >>,
\* observed after every Reload / Deliver / Request (step 1 is the initial observation).
\* The statement's formulas of PathManager.tla are evaluated on the observed (cm, live) whenever
\* no delivery goroutine is pending, and KeptIffHotOnly across every observed Reload step.
EXTENDS PathManagerMC

Trace == ndJsonDeserialize("C15_trace.ndjson")

VARIABLE l
TraceInit == l = 0 /\ Init
TraceNext == l < Len(Trace) /\ l' = l + 1 /\ UNCHANGED vars
TraceSpec == TraceInit /\ [][TraceNext]_<<l, vars>>

\* observed -> the vocabulary of PathManager.tla
ObsCM(s) == [k \in Keys |-> [hot |-> s.cm[k].hot, cold |-> s.cm[k].cold]]
ObsLive(s) == [n \in Names |->
    [alive |-> s.live[n].alive, inc |-> s.live[n].inc, key |-> s.live[n].key,
     conf |-> IF s.live[n].alive THEN [hot |-> s.live[n].hot, cold |-> s.live[n].cold] ELSE Absent,
     groups |-> s.live[n].groups]]

QuiescentAt(r, i) == r.steps[i].pending = 0
ConsistentAt(r, i) ==
    /\ RunsResolvedConf(ObsCM(r.steps[i]), ObsLive(r.steps[i]))
    /\ RunsResolvedGroups(ObsCM(r.steps[i]), ObsLive(r.steps[i]))

MonitorNames == {"StaticHasPath", "LiveResolves", "RunsResolvedConf", "RunsResolvedGroups", "KeptIffHotOnly"}

FailingSteps(name, r) ==
    {i \in 1..Len(r.steps) :
        IF name = "KeptIffHotOnly"
        THEN /\ i > 1 /\ r.steps[i].act.a = "Reload"
             /\ QuiescentAt(r, i - 1) /\ ConsistentAt(r, i - 1)
             /\ ~KeptIffHotOnly(ObsCM(r.steps[i - 1]), ObsLive(r.steps[i - 1]), ObsCM(r.steps[i]), ObsLive(r.steps[i]))
        ELSE /\ QuiescentAt(r, i)
             /\ ~(CASE name = "StaticHasPath"      -> StaticHasPath(ObsCM(r.steps[i]), ObsLive(r.steps[i]))
                    [] name = "LiveResolves"       -> LiveResolves(ObsCM(r.steps[i]), ObsLive(r.steps[i]))
                    [] name = "RunsResolvedConf"   -> RunsResolvedConf(ObsCM(r.steps[i]), ObsLive(r.steps[i]))
                    [] name = "RunsResolvedGroups" -> RunsResolvedGroups(ObsCM(r.steps[i]), ObsLive(r.steps[i])))}

\* diagnosis of the first failing step (to tell known findings from new ones)
Diag(name, r, i) ==
    LET s == r.steps[i]
        \* a path runs with a configuration of an EARLIER reload although a later one was delivered:
        \* deliveries were applied out of order
        deliveredOutOfOrder ==
            \E a, b \in 1..i : a < b /\ r.steps[a].act.a = "Deliver" /\ r.steps[b].act.a = "Deliver"
                               /\ r.steps[a].act.name = r.steps[b].act.name /\ r.steps[a].act.rl > r.steps[b].act.rl
        \* some live path's manager-side configuration name differs from the one it was created under
        badNames == {n \in Names : s.live[n].alive /\ ResolveKey(ObsCM(s), n) # "none"
                                   /\ s.live[n].groups # GroupsOf(ResolveKey(ObsCM(s), n), n)}
    IN [step |-> i, act |-> s.act.a, outOfOrderDelivery |-> deliveredOutOfOrder, staleGroups |-> badNames # {}]

RunVerdict(r, ln) ==
    \A name \in MonitorNames :
        LET f == FailingSteps(name, r) IN
        f = {} \/ Emit("BAD", [l |-> ln, run |-> r.run, monitor |-> name,
                               detail |-> Diag(name, r, CHOOSE i \in f : \A j \in f : i <= j)])

Verdicts == l >= 1 => RunVerdict(Trace[l], l)
Accepted == TLCGet("stats").diameter - 1 = Len(Trace)
=============================================================================
