------------------------- MODULE TraceStaticSource -------------------------
(* Trace validation for X01. One ndjson record per script replayed on the REAL staticsources.Handler
   (harness internal/staticsources/zz_verif_x01_test.go):
     [walk, mode, ev: << event >>, cev: << event >>, pause]
   ev  = everything the harness observed, in the order it happened, each event
         [e, kind, run, req, v, live, ok, q, t, pend]:
           Init v             Handler{Conf: c0}.Initialize()
           Start q            Start(onDemand, query q) is about to be called (q = number of the Start)
           Stop / StopRet     Stop is about to be called / has returned
           StopHang           Stop has not returned and every goroutine of the handler is parked on a channel
           Reload v           ReloadConf(conf v) is about to be called (v = 1, 2, ...)
           Hold / Release     the parent is busy / back in its loop
           RunBegin run v live q   instance.Run was entered: conf version of RunParams.Conf, context alive,
                                   query found in RunParams.ResolvedSource; t = ms
           RunEnd run kind    Run is about to return: kind = "error" (by itself) | "cancel" (context done); t = ms
           Told run v         the Run received conf v on RunParams.ReloadConf
           Issue kind req     the Run calls SetReady / SetNotReady (kind = "ready" | "notready")
           Ret kind req ok    that call returned (ok = no error)
           PCall kind req live  the parent was called (req = the request it was shown, 0 if it carries no identity)
           PAns kind ok       the parent accepted (ok) / answered "terminated"
           Quiet pend         every goroutine of the handler is parked; pend = how many of them are still
                              in flight (ReloadConf goroutines, forwarders, a loop outside its select, ...)
           Grace ok           a Run was waited for and did not begin: the handler is parked after Start, or
                              the retry pause plus a grace period have passed (ok = the process was responsive)
   cev = the events of ev that layer 1 produces, reduced to [e, kind, v, live, ok, q].

   Verdicts: the statement's formulas (S1..S8 of StaticSource.tla, as monitors over the event
   sequence; nothing here reads layer 1) evaluated by TLC on every prefix of every recorded run.
   Conformance (DRIFT, never a verdict): is the recorded cev sequence a behaviour of layer 1,
   with internal steps in between?  TLC searches the hidden steps. *)
EXTENDS StaticSource

CONSTANTS PauseMs

Traces == ndJsonDeserialize("X01_trace.ndjson")

\* ------------------------------------------------------------------ layer 2 on recorded runs
M0 == [open |-> FALSE, stopc |-> FALSE, sess |-> 0, active |-> {}, lastEnd |-> -1, expect |-> FALSE,
       handed |-> 0, settled |-> TRUE, told |-> <<>>,
       out |-> [id |-> 0, kind |-> "", called |-> FALSE, acc |-> FALSE],
       bad |-> {}]

\* cs: set of [mon, ok]; every failing one is remembered with the step
Chk(m, k, cs) == [m EXCEPT !.bad = @ \cup {[mon |-> c.mon, step |-> k] : c \in {x \in cs : ~x.ok}}]
C(mon, ok) == [mon |-> mon, ok |-> ok]

MStep(m, e, k) ==
    CASE e.e = "Init" -> [m EXCEPT !.handed = e.v]
      [] e.e = "Start" ->
            [m EXCEPT !.open = TRUE, !.stopc = FALSE, !.sess = @ + 1, !.expect = TRUE, !.lastEnd = -1]
      [] e.e = "Stop" -> [m EXCEPT !.stopc = TRUE, !.expect = FALSE]
      [] e.e = "StopRet" ->
            \* S2: when Stop returns no Run is in progress
            [Chk(m, k, {C("StoppedMeansStopped", m.active = {})}) EXCEPT !.open = FALSE]
      [] e.e = "StopHang" ->
            \* S3
            Chk(m, k, {C("StopReturns", FALSE)})
      [] e.e = "Reload" -> [m EXCEPT !.handed = e.v, !.settled = FALSE]
      [] e.e = "Quiet" ->
            IF e.pend # 0 THEN m
            ELSE \* S8: at quiescence the Run in progress has last been told the newest configuration
                 [Chk(m, k, {C("ConfNewestAtQuiescence",
                                (m.open /\ ~m.stopc) => \A r \in m.active : m.told[r] = m.handed)})
                    EXCEPT !.settled = TRUE]
      [] e.e = "RunBegin" ->
            [Chk(m, k, {C("OneRun", m.active = {}),                                      \* S1
                        C("RunOnlyWhileStarted", m.open),                                \* S2
                        C("FreshContext", (m.open /\ ~m.stopc) => e.live),               \* S2
                        C("RetryPause", m.lastEnd >= 0 => e.t - m.lastEnd >= PauseMs),   \* S6 (not before)
                        C("QueryOfStart", m.open => e.q = m.sess),                       \* S7
                        C("ConfKnown", e.v \in 0..m.handed),                             \* S8
                        C("ConfNewestAtStart", (m.settled /\ m.open /\ ~m.stopc) => e.v = m.handed)})  \* S8
               EXCEPT !.active = @ \cup {e.run}, !.expect = FALSE,
                      !.told = [r \in (DOMAIN m.told) \cup {e.run} |-> IF r = e.run THEN e.v ELSE m.told[r]]]
      [] e.e = "RunEnd" ->
            [Chk(m, k, {C("NoSpuriousCancel", e.kind = "cancel" => m.stopc)})            \* S2
               EXCEPT !.active = @ \ {e.run}, !.lastEnd = IF m.open /\ ~m.stopc THEN e.t ELSE @,
                      !.expect = (e.kind = "error" /\ m.open /\ ~m.stopc)]
      [] e.e = "Grace" ->
            \* S6 / S7 (not never): a Run was due and did not begin
            Chk(m, k, {C("RunStartsEventually", ~(m.expect /\ e.ok))})
      [] e.e = "Told" ->
            [Chk(m, k, {C("ConfKnown", e.v \in 0..m.handed)}) EXCEPT
                !.told = [r \in (DOMAIN m.told) \cup {e.run} |-> IF r = e.run THEN e.v ELSE m.told[r]]]
      [] e.e = "Issue" -> [m EXCEPT !.out = [id |-> e.req, kind |-> e.kind, called |-> FALSE, acc |-> FALSE]]
      [] e.e = "PCall" ->
            \* S4: exactly what was issued, once, and only between Start and the return of Stop
            [Chk(m, k, {C("ForwardFaithful", /\ m.out.id # 0 /\ ~m.out.called /\ e.kind = m.out.kind
                                             /\ (e.kind = "ready" => e.req = m.out.id)),
                        C("ForwardOnlyStarted", m.open)})
               EXCEPT !.out.called = TRUE]
      [] e.e = "PAns" ->
            [Chk(m, k, {C("ForwardOnlyStarted", e.ok => m.open)}) EXCEPT !.out.acc = e.ok]
      [] e.e = "Ret" ->
            \* S5: success iff the parent accepted; not shown to the parent only if stopped meanwhile
            [Chk(m, k, {C("AnswerFaithful", e.kind = "ready" => (e.ok <=> m.out.acc)),
                        C("ForwardedUnlessStopped", ~m.out.called => m.stopc)})
               EXCEPT !.out = [id |-> 0, kind |-> "", called |-> FALSE, acc |-> FALSE]]
      [] OTHER -> m

RECURSIVE MFold(_, _, _)
MFold(m, evs, k) == IF k > Len(evs) THEN m ELSE MFold(MStep(m, evs[k], k), evs, k + 1)

\* the first failing step of every monitor
Judge(tr) ==
    LET bad == MFold(M0, Traces[tr].ev, 1).bad
        mons == {b.mon : b \in bad}
    IN \A mon \in mons :
         LET steps == {b.step : b \in {x \in bad : x.mon = mon}}
             first == CHOOSE s \in steps : \A s2 \in steps : s <= s2
         IN Monitor(FALSE, [tr |-> tr, walk |-> Traces[tr].walk, monitor |-> mon, step |-> first])

\* ------------------------------------------------------------------ conformance with layer 1
VARIABLES tr, l
tvars == <<vars, tr, l>>

TraceInit == /\ Init
             /\ tr \in 1..Len(Traces)
             /\ l = 0
TraceNext ==
    /\ Next
    /\ tr' = tr
    /\ IF ev'.e = "tau" THEN l' = l
       ELSE /\ l < Len(Traces[tr].cev)
            /\ ev' = Traces[tr].cev[l + 1]
            /\ l' = l + 1
TraceSpec == TraceInit /\ [][TraceNext]_tvars

Verdicts == (l = 0 /\ ev.e = "tau" /\ runs = <<>> /\ caller.sess = 0 /\ handed = 0) => Judge(tr)
Conforms == (l = Len(Traces[tr].cev)) => Emit("DONE", [tr |-> tr])
Progress == Emit("AT", [tr |-> tr, l |-> l])
=============================================================================
