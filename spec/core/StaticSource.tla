---------------------------- MODULE StaticSource ----------------------------
(* X01  Static source handler  (internal/staticsources/handler.go: Handler.Initialize / Start /
        Stop / ReloadConf / SetReady / SetNotReady / run)

   A path that pulls its stream from somewhere else (source: rtsp://..., rpiCamera, ...) owns one
   staticsources.Handler. The handler owns one source instance and keeps it running: the path
   calls Start (at creation, or on demand when the first reader arrives), Stop (on-demand sources
   are stopped when nobody reads; every source when the path closes) and ReloadConf (a
   configuration reload changed hot-reloadable settings of the path, e.g. the rpiCamera picture
   parameters). The instance's Run(params) does the pulling; it tells the path, through the
   handler, when a stream is ready (SetReady) and when it is gone (SetNotReady).

   STATEMENT  (what the path on one side and a source instance on the other side rely on;
   written from the purpose and the interface of the component, not from its code)

   S1 OneRun            At any time at most one Run of the instance is in progress.
   S2 Stopped           A Run begins only between a Start and the return of the Stop that follows
                        it. When Stop returns no Run is in progress, and until the next Start
                        nothing is forwarded to the parent.  A Run that begins while the handler
                        is started and not being stopped gets a live context; a Run's context is
                        cancelled only because the handler is stopped or the Run has ended.
   S3 StopReturns       Stop returns, provided the instance returns from Run once its context is
                        cancelled (Stop cancels the context of the Run in progress; nothing the
                        instance or the parent legitimately does can block Stop forever).
   S4 Forwarding        What reaches the parent (StaticSourceHandlerSetReady / ...SetNotReady) is
                        exactly what the instance issued: the same request, of the same kind, once,
                        in the order issued, and only between Start and the return of Stop.
   S5 Answers           SetReady returns the parent's answer: success iff the parent accepted the
                        request. A request is answered without having been shown to the parent
                        only if the handler has been stopped meanwhile (then SetReady returns an
                        error and SetNotReady simply returns); a request issued by a Run whose
                        handler has been stopped is never answered with success.
   S6 Retry             When a Run ends by itself while the handler is started, a new Run begins
                        after the retry pause (5 seconds): not before the pause has elapsed, and
                        not never - unless the handler is stopped meanwhile.
   S7 Restartable       Start after Stop works again, any number of times: every Start makes a
                        Run begin, with the query given to that Start.
   S8 NewestConf        Every configuration a Run is told (RunParams.Conf when it begins, the
                        ReloadConf channel while it runs) is one that was handed to the handler
                        (Handler.Conf at Initialize, ReloadConf later). Once ReloadConf calls have
                        stopped arriving and everything in flight has been delivered (quiescence):
                        the configuration the Run in progress has LAST been told is the newest one
                        handed to the handler, and a Run that begins is told the newest one -
                        whether the reload arrived while a Run was in progress, during the retry
                        pause, or while the handler was stopped.

   Layer 1 (below, "handler.go") is code-shaped: one action per critical section / select branch,
   the retry timer and every goroutine the code spawns (`go func` in ReloadConf, in the
   chReloadConf branch of run, in recreate) as separate steps. Every step sets `ev`: the event an
   outside observer (the caller, the instance, the parent) sees, or "tau" for an internal step;
   TraceStaticSource.tla matches recorded runs of the real handler against it (conformance).
   Named deviations (constants) switch between the code's design and one that meets S8:
     KeepWhileStopped  FALSE = code: ReloadConf returns at once when the handler is not running and the
                       new configuration is dropped (Handler.Conf keeps the old one);
                       TRUE = ReloadConf stores it in Handler.Conf when the handler is not running
     StartWithNewest   FALSE = code: a configuration whose ReloadConf goroutine is overtaken by Stop is
                       dropped; TRUE = Start begins with the newest configuration handed so far
                       (this repairs the case of KeepWhileStopped as well)
     OrderedDelivery   FALSE = code: each ReloadConf hands the configuration to a fresh goroutine;
                       two of them may reach the run loop in either order
     OrderedForward    FALSE = code: the run loop hands each configuration to a fresh goroutine
                       that offers it to the instance; two of them may be received in either order
     LateDelivery      TRUE = code: chReloadConf is one channel for all Start..Stop periods, and a ReloadConf
                       goroutine that has not run its select yet when Stop and the next Start have happened
                       finds both branches ready (the NEW run loop receives from chReloadConf, its own ctx
                       is done): it may hand its OLD configuration to the next period's loop (X01-F4);
                       FALSE = such a goroutine can only give up
   Layer 2 ("the statement") are state predicates / action properties over what is observable.  *)
EXTENDS VerifCommon

CONSTANTS MaxStarts, MaxReloads, MaxErrs, MaxReqs, MaxHolds,
          KeepWhileStopped, StartWithNewest, OrderedDelivery, OrderedForward, LateDelivery

VARIABLES
    caller,   \* the path goroutine: [pc: "idle" | "stop0" | "stopping", running, sess, hold]
              \*   running = Handler.running, sess = number of Starts so far (the current s.ctx),
              \*   hold = the parent is busy with something else (does not accept requests)
    ctxd,     \* set of sessions whose s.ctx has been cancelled
    handed,   \* newest configuration version handed to the handler (0 = Handler.Conf at Initialize)
    hconf,    \* Handler.Conf (written by the run loop only)
    loop,     \* run(): [pc: "none" | "init" | "select" | "parent" | "waitErr" | "done", recreating, timer, cur]
    runs,     \* sequence of Runs ever spawned: [st: "spawned" | "active" | "returned" | "gone", cancelled, conf, told, sess]
    req,      \* the instance's outstanding SetReady / SetNotReady call:
              \*   [st: "none" | "sending" | "atparent" | "answered", kind, run, called, ok, n]
    deliv,    \* goroutines of ReloadConf: sequence of [v, sess]
    fwd,      \* goroutines of the chReloadConf branch: sequence of [v, run]
    nerr, nhold,
    ev        \* the observable event of the last step
vars == <<caller, ctxd, handed, hconf, loop, runs, req, deliv, fwd, nerr, nhold, ev>>
View == <<caller, ctxd, handed, hconf, loop, runs, req, deliv, fwd, nerr, nhold>>

Tau == [e |-> "tau", kind |-> "", v |-> 0, live |-> FALSE, ok |-> FALSE, q |-> 0]
E(e, kind, v, live, ok, q) == [e |-> e, kind |-> kind, v |-> v, live |-> live, ok |-> ok, q |-> q]

DropAt(s, i) == SubSeq(s, 1, i - 1) \o SubSeq(s, i + 1, Len(s))
RunIdx == 1..Len(runs)
Active == {i \in RunIdx : runs[i].st = "active"}
InProgress == {i \in RunIdx : runs[i].st \in {"spawned", "active"}}
NoReq == [st |-> "none", kind |-> "", run |-> 0, called |-> FALSE, ok |-> FALSE, n |-> 0]

Init ==
    /\ caller = [pc |-> "idle", running |-> FALSE, sess |-> 0, hold |-> FALSE]
    /\ ctxd = {} /\ handed = 0 /\ hconf = 0
    /\ loop = [pc |-> "none", recreating |-> FALSE, timer |-> FALSE, cur |-> 0]
    /\ runs = <<>> /\ req = NoReq /\ deliv = <<>> /\ fwd = <<>> /\ nerr = 0 /\ nhold = 0
    /\ ev = Tau

\* ------------------------------------------------------------------ layer 1: handler.go
\* recreate(): a goroutine that will call instance.Run with a fresh context. Handler.Conf is read by
\* that goroutine when it builds RunParams (not by recreate itself), i.e. at RunBegin.
Spawned == Append(runs, [st |-> "spawned", cancelled |-> FALSE, conf |-> 0, told |-> 0, sess |-> caller.sess])

\* ---- the caller (path goroutine)
\* Start: running = true; a new s.ctx; go s.run()
Start ==
    /\ caller.pc = "idle" /\ ~caller.running /\ caller.sess < MaxStarts
    /\ caller' = [caller EXCEPT !.running = TRUE, !.sess = @ + 1]
    /\ loop' = [pc |-> "init", recreating |-> FALSE, timer |-> FALSE, cur |-> 0]
    /\ hconf' = IF StartWithNewest THEN handed ELSE hconf
    /\ ev' = E("Start", "", 0, FALSE, FALSE, caller.sess + 1)
    /\ UNCHANGED <<ctxd, handed, runs, req, deliv, fwd, nerr, nhold>>
\* Stop, first half: running = false (the caller has decided to stop; it accepts nothing any more)
StopCall ==
    /\ caller.pc = "idle" /\ caller.running
    /\ caller' = [caller EXCEPT !.pc = "stop0", !.running = FALSE]
    /\ ev' = E("Stop", "", 0, FALSE, FALSE, 0)
    /\ UNCHANGED <<ctxd, handed, hconf, loop, runs, req, deliv, fwd, nerr, nhold>>
\* s.ctxCancel()
StopCancel ==
    /\ caller.pc = "stop0"
    /\ ctxd' = ctxd \cup {caller.sess}
    /\ caller' = [caller EXCEPT !.pc = "stopping"]
    /\ ev' = Tau
    /\ UNCHANGED <<handed, hconf, loop, runs, req, deliv, fwd, nerr, nhold>>
\* <-s.done
StopRet ==
    /\ caller.pc = "stopping" /\ loop.pc = "done"
    /\ caller' = [caller EXCEPT !.pc = "idle"]
    /\ ev' = E("StopRet", "", 0, FALSE, FALSE, 0)
    /\ UNCHANGED <<ctxd, handed, hconf, loop, runs, req, deliv, fwd, nerr, nhold>>
\* ReloadConf(newConf): `if !s.running { return }`, else a goroutine that offers newConf to the loop
Reload ==
    /\ caller.pc = "idle" /\ handed < MaxReloads
    /\ handed' = handed + 1
    /\ deliv' = IF caller.running THEN Append(deliv, [v |-> handed + 1, sess |-> caller.sess]) ELSE deliv
    /\ hconf' = IF ~caller.running /\ KeepWhileStopped THEN handed + 1 ELSE hconf
    /\ ev' = E("Reload", "", handed + 1, FALSE, FALSE, 0)
    /\ UNCHANGED <<caller, ctxd, loop, runs, req, fwd, nerr, nhold>>
\* the parent is busy for a while (it is one goroutine: while it does something else it does not
\* receive from its request channels)
Hold ==
    /\ caller.pc = "idle" /\ ~caller.hold /\ nhold < MaxHolds
    /\ caller' = [caller EXCEPT !.hold = TRUE] /\ nhold' = nhold + 1
    /\ ev' = E("Hold", "", 0, FALSE, FALSE, 0)
    /\ UNCHANGED <<ctxd, handed, hconf, loop, runs, req, deliv, fwd, nerr>>
Release ==
    /\ caller.pc = "idle" /\ caller.hold
    /\ caller' = [caller EXCEPT !.hold = FALSE]
    /\ ev' = E("Release", "", 0, FALSE, FALSE, 0)
    /\ UNCHANGED <<ctxd, handed, hconf, loop, runs, req, deliv, fwd, nerr, nhold>>

\* ---- goroutines of ReloadConf: select { s.chReloadConf <- newConf ; <-ctx.Done() }
\* = the chReloadConf branch of run(): s.Conf = newConf; if !recreating { go forward }
Deliver(k) ==
    /\ k \in 1..Len(deliv) /\ loop.pc = "select"
    /\ (OrderedDelivery => k = 1)
    /\ \/ deliv[k].sess = caller.sess
       \/ LateDelivery /\ deliv[k].sess \in ctxd
    /\ hconf' = deliv[k].v
    /\ deliv' = DropAt(deliv, k)
    /\ fwd' = IF loop.recreating THEN fwd ELSE Append(fwd, [v |-> deliv[k].v, run |-> loop.cur])
    /\ ev' = Tau
    /\ UNCHANGED <<caller, ctxd, handed, loop, runs, req, nerr, nhold>>
DeliverDrop(k) ==
    /\ k \in 1..Len(deliv) /\ deliv[k].sess \in ctxd
    /\ deliv' = DropAt(deliv, k)
    /\ ev' = Tau
    /\ UNCHANGED <<caller, ctxd, handed, hconf, loop, runs, req, fwd, nerr, nhold>>

\* ---- goroutines of the chReloadConf branch: select { runReloadConf <- newConf ; <-runCtx.Done() }
\* the instance receives only while it sits in its own select (not inside SetReady / SetNotReady)
FirstFor(k) == \A j \in 1..(k - 1) : fwd[j].run # fwd[k].run
Forward(k) ==
    /\ k \in 1..Len(fwd) /\ fwd[k].run \in Active /\ req.st = "none"
    /\ (OrderedForward => FirstFor(k))
    /\ runs' = [runs EXCEPT ![fwd[k].run].told = fwd[k].v]
    /\ fwd' = DropAt(fwd, k)
    /\ ev' = E("Told", "", fwd[k].v, FALSE, FALSE, 0)
    /\ UNCHANGED <<caller, ctxd, handed, hconf, loop, req, deliv, nerr, nhold>>
ForwardDrop(k) ==
    /\ k \in 1..Len(fwd) /\ runs[fwd[k].run].cancelled
    /\ fwd' = DropAt(fwd, k)
    /\ ev' = Tau
    /\ UNCHANGED <<caller, ctxd, handed, hconf, loop, runs, req, deliv, nerr, nhold>>

\* ---- run(): before the loop
LoopInit ==
    /\ loop.pc = "init"
    /\ runs' = Spawned
    /\ loop' = [loop EXCEPT !.pc = "select", !.cur = Len(runs) + 1]
    /\ ev' = Tau
    /\ UNCHANGED <<caller, ctxd, handed, hconf, req, deliv, fwd, nerr, nhold>>
\* case err := <-runErr
LoopRunErr(i) ==
    /\ loop.pc = "select" /\ i \in RunIdx /\ runs[i].st = "returned"
    /\ runs' = [[runs EXCEPT ![i].st = "gone"] EXCEPT ![loop.cur].cancelled = TRUE]
    /\ loop' = [loop EXCEPT !.recreating = TRUE, !.timer = TRUE]
    /\ ev' = Tau
    /\ UNCHANGED <<caller, ctxd, handed, hconf, req, deliv, fwd, nerr, nhold>>
\* case req := <-s.chInstanceSetReady / chInstanceSetNotReady: call the parent with s.ctx
LoopTake ==
    /\ loop.pc = "select" /\ req.st = "sending"
    /\ loop' = [loop EXCEPT !.pc = "parent"]
    /\ req' = [req EXCEPT !.st = "atparent", !.called = TRUE]
    /\ ev' = E("PCall", req.kind, 0, caller.sess \notin ctxd, FALSE, 0)
    /\ UNCHANGED <<caller, ctxd, handed, hconf, runs, deliv, fwd, nerr, nhold>>
\* case <-recreateTimer.C (the retry pause has elapsed)
LoopTimer ==
    /\ loop.pc = "select" /\ loop.timer
    /\ runs' = Spawned
    /\ loop' = [loop EXCEPT !.timer = FALSE, !.recreating = FALSE, !.cur = Len(runs) + 1]
    /\ ev' = Tau
    /\ UNCHANGED <<caller, ctxd, handed, hconf, req, deliv, fwd, nerr, nhold>>
\* case <-s.ctx.Done()
LoopCtxDone ==
    /\ loop.pc = "select" /\ caller.sess \in ctxd
    /\ IF loop.recreating
       THEN loop' = [loop EXCEPT !.pc = "done"] /\ runs' = runs
       ELSE /\ loop' = [loop EXCEPT !.pc = "waitErr"]
            /\ runs' = [runs EXCEPT ![loop.cur].cancelled = TRUE]
    /\ ev' = Tau
    /\ UNCHANGED <<caller, ctxd, handed, hconf, req, deliv, fwd, nerr, nhold>>
\* runCtxCancel(); <-runErr; return
LoopWaitErr(i) ==
    /\ loop.pc = "waitErr" /\ i \in RunIdx /\ runs[i].st = "returned"
    /\ runs' = [runs EXCEPT ![i].st = "gone"]
    /\ loop' = [loop EXCEPT !.pc = "done"]
    /\ ev' = Tau
    /\ UNCHANGED <<caller, ctxd, handed, hconf, req, deliv, fwd, nerr, nhold>>

\* ---- the parent (handlerParent: StaticSourceHandlerSetReady / SetNotReady as core/path.go
\* implements them): accepts while it sits in its own loop, answers "terminated" once ctx is done
ParentAccept ==
    /\ req.st = "atparent" /\ caller.pc = "idle" /\ ~caller.hold /\ caller.sess \notin ctxd
    /\ req' = [req EXCEPT !.st = "answered", !.ok = TRUE]
    /\ loop' = [loop EXCEPT !.pc = "select"]
    /\ ev' = E("PAns", req.kind, 0, FALSE, TRUE, 0)
    /\ UNCHANGED <<caller, ctxd, handed, hconf, runs, deliv, fwd, nerr, nhold>>
ParentReject ==
    /\ req.st = "atparent" /\ caller.sess \in ctxd
    /\ req' = [req EXCEPT !.st = "answered", !.ok = FALSE]
    /\ loop' = [loop EXCEPT !.pc = "select"]
    /\ ev' = E("PAns", req.kind, 0, FALSE, FALSE, 0)
    /\ UNCHANGED <<caller, ctxd, handed, hconf, runs, deliv, fwd, nerr, nhold>>

\* ---- the instance
RunBegin(i) ==
    /\ i \in RunIdx /\ runs[i].st = "spawned"
    /\ runs' = [runs EXCEPT ![i].st = "active", ![i].conf = hconf, ![i].told = hconf]
    /\ ev' = E("RunBegin", "", hconf, ~runs[i].cancelled, FALSE, runs[i].sess)
    /\ UNCHANGED <<caller, ctxd, handed, hconf, loop, req, deliv, fwd, nerr, nhold>>
\* the instance calls Handler.SetReady / SetNotReady: select { chInstanceSet... <- req ; <-s.ctx.Done() }
Issue(kind) ==
    /\ req.st = "none" /\ req.n < MaxReqs
    /\ \E i \in Active :
         req' = [st |-> "sending", kind |-> kind, run |-> i, called |-> FALSE, ok |-> FALSE, n |-> req.n + 1]
    /\ ev' = E("Issue", kind, 0, FALSE, FALSE, 0)
    /\ UNCHANGED <<caller, ctxd, handed, hconf, loop, runs, deliv, fwd, nerr, nhold>>
\* case <-s.ctx.Done() of SetReady / SetNotReady
InstEscape ==
    /\ req.st = "sending" /\ caller.sess \in ctxd
    /\ req' = [req EXCEPT !.st = "answered", !.ok = FALSE]
    /\ ev' = Tau
    /\ UNCHANGED <<caller, ctxd, handed, hconf, loop, runs, deliv, fwd, nerr, nhold>>
InstRet ==
    /\ req.st = "answered"
    /\ req' = [NoReq EXCEPT !.n = req.n]
    /\ ev' = E("Ret", req.kind, 0, FALSE, IF req.kind = "ready" THEN req.ok ELSE TRUE, 0)
    /\ UNCHANGED <<caller, ctxd, handed, hconf, loop, runs, deliv, fwd, nerr, nhold>>
\* Run returns by itself (the connection broke)
InstError(i) ==
    /\ i \in Active /\ req.st = "none" /\ nerr < MaxErrs
    /\ runs' = [runs EXCEPT ![i].st = "returned"]
    /\ nerr' = nerr + 1
    /\ ev' = E("RunEnd", "error", 0, FALSE, FALSE, 0)
    /\ UNCHANGED <<caller, ctxd, handed, hconf, loop, req, deliv, fwd, nhold>>
\* Run returns because its context is cancelled
InstCancelled(i) ==
    /\ i \in Active /\ req.st = "none" /\ runs[i].cancelled
    /\ runs' = [runs EXCEPT ![i].st = "returned"]
    /\ ev' = E("RunEnd", "cancel", 0, FALSE, FALSE, 0)
    /\ UNCHANGED <<caller, ctxd, handed, hconf, loop, req, deliv, fwd, nerr, nhold>>

\* what the driver of the real code can do at will ...
Controlled ==
    \/ Start \/ StopCall \/ Reload \/ Hold \/ Release
    \/ \E kind \in {"ready", "notready"} : Issue(kind)
    \/ \E i \in RunIdx : InstError(i)
\* ... the retry pause elapsing (the driver can only wait for it) ...
Timer == LoopTimer
\* ... and what the real code does by itself
Internal ==
    \/ StopCancel \/ StopRet
    \/ \E k \in 1..Len(deliv) : Deliver(k) \/ DeliverDrop(k)
    \/ \E k \in 1..Len(fwd) : Forward(k) \/ ForwardDrop(k)
    \/ LoopInit \/ LoopTake \/ LoopCtxDone
    \/ \E i \in RunIdx : LoopRunErr(i) \/ LoopWaitErr(i) \/ RunBegin(i) \/ InstCancelled(i)
    \/ ParentAccept \/ ParentReject \/ InstEscape \/ InstRet

Next == Controlled \/ Timer \/ Internal
Spec == Init /\ [][Next]_vars
\* liveness: everything the code does by itself is eventually done, and the timer fires
FairSpec == Spec /\ WF_vars(Internal) /\ WF_vars(Timer)

\* schedules in which the real code is left alone until nothing moves any more before the driver
\* acts again (the driver waits for quiescence): used to generate replay scripts
\* "some step of Internal is enabled", written out as a state predicate (ENABLED is slow in TLC);
\* InvBusyDef is checked on the bounded model
Busy ==
    \/ caller.pc = "stop0"
    \/ caller.pc = "stopping" /\ loop.pc = "done"
    \/ \E k \in 1..Len(deliv) :
          \/ deliv[k].sess \in ctxd
          \/ /\ loop.pc = "select" /\ (OrderedDelivery => k = 1)
             /\ (deliv[k].sess = caller.sess \/ (LateDelivery /\ deliv[k].sess \in ctxd))
    \/ \E k \in 1..Len(fwd) :
          \/ runs[fwd[k].run].cancelled
          \/ fwd[k].run \in Active /\ req.st = "none" /\ (OrderedForward => FirstFor(k))
    \/ loop.pc = "init"
    \/ loop.pc = "select" /\ (req.st = "sending" \/ caller.sess \in ctxd)
    \/ \E i \in RunIdx :
          \/ runs[i].st = "spawned"
          \/ runs[i].st = "returned" /\ loop.pc \in {"select", "waitErr"}
          \/ runs[i].st = "active" /\ req.st = "none" /\ runs[i].cancelled
    \/ req.st = "atparent" /\ (caller.sess \in ctxd \/ (caller.pc = "idle" /\ ~caller.hold))
    \/ req.st = "sending" /\ caller.sess \in ctxd
    \/ req.st = "answered"
InvBusyDef == Busy <=> ENABLED Internal
Quiet == ~Busy
GStart == Quiet /\ Start
GStop == Quiet /\ StopCall
GReload == Quiet /\ Reload
GHold == Quiet /\ Hold
GRelease == Quiet /\ Release
GIssue(kind) == Quiet /\ Issue(kind)
GError == Quiet /\ \E i \in RunIdx : InstError(i)
GTimer == Quiet /\ LoopTimer
SettledNext == Internal \/ GStart \/ GStop \/ GReload \/ GHold \/ GRelease \/ GError \/ GTimer
               \/ \E kind \in {"ready", "notready"} : GIssue(kind)
SettledSpec == Init /\ [][SettledNext]_vars

\* ------------------------------------------------------------------ layer 2: the statement
\* S1
InvOneRun == Cardinality(InProgress) <= 1
\* S2: Stop has returned (or Start was never called): nothing runs, the loop is gone, nothing is at the parent
StoppedNow == caller.pc = "idle" /\ ~caller.running
InvStopped == StoppedNow =>
    /\ \A i \in RunIdx : runs[i].st = "gone"
    /\ loop.pc \in {"none", "done"}
    /\ req.st = "none"
\* S2: a Run's context is cancelled only because of Stop or because the Run has ended
InvNoSpuriousCancel ==
    \A i \in RunIdx : (runs[i].cancelled /\ runs[i].st \in {"spawned", "active"}) => runs[i].sess \in ctxd
\* S2/S4: nothing is shown to the parent outside Start .. StopRet
PropForwardOnlyStarted == [][ev'.e = "PCall" => (caller.running \/ caller.pc # "idle")]_vars
\* S5: success iff the parent accepted; unanswered-by-the-parent only when stopped
InvAnswers == req.st = "answered" =>
    /\ req.ok => req.called
    /\ ~req.called => caller.sess \in ctxd
\* S3 / S6 / S7 (liveness, checked on the bounded model under fairness)
PropStopReturns == (caller.pc = "stop0") ~> (caller.pc = "idle")
PropRunStarts == [](caller.running => <>(InProgress # {} \/ ~caller.running))
\* S8: nothing is invented
InvConfKnown ==
    /\ hconf <= handed
    /\ \A i \in RunIdx : runs[i].conf <= handed /\ runs[i].told <= handed
\* S8 at quiescence: no ReloadConf goroutine is left, nothing is on its way to the Run in progress
\* (the handler itself: while it is started, and whenever a Run is spawned)
InvConfHandler == (deliv = <<>> /\ caller.running /\ loop.pc # "init") => hconf = handed
Quiescent ==
    /\ deliv = <<>> /\ caller.pc = "idle" /\ caller.running
    /\ loop.pc = "select" /\ ~loop.recreating /\ req.st = "none"
    /\ \A i \in RunIdx : runs[i].st \in {"active", "gone"}
    /\ \A k \in 1..Len(fwd) : fwd[k].run \notin Active
InvConfRun == Quiescent => \A i \in Active : runs[i].told = handed
\* a Run that begins after things have settled is told the newest configuration
PropConfStart == [][(deliv = <<>> /\ caller.running /\ ev'.e = "RunBegin") => ev'.v = handed]_vars

TypeOK ==
    /\ caller.pc \in {"idle", "stop0", "stopping"} /\ caller.sess \in 0..MaxStarts
    /\ loop.pc \in {"none", "init", "select", "parent", "waitErr", "done"}
    /\ req.st \in {"none", "sending", "atparent", "answered"}
    /\ handed \in 0..MaxReloads /\ hconf \in 0..MaxReloads
=============================================================================
