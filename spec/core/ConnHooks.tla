----------------------------- MODULE ConnHooks -----------------------------
(* Second stage of C20: runOnConnect/runOnDisconnect per connection and runOnRead/runOnUnread
   per reader, over the lifecycles of protocol clients of ONE running mediamtx Core.

   Layer 1 (code-shaped) models what internal/servers/{rtsp,rtmp,srt,hls} do with the closures
   returned by hooks.OnConnect (internal/hooks/on_connect.go) and hooks.OnRead
   (internal/hooks/on_read.go):

     rtsp  conn.initialize -> OnConnect, conn.onClose -> closure;
           session.onPlay (state PrePlay) -> OnRead, session.onPause / session.onClose (state Play)
           -> closure; a session that ends closes its TCP connection; kick = close of the session
     rtmp  conn.run: OnConnect, deferred closure; runRead: OnRead after the path admitted the
           reader, deferred closure          (srt: the same shape)
     hls   session.initialize -> OnRead, session.close2 -> closure (kick, muxer destroyed);
           no connection hook (HTTP)
     path  a publisher that leaves / a removed configuration tears every reader of the path down
     core  a reload that changes a server-level parameter closes the RTSP, RTMP and SRT servers;
           Core.Close closes everything

   State-passing style (as spec/core/Path.tla): Apply(s, in) is a function, so the trace module
   folds it over a recorded run (conformance, DRIFT only). The statement's formulas (layer 2, at
   the bottom) only look at OBSERVED histories:
     h[i] = [in |-> [a, c], ev |-> << [h, v, id] >>, conns |-> set of ids, readers |-> set of ids]
   where an event is an external command started (v = "start") or closed (v = "stop"):
     h \in {"connect", "disconnect", "read", "unread"}, id = what $MTX_CONN_ID / $MTX_READER_ID
   identify, and conns / readers are the entities that exist after the step.                     *)
EXTENDS VerifCommon

CONSTANTS
    RtspClients, RtmpClients, SrtClients, HlsClients,   \* client names (strings), by protocol
    MaxGen,      \* connections a client may open in one behaviour
    MaxSteps,    \* bound on the length of behaviours
    KeepHist     \* FALSE: do not record the history (walk generation)

Clients == RtspClients \cup RtmpClients \cup SrtClients \cup HlsClients
Proto(c) == IF c \in RtspClients THEN "rtsp" ELSE IF c \in RtmpClients THEN "rtmp"
            ELSE IF c \in SrtClients THEN "srt" ELSE "hls"
HasConn(c) == Proto(c) # "hls"
Pub == "pub"      \* the publisher (an RTSP client: it has a connection, never a reader)

\* an entity (connection, reader) of the model is identified by its owner and the owner's
\* connection counter; the real ones by the identifier the hook's environment carries
E(h, v, o, g) == [h |-> h, v |-> v, id |-> <<o, g>>, o |-> o, g |-> g]
ConnOpen(o, g)  == << E("connect", "start", o, g) >>
ConnClose(o, g) == << E("connect", "stop", o, g), E("disconnect", "start", o, g) >>   \* on_connect.go: returned closure
ReadOpen(o, g)  == << E("read", "start", o, g) >>
ReadClose(o, g) == << E("read", "stop", o, g), E("unread", "start", o, g) >>          \* on_read.go: returned closure


\* ------------------------------------------------------------------ layer 1: state
\*   up    the Core is running           conf  the path's configuration entry exists
\*   pub   the publisher is attached     pubg  connections opened by the publisher so far
\*   cl    client -> "idle" | "conn" (rtsp: connected, no session playing)
\*                   | "read" | "paused" (rtsp: session in PrePlay after PAUSE, still a reader)
\*   gen   client -> connections opened so far
InitState == [up |-> TRUE, conf |-> TRUE, pub |-> FALSE, pubg |-> 0,
              cl |-> [c \in Clients |-> "idle"], gen |-> [c \in Clients |-> 0]]

Avail(s) == s.up /\ s.conf /\ s.pub
IsReader(s, c) == s.cl[c] \in {"read", "paused"}

\* what the server does when client c's reader is torn down by the path or kicked
TearEv(s, c) == (IF s.cl[c] = "read" THEN ReadClose(c, s.gen[c]) ELSE <<>>)
                \o (IF HasConn(c) THEN ConnClose(c, s.gen[c]) ELSE <<>>)
\* ... when the client's connection ends for any reason
DropEv(s, c) == IF s.cl[c] = "idle" THEN <<>> ELSE TearEv(s, c)
PubDropEv(s) == IF s.pub THEN ConnClose(Pub, s.pubg) ELSE <<>>

RECURSIVE TearSeq(_, _), DropSeq(_, _)
TearSeq(s, S) == IF S = {} THEN <<>> ELSE LET c == CHOOSE x \in S : TRUE IN TearEv(s, c) \o TearSeq(s, S \ {c})
DropSeq(s, S) == IF S = {} THEN <<>> ELSE LET c == CHOOSE x \in S : TRUE IN DropEv(s, c) \o DropSeq(s, S \ {c})

TearAll(s) == LET R == {c \in Clients : IsReader(s, c)} IN
    [s |-> [s EXCEPT !.cl = [c \in Clients |-> IF c \in R THEN "idle" ELSE @[c]]],
     ev |-> TearSeq(s, R)]
DropAll(s) ==
    [s |-> [s EXCEPT !.cl = [c \in Clients |-> "idle"], !.pub = FALSE],
     ev |-> PubDropEv(s) \o DropSeq(s, Clients)]

Enabled(s, in) ==
    LET a == in.a  c == in.c IN
    s.up /\
    CASE a = "PubStart"     -> ~s.pub /\ s.conf /\ s.pubg < MaxGen
      [] a = "PubStartFail" -> ~s.pub /\ ~s.conf /\ s.pubg < MaxGen
      [] a = "PubStop"      -> s.pub
      [] a = "Connect"      -> Proto(c) = "rtsp" /\ s.cl[c] = "idle" /\ s.gen[c] < MaxGen
      [] a = "Read"         -> Avail(s) /\ (IF Proto(c) = "rtsp" THEN s.cl[c] = "conn"
                                            ELSE s.cl[c] = "idle" /\ s.gen[c] < MaxGen)
      [] a = "ReadFail"     -> ~Avail(s) /\ (IF Proto(c) = "rtsp" THEN s.cl[c] = "conn"
                                             ELSE s.cl[c] = "idle" /\ s.gen[c] < MaxGen)
      [] a = "Pause"        -> Proto(c) = "rtsp" /\ s.cl[c] = "read"
      [] a = "Play"         -> Proto(c) = "rtsp" /\ s.cl[c] = "paused"
      [] a = "Stop"         -> HasConn(c) /\ s.cl[c] # "idle"      \* the client closes (hls: no such thing)
      [] a = "Kick"         -> IsReader(s, c)
      [] a = "DelConf"      -> s.conf
      [] a = "AddConf"      -> ~s.conf
      [] a = "Restart"      -> TRUE
      [] a = "Shutdown"     -> TRUE
      [] OTHER              -> FALSE

\* one input; result [s, ev]
Apply(s, in) ==
    LET a == in.a  c == in.c IN
    CASE a = "PubStart" ->
            [s |-> [s EXCEPT !.pub = TRUE, !.pubg = @ + 1], ev |-> ConnOpen(Pub, s.pubg + 1)]
      [] a = "PubStartFail" ->     \* ANNOUNCE refused (no configuration for the name), the client leaves
            [s |-> [s EXCEPT !.pubg = @ + 1], ev |-> ConnOpen(Pub, s.pubg + 1) \o ConnClose(Pub, s.pubg + 1)]
      [] a = "PubStop" ->
            LET t == TearAll(s) IN [s |-> [t.s EXCEPT !.pub = FALSE], ev |-> PubDropEv(s) \o t.ev]
      [] a = "Connect" ->
            [s |-> [s EXCEPT !.cl[c] = "conn", !.gen[c] = @ + 1], ev |-> ConnOpen(c, s.gen[c] + 1)]
      [] a = "Read" ->
            IF Proto(c) = "rtsp" THEN [s |-> [s EXCEPT !.cl[c] = "read"], ev |-> ReadOpen(c, s.gen[c])]
            ELSE [s |-> [s EXCEPT !.cl[c] = "read", !.gen[c] = @ + 1],
                  ev |-> (IF HasConn(c) THEN ConnOpen(c, s.gen[c] + 1) ELSE <<>>) \o ReadOpen(c, s.gen[c] + 1)]
      [] a = "ReadFail" ->         \* no stream: the request is refused and the server closes the connection
            IF Proto(c) \in {"rtmp", "srt"}
            THEN [s |-> [s EXCEPT !.gen[c] = @ + 1], ev |-> ConnOpen(c, s.gen[c] + 1) \o ConnClose(c, s.gen[c] + 1)]
            ELSE IF Proto(c) = "hls" THEN [s |-> [s EXCEPT !.gen[c] = @ + 1], ev |-> <<>>]
            ELSE [s |-> [s EXCEPT !.cl[c] = "idle"], ev |-> ConnClose(c, s.gen[c])]   \* DESCRIBE answered 404/400
      [] a = "Pause" -> [s |-> [s EXCEPT !.cl[c] = "paused"], ev |-> ReadClose(c, s.gen[c])]
      [] a = "Play"  -> [s |-> [s EXCEPT !.cl[c] = "read"], ev |-> ReadOpen(c, s.gen[c])]
      [] a = "Stop"  -> [s |-> [s EXCEPT !.cl[c] = "idle"], ev |-> DropEv(s, c)]
      [] a = "Kick"  -> [s |-> [s EXCEPT !.cl[c] = "idle"], ev |-> TearEv(s, c)]
      [] a = "DelConf" ->
            LET t == TearAll(s) IN [s |-> [t.s EXCEPT !.pub = FALSE, !.conf = FALSE], ev |-> PubDropEv(s) \o t.ev]
      [] a = "AddConf" -> [s |-> [s EXCEPT !.conf = TRUE], ev |-> <<>>]
      [] a = "Restart" -> DropAll(s)
      [] a = "Shutdown" -> LET t == DropAll(s) IN [s |-> [t.s EXCEPT !.up = FALSE], ev |-> t.ev]

LiveConns(s) == {<<c, s.gen[c]>> : c \in {x \in Clients : HasConn(x) /\ s.cl[x] # "idle"}}
                \cup (IF s.pub THEN {<<Pub, s.pubg>>} ELSE {})
LiveReaders(s) == {<<c, s.gen[c]>> : c \in {x \in Clients : IsReader(s, x)}}

\* ------------------------------------------------------------------ the bounded model
VARIABLES st, steps, hist
vars == <<st, steps, hist>>

In(a, c) == [a |-> a, c |-> c]

Do(in) == /\ steps < MaxSteps
          /\ Enabled(st, in)
          /\ LET r == Apply(st, in) IN
               /\ st' = r.s
               /\ hist' = IF KeepHist
                          THEN Append(hist, [in |-> in, ev |-> r.ev, conns |-> LiveConns(r.s), readers |-> LiveReaders(r.s)])
                          ELSE hist
          /\ steps' = IF KeepHist THEN steps + 1 ELSE steps

PubStart     == Do(In("PubStart", Pub))
PubStartFail == Do(In("PubStartFail", Pub))
PubStop      == Do(In("PubStop", Pub))
Connect(c)   == Do(In("Connect", c))
Read(c)      == Do(In("Read", c))
ReadFail(c)  == Do(In("ReadFail", c))
Pause(c)     == Do(In("Pause", c))
Play(c)      == Do(In("Play", c))
Stop(c)      == Do(In("Stop", c))
Kick(c)      == Do(In("Kick", c))
DelConf      == Do(In("DelConf", "core"))
AddConf      == Do(In("AddConf", "core"))
Restart      == Do(In("Restart", "core"))
Shutdown     == Do(In("Shutdown", "core"))

Init == st = InitState /\ steps = 0 /\ hist = <<>>
Next == \/ PubStart \/ PubStartFail \/ PubStop \/ DelConf \/ AddConf \/ Restart \/ Shutdown
        \/ \E c \in Clients : Connect(c) \/ Read(c) \/ ReadFail(c) \/ Pause(c) \/ Play(c) \/ Stop(c) \/ Kick(c)
Spec == Init /\ [][Next]_vars

\* walk generation: connection counters do not influence what can happen next (MaxGen is large there)
GenView == [up |-> st.up, conf |-> st.conf, pub |-> st.pub, cl |-> st.cl]

\* design invariants of layer 1
TypeOK == /\ \A c \in Clients : st.cl[c] \in {"idle", "conn", "read", "paused"}
          /\ \A c \in Clients : st.cl[c] \in {"conn", "paused"} => Proto(c) = "rtsp"
          /\ \A c \in Clients : IsReader(st, c) => Avail(st)       \* readers only while the stream exists
          /\ ~st.up => (~st.pub /\ \A c \in Clients : st.cl[c] = "idle")

\* =================================================================== layer 2: the statement
\* "runOnRead/runOnUnread executions per reader and runOnConnect/runOnDisconnect executions per
\*  connection strictly alternate, each pair opened by the start hook, and any open pair is closed
\*  when the reader / connection (/ path / server) closes."
AllEv(h) == Flatten([i \in 1..Len(h) |-> h[i].ev])
Families == { [start |-> "connect", stop |-> "disconnect", live |-> "conns"],
              [start |-> "read",    stop |-> "unread",     live |-> "readers"] }
LiveOf(step, F) == IF F.live = "conns" THEN step.conns ELSE step.readers
OfFamily(es, F) == SelectSeq(es, LAMBDA e : e.h \in {F.start, F.stop})
IdsOf(es, F) == {e.id : e \in Range(OfFamily(es, F))}
\* executions of the two hooks for entity x, in order
Launches(es, F, x) == SelectSeq(es, LAMBDA e : e.v = "start" /\ e.h \in {F.start, F.stop} /\ e.id = x)
IsOpen(es, F, x) == Len(Launches(es, F, x)) % 2 = 1

\* strict alternation per entity, beginning with the start hook (hence: no stop hook without start hook)
C20C_Alternate(h, F) ==
    LET all == AllEv(h) IN
    \A x \in IdsOf(all, F) :
        LET es == Launches(all, F, x) IN
        \A k \in 1..Len(es) : es[k].h = (IF k % 2 = 1 THEN F.start ELSE F.stop)

\* the long-running start command is closed exactly when its stop command is launched
\* (same phrasing as C20_StartCmdClosed of Path.tla)
C20C_StartCmdClosed(h, F) ==
    LET all == AllEv(h) IN
    \A x \in IdsOf(all, F) :
        LET es == SelectSeq(all, LAMBDA e : e.id = x /\ ((e.h = F.start) \/ (e.h = F.stop /\ e.v = "start"))) IN
        \A k \in 1..Len(es) :
            CASE k % 3 = 1 -> es[k].h = F.start /\ es[k].v = "start"
              [] k % 3 = 2 -> es[k].h = F.start /\ es[k].v = "stop"
              [] OTHER     -> es[k].h = F.stop

\* an open pair belongs to an entity that still exists: once the reader / connection is gone
\* (after a step, at quiescence) its pair is closed
C20C_ClosedWhenGone(h, F) ==
    \A i \in 1..Len(h) :
        LET es == AllEv(SubSeq(h, 1, i)) IN
        \A x \in IdsOf(es, F) : IsOpen(es, F, x) => x \in LiveOf(h[i], F)

\* after the server was shut down no pair is open
C20C_ClosedAtEnd(h, F) ==
    \A i \in 1..Len(h) :
        (h[i].in.a = "Shutdown") =>
            LET es == AllEv(SubSeq(h, 1, i)) IN \A x \in IdsOf(es, F) : ~IsOpen(es, F, x)

MonC20C == \A F \in Families : /\ C20C_Alternate(hist, F) /\ C20C_StartCmdClosed(hist, F)
                               /\ C20C_ClosedWhenGone(hist, F) /\ C20C_ClosedAtEnd(hist, F)
=============================================================================
