------------------------------ MODULE TracePath ------------------------------
(* Trace validation for the path event loop (C16, C18, C19, C20).
   One ndjson record per run of the REAL pathManager+path (harness: internal/core
   zz_verif_path_test.go): steps = << [in, ev, obs, fired, hang] >>.
   - Verdicts: the statement's monitors of Path.tla evaluated on the OBSERVED (in, ev) history
     and on the observed end-of-step state (API view, held requests, armed timers).
   - Conformance (DRIFT only): the same inputs folded through layer 1 (ApplyIn).            *)
EXTENDS Path

Trace == ndJsonDeserialize("Path_trace.ndjson")

VARIABLE l
TraceInit == l = 0 /\ Init
TraceNext == l < Len(Trace) /\ l' = l + 1 /\ UNCHANGED vars
TraceSpec == TraceInit /\ [][TraceNext]_<<l, vars>>

H(r) == [i \in 1..Len(r.steps) |-> [in |-> r.steps[i].in, ev |-> r.steps[i].ev]]

MonitorNames == {
    "C16_AtMostOneSource", "C16_RejectedUnlessOverride", "C16_ClosedBeforeAttach", "C16_SourceIsHolder", "C16_NoStaleData",
    "C16_CutOffWhenRemovalReturns",
    "C18_ReaderLimit", "C18_ReaderLimitAPI", "C18_NoDoubleCount", "C18_TeardownOnUnavailable", "C18_NoReadersWithoutStream",
    "C18_ReadersOnCurrentStream",
    "C19_AtMostOneResponse", "C19_NoSpuriousResponse", "C19_AnsweredWhenWaitEnds", "C19_AnsweredWhenReady",
    "C19_StreamOnlyWhileAvailable", "C19_DemandAlternates", "C19_StartedOnDemand", "C19_NoDeadWait", "C19_NoHang",
    "C19_StopScheduledWhenIdle",
    "C20_Alternate", "C20_StartCmdClosed", "C20_ClosedAtEnd" }

StaticStartEv == E("static", "", "start", 0)
StaticStopEv  == E("static", "", "stop", 0)
DemandStartEv == E("cmd", "demand", "start", 0)
DemandStopEv  == E("cmd", "demand", "stop", 0)

\* readers the path has closed (kicked) up to step i whose own, late RemoveReader has not arrived yet
KickedOutstanding(r, i) ==
    {c \in Readers : \E k \in 1..i :
        /\ \E j \in 1..Len(r.steps[k].ev) : r.steps[k].ev[j].t = "close" /\ r.steps[k].ev[j].c = c
        /\ \A m \in (k + 1)..i : ~(r.steps[m].in.c = c /\ r.steps[m].in.a \in {"RemoveReader", "AddReader"})}
\* the on-demand source / command is running after step i (more starts than stops so far)
RunningAfter(r, i, startEv, stopEv) ==
    LET es == SelectSeq(AllEv(SubSeq(H(r), 1, i)),
                        LAMBDA e : (e.t = startEv.t /\ e.c = startEv.c /\ e.v = startEv.v)
                                \/ (e.t = stopEv.t /\ e.c = stopEv.c /\ e.v = stopEv.v))
    IN Len(es) % 2 = 1
IdleStopScheduled(r, startEv, stopEv) ==
    \A i \in 1..Len(r.steps) :
        LET o == r.steps[i].obs IN
        (o.alive /\ RunningAfter(r, i, startEv, stopEv) /\ o.readers = <<>> /\ o.held = 0 /\ KickedOutstanding(r, i) = {})
            => (o.closeArmed \/ o.readyArmed)

\* stream number in the last successful answer given to `who` up to step i (0 = none)
LastS(r, i, who) ==
    LET es == SelectSeq(AllEv(SubSeq(H(r), 1, i)), LAMBDA e : e.t = "resp" /\ e.c = who /\ e.v \in {"stream", "ok"})
    IN IF es = <<>> THEN 0 ELSE es[Len(es)].s
\* stream number of the stream the current source feeds: the last successful attach of a publisher or static source
SourceS(r, i) ==
    LET es == SelectSeq(AllEv(SubSeq(H(r), 1, i)),
                        LAMBDA e : e.t = "resp" /\ ((e.c \in Pubs /\ e.v = "stream") \/ (e.c = "static" /\ e.v = "ok")))
    IN IF es = <<>> THEN 0 ELSE es[Len(es)].s

Mon(name, r) ==
    LET h == H(r) IN
    CASE name = "C16_AtMostOneSource"        -> C16_AtMostOneSource(h)
      [] name = "C16_RejectedUnlessOverride" -> C16_RejectedUnlessOverride(h, Override)
      [] name = "C16_ClosedBeforeAttach"     -> C16_ClosedBeforeAttach(h)
      [] name = "C16_NoStaleData"            -> C16_NoStaleData(h)
      \* the API never shows as source a publisher that does not hold the path
      [] name = "C16_SourceIsHolder" ->
            \A i \in 1..Len(h) : (r.steps[i].obs.alive /\ r.steps[i].obs.source \in Pubs)
                                    => r.steps[i].obs.source \in HoldersUpTo(h, i)
      \* once RemovePublisher has returned to the publisher (event "returned"), a unit it writes reaches no reader
      \* that was attached to the path (readers the path had closed before are still draining and do not count)
      [] name = "C16_CutOffWhenRemovalReturns" ->
            \A i \in 1..Len(h) : h[i].in.a = "RemovePublisher" =>
                \A k, m \in 1..Len(h[i].ev) :
                    ~(k < m /\ h[i].ev[k].t = "returned" /\ h[i].ev[m].t = "data" /\ h[i].ev[m].v = h[i].in.c
                      /\ h[i].ev[m].c \in AttachedUpTo(h, i - 1))
      [] name = "C18_ReaderLimit"            -> C18_ReaderLimit(h, MaxReaders)
      [] name = "C18_ReaderLimitAPI" ->
            MaxReaders # 0 => \A i \in 1..Len(h) : Len(r.steps[i].obs.readers) <= MaxReaders
      [] name = "C18_NoDoubleCount"          -> C18_NoDoubleCount(h)
      [] name = "C18_TeardownOnUnavailable"  -> C18_TeardownOnUnavailable(h)
      [] name = "C18_NoReadersWithoutStream" ->
            \A i \in 1..Len(h) : (r.steps[i].obs.alive /\ ~r.steps[i].obs.ready) => r.steps[i].obs.readers = <<>>
      \* "when the stream goes away every reader is detached and closed": whoever the path still lists as a reader
      \* was attached to the stream the current source feeds, not to one that has been replaced
      [] name = "C18_ReadersOnCurrentStream" ->
            \A i \in 1..Len(h) : (r.steps[i].obs.alive /\ r.steps[i].obs.ready /\ SourceS(r, i) # 0) =>
                \A x \in 1..Len(r.steps[i].obs.readers) : LastS(r, i, r.steps[i].obs.readers[x]) = SourceS(r, i)
      [] name = "C19_AtMostOneResponse"      -> C19_AtMostOneResponse(h)
      [] name = "C19_NoSpuriousResponse"     -> C19_NoSpuriousResponse(h)
      [] name = "C19_AnsweredWhenWaitEnds"   -> C19_AnsweredWhenWaitEnds(h)
      [] name = "C19_AnsweredWhenReady"      -> C19_AnsweredWhenReady(h)
      [] name = "C19_StreamOnlyWhileAvailable" -> C19_StreamOnlyWhileAvailable(h)
      [] name = "C19_DemandAlternates" ->
            /\ OnDemandStatic => C19_DemandAlternates(h, StaticStartEv, StaticStopEv)
            /\ OnDemandPub => C19_DemandAlternates(h, DemandStartEv, DemandStopEv)
      [] name = "C19_StartedOnDemand" ->
            /\ OnDemandStatic => C19_StartedOnDemand(h, StaticStartEv, StaticStopEv)
            /\ OnDemandPub => C19_StartedOnDemand(h, DemandStartEv, DemandStopEv)
      \* a held request can still be answered: the start timeout is running
      [] name = "C19_NoDeadWait" ->
            \A i \in 1..Len(h) : (r.steps[i].obs.alive /\ r.steps[i].obs.held > 0) => r.steps[i].obs.readyArmed
      \* "stop after the close delay once no reader remains": while the on-demand source / command is running and
      \* nobody needs it (no reader attached, no request held, no kicked reader whose own RemoveReader is still
      \* to come), a timer that will stop it is armed
      [] name = "C19_StopScheduledWhenIdle" ->
            /\ OnDemandStatic => IdleStopScheduled(r, StaticStartEv, StaticStopEv)
            /\ OnDemandPub => IdleStopScheduled(r, DemandStartEv, DemandStopEv)
      [] name = "C19_NoHang" -> ~r.closeHang /\ \A i \in 1..Len(h) : ~r.steps[i].hang
      [] name = "C20_Alternate"      -> \A f \in Families : C20_Alternate(h, f[1], f[2])
      [] name = "C20_StartCmdClosed" -> \A f \in Families : C20_StartCmdClosed(h, f[1], f[2])
      [] name = "C20_ClosedAtEnd"    -> \A f \in Families : C20_ClosedAtEnd(h, f[1], f[2])

\* diagnosis attached to a failing monitor (used to tell known findings from new ones)
\* informational: at the first dead wait the close timer is armed or a kicked reader's RemoveReader is still to come
Transient(r, i) == r.steps[i].obs.closeArmed \/ KickedOutstanding(r, i) # {}
Detail(name, r) ==
    IF name = "C19_NoDeadWait"
    THEN LET bad == {i \in 1..Len(r.steps) : r.steps[i].obs.alive /\ r.steps[i].obs.held > 0 /\ ~r.steps[i].obs.readyArmed}
             i == CHOOSE x \in bad : \A y \in bad : x <= y
         IN [step |-> i, od |-> r.steps[i].obs.od, streamAvailable |-> r.steps[i].obs.ready, transient |-> Transient(r, i)]
    ELSE [step |-> 0, od |-> "", streamAvailable |-> FALSE, transient |-> FALSE]

RunVerdict(r, ln) ==
    \A name \in MonitorNames :
        Mon(name, r) \/ Emit("BAD", [l |-> ln, run |-> r.run, monitor |-> name, detail |-> Detail(name, r)])

\* ---------------------------------------------------------------- conformance with layer 1
\* Responses are logged by the requesters' goroutines and readers are closed in map order, so
\* conformance compares the path goroutine's own events in order, and responses / reader
\* closes as sets.
IsReaderClose(e) == e.t = "close" /\ e.c \in Readers
NoRC(ev) == SelectSeq(ev, LAMBDA e : ~IsReaderClose(e) /\ e.t \notin {"resp", "data", "returned"})
\* (deliveries of the probe write that follows a "returned" marker are judged by C16_CutOffWhenRemovalReturns,
\*  layer 1 has no such write: they are left out of the comparison)
Resps(ev) == LET probe == \E j \in 1..Len(ev) : ev[j].t = "returned"
             IN {ev[k] : k \in {j \in 1..Len(ev) : ev[j].t = "resp" \/ (ev[j].t = "data" /\ ~probe)}}
RC(ev) == {ev[k].c : k \in {j \in 1..Len(ev) : IsReaderClose(ev[j])}}

RECURSIVE ConformsFrom(_, _, _, _, _)
ConformsFrom(r, k, s, ns, gone) ==
    IF k > Len(r.steps) THEN 0
    ELSE LET in == r.steps[k].in
             a == ApplyIn(s, ns, gone, in)
             o == r.steps[k]
             same == /\ NoRC(a.st.ev) = NoRC(o.ev)
                     /\ RC(a.st.ev) = RC(o.ev)
                     /\ Resps(a.st.ev) = Resps(o.ev)
                     /\ a.st.alive = o.obs.alive
                     /\ a.st.alive => /\ (a.st.stream # 0) = o.obs.ready
                                      /\ Len(a.st.dHold) + Len(a.st.rHold) = o.obs.held
                                      /\ a.st.readyT = o.obs.readyArmed
                                      /\ a.st.closeT = o.obs.closeArmed
                                      /\ {o.obs.readers[x] : x \in 1..Len(o.obs.readers)} = a.st.readers
         IN IF same THEN ConformsFrom(r, k + 1, a.st, a.ns, gone \/ in.a = "Terminate") ELSE k

\* 0 = conforms; otherwise the first step that is not a step of layer 1
\* step 1 of a run is the pseudo-step "Init" carrying the events of the path's creation
FirstDrift(r) ==
    LET s0 == IF Regex THEN Dead ELSE StartPath(0) IN
    IF NoRC(s0.ev) # NoRC(r.steps[1].ev) THEN 1
    ELSE ConformsFrom(r, 2, s0, IF AlwaysAvail /\ ~Regex THEN 1 ELSE 0, FALSE)

Verdicts == l >= 1 => RunVerdict(Trace[l], l)
Drift == l >= 1 => (LET d == FirstDrift(Trace[l]) IN d = 0 \/ Emit("DRIFT", [l |-> l, run |-> Trace[l].run, step |-> d]))
Accepted == TLCGet("stats").diameter - 1 = Len(Trace)
=============================================================================
