--------------------------- MODULE TraceConnHooks ---------------------------
(* Trace validation for the second stage of C20 (per-connection and per-reader hook pairs).
   One ndjson record per run of a REAL Core with real protocol clients (harness: internal/core
   zz_verif_c20conn_test.go): steps = << [in, ev, conns, readers, skipped, note] >>.
   - Verdicts: the statement's monitors of ConnHooks.tla evaluated on the OBSERVED history
     (hook commands started / closed in the caller's order, entities listed by the API after
     every step). A failing monitor is reported with the first step at which it fails and the
     entities that break it.
   - Conformance (DRIFT only): the same inputs folded through layer 1 (Apply); events are compared
     per step as sets (commands of different entities are launched by different goroutines).   *)
EXTENDS ConnHooks

Trace == ndJsonDeserialize("C20C_trace.ndjson")

VARIABLE l
TraceInit == l = 0 /\ Init
TraceNext == l < Len(Trace) /\ l' = l + 1 /\ UNCHANGED vars
TraceSpec == TraceInit /\ [][TraceNext]_<<l, vars>>

H(r) == [i \in 1..Len(r.steps) |->
            [in |-> r.steps[i].in, ev |-> r.steps[i].ev,
             conns |-> Range(r.steps[i].conns), readers |-> Range(r.steps[i].readers)]]

MonitorNames == {"C20C_Alternate", "C20C_StartCmdClosed", "C20C_ClosedWhenGone", "C20C_ClosedAtEnd"}

Mon(name, h, F) ==
    CASE name = "C20C_Alternate"      -> C20C_Alternate(h, F)
      [] name = "C20C_StartCmdClosed" -> C20C_StartCmdClosed(h, F)
      [] name = "C20C_ClosedWhenGone" -> C20C_ClosedWhenGone(h, F)
      [] name = "C20C_ClosedAtEnd"    -> C20C_ClosedAtEnd(h, F)

\* the monitors are safety properties of the history: the first failing prefix is well defined
FirstBad(name, h, F) ==
    LET bad == {i \in 1..Len(h) : ~Mon(name, SubSeq(h, 1, i), F)}
    IN CHOOSE i \in bad : \A j \in bad : i <= j

\* the entities that break the monitor in the prefix ending at step i (diagnosis only)
Only(h, F, x) == [k \in 1..Len(h) |-> [h[k] EXCEPT !.ev = SelectSeq(@, LAMBDA e : e.id = x)]]
BadIds(name, h, F, i) ==
    LET p == SubSeq(h, 1, i) IN {x \in IdsOf(AllEv(p), F) : ~Mon(name, Only(p, F, x), F)}

RunVerdict(r, ln) ==
    LET h == H(r) IN
    \A name \in MonitorNames : \A F \in Families :
        Mon(name, h, F)
        \/ LET i == FirstBad(name, h, F) IN
           Emit("BAD", [l |-> ln, run |-> r.run, monitor |-> name, family |-> F.start, step |-> i,
                        ids |-> BadIds(name, h, F, i)])

\* ---------------------------------------------------------------- conformance with layer 1
Quad(ev) == {<<ev[k].h, ev[k].v, ev[k].o, ev[k].g>> : k \in 1..Len(ev)}

RECURSIVE ConformsFrom(_, _, _)
ConformsFrom(r, k, s) ==
    IF k > Len(r.steps) THEN 0
    ELSE LET o == r.steps[k] IN
         IF o.skipped \/ ~Enabled(s, o.in) THEN k
         ELSE LET a == Apply(s, o.in)
                  same == /\ Quad(a.ev) = Quad(o.ev)
                          /\ Len(a.ev) = Len(o.ev)
                          /\ Cardinality(LiveConns(a.s)) = Len(o.conns)
                          /\ Cardinality(LiveReaders(a.s)) = Len(o.readers)
              IN IF same THEN ConformsFrom(r, k + 1, a.s) ELSE k

FirstDrift(r) == ConformsFrom(r, 1, InitState)

Verdicts == l >= 1 => RunVerdict(Trace[l], l)
Drift == l >= 1 => (LET d == FirstDrift(Trace[l]) IN d = 0 \/ Emit("DRIFT", [l |-> l, run |-> Trace[l].run, step |-> d]))
Accepted == TLCGet("stats").diameter - 1 = Len(Trace)
=============================================================================
