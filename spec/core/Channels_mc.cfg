SPECIFICATION Spec
CONSTANTS
  Paths = {"p"}
  Reqs = {"r1", "r2", "r3"}
  ReqKind <- ReqKindDef
  WithReload = TRUE
  WithShutdown = TRUE
  EscapePathCtx = TRUE
  EscapePMCtx = TRUE
  CountPending = TRUE
INVARIANT TypeOK
PROPERTY Completes
