\* stand-alone model check of ConnHooks.tla (lib/connhooks.py writes its own cfg files at run time)
SPECIFICATION Spec
CONSTANTS
  RtspClients = {"c1"}
  RtmpClients = {"c2"}
  SrtClients = {"c3"}
  HlsClients = {"c4"}
  MaxGen = 2
  MaxSteps = 5
  KeepHist = TRUE
INVARIANTS TypeOK MonC20C
CHECK_DEADLOCK FALSE
