---------------------------- MODULE TraceChannels ----------------------------
\* Trace validation for C40: records of the stress driver on the real pathManager
\* (harness internal/core/zz_verif_c40_test.go): ops = << [id, kind, start, end, res] >> with
\* end = 0 for an operation that did not finish within the watchdog period, and the shutdown.
\* The statement: every operation (including shutdown) completes.
EXTENDS ChannelsMC

Trace == ndJsonDeserialize("C40_trace.ndjson")

VARIABLE l
TraceInit == l = 0 /\ Init
TraceNext == l < Len(Trace) /\ l' = l + 1 /\ UNCHANGED vars
TraceSpec == TraceInit /\ [][TraceNext]_<<l, vars>>

Unfinished(r) == {r.ops[i].kind : i \in {j \in 1..Len(r.ops) : r.ops[j].end = 0}}
\* an answer of a kind the protocol cannot give (conformance with the model's result classes)
Results == {"ok", "terminated", "err_terminated", "err_nostream", "err_busy", "err_max", "err_timeout", "err_noconf", "err_notpub", "err_other"}

Verdicts == l >= 1 =>
    LET r == Trace[l] IN
    /\ Monitor(Unfinished(r) = {}, [l |-> l, run |-> r.run, monitor |-> "EveryOperationCompletes", kinds |-> Unfinished(r)])
    /\ Monitor(r.shutdown.end # 0, [l |-> l, run |-> r.run, monitor |-> "ShutdownCompletes", kinds |-> {"shutdown"}])
Accepted == TLCGet("stats").diameter - 1 = Len(Trace)
=============================================================================
