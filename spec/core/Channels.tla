------------------------------ MODULE Channels ------------------------------
(* C40  Concurrent operation is deadlock-free (the channel protocol of the core)
   (internal/core/path_manager.go, internal/core/path.go)

   A process-level model of the goroutines that talk over unbuffered channels:
     PM          the path manager loop (pathManager.run)
     Path[p]     a path loop (path.run / runInner and the tail of run)
     Req[r]      a client operation: AddReader / AddPublisher / Describe (two hops: manager, then
                 path), APIGet (two hops), Remove (one hop to the path)
     Reload      pathManager.ReloadPathConfs with a configuration that closes the path
     Shutdown    pathManager.close(): cancel the context, wait for every loop
   Every blocking send is a rendezvous with a loop that sits in its select; every `select` of
   the code with its escape branches (`<-pm.ctx.Done()`, `<-pa.ctx.Done()`) is modelled with the
   same escapes. doClosePath = close(); wait() INSIDE the manager loop.
   Escapes can be switched off with constants to show that they are needed (mutants of the
   design): EscapePathCtx = FALSE removes the `<-pa.ctx.Done()` branch of setPathReady /
   setPathNotReady / closePathIfIdle / removePath.

   Properties: no deadlock (TLC's deadlock check; terminal states stutter), every started
   operation completes and shutdown terminates (liveness under weak fairness).            *)
EXTENDS VerifCommon

CONSTANTS Paths, Reqs, ReqKind,      \* ReqKind[r] \in {"add", "api", "remove"}
          WithReload, WithShutdown,
          EscapePathCtx, EscapePMCtx,
          CountPending,              \* the manager honours pendingRequests in closePathIfIdle
          WithHotReload,             \* a reload that changes only hot-reloadable fields of the path's configuration
          SyncHotReload              \* deviation: the manager hands the new configuration to the path loop ITSELF
                                     \* (pa.reloadConf(c) instead of go pa.reloadConf(c)); FALSE = the code

VARIABLES pm,        \* [pc: "select" | "closing" | "done", closing: path being waited for]
          pa,        \* p -> [pc: "none" | "select" | "toPM" | "tail" | "done", ctx: cancelled?, pending, idleAsk]
          rq,        \* r -> [pc: "new" | "toPM" | "toPath" | "done", path, res]
          rl,        \* reload: "new" | "sent" | "done" | "off"
          sd,        \* shutdown: "new" | "cancelled" | "done" | "off"
          pmCtx,     \* manager context cancelled
          hr         \* hot reload: "off" | "new" | "inflight" (goroutine go pa.reloadConf spawned) | "done"
vars == <<pm, pa, rq, rl, sd, pmCtx, hr>>

ThePath == CHOOSE p \in Paths : TRUE

Init == /\ pm = [pc |-> "select", closing |-> "none"]
        /\ pa = [p \in Paths |-> [pc |-> "none", ctx |-> FALSE, pending |-> 0, idleAsk |-> FALSE]]
        /\ rq = [r \in Reqs |-> [pc |-> "new", path |-> "none", res |-> "none"]]
        /\ rl = IF WithReload THEN "new" ELSE "off"
        /\ sd = IF WithShutdown THEN "new" ELSE "off"
        /\ pmCtx = FALSE
        /\ hr = IF WithHotReload THEN "new" ELSE "off"

PMReady == pm.pc = "select" /\ ~pmCtx      \* a select with a cancelled context may also take its Done branch; see PMExit
PathReady(p) == pa[p].pc = "select"

\* ---- client operations
Start(r) == /\ rq[r].pc = "new"
            /\ rq' = [rq EXCEPT ![r].pc = IF ReqKind[r] = "remove" THEN "toPath" ELSE "toPM",
                                ![r].path = IF ReqKind[r] = "remove" THEN ThePath ELSE "none"]
            /\ UNCHANGED <<pm, pa, rl, sd, pmCtx, hr>>

\* first hop: rendezvous with the manager loop; the manager creates the path if needed, counts the
\* pending request and answers (the client is waiting for the answer, so the answer is immediate)
HopPM(r) ==
    /\ rq[r].pc = "toPM" /\ pm.pc = "select"
    /\ LET p == ThePath IN
       /\ pa' = [pa EXCEPT ![p] = IF pa[p].pc \in {"none", "done"}
                                  THEN [pc |-> "select", ctx |-> pmCtx, pending |-> (IF ReqKind[r] = "add" THEN 1 ELSE 0), idleAsk |-> FALSE]
                                  ELSE [@ EXCEPT !.pending = @ + (IF ReqKind[r] = "add" THEN 1 ELSE 0)]]
       /\ rq' = [rq EXCEPT ![r].pc = "toPath", ![r].path = p]
    /\ UNCHANGED <<pm, rl, sd, pmCtx, hr>>
\* escape of the first hop: the manager context is cancelled
HopPMEscape(r) ==
    /\ rq[r].pc = "toPM" /\ pmCtx /\ EscapePMCtx
    /\ rq' = [rq EXCEPT ![r].pc = "done", ![r].res = "terminated"]
    /\ UNCHANGED <<pm, pa, rl, sd, pmCtx, hr>>

\* second hop: rendezvous with the path loop; the path answers at once. Afterwards the path may
\* have to tell the manager something (setPathReady / closePathIfIdle): it goes to "toPM".
HopPath(r, tell) ==
    /\ rq[r].pc = "toPath" /\ rq[r].path # "none" /\ PathReady(rq[r].path)
    /\ LET p == rq[r].path IN
       pa' = [pa EXCEPT ![p].pc = IF tell THEN "toPM" ELSE "select",
                        ![p].pending = IF ReqKind[r] = "add" /\ @ > 0 THEN @ - 1 ELSE @,
                        ![p].idleAsk = tell /\ ReqKind[r] # "add"]
    /\ rq' = [rq EXCEPT ![r].pc = "done", ![r].res = "ok"]
    /\ UNCHANGED <<pm, rl, sd, pmCtx, hr>>
\* escape of the second hop: the path context is cancelled (path is terminating or gone)
HopPathEscape(r) ==
    /\ rq[r].pc = "toPath" /\ rq[r].path # "none" /\ pa[rq[r].path].ctx
    /\ rq' = [rq EXCEPT ![r].pc = "done", ![r].res = "terminated"]
    /\ UNCHANGED <<pm, pa, rl, sd, pmCtx, hr>>

\* ---- the path tells the manager (setPathReady, setPathNotReady, closePathIfIdle)
PathToPM(p) ==
    /\ pa[p].pc = "toPM" /\ pm.pc = "select"
    /\ IF pa[p].idleAsk /\ (pa[p].pending = 0 \/ ~CountPending)
       THEN \* closePathIfIdle accepted: doClosePath = close(); wait()
            /\ pm' = [pc |-> "closing", closing |-> p]
            /\ pa' = [pa EXCEPT ![p].pc = "select", ![p].ctx = TRUE, ![p].idleAsk = FALSE]
       ELSE /\ pa' = [pa EXCEPT ![p].pc = "select", ![p].idleAsk = FALSE]
            /\ UNCHANGED pm
    /\ UNCHANGED <<rq, rl, sd, pmCtx, hr>>
PathToPMEscape(p) ==
    /\ pa[p].pc = "toPM"
    /\ \/ (pa[p].ctx /\ EscapePathCtx)
       \/ (pmCtx /\ EscapePMCtx)
    /\ pa' = [pa EXCEPT ![p].pc = "select", ![p].idleAsk = FALSE]
    /\ UNCHANGED <<pm, rq, rl, sd, pmCtx, hr>>

\* ---- path termination: the select sees ctx.Done; tail of run(): removePath (a send with escapes)
PathSeesDone(p) ==
    /\ pa[p].pc = "select" /\ pa[p].ctx
    /\ pa' = [pa EXCEPT ![p].pc = "tail"]
    /\ UNCHANGED <<pm, rq, rl, sd, pmCtx, hr>>
PathTailSend(p) ==     \* removePath delivered to the manager loop
    /\ pa[p].pc = "tail" /\ pm.pc = "select"
    /\ pa' = [pa EXCEPT ![p].pc = "done"]
    /\ UNCHANGED <<pm, rq, rl, sd, pmCtx, hr>>
PathTailEscape(p) ==   \* ... or the escape (the path context is cancelled by now)
    /\ pa[p].pc = "tail" /\ (EscapePathCtx \/ (pmCtx /\ EscapePMCtx))
    /\ pa' = [pa EXCEPT ![p].pc = "done"]
    /\ UNCHANGED <<pm, rq, rl, sd, pmCtx, hr>>

\* ---- the manager waits for a path it is closing
PMClosed ==
    /\ pm.pc = "closing" /\ pa[pm.closing].pc = "done"
    /\ pm' = [pc |-> "select", closing |-> "none"]
    /\ UNCHANGED <<pa, rq, rl, sd, pmCtx, hr>>

\* ---- reload that removes the path's configuration: doReloadConf closes the path
ReloadSend ==
    /\ rl = "new" /\ pm.pc = "select"
    /\ LET p == ThePath IN
       IF pa[p].pc \in {"none", "done"}
       THEN /\ UNCHANGED <<pm, pa>>
       ELSE /\ pm' = [pc |-> "closing", closing |-> p]
            /\ pa' = [pa EXCEPT ![p].ctx = TRUE]
    /\ rl' = "done"
    /\ UNCHANGED <<rq, sd, pmCtx, hr>>
ReloadEscape ==
    /\ rl = "new" /\ pmCtx /\ EscapePMCtx
    /\ rl' = "done"
    /\ UNCHANGED <<pm, pa, rq, sd, pmCtx, hr>>

\* ---- reload that changes only hot-reloadable fields: doReloadConf does `go pa.reloadConf(c)`, the goroutine
\* rendezvous with the path loop (or escapes on the path context). With SyncHotReload the manager loop makes that
\* send itself: while it waits for the path loop, the path loop may be waiting for the manager loop.
HotReloadSend ==
    /\ hr = "new" /\ pm.pc = "select"
    /\ LET p == ThePath IN
       IF pa[p].pc \in {"none", "done"}
       THEN hr' = "done" /\ UNCHANGED pm
       ELSE IF SyncHotReload THEN hr' = "inflight" /\ pm' = [pc |-> "reloading", closing |-> p]
            ELSE hr' = "inflight" /\ UNCHANGED pm
    /\ UNCHANGED <<pa, rq, rl, sd, pmCtx>>
HotReloadEscapePM ==
    /\ hr = "new" /\ pmCtx /\ EscapePMCtx
    /\ hr' = "done"
    /\ UNCHANGED <<pm, pa, rq, rl, sd, pmCtx>>
\* the delivery reaches the path loop in its select (or the path is going away: escape on pa.ctx)
HotDeliver ==
    /\ hr = "inflight"
    /\ LET p == ThePath IN PathReady(p) \/ pa[p].ctx \/ pa[p].pc \in {"none", "done"}
    /\ hr' = "done"
    /\ pm' = IF pm.pc = "reloading" THEN [pc |-> "select", closing |-> "none"] ELSE pm
    /\ UNCHANGED <<pa, rq, rl, sd, pmCtx>>

\* ---- shutdown
ShutdownCancel ==
    /\ sd = "new"
    /\ pmCtx' = TRUE
    /\ pa' = [p \in Paths |-> IF pa[p].pc \in {"none", "done"} THEN pa[p] ELSE [pa[p] EXCEPT !.ctx = TRUE]]
    /\ sd' = "cancelled"
    /\ UNCHANGED <<pm, rq, rl, hr>>
PMExit ==
    /\ pm.pc = "select" /\ pmCtx
    /\ pm' = [pc |-> "done", closing |-> "none"]
    /\ UNCHANGED <<pa, rq, rl, sd, pmCtx, hr>>
ShutdownDone ==
    /\ sd = "cancelled" /\ pm.pc = "done" /\ \A p \in Paths : pa[p].pc \in {"none", "done"}
    /\ sd' = "done"
    /\ UNCHANGED <<pm, pa, rq, rl, pmCtx, hr>>

AllDone == /\ \A r \in Reqs : rq[r].pc = "done"
           /\ rl \in {"done", "off"}
           /\ sd \in {"done", "off"}
           /\ hr \in {"done", "off"}
Terminated == AllDone /\ UNCHANGED vars

Next == \/ \E r \in Reqs : Start(r) \/ HopPM(r) \/ HopPMEscape(r) \/ HopPathEscape(r)
                            \/ HopPath(r, TRUE) \/ HopPath(r, FALSE)
        \/ \E p \in Paths : PathToPM(p) \/ PathToPMEscape(p) \/ PathSeesDone(p) \/ PathTailSend(p) \/ PathTailEscape(p)
        \/ PMClosed \/ ReloadSend \/ ReloadEscape \/ ShutdownCancel \/ PMExit \/ ShutdownDone
        \/ HotReloadSend \/ HotReloadEscapePM \/ HotDeliver
        \/ Terminated

Fairness == /\ \A r \in Reqs : WF_vars(Start(r)) /\ WF_vars(HopPM(r)) /\ WF_vars(HopPMEscape(r))
                               /\ WF_vars(HopPathEscape(r)) /\ WF_vars(HopPath(r, TRUE) \/ HopPath(r, FALSE))
            /\ \A p \in Paths : WF_vars(PathToPM(p)) /\ WF_vars(PathToPMEscape(p)) /\ WF_vars(PathSeesDone(p))
                                /\ WF_vars(PathTailSend(p) \/ PathTailEscape(p))
            /\ WF_vars(PMClosed) /\ WF_vars(ReloadSend) /\ WF_vars(ReloadEscape)
            /\ WF_vars(ShutdownCancel) /\ WF_vars(PMExit) /\ WF_vars(ShutdownDone)
            /\ WF_vars(HotReloadSend) /\ WF_vars(HotReloadEscapePM) /\ WF_vars(HotDeliver)
Spec == Init /\ [][Next]_vars /\ Fairness

\* every started operation completes, shutdown terminates
Completes == <>AllDone
\* a request is never answered twice / a path is never waited for by a manager that left
TypeOK == /\ pm.pc \in {"select", "closing", "reloading", "done"}
          /\ \A p \in Paths : pa[p].pending >= 0
=============================================================================
