---------------------------- MODULE TraceHlsMuxer ----------------------------
(* Trace validation for X03. One ndjson record per walk replayed on the REAL hls.Server
   (harness internal/servers/hls/zz_verif_x03_test.go):
     walk, always, sod, init, closeAfterMs, pauseConstMs,
     obs: << [t, op: [k, p, s], res, sid, muxers: <<[p, id, auto, inst]>>, sessions: <<[s, p]>>,
              readers: <<[kind, a, p, add, fail, rm]>>, nmux, ninst, closing, closed, ready, held,
              sinceReq: [a, b], pauseMs, quiet] >>        obs[1] after the start, obs[j+1] after operation j
     events: << [n, t, st, k, c, p, a, x] >>               log lines and path-manager calls, in order
   (1) Verdicts: the statement's formulas (HlsMuxer.tla layer 2) are evaluated on every observation
       and every step of every walk, plus two measured-time formulas and two formulas over the event
       sequence. A failing formula is reported as a BAD line (Monitor), never stops TLC.
   (2) Conformance (DRIFT only): is the walk a behaviour of layer 1? TLC searches the model's
       behaviours in which the environment performs the walk's operations at rest points and every
       observation equals the model's observation; hlsMuxerCloseAfter may elapse for a path whenever
       the measured time says so. AT lines report how far each walk could be followed.            *)
EXTENDS HlsMuxer

CONSTANT TraceFile
Trace == ndJsonDeserialize(TraceFile)

VARIABLES w,    \* the walk this behaviour follows
          k,    \* observations matched so far
          ph    \* "obs": the next thing is to match observation k+1; "op": to perform operation k
tvars == <<w, k, ph>>

\* ------------------------------------------------------------------ observations of the real server
AsObs(r, j) ==
    LET o == r.obs[j] IN
    [always   |-> r.always,
     sod      |-> Range(r.sod),
     closing  |-> o.closing,
     closed   |-> o.closed,
     ready    |-> Range(o.ready),
     held     |-> Range(o.held),
     muxers   |-> {[p |-> x.p, id |-> x.id, auto |-> x.auto, inst |-> x.inst] : x \in Range(o.muxers)},
     sessions |-> {[s |-> x.s, p |-> x.p] : x \in Range(o.sessions)},
     readers  |-> {[kind |-> x.kind, a |-> x.a, p |-> x.p, add |-> x.add, fail |-> x.fail, rm |-> x.rm] : x \in Range(o.readers)},
     nmux     |-> o.nmux,
     ninst    |-> o.ninst]
BeforeStart(r) ==
    [always |-> r.always, sod |-> Range(r.sod), closing |-> FALSE, closed |-> FALSE, ready |-> Range(r.init), held |-> {},
     muxers |-> {}, sessions |-> {}, readers |-> {}, nmux |-> 0, ninst |-> 0]
Prev(r, j) == IF j = 1 THEN BeforeStart(r) ELSE AsObs(r, j - 1)
SeenUpTo(r, j) == UNION {Ids(AsObs(r, i)) : i \in 1..j}
\* the paths for which hlsMuxerCloseAfter may have elapsed between the last request (when it was SENT)
\* and observation j: the stamp of that request is not older than its sending, the destruction not
\* younger than its observation, so a muxer that goes although its path is not in this set went early
Lapse(r, j) ==
    IF j = 1 THEN {}
    ELSE LET dt == r.obs[j].t - r.obs[j - 1].t IN
         {p \in Paths : \/ r.obs[j - 1].sinceReq[p] >= 0 /\ r.obs[j - 1].sinceReq[p] + dt >= r.closeAfterMs
                        \* a request that itself takes longer than hlsMuxerCloseAfter
                        \/ r.obs[j].op.k = "open" /\ r.obs[j].op.p = p /\ dt >= r.closeAfterMs}

\* ------------------------------------------------------------------ (1) verdicts
\* S5: "not before the re-creation pause has elapsed" (crash log line -> next instance creation, measured)
PauseTimeOK(r, j) ==
    (r.obs[j].op.k = "pause" /\ r.obs[j].res = "recreated") => r.obs[j].pauseMs >= r.pauseConstMs
\* S4 on the event sequence: a reader slot is never given back before it was taken, nor twice;
\* a session is closed at most once
EvReadersBad(r) ==
    {i \in 1..Len(r.events) :
        /\ r.events[i].k = "removereader"
        /\ \/ ~\E h \in 1..(i - 1) : /\ r.events[h].k = "addreader" /\ r.events[h].x = "ok"
                                     /\ r.events[h].c = r.events[i].c /\ r.events[h].a = r.events[i].a
           \/ \E h \in 1..(i - 1) : /\ r.events[h].k = "removereader"
                                    /\ r.events[h].c = r.events[i].c /\ r.events[h].a = r.events[i].a}
EvSessionsBad(r) ==
    {i \in 1..Len(r.events) :
        /\ r.events[i].k = "sclosed"
        /\ \E h \in 1..(i - 1) : r.events[h].k = "sclosed" /\ r.events[h].a = r.events[i].a}

Usable(r, j) == r.obs[j].quiet /\ (j = 1 \/ r.obs[j - 1].quiet)
StepsBad(r, mon) ==
    {j \in 1..Len(r.obs) :
        /\ Usable(r, j)
        /\ ~ CASE mon \in StateMonitors -> StateMon(mon, AsObs(r, j))
               [] mon = "PauseTime"     -> PauseTimeOK(r, j)
               [] mon \in StepMonitors  -> StepMon(mon, Prev(r, j), r.obs[j].op, r.obs[j].res, r.obs[j].sid, AsObs(r, j),
                                                   IF j = 1 THEN {} ELSE SeenUpTo(r, j - 1), Lapse(r, j))}
MinOf(S) == IF S = {} THEN 0 ELSE CHOOSE x \in S : \A y \in S : x <= y
AllMonitors == StateMonitors \cup StepMonitors \cup {"PauseTime"}
RunVerdict(r, ln) ==
    /\ \A mon \in AllMonitors :
          LET b == MinOf(StepsBad(r, mon)) IN
          Monitor(b = 0, [l |-> ln, walk |-> r.walk, monitor |-> mon, step |-> b])
    /\ LET b == MinOf(EvReadersBad(r)) IN
       Monitor(b = 0, [l |-> ln, walk |-> r.walk, monitor |-> "EvReaders", step |-> IF b = 0 THEN 0 ELSE r.events[b].st + 1, event |-> b])
    /\ LET b == MinOf(EvSessionsBad(r)) IN
       Monitor(b = 0, [l |-> ln, walk |-> r.walk, monitor |-> "EvSessions", step |-> IF b = 0 THEN 0 ELSE r.events[b].st + 1, event |-> b])

\* ------------------------------------------------------------------ (2) conformance with layer 1
R == Trace[w]
NObs == Len(R.obs)

TraceInit ==
    /\ w \in 1..Len(Trace) /\ k = 0 /\ ph = "obs"
    /\ Init
    /\ conf = [always |-> Trace[w].always, sod |-> Range(Trace[w].sod)]
    /\ ready = Range(Trace[w].init)

Skip(e) == Env(e) /\ UNCHANGED <<srv, ready, held, smap, mux, ins, ses, pmreg, req, res, nholds>>
Do(e) ==
    CASE e.k = "ready"    -> IF e.p \notin ready THEN Ready(e.p) ELSE Skip(e)
      [] e.k = "notready" -> IF e.p \in ready THEN NotReady(e.p) ELSE Skip(e)
      [] e.k = "open"     -> IF srv = "run" THEN Open(e.p) ELSE Skip(e)
      [] e.k = "crash"    -> IF e.p \in ready /\ \E i \in InsIds : ins[i].pc = "run" /\ ins[i].cur /\ mux[ins[i].owner].path = e.p
                             THEN Crash(e.p) ELSE Skip(e)
      [] e.k = "idle"     -> IF \E m \in MuxIds : mux[m].pc = "loop" /\ ~mux[m].auto THEN Idle ELSE Skip(e)
      [] e.k = "wait"     -> IF \E m \in MuxIds : mux[m].pc = "loop" /\ ~mux[m].auto /\ ~mux[m].stale THEN Wait ELSE Skip(e)
      [] e.k = "pause"    -> IF srv = "run" /\ smap[e.p] # 0 /\ mux[smap[e.p]].pc = "loop" /\ mux[smap[e.p]].timer
                             THEN PauseElapsed(e.p) ELSE Skip(e)
      [] e.k = "kick"     -> IF srv = "run" /\ e.s \in SesIds /\ ses[e.s].st = "open"
                                /\ \E p \in Paths : smap[p] # 0 /\ e.s \in mux[smap[p]].sess
                             THEN Kick(e.s) ELSE Skip(e)
      [] e.k = "hold"     -> IF e.p \notin held THEN Hold(e.p) ELSE Skip(e)
      [] e.k = "release"  -> IF e.p \in held THEN Release(e.p) ELSE Skip(e)
      [] e.k = "close"    -> IF srv = "run" THEN Close ELSE Skip(e)

MatchStep ==
    /\ ph = "obs" /\ k < NObs /\ Quiescent
    /\ AsObs(R, k + 1) = ObsNow
    /\ Emit("AT", [w |-> w, k |-> k + 1])
    /\ k' = k + 1 /\ ph' = "op" /\ UNCHANGED <<w, vars>>
OpStep ==
    /\ ph = "op" /\ k < NObs /\ EnvOK
    /\ Do(R.obs[k + 1].op)
    /\ ph' = "obs" /\ UNCHANGED <<w, k, conf>>
\* hlsMuxerCloseAfter elapses for the muxer of p (created on request): allowed when the measured time says so
LapseStep(p) ==
    /\ k >= 1 /\ k < NObs /\ Quiescent
    /\ p \in Lapse(R, k + 1)
    /\ smap[p] # 0 /\ ~mux[smap[p]].auto /\ mux[smap[p]].pc = "loop" /\ ~mux[smap[p]].stale
    /\ mux' = [mux EXCEPT ![smap[p]] = [@ EXCEPT !.stale = TRUE]]
    /\ UNCHANGED <<conf, srv, ready, held, smap, ins, ses, pmreg, req, res, hvars, tvars>>
TraceNext ==
    \/ Internal /\ UNCHANGED <<conf, tvars>>
    \/ MatchStep \/ OpStep
    \/ \E p \in Paths : LapseStep(p)
TraceSpec == TraceInit /\ [][TraceNext]_<<vars, tvars>>

Verdicts == (k = 0 /\ srv = "init") => RunVerdict(Trace[w], w)
=============================================================================
