------------------------------ MODULE HlsMuxer ------------------------------
(* X03  HLS muxer lifecycle
   (internal/servers/hls/server.go: muxer map, PathReady / PathNotReady, getMuxer, closeMuxer, Close;
    muxer.go: run / runInner; muxer_instance.go: run / runInner)

   STATEMENT (what a user of the HLS server, and the rest of mediamtx, rely on; written from the
   purpose of the component and mediamtx.yml: "By default, HLS is generated only when requested by a
   user. [hlsAlwaysRemux] allows to generate it always"; "[hlsMuxerCloseAfter] The muxer will be
   closed when there are no reader requests and this amount of time has passed"):

   S1  Per path name the server shows at most one muxer (API list, what a request is attached to).
       Whenever the server has come to rest, exactly the muxers it shows are alive: no muxer and no
       muxer instance runs that the server does not show, every shown muxer runs, and a muxer has
       at most one instance.
   S2  With hlsAlwaysRemux a muxer exists for a path exactly while the path is ready: it is created
       without any request when the path becomes ready (or is ready when the server starts),
       destroyed when the path stops being ready, and a NEW muxer is created when the path becomes
       ready again. Paths whose source is started on demand are exempt (remuxing them always would
       keep the source running): they get a muxer on request, like every path without hlsAlwaysRemux.
   S3  Without hlsAlwaysRemux no muxer exists until a request for a ready path arrives; the first
       request creates it, later requests are attached to the same muxer as long as it lives. It is
       destroyed once no request arrived for hlsMuxerCloseAfter - never earlier than
       hlsMuxerCloseAfter after the last request, and eventually - or when the path stops being
       ready. A request for a path that is not ready creates nothing and is answered "not found".
   S4  A muxer and a session take a reader slot on the path (AddReader) and give it back
       (RemoveReader): never given back without having been taken, never given back twice; a muxer
       / session that is gone has given it back, one that is shown holds it. A destroyed muxer has
       closed every session it had; sessions are only shown for a muxer that can serve them.
   S5  When the instance of a muxer crashes (the stream produced something it rejects), a muxer that
       was created automatically stays, closes its sessions, answers requests with an error while it
       has no instance and gets a new instance - not before the re-creation pause has elapsed, and
       eventually; a muxer that was created on request is destroyed (the next request creates a new
       one).
   S6  Server.Close destroys every muxer and instance and returns only when they are gone (and it
       does return once they can finish).

   Layer 1 transcribes the goroutines: one action per select branch / critical section of
   Server.run (Srv..), muxer.run + runInner (M..), muxerInstance.run (I..), session.initialize for one
   request in flight (Req..); the environment is the path manager / path as core/path.go behaves
   (Ready, NotReady = notify + drop and Close() every reader), the player (Open, Kick), the stream
   (Crash), time (Idle = hlsMuxerCloseAfter elapses without requests, Wait = a part of it elapses,
   PauseElapsed = the re-creation timer fires) and the scheduler of the path goroutine (Hold /
   Release: RemoveReader of a muxer on that path does not return yet).
   Named deviations from the code: (D1) createInstance never fails (neither the first nor a
   re-created instance); (D2) session expiry (the 10 s cleanup ticker) is not modelled - it is C43's
   subject; (D3) one request is in flight at a time; (D4) the three steps of path.setNotAvailable
   (notify the server, drop and Close() the readers, close the stream) are one step; (D5) time is
   abstract: a muxer is "stale" once hlsMuxerCloseAfter has elapsed since its last request;
   GuardClose = FALSE is the design mutant "closeMuxer deletes whatever muxer the path has" (used to
   see that layer 2 notices it; TRUE everywhere else). mux[m].life only steers the selection of
   walks (coverage), no action reads it.
   Layer 2 (section "statement") is written over observations [muxers shown, sessions shown, reader
   calls per author, live goroutines, closed ...]: the same operators judge the bounded model (as
   invariants at rest) and what the harness observed on the real server (TraceHlsMuxer.tla).   *)
EXTENDS VerifCommon

CONSTANTS Paths,        \* path names
          Confs,        \* configurations [always |-> hlsAlwaysRemux, sod |-> the paths with sourceOnDemand]
          MaxMux, MaxInst, MaxSess, MaxOps, MaxHolds,
          Atomic,       \* TRUE: the environment acts only when the server is at rest (replayable walks)
          MaxIdle, MaxPause,   \* how often hlsMuxerCloseAfter / the re-creation pause may elapse
          MaxWait,      \* how often a part of hlsMuxerCloseAfter may elapse
          Record,       \* TRUE: keep the history of environment operations (generation of walks)
          GuardClose    \* TRUE = as in the code: closeMuxer removes the map entry only if it is that muxer

VARIABLES conf,     \* the configuration of this server (never changes)
          srv,      \* "init" | "run" | "closing" | "closed"
          ready,    \* paths that have a stream (the path manager's truth)
          held,     \* paths whose RemoveReader (of muxers) is held back
          smap,     \* Server.muxers: path -> muxer id (0 = none)
          mux,      \* muxer id -> record
          ins,      \* instance id -> record
          ses,      \* session id -> record
          pmreg,    \* muxer ids registered as readers at their path
          req,      \* the request in flight
          res,      \* answer to the last Open
          nops, nholds,
          op,       \* last environment operation
          qobs,     \* observation at the moment of that operation (Atomic only)
          seen,     \* muxer ids shown at any earlier rest point (Atomic only)
          nidle, npause, nwait,
          hist      \* the environment operations so far, each with an abstract of the state it met (Record only)
hvars == <<nops, nholds, nidle, npause, nwait, op, qobs, seen, hist>>
vars == <<conf, srv, ready, held, smap, mux, ins, ses, pmreg, req, res, hvars>>

\* configurations for the cfg files (Confs <- ConfsBoth ...)
ConfAlways   == [always |-> TRUE, sod |-> {"b"}]
ConfOnDemand == [always |-> FALSE, sod |-> {}]
ConfsBoth     == {ConfAlways, ConfOnDemand}
ConfsAlways   == {ConfAlways}
ConfsOnDemand == {ConfOnDemand}

NoMux == [pc |-> "none", path |-> "", auto |-> FALSE, cancelled |-> FALSE, inst |-> 0, timer |-> FALSE,
          sess |-> {}, stale |-> FALSE, added |-> 0, failed |-> 0, rm |-> 0,
          life |-> 0]   \* coverage only: 0 fresh, 1 a part of hlsMuxerCloseAfter elapsed since the last request, 2 requested again after that
NoIns == [pc |-> "none", owner |-> 0, cancelled |-> FALSE, cur |-> FALSE]
NoSes == [st |-> "none", path |-> "", add |-> 0, fail |-> 0, rm |-> 0]
NoReq == [pc |-> "idle", s |-> 0, p |-> "", m |-> 0]
NoOp  == [k |-> "none", p |-> "", s |-> 0]

MuxIds == 1..MaxMux
InsIds == 1..MaxInst
SesIds == 1..MaxSess
FreeMux == {m \in MuxIds : mux[m].pc = "none"}
FreeIns == {i \in InsIds : ins[i].pc = "none"}
FreeSes == {s \in SesIds : ses[s].st = "none"}
First(S) == CHOOSE x \in S : \A y \in S : x <= y

LiveMux == {m \in MuxIds : mux[m].pc \notin {"none", "done"}}
LiveIns == {i \in InsIds : ins[i].pc \notin {"none", "done"}}

NewMuxRec(p, auto) == [NoMux EXCEPT !.pc = "start", !.path = p, !.auto = auto]

\* close2 of a set of sessions: each gives its reader slot back
CloseSessions(S) == [s \in SesIds |-> IF s \in S THEN [ses[s] EXCEPT !.st = "closed", !.rm = @ + 1] ELSE ses[s]]

\* ------------------------------------------------------------------ observation (shared with the trace module)
Shown == IF srv = "run" THEN {p \in Paths : smap[p] # 0} ELSE {}
ObsNow ==
    [always   |-> conf.always,
     sod      |-> conf.sod,
     closing  |-> srv \in {"closing", "closed"},
     closed   |-> srv = "closed",
     ready    |-> ready,
     held     |-> held,
     muxers   |-> {[p |-> p, id |-> smap[p], auto |-> mux[smap[p]].auto, inst |-> mux[smap[p]].inst # 0] : p \in Shown},
     sessions |-> UNION {{[s |-> s, p |-> p] : s \in mux[smap[p]].sess} : p \in Shown},
     readers  |-> {[kind |-> "m", a |-> m, p |-> mux[m].path, add |-> mux[m].added, fail |-> mux[m].failed, rm |-> mux[m].rm] :
                       m \in {x \in MuxIds : mux[x].added + mux[x].failed > 0}}
                  \cup {[kind |-> "s", a |-> s, p |-> ses[s].path, add |-> ses[s].add, fail |-> ses[s].fail, rm |-> ses[s].rm] :
                       s \in {x \in SesIds : ses[x].st # "none"}},
     nmux     |-> Cardinality(LiveMux),
     ninst    |-> Cardinality(LiveIns)]

\* ------------------------------------------------------------------ layer 2: the statement
Ids(o) == {x.id : x \in o.muxers}
ShownPaths(o) == {x.p : x \in o.muxers}
MuxOf(o, p) == CHOOSE x \in o.muxers : x.p = p
Rest(o) == o.held = {}          \* nothing is held back: the server has come to rest
RestP(o, p) == p \notin o.held  \* nothing of path p is held back

\* S1
OnePerPath(o) == \A x, y \in o.muxers : (x.p = y.p \/ x.id = y.id) => x = y
NoOrphan(o) ==
    /\ (Rest(o) /\ ~o.closing) => /\ o.nmux = Cardinality(o.muxers)
                                  /\ o.ninst = Cardinality({x \in o.muxers : x.inst})
    /\ ~o.closing => o.ninst <= o.nmux
\* S2
AlwaysRemuxOK(o) ==
    (o.always /\ ~o.closing) =>
        /\ \A p \in Paths \ o.sod : /\ (p \in ShownPaths(o)) <=> (p \in o.ready)
                                    /\ p \in ShownPaths(o) => MuxOf(o, p).auto
        /\ \A p \in o.sod : p \in ShownPaths(o) => ~MuxOf(o, p).auto
\* S3 (state part)
OnDemandOK(o) ==
    /\ ~o.always => \A x \in o.muxers : ~x.auto
    /\ \A x \in o.muxers : (~x.auto /\ RestP(o, x.p)) => x.p \in o.ready
\* S4
ReadersSafe(o) == \A r \in o.readers : r.add <= 1 /\ r.rm <= r.add /\ (r.fail > 0 => r.add = 0)
ReadersAtRest(o) ==
    \A r \in o.readers : RestP(o, r.p) =>
        IF r.kind = "m" THEN IF r.a \in Ids(o) THEN r.add = 1 /\ r.rm = 0 ELSE r.rm = r.add
        ELSE IF \E s \in o.sessions : s.s = r.a THEN r.add = 1 /\ r.rm = 0 ELSE r.rm = r.add
SessionsServed(o) ==
    \A s \in o.sessions : RestP(o, s.p) => s.p \in ShownPaths(o) /\ MuxOf(o, s.p).inst
\* S6
CloseOK(o) ==
    /\ o.closed => o.nmux = 0 /\ o.ninst = 0
    /\ (o.closing /\ Rest(o)) => o.closed
    /\ o.closing => o.muxers = {}

StateOK(o) == /\ OnePerPath(o) /\ NoOrphan(o) /\ AlwaysRemuxOK(o) /\ OnDemandOK(o)
              /\ ReadersSafe(o) /\ ReadersAtRest(o) /\ SessionsServed(o) /\ CloseOK(o)
StateMonitors == {"OnePerPath", "NoOrphan", "AlwaysRemux", "OnDemand", "ReadersSafe", "ReadersAtRest",
                  "SessionsServed", "Close"}
StateMon(mon, o) ==
    CASE mon = "OnePerPath"     -> OnePerPath(o)
      [] mon = "NoOrphan"       -> NoOrphan(o)
      [] mon = "AlwaysRemux"    -> AlwaysRemuxOK(o)
      [] mon = "OnDemand"       -> OnDemandOK(o)
      [] mon = "ReadersSafe"    -> ReadersSafe(o)
      [] mon = "ReadersAtRest"  -> ReadersAtRest(o)
      [] mon = "SessionsServed" -> SessionsServed(o)
      [] mon = "Close"          -> CloseOK(o)

\* Step formulas: o observed at rest before the operation e = [k, p, s], n after it (answer r, session
\* number sid of an Open); sn = ids shown at any rest point up to o; lapse = the paths for which
\* hlsMuxerCloseAfter may have elapsed without a request between the last request and n.
\* S2 / S3: how muxers come into being, and that identities never come back
BirthOK(o, e, n, sn) ==
    \A x \in n.muxers :
        IF x.id \in Ids(o)
        THEN \E y \in o.muxers : y.id = x.id /\ y.p = x.p /\ y.auto = x.auto     \* same muxer, same path, same kind
        ELSE /\ x.id \notin sn                                              \* a destroyed muxer never reappears
             /\ IF x.auto THEN n.always /\ x.p \notin n.sod /\ (e.k = "start" \/ (e.k = "ready" /\ e.p = x.p))
                ELSE e.k = "open" /\ e.p = x.p /\ (~n.always \/ x.p \in n.sod)
\* S3 / S5: how muxers go away
DeathOK(o, e, n, lapse) ==
    \A x \in o.muxers : x.id \notin Ids(n) =>
        \/ e.k = "close" \/ n.closing
        \/ e.k = "notready" /\ e.p = x.p
        \/ ~x.auto /\ e.k \in {"crash", "release"} /\ e.p = x.p
        \/ ~x.auto /\ x.p \in lapse
\* S3: requests
OpenOK(o, e, r, sid, n, lapse) ==
    (e.k = "open" /\ ~o.closing) =>
        /\ e.p \notin o.ready => r = "notfound" /\ (RestP(n, e.p) => e.p \notin ShownPaths(n))
        /\ (r = "ok" /\ e.p \notin lapse) => /\ e.p \in ShownPaths(n)
                                              /\ [s |-> sid, p |-> e.p] \in n.sessions
        /\ r # "ok" => \A s \in n.sessions : s.s # sid
        /\ (e.p \in o.ready /\ RestP(o, e.p)) =>
              /\ r \in {"ok", "error"}
              \* served unless the muxer has no instance (a muxer created on request may be closed for
              \* inactivity while a slow request is still under way: then the answer is left open)
              /\ (/\ e.p \in ShownPaths(o) /\ ~MuxOf(o, e.p).inst /\ MuxOf(o, e.p).auto
                  /\ e.p \in ShownPaths(n) /\ ~MuxOf(n, e.p).inst /\ MuxOf(n, e.p).id = MuxOf(o, e.p).id) => r = "error"
              /\ (~(e.p \in ShownPaths(o) /\ ~MuxOf(o, e.p).inst) /\ (e.p \notin lapse \/ (e.p \in ShownPaths(o) /\ MuxOf(o, e.p).auto)))
                    => r = "ok"
              \* reuse
              /\ (e.p \in ShownPaths(o) /\ MuxOf(o, e.p).inst /\ (MuxOf(o, e.p).auto \/ e.p \notin lapse))
                    => e.p \in ShownPaths(n) /\ MuxOf(n, e.p).id = MuxOf(o, e.p).id
\* S5
CrashOK(o, e, n) ==
    (e.k = "crash" /\ RestP(o, e.p) /\ ~o.closing /\ e.p \in ShownPaths(o) /\ MuxOf(o, e.p).inst) =>
        IF MuxOf(o, e.p).auto
        THEN /\ e.p \in ShownPaths(n) /\ MuxOf(n, e.p).id = MuxOf(o, e.p).id /\ ~MuxOf(n, e.p).inst
             /\ \A s \in n.sessions : s.p # e.p
        ELSE MuxOf(o, e.p).id \notin Ids(n)
PauseOK(o, e, r, n) ==
    (e.k = "pause" /\ r = "recreated" /\ ~o.closing /\ e.p \in ShownPaths(o)) =>
        /\ e.p \in ShownPaths(n) /\ MuxOf(n, e.p).id = MuxOf(o, e.p).id /\ MuxOf(n, e.p).inst

StepMonitors == {"Birth", "Death", "Open", "Crash", "Pause"}
StepMon(mon, o, e, r, sid, n, sn, lapse) ==
    CASE mon = "Birth" -> BirthOK(o, e, n, sn)
      [] mon = "Death" -> DeathOK(o, e, n, lapse)
      [] mon = "Open"  -> OpenOK(o, e, r, sid, n, lapse)
      [] mon = "Crash" -> CrashOK(o, e, n)
      [] mon = "Pause" -> PauseOK(o, e, r, n)
StepOK(o, e, r, sid, n, sn, lapse) == \A mon \in StepMonitors : StepMon(mon, o, e, r, sid, n, sn, lapse)

\* ------------------------------------------------------------------ layer 1: the goroutines
\* --- rest: no goroutine can take a step (timers and held RemoveReader calls excepted)
InsCanNotify(i) == mux[ins[i].owner].pc = "loop" \/ mux[ins[i].owner].cancelled
MuxAtRest(m) ==
    \/ mux[m].pc \in {"none", "done"}
    \/ mux[m].pc = "loop" /\ ~mux[m].cancelled /\ ~(mux[m].stale /\ ~mux[m].auto)
    \/ mux[m].pc = "exit" /\ mux[m].path \in held
InsAtRest(i) ==
    \/ ins[i].pc \in {"none", "done"}
    \/ ins[i].pc = "run" /\ ~ins[i].cancelled
    \/ ins[i].pc = "notify" /\ ~InsCanNotify(i)
Quiescent ==
    /\ srv \in {"run", "closing", "closed"}
    /\ req.pc = "idle"
    /\ \A m \in MuxIds : MuxAtRest(m)
    /\ \A i \in InsIds : InsAtRest(i)
    /\ ~(srv = "closing" /\ LiveMux = {} /\ LiveIns = {})

\* every environment operation is guarded by EnvOK (evaluated once, in Environment)
EnvOK == srv # "init" /\ nops < MaxOps /\ (Atomic => Quiescent)
\* bookkeeping of an environment operation
Abstract ==
    [srv |-> srv, ready |-> ready, held |-> held,
     mx |-> {[p |-> mux[m].path, auto |-> mux[m].auto, pc |-> mux[m].pc, shown |-> smap[mux[m].path] = m,
              inst |-> mux[m].inst # 0, sess |-> mux[m].sess # {}, stale |-> mux[m].stale, life |-> mux[m].life] : m \in LiveMux}]
Env(e) == /\ nops' = nops + 1 /\ op' = e
          /\ IF Atomic THEN qobs' = ObsNow /\ seen' = seen \cup Ids(ObsNow) ELSE UNCHANGED <<qobs, seen>>
          /\ hist' = IF Record THEN Append(hist, [k |-> e.k, p |-> e.p, s |-> e.s, v |-> Abstract]) ELSE hist
          /\ nidle' = IF e.k = "idle" THEN nidle + 1 ELSE nidle
          /\ npause' = IF e.k = "pause" THEN npause + 1 ELSE npause
          /\ nwait' = IF e.k = "wait" THEN nwait + 1 ELSE nwait

\* --- Server.run
\* run(): SetHLSServer returns the ready paths; with alwaysRemux a muxer is created for each
SrvStart ==
    /\ srv = "init"
    /\ LET R == IF conf.always THEN ready \ conf.sod ELSE {}
       IN \E f \in [R -> 1..Cardinality(R)] :
            /\ \A p, q \in R : f[p] = f[q] => p = q
            /\ mux' = [m \in MuxIds |-> IF \E p \in R : f[p] = m THEN NewMuxRec(CHOOSE p \in R : f[p] = m, TRUE) ELSE mux[m]]
            /\ smap' = [p \in Paths |-> IF p \in R THEN f[p] ELSE 0]
    /\ srv' = "run" /\ op' = [NoOp EXCEPT !.k = "start"]
    /\ UNCHANGED <<ready, held, ins, ses, pmreg, req, res, nops, nholds, nidle, npause, nwait, qobs, seen, hist>>

\* pathManager -> PathReady (case pa := <-s.chPathReady)
Ready(p) ==
    /\ p \notin ready
    /\ ready' = ready \cup {p}
    /\ IF srv = "run" /\ conf.always /\ p \notin conf.sod /\ smap[p] = 0
       THEN /\ FreeMux # {}
            /\ mux' = [mux EXCEPT ![First(FreeMux)] = NewMuxRec(p, TRUE)]
            /\ smap' = [smap EXCEPT ![p] = First(FreeMux)]
       ELSE UNCHANGED <<mux, smap>>
    /\ Env([NoOp EXCEPT !.k = "ready", !.p = p])
    /\ UNCHANGED <<srv, held, ins, ses, pmreg, req, res, nholds>>

\* path.setNotAvailable: PathNotReady (case pa := <-s.chPathNotReady), then every reader of the path
\* is dropped and Close()d, then the stream is closed
NotReady(p) ==
    /\ p \in ready
    /\ ready' = ready \ {p}
    /\ LET byServer == IF srv = "run" /\ smap[p] # 0 /\ mux[smap[p]].auto THEN {smap[p]} ELSE {}
           byPath == {m \in pmreg : mux[m].path = p}
       IN /\ mux' = [m \in MuxIds |-> IF m \in byServer \cup byPath THEN [mux[m] EXCEPT !.cancelled = TRUE] ELSE mux[m]]
          /\ smap' = IF byServer # {} THEN [smap EXCEPT ![p] = 0] ELSE smap
          /\ pmreg' = pmreg \ byPath
    /\ ins' = [i \in InsIds |-> IF ins[i].pc # "none" /\ mux[ins[i].owner].path = p THEN [ins[i] EXCEPT !.cur = FALSE] ELSE ins[i]]
    /\ Env([NoOp EXCEPT !.k = "notready", !.p = p])
    /\ UNCHANGED <<srv, held, ses, req, res, nholds>>

\* a player requests the multivariant playlist: session.initialize, step 1 (pathManager.AddReader)
Open(p) ==
    /\ srv = "run" /\ req.pc = "idle" /\ FreeSes # {}
    /\ LET s == First(FreeSes) IN
       IF p \notin ready
       THEN /\ ses' = [ses EXCEPT ![s] = [NoSes EXCEPT !.st = "failed", !.path = p, !.fail = 1]]
            /\ res' = "notfound" /\ UNCHANGED req
       ELSE /\ ses' = [ses EXCEPT ![s] = [NoSes EXCEPT !.st = "pending", !.path = p, !.add = 1]]
            /\ req' = [pc |-> "get", s |-> s, p |-> p, m |-> 0] /\ res' = ""
    /\ Env([NoOp EXCEPT !.k = "open", !.p = p])
    /\ UNCHANGED <<srv, ready, held, smap, mux, ins, pmreg, nholds>>

ReqFail(r) ==
    /\ ses' = [ses EXCEPT ![req.s] = [@ EXCEPT !.st = "failed", !.rm = @ + 1]]
    /\ res' = r /\ req' = NoReq

\* case req := <-s.chGetMuxer (create = true)
SrvGetMuxer ==
    /\ req.pc = "get" /\ srv = "run"
    /\ IF smap[req.p] # 0
       THEN req' = [req EXCEPT !.pc = "attach", !.m = smap[req.p]] /\ UNCHANGED <<mux, smap, ses, res>>
       ELSE IF conf.always /\ req.p \notin conf.sod
       THEN ReqFail("error") /\ UNCHANGED <<mux, smap>>                  \* "muxer is waiting to be created"
       ELSE /\ FreeMux # {}
            /\ mux' = [mux EXCEPT ![First(FreeMux)] = NewMuxRec(req.p, FALSE)]
            /\ smap' = [smap EXCEPT ![req.p] = First(FreeMux)]
            /\ req' = [req EXCEPT !.pc = "attach", !.m = First(FreeMux)] /\ UNCHANGED <<ses, res>>
    /\ UNCHANGED <<srv, ready, held, ins, pmreg, hvars>>
\* getMuxer: case <-s.ctx.Done()
ReqTerminated ==
    /\ req.pc = "get" /\ srv # "run"
    /\ ReqFail("error")
    /\ UNCHANGED <<srv, ready, held, smap, mux, ins, pmreg, hvars>>
\* muxer.addSession + muxer.handleRequest (the muxer's mutex is free once the first instance is decided)
ReqAttach ==
    /\ req.pc = "attach" /\ mux[req.m].pc # "start"
    /\ IF mux[req.m].inst = 0
       THEN ReqFail("error") /\ UNCHANGED mux                              \* "muxer instance not available"
       ELSE /\ mux' = [mux EXCEPT ![req.m] = [@ EXCEPT !.sess = @ \cup {req.s}, !.stale = FALSE,
                                                      !.life = IF @ = 1 THEN 2 ELSE @]]
            /\ ses' = [ses EXCEPT ![req.s] = [@ EXCEPT !.st = "open"]]
            /\ res' = "ok" /\ req' = NoReq
    /\ UNCHANGED <<srv, ready, held, smap, ins, pmreg, hvars>>

\* case req := <-s.chAPISessionsKick
Kick(s) ==
    /\ srv = "run" /\ ses[s].st = "open"
    /\ \E p \in Paths : smap[p] # 0 /\ s \in mux[smap[p]].sess
    /\ LET m == smap[CHOOSE p \in Paths : smap[p] # 0 /\ s \in mux[smap[p]].sess] IN
       mux' = [mux EXCEPT ![m] = [@ EXCEPT !.sess = @ \ {s}]]
    /\ ses' = CloseSessions({s})
    /\ Env([NoOp EXCEPT !.k = "kick", !.s = s])
    /\ UNCHANGED <<srv, ready, held, smap, ins, pmreg, req, res, nholds>>

\* Server.Close: ctxCancel (every muxer context is a child), then wg.Wait
Close ==
    /\ srv = "run"
    /\ srv' = "closing"
    /\ mux' = [m \in MuxIds |-> IF mux[m].pc \notin {"none", "done"} THEN [mux[m] EXCEPT !.cancelled = TRUE] ELSE mux[m]]
    /\ Env([NoOp EXCEPT !.k = "close"])
    /\ UNCHANGED <<ready, held, smap, ins, ses, pmreg, req, res, nholds>>
SrvClosed ==
    /\ srv = "closing" /\ LiveMux = {} /\ LiveIns = {} /\ req.pc = "idle"
    /\ srv' = "closed"
    /\ UNCHANGED <<ready, held, smap, mux, ins, ses, pmreg, req, res, hvars>>

\* --- muxer.run / runInner
NewInstance(m, i) == [pc |-> "run", owner |-> m, cancelled |-> FALSE, cur |-> mux[m].path \in ready]
\* AddReader, then createInstance, then the mutex taken in initialize() is released
MStart(m) ==
    /\ mux[m].pc = "start"
    /\ IF mux[m].path \in ready
       THEN /\ FreeIns # {}
            /\ LET i == First(FreeIns) IN
               /\ mux' = [mux EXCEPT ![m] = [@ EXCEPT !.pc = "loop", !.added = 1, !.inst = i]]
               /\ ins' = [ins EXCEPT ![i] = NewInstance(m, i)]
            /\ pmreg' = pmreg \cup {m}
       ELSE /\ mux' = [mux EXCEPT ![m] = [@ EXCEPT !.pc = "cleanup", !.failed = 1]]     \* AddReader failed: no deferred RemoveReader
            /\ UNCHANGED <<ins, pmreg>>
    /\ UNCHANGED <<srv, ready, held, smap, ses, req, res, hvars>>
\* case req := <-m.chCloseInstance (sent by the tail of muxerInstance.run)
MCloseInstance(m, i) ==
    /\ mux[m].pc = "loop" /\ ins[i].pc = "notify" /\ ins[i].owner = m
    /\ ins' = [ins EXCEPT ![i] = [@ EXCEPT !.pc = "done"]]
    /\ IF mux[m].inst # i
       THEN UNCHANGED <<mux, ses>>
       ELSE IF ~mux[m].auto
       THEN mux' = [mux EXCEPT ![m] = [@ EXCEPT !.inst = 0, !.pc = "exit"]] /\ UNCHANGED ses
       ELSE /\ mux' = [mux EXCEPT ![m] = [@ EXCEPT !.inst = 0, !.sess = {}, !.timer = TRUE]]
            /\ ses' = CloseSessions(mux[m].sess)
    /\ UNCHANGED <<srv, ready, held, smap, pmreg, req, res, hvars>>
\* case <-recreateInstanceTimer.C
PauseElapsed(p) ==
    /\ npause < MaxPause /\ srv = "run" /\ smap[p] # 0
    /\ LET m == smap[p] IN
       /\ mux[m].pc = "loop" /\ mux[m].timer /\ FreeIns # {}
       /\ LET i == First(FreeIns) IN
          /\ mux' = [mux EXCEPT ![m] = [@ EXCEPT !.inst = i, !.timer = FALSE]]
          /\ ins' = [ins EXCEPT ![i] = NewInstance(m, i)]
    /\ Env([NoOp EXCEPT !.k = "pause", !.p = p])
    /\ UNCHANGED <<srv, ready, held, smap, ses, pmreg, req, res, nholds>>
\* hlsMuxerCloseAfter elapses without any request
Idle ==
    /\ nidle < MaxIdle
    /\ \E m \in MuxIds : mux[m].pc = "loop" /\ ~mux[m].auto
    /\ mux' = [m \in MuxIds |-> IF mux[m].pc \notin {"none", "done"} /\ ~mux[m].auto THEN [mux[m] EXCEPT !.stale = TRUE] ELSE mux[m]]
    /\ Env([NoOp EXCEPT !.k = "idle"])
    /\ UNCHANGED <<srv, ready, held, smap, ins, ses, pmreg, req, res, nholds>>
\* a part of hlsMuxerCloseAfter (more than a third, less than the whole) elapses without any request: nothing may happen
Wait ==
    /\ nwait < MaxWait
    /\ \E m \in MuxIds : mux[m].pc = "loop" /\ ~mux[m].auto /\ ~mux[m].stale
    /\ mux' = [m \in MuxIds |-> IF mux[m].pc = "loop" /\ ~mux[m].auto /\ ~mux[m].stale THEN [mux[m] EXCEPT !.life = 1] ELSE mux[m]]
    /\ Env([NoOp EXCEPT !.k = "wait"])
    /\ UNCHANGED <<srv, ready, held, smap, ins, ses, pmreg, req, res, nholds>>
\* case <-activityCheckTimer.C with time.Since(lastRequest) >= closeAfter
MActivity(m) ==
    /\ mux[m].pc = "loop" /\ ~mux[m].auto /\ mux[m].stale
    /\ mux' = [mux EXCEPT ![m] = [@ EXCEPT !.pc = "exit"]]
    /\ UNCHANGED <<srv, ready, held, smap, ins, ses, pmreg, req, res, hvars>>
\* case <-m.ctx.Done()
MCtxDone(m) ==
    /\ mux[m].pc = "loop" /\ mux[m].cancelled
    /\ mux' = [mux EXCEPT ![m] = [@ EXCEPT !.pc = "exit"]]
    /\ UNCHANGED <<srv, ready, held, smap, ins, ses, pmreg, req, res, hvars>>
\* defer m.path.RemoveReader
MRemoveReader(m) ==
    /\ mux[m].pc = "exit" /\ mux[m].path \notin held
    /\ mux' = [mux EXCEPT ![m] = [@ EXCEPT !.pc = "cleanup", !.rm = @ + 1]]
    /\ pmreg' = pmreg \ {m}
    /\ UNCHANGED <<srv, ready, held, smap, ins, ses, req, res, hvars>>
\* run() after runInner: ctxCancel, instance.close(), under the mutex: instance = nil, every session closed
MCleanup(m) ==
    /\ mux[m].pc = "cleanup"
    /\ mux' = [mux EXCEPT ![m] = [@ EXCEPT !.pc = "notify", !.cancelled = TRUE, !.inst = 0, !.sess = {}]]
    /\ ins' = [i \in InsIds |-> IF i = mux[m].inst THEN [ins[i] EXCEPT !.cancelled = TRUE] ELSE ins[i]]
    /\ ses' = CloseSessions(mux[m].sess)
    /\ UNCHANGED <<srv, ready, held, smap, pmreg, req, res, hvars>>
\* m.parent.closeMuxer(m): case c := <-s.chCloseMuxer, or case <-s.ctx.Done()
MNotify(m) ==
    /\ mux[m].pc = "notify"
    /\ mux' = [mux EXCEPT ![m] = [@ EXCEPT !.pc = "done"]]
    /\ IF srv = "run" /\ smap[mux[m].path] # 0 /\ (GuardClose => smap[mux[m].path] = m)
       THEN smap' = [smap EXCEPT ![mux[m].path] = 0]
       ELSE UNCHANGED smap
    /\ UNCHANGED <<srv, ready, held, ins, ses, pmreg, req, res, hvars>>

\* --- muxerInstance.run
\* the stream's reader returns an error (the unit exceeds hlsSegmentMaxSize): case err := <-mi.reader.Error()
Crash(p) ==
    /\ p \in ready
    /\ \E i \in InsIds : ins[i].pc = "run" /\ ins[i].cur /\ mux[ins[i].owner].path = p
    /\ ins' = [i \in InsIds |-> IF ins[i].pc = "run" /\ ins[i].cur /\ mux[ins[i].owner].path = p
                                THEN [ins[i] EXCEPT !.pc = "tail"] ELSE ins[i]]
    /\ Env([NoOp EXCEPT !.k = "crash", !.p = p])
    /\ UNCHANGED <<srv, ready, held, smap, mux, ses, pmreg, req, res, nholds>>
\* case <-mi.ctx.Done()
ICtxDone(i) ==
    /\ ins[i].pc = "run" /\ ins[i].cancelled
    /\ ins' = [ins EXCEPT ![i] = [@ EXCEPT !.pc = "tail"]]
    /\ UNCHANGED <<srv, ready, held, smap, mux, ses, pmreg, req, res, hvars>>
\* stream.RemoveReader, hmuxer.Close
ITail(i) ==
    /\ ins[i].pc = "tail"
    /\ ins' = [ins EXCEPT ![i] = [@ EXCEPT !.pc = "notify"]]
    /\ UNCHANGED <<srv, ready, held, smap, mux, ses, pmreg, req, res, hvars>>
\* mi.parent.closeInstance: case <-m.ctx.Done() (the other branch is MCloseInstance)
IGiveUp(i) ==
    /\ ins[i].pc = "notify" /\ mux[ins[i].owner].cancelled
    /\ ins' = [ins EXCEPT ![i] = [@ EXCEPT !.pc = "done"]]
    /\ UNCHANGED <<srv, ready, held, smap, mux, ses, pmreg, req, res, hvars>>

\* --- the path goroutine is busy: RemoveReader of muxers of p does not return
Hold(p) ==
    /\ p \notin held /\ nholds < MaxHolds
    /\ held' = held \cup {p} /\ nholds' = nholds + 1
    /\ Env([NoOp EXCEPT !.k = "hold", !.p = p])
    /\ UNCHANGED <<srv, ready, smap, mux, ins, ses, pmreg, req, res>>
Release(p) ==
    /\ p \in held
    /\ held' = held \ {p}
    /\ Env([NoOp EXCEPT !.k = "release", !.p = p])
    /\ UNCHANGED <<srv, ready, smap, mux, ins, ses, pmreg, req, res, nholds>>

Internal ==
    \/ SrvStart \/ SrvGetMuxer \/ ReqTerminated \/ ReqAttach \/ SrvClosed
    \/ \E m \in MuxIds : \/ MStart(m) \/ MActivity(m) \/ MCtxDone(m) \/ MRemoveReader(m) \/ MCleanup(m) \/ MNotify(m)
                         \/ \E i \in InsIds : MCloseInstance(m, i)
    \/ \E i \in InsIds : ICtxDone(i) \/ ITail(i) \/ IGiveUp(i)
Environment ==
    /\ EnvOK
    /\ \/ \E p \in Paths : Ready(p) \/ NotReady(p) \/ Open(p) \/ Crash(p) \/ Hold(p) \/ Release(p) \/ PauseElapsed(p)
       \/ \E s \in SesIds : Kick(s)
       \/ Idle \/ Wait \/ Close
Next == (Internal \/ Environment) /\ UNCHANGED conf

Init ==
    /\ conf \in Confs /\ srv = "init" /\ ready \in SUBSET Paths /\ held = {}
    /\ smap = [p \in Paths |-> 0]
    /\ mux = [m \in MuxIds |-> NoMux] /\ ins = [i \in InsIds |-> NoIns] /\ ses = [s \in SesIds |-> NoSes]
    /\ pmreg = {} /\ req = NoReq /\ res = "" /\ nops = 0 /\ nholds = 0 /\ nidle = 0 /\ npause = 0 /\ nwait = 0 /\ hist = <<>> /\ op = NoOp
    /\ qobs = [always |-> conf.always, sod |-> conf.sod, closing |-> FALSE, closed |-> FALSE, ready |-> ready, held |-> {}, muxers |-> {},
               sessions |-> {}, readers |-> {}, nmux |-> 0, ninst |-> 0]
    /\ seen = {}

Spec == Init /\ [][Next]_vars
FairSpec == Spec /\ WF_vars(Internal /\ UNCHANGED conf)

\* ------------------------------------------------------------------ what TLC checks on the bounded model
TypeOK ==
    /\ srv \in {"init", "run", "closing", "closed"} /\ ready \subseteq Paths /\ held \subseteq Paths
    /\ \A p \in Paths : smap[p] \in 0..MaxMux
    /\ \A m \in MuxIds : mux[m].inst \in 0..MaxInst /\ mux[m].rm \in 0..2
    /\ pmreg \subseteq MuxIds
\* the explicit definition of "at rest" is the absence of enabled internal steps
QuiescentDef == Quiescent <=> ~ENABLED (Internal /\ UNCHANGED conf)
\* statement, state part: at every rest point
InvRest == Quiescent => StateOK(ObsNow)
\* statement, the parts that hold at every instant
InvAlways == LET o == ObsNow IN OnePerPath(o) /\ ReadersSafe(o) /\ (o.closed => o.nmux = 0 /\ o.ninst = 0)
             /\ \A m \in MuxIds : Cardinality({i \in InsIds : ins[i].pc = "run" /\ ins[i].owner = m /\ ~ins[i].cancelled}) <= 1
\* statement, step part (Atomic only): from rest point to rest point
SidOf == IF op.k = "open" THEN CHOOSE s \in SesIds : ses[s].st # "none" /\ \A t \in SesIds : ses[t].st # "none" => t <= s ELSE 0
InvStep == (Atomic /\ Quiescent /\ op.k \notin {"none", "start"}) =>
              StepOK(qobs, op, res, SidOf, ObsNow, seen, IF op.k = "idle" THEN Paths ELSE {})
InvStart == (Atomic /\ Quiescent /\ op.k = "start") => BirthOK(qobs, op, ObsNow, {})
\* generation: a finished walk (printed once it has come to rest)
EmitWalk == (Record /\ nops = MaxOps /\ Quiescent) => Emit("WALK", [conf |-> conf, init |-> hist[1].v.ready, ops |-> hist])
\* generation, exhaustively: one walk for every (abstract state at rest, operation) pair of the bounded model
\* (ACTION_CONSTRAINT: evaluated on every transition; with VIEW GenView the prefix is a shortest one)
EmitEdge == (Record /\ hist' # hist) => Emit("WALK", [conf |-> conf, init |-> hist'[1].v.ready, ops |-> hist'])
\* liveness at quiescence: the server always comes to rest again
Progress == []<>Quiescent
\* state graph for the replayable walks: identities and history abstracted away
GenView ==
    <<conf, srv, ready, held, req.pc, nidle, npause, nwait, nholds,
      {[path |-> mux[m].path, auto |-> mux[m].auto, pc |-> mux[m].pc, cancelled |-> mux[m].cancelled, timer |-> mux[m].timer,
        stale |-> mux[m].stale, shown |-> smap[mux[m].path] = m, sess |-> mux[m].sess # {}, life |-> mux[m].life,
        inst |-> IF mux[m].inst = 0 THEN "-" ELSE ins[mux[m].inst].pc] : m \in LiveMux},
      {[path |-> mux[ins[i].owner].path, pc |-> ins[i].pc] : i \in {j \in LiveIns : mux[ins[j].owner].inst # j}}>>
=============================================================================
