-------------------------------- MODULE CORS --------------------------------
(* C05  CORS allows only configured origins  (internal/protocols/httpp/handler_origin.go)

   An origin is (scheme, host, port): host is a sequence of one-character strings, port 0 means
   "not written". An allow-list entry is either the literal "*" (star = TRUE) or an origin whose
   host may contain "*".

   Layer 2 (Acceptable) is the property statement:
     "The Access-Control-Allow-Origin header echoes a request Origin only if it has the same
      scheme, host and effective port as an allowed origin, or matches an allowed wildcard origin
      of the same scheme and port where each '*' stands for any host characters and every other
      character matches literally; otherwise the header is '*' only when '*' is allowed, and
      absent otherwise."
   Read as the decision function  echo iff match; else '*' iff '*' listed; else absent.
   Left open, because the statement leaves it open:
     * whether '*' may stand for no character at all (Wild!GlobMatch0 vs GlobMatch1);
     * an Origin without a scheme (not an origin at all, e.g. "null"): never echoed, never '*'
       unless '*' is listed, but absent is accepted as well.

   Layer 1 (L1) follows the code: default ports appended to both hosts, exact comparison, then a
   regular expression built from the allowed host:port by textual replacement. Its deviations
   from the statement are named and can be switched off one by one (L1 with no deviation
   satisfies layer 2: invariant DeviationsExplainAll):
     UnescapedDotInPattern   "." of the pattern is not quoted, so it matches any character
     WildcardIgnoresScheme   the wildcard branch never compares the scheme
     OptionalSubdomain       "*." becomes "(..*\.)?": the whole label including its dot may be missing *)
EXTENDS VerifCommon, Wild

CONSTANT MaxList            \* allow lists: sequences without repetition of length 0..MaxList

\* ------------------------------------------------------------------ data
Url(scheme, host, port) == [kind |-> "url", scheme |-> scheme, host |-> Chars(host), port |-> port]
Bare(host)              == [kind |-> "bare", scheme |-> "", host |-> Chars(host), port |-> 0]
NoOrigin                == [kind |-> "none", scheme |-> "", host |-> <<>>, port |-> 0]

Pat(scheme, host, port) == [star |-> FALSE, scheme |-> scheme, host |-> Chars(host), port |-> port]
StarEntry               == [star |-> TRUE, scheme |-> "", host |-> <<>>, port |-> 0]

DefaultPort(scheme) == IF scheme = "http" THEN 80 ELSE IF scheme = "https" THEN 443 ELSE 0
EffPort(x) == IF x.port # 0 THEN x.port ELSE DefaultPort(x.scheme)

IsWild(a) == ~a.star /\ HasChar(a.host, "*")
StarListed(allow) == \E i \in 1..Len(allow) : allow[i].star

\* ------------------------------------------------------------------ layer 2: the statement
SameSchemePort(o, a) == o.scheme = a.scheme /\ EffPort(o) = EffPort(a)

Exact(o, a)    == ~a.star /\ ~IsWild(a) /\ SameSchemePort(o, a) /\ o.host = a.host
WildMust(o, a) == IsWild(a) /\ SameSchemePort(o, a) /\ GlobMatch1(a.host, o.host)
WildMay(o, a)  == IsWild(a) /\ SameSchemePort(o, a) /\ GlobMatch0(a.host, o.host)

MustEcho(o, allow) == o.kind = "url" /\ \E i \in 1..Len(allow) : Exact(o, allow[i]) \/ WildMust(o, allow[i])
MayEcho(o, allow)  == o.kind = "url" /\ \E i \in 1..Len(allow) : Exact(o, allow[i]) \/ WildMay(o, allow[i])

Fallback(allow) == IF StarListed(allow) THEN "star" ELSE "absent"

\* the set of header outcomes the statement admits: "echo" (header = the Origin sent), "star", "absent"
Acceptable(o, allow) ==
    CASE o.kind = "none" -> {Fallback(allow)}
      [] o.kind = "bare" -> {Fallback(allow), "absent"}
      [] OTHER -> IF MustEcho(o, allow) THEN {"echo"}
                  ELSE IF MayEcho(o, allow) THEN {"echo", Fallback(allow)}
                  ELSE {Fallback(allow)}

\* ------------------------------------------------------------------ layer 1: the code
Devs == {"UnescapedDotInPattern", "WildcardIgnoresScheme", "OptionalSubdomain"}
\* the deviations the CURRENT code has: the first two were repaired in /repo (fix commit
\* "match CORS wildcard origins literally and only for the same scheme"); they stay in the
\* model so that their return is named when it is detected
CodeDevs == {"OptionalSubdomain"}

\* url.Host after the default port has been joined
HostPort(x) == IF EffPort(x) = 0 THEN x.host ELSE x.host \o <<":">> \o NatChars(EffPort(x))

\* pattern tokens: one-character strings are literals; "ANY" = '.', "STAR" = '.*', "OPT" = '(.*\.)?'
\* (the code quotes the host, then turns the quoted "*." into "(.*\.)?" and every other quoted
\*  "*" into ".*"; before the fix in /repo the second replacement also rewrote the "*" inside
\*  the group, which made the group "(..*\.)?")
RECURSIVE Tok(_, _)
Tok(h, D) ==
    IF h = <<>> THEN <<>>
    ELSE IF h[1] = "*" /\ Len(h) >= 2 /\ h[2] = "."
         THEN (IF "OptionalSubdomain" \in D THEN <<"OPT">> ELSE <<"STAR", ".">>) \o Tok(SubSeq(h, 3, Len(h)), D)
    ELSE IF h[1] = "*" THEN <<"STAR">> \o Tok(Tail(h), D)
    ELSE IF h[1] = "." THEN <<(IF "UnescapedDotInPattern" \in D THEN "ANY" ELSE ".")>> \o Tok(Tail(h), D)
    ELSE <<h[1]>> \o Tok(Tail(h), D)

RECURSIVE RMatch(_, _)
RMatch(p, s) ==
    IF p = <<>> THEN s = <<>>
    ELSE CASE Head(p) = "STAR" -> RMatch(Tail(p), s) \/ (s # <<>> /\ RMatch(p, Tail(s)))
           [] Head(p) = "OPT"  -> RMatch(Tail(p), s) \/ RMatch(<<"STAR", ".">> \o Tail(p), s)
           [] Head(p) = "ANY"  -> s # <<>> /\ RMatch(Tail(p), Tail(s))
           [] OTHER            -> s # <<>> /\ Head(s) = Head(p) /\ RMatch(Tail(p), Tail(s))

L1Entry(o, a, D) ==
    /\ ~a.star                      \* url.Parse("*") has an empty scheme and an empty host
    /\ \/ a.scheme = o.scheme /\ HostPort(a) = HostPort(o)
       \/ /\ HasChar(a.host, "*")
          /\ ("WildcardIgnoresScheme" \in D \/ a.scheme = o.scheme)
          /\ RMatch(Tok(HostPort(a), D), HostPort(o))

L1(o, allow, D) ==
    IF allow = <<>> THEN "absent"
    ELSE CASE o.kind = "none" -> Fallback(allow)
           [] o.kind = "bare" -> "absent"            \* early return, '*' is not consulted
           [] OTHER -> IF \E i \in 1..Len(allow) : L1Entry(o, allow[i], D) THEN "echo" ELSE Fallback(allow)

\* deviation sets numbered 1..8 (mask = k-1; bit 1 dot, bit 2 scheme, bit 4 optional subdomain)
DevSet(k) == (IF (k - 1) % 2 = 1 THEN {"UnescapedDotInPattern"} ELSE {})
        \cup (IF ((k - 1) \div 2) % 2 = 1 THEN {"WildcardIgnoresScheme"} ELSE {})
        \cup (IF ((k - 1) \div 4) % 2 = 1 THEN {"OptionalSubdomain"} ELSE {})
L1Table(o, allow) == [k \in 1..8 |-> L1(o, allow, DevSet(k))]

\* ------------------------------------------------------------------ bounded model
Hosts == {"example.com", "a.example.com", "ab.example.com", "a.b.example.com", "exampleXcom",
          "a.exampleXcom", "aexample.com", "example.com.evil.org", "evil-example.com", "b.example.org"}
Ports == {0, 80, 443, 8080, 8443}

Origins == {Url(s, h, p) : s \in {"http", "https"}, h \in Hosts, p \in Ports}
           \cup {Bare(h) : h \in Hosts \cup {"null"}} \cup {NoOrigin}

Entries == {Pat("https", "example.com", 0), Pat("http", "example.com", 8080), Pat("https", "example.com", 443),
            Pat("https", "*.example.com", 0), Pat("https", "*.example.com", 8443), Pat("http", "*.example.com", 0),
            Pat("https", "a*.example.com", 0), Pat("https", "*.example.*", 0), Pat("https", "*", 0),
            StarEntry}

AllowLists == UNION {{s \in [1..n -> Entries] : \A i, j \in 1..n : i # j => s[i] # s[j]} : n \in 0..MaxList}

VARIABLES allow, done
vars == <<allow, done>>
Init == allow \in AllowLists /\ done = FALSE
Next == ~done /\ done' = TRUE /\ UNCHANGED allow
Spec == Init /\ [][Next]_vars

\* with every deviation switched off the code-shaped layer is the statement (the zero-length '*' reading)
DeviationsExplainAll ==
    done => \A o \in Origins :
        /\ L1(o, allow, {}) \in Acceptable(o, allow)
        /\ (o.kind = "url" => (L1(o, allow, {}) = "echo" <=> MayEcho(o, allow)))

\* generator: one case per (origin, allow list)
EmitCases ==
    done => \A o \in Origins :
        LET acc == Acceptable(o, allow) IN
        Emit("CASE", [o |-> o, allow |-> allow,
                      acc |-> [echo |-> "echo" \in acc, star |-> "star" \in acc, absent |-> "absent" \in acc],
                      l1 |-> L1Table(o, allow)])
=============================================================================
