SPECIFICATION TraceSpec
CONSTANTS
  ClassNames = {}
  MaxLen = 0
  Levels = {}
  Modes = {}
INVARIANT Verdicts
POSTCONDITION Accepted
CHECK_DEADLOCK FALSE
