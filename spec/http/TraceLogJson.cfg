SPECIFICATION TraceSpec
CONSTANTS
  ClassNames = {}
  MaxLen = 0
  Levels = {}
  Modes = {}
  L1Variant = "fixed"
INVARIANT Verdicts
POSTCONDITION Accepted
CHECK_DEADLOCK FALSE
