SPECIFICATION Spec
CONSTANTS
  ClassNames <- AllClasses
  MaxLen = 3
  Levels = {"debug", "info", "warn", "error"}
  Modes = {"arg"}
  L1Variant = "fixed"
INVARIANT DecoderSane
INVARIANT EmitCases
CHECK_DEADLOCK FALSE
