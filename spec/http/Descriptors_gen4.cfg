SPECIFICATION Spec
CONSTANT LinkLen = 4
INVARIANT LayersAgreeWhereDecided
INVARIANT EmitCases
CHECK_DEADLOCK FALSE
