SPECIFICATION Spec
CONSTANTS
  ClassNames <- BaseClasses
  MaxLen = 3
  Levels = {"warn"}
  Modes = {"arg"}
  L1Variant = "fixed"
INVARIANT DecoderSane
INVARIANT EmitCases
CHECK_DEADLOCK FALSE
