SPECIFICATION Spec
CONSTANTS
  ClassNames <- BaseClasses
  MaxLen = 3
  Levels = {"warn"}
  Modes = {"arg"}
INVARIANT DecoderSane
INVARIANT EmitCases
CHECK_DEADLOCK FALSE
