---------------------------- MODULE TraceMetrics ----------------------------
(* Trace validation for C36. One ndjson record per request answered by the REAL metrics.Metrics:
     ents      the entities the harness served (kind, attrs = documented labels with their values,
               readers, counters = every numeric field of the API struct by lower-case name, times 4)
     status, parseOK, dup     HTTP status / the strict parser accepted every line / a sample was repeated
     samples   the parsed samples that carry labels (kind and counter key derived from the metric name,
               labels, value times 4)
     nofilter  the request had no query
   TLC evaluates the statement's formula (Metrics.tla layer 2: Syntax, Unique, Faithful) on every
   record; entities missing from an unfiltered answer and answers whose fate differs from layer 1's
   prediction are DRIFT.                                                                          *)
EXTENDS Metrics

Trace == ndJsonDeserialize("C36_trace.ndjson")

VARIABLE l
TraceInit == l = 0 /\ focus = "all" /\ c1 = "plain" /\ c2 = "plain" /\ n = 1 /\ filter = "none" /\ ri = 0 /\ rk = 0 /\ done = FALSE
TraceNext == l < Len(Trace) /\ l' = l + 1 /\ UNCHANGED vars
TraceSpec == TraceInit /\ [][TraceNext]_<<l, vars>>

Verdicts ==
    l >= 1 => LET r == Trace[l]  f == Failing(r) IN
              /\ Monitor(f = {}, [l |-> l, monitors |-> f, bad |-> BadSamples(r), deviation |-> DeviationOf(r.ents)])
              /\ ((~r.nofilter \/ ~r.parseOK \/ Missing(r) \cup MissingReaders(r) = {})
                  \/ Emit("DRIFT", [l |-> l, what |-> "missing", ents |-> Missing(r) \cup MissingReaders(r)]))
              /\ ((L1Broken(r.ents) <=> (f # {})) \/ Emit("DRIFT", [l |-> l, what |-> "l1"]))
Accepted == TLCGet("stats").diameter - 1 = Len(Trace)
=============================================================================
