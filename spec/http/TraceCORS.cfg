SPECIFICATION TraceSpec
CONSTANT MaxList = 0
INVARIANT Verdicts
POSTCONDITION Accepted
CHECK_DEADLOCK FALSE
