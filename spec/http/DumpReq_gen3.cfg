SPECIFICATION Spec
CONSTANT MaxHeaders = 3
INVARIANTS DumpRedacts EmitCases
CHECK_DEADLOCK FALSE
