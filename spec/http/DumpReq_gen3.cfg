\* the current code, HTTP/1.1 and HTTP/2.0, requests of up to 3 header lines (thorough tier, in addition to DumpReq_gen.cfg)
SPECIFICATION Spec
CONSTANTS
  MaxHeaders = 3
  Protos = {"HTTP/1.1", "HTTP/2.0"}
  LowerBeforeLookup = FALSE
  GuardOnFirstValue = FALSE
INVARIANTS DumpRedacts EmitCases
CHECK_DEADLOCK FALSE
