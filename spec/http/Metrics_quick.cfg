SPECIFICATION Spec
CONSTANTS
  Classes <- AllClasses
  Focuses = {"paths", "forward_dests", "hls_sessions", "hls_muxers", "rtsp_conns", "rtsp_sessions", "rtsps_conns", "rtsps_sessions", "rtmp_conns", "rtmps_conns", "srt_conns", "webrtc_sessions", "moq_sessions", "all", "readers"}
  Counts = {1, 2}
  Filters = {"none", "type", "path"}
  L1Variant = "fixed"
  ReaderSteps = {1, 11}
  TwoFocuses = {"paths", "forward_dests", "hls_sessions", "hls_muxers", "rtsp_sessions", "srt_conns", "all"}
INVARIANT ModelSane
INVARIANT EmitCases
INVARIANT EmitParserTests
CHECK_DEADLOCK FALSE
