---------------------------- MODULE TracePaginate ----------------------------
(* Trace validation for C44: records produced by the real paginate() and the real
   /v3/paths/list endpoint on inputs outside the bounded model. Each record holds, for one
   (list length, itemsPerPage), the pages 0..pageCount+1 the real code returned. TLC evaluates
   the statement's formula (PartitionProp of Paginate.tla) on every record.                  *)
EXTENDS Paginate

Trace == ndJsonDeserialize("C44_trace.ndjson")

VARIABLE l
TraceInit == l = 0 /\ n = 0 /\ ipp = EmptyTok /\ res = <<>> /\ done = FALSE
TraceNext == l < Len(Trace) /\ l' = l + 1 /\ UNCHANGED vars
TraceSpec == TraceInit /\ [][TraceNext]_<<l, vars>>

RecOK(r) ==
    IF ~r.ippValid THEN r.err
    ELSE /\ ~r.err
         /\ PartitionProp(r.n, r.ipp, r.pc, r.pages)
         /\ \A k \in 1..Len(r.pcs) : r.pcs[k] = r.pc
         /\ r.page0default = r.pages[1]
         /\ r.farItems = <<>>
         /\ \A k \in 1..Len(r.badPageErr) : r.badPageErr[k]

Verdicts == l >= 1 => Monitor(RecOK(Trace[l]), [l |-> l, run |-> Trace[l].run, via |-> Trace[l].via,
                                                n |-> Trace[l].n, ippTok |-> Trace[l].ippTok])
Accepted == TLCGet("stats").diameter - 1 = Len(Trace)
=============================================================================
