SPECIFICATION Spec
CONSTANT MaxN = 7
INVARIANT ImplSatisfiesProp
INVARIANT EmitCases
CHECK_DEADLOCK FALSE
