SPECIFICATION Spec
CONSTANTS
  Classes <- AllClasses
  Focuses = {"paths", "forward_dests", "hls_sessions", "hls_muxers", "rtsp_conns", "rtsp_sessions", "rtsps_conns", "rtsps_sessions", "rtmp_conns", "rtmps_conns", "srt_conns", "webrtc_sessions", "moq_sessions", "all", "readers"}
  Counts = {1, 2}
  Filters = {"none", "type", "path"}
  L1Variant = "fixed"
  ReaderSteps = {1, 2, 3, 4, 5, 6, 7, 8, 9, 10, 11, 12, 13, 14, 15, 16, 17, 18, 19, 20, 21, 22, 23, 24, 25, 26, 27, 28, 29, 30, 31, 32, 33, 34}
  TwoFocuses = {"paths", "forward_dests", "hls_sessions", "hls_muxers", "rtsp_conns", "rtsp_sessions", "rtsps_conns", "rtsps_sessions", "rtmp_conns", "rtmps_conns", "srt_conns", "webrtc_sessions", "moq_sessions", "all", "readers"}
INVARIANT ModelSane
INVARIANT EmitCases
INVARIANT EmitParserTests
CHECK_DEADLOCK FALSE
