SPECIFICATION Spec
CONSTANTS
  ClassNames <- AllClasses
  MaxLen = 2
  Levels = {"debug", "info", "warn", "error"}
  Modes = {"arg", "fmt"}
  L1Variant = "fixed"
INVARIANT DecoderSane
INVARIANT EmitCases
CHECK_DEADLOCK FALSE
