SPECIFICATION Spec
CONSTANTS
  Procs = {"a", "b"}
INVARIANT AtomicOutput
INVARIANT NoteCorruption
INVARIANT ConcVerdicts
POSTCONDITION SharedLockCorrupts
CHECK_DEADLOCK FALSE
