------------------------------ MODULE TraceCORS ------------------------------
(* Trace validation for C05: records produced by the real isOriginAllowed / handlerOrigin /
   httpp.Server on random origins and allow lists outside the bounded model. TLC evaluates the
   statement's formula (Acceptable of CORS.tla) on every record; a failing record is reported
   with the table of layer-1 outcomes so the driver can name the deviation that explains it.
   A record whose header differs from layer 1 with all deviations on is DRIFT.              *)
EXTENDS CORS

Trace == ndJsonDeserialize("C05_trace.ndjson")

VARIABLE l
TraceInit == l = 0 /\ allow = <<>> /\ done = FALSE
TraceNext == l < Len(Trace) /\ l' = l + 1 /\ UNCHANGED vars
TraceSpec == TraceInit /\ [][TraceNext]_<<l, vars>>

RecOK(r) == r.hdr \in Acceptable(r.o, r.allow)

Verdicts ==
    l >= 1 => LET r == Trace[l] IN
        /\ Monitor(RecOK(r), [l |-> l, l1 |-> L1Table(r.o, r.allow)])
        /\ (L1(r.o, r.allow, CodeDevs) = r.hdr \/ Emit("DRIFT", [l |-> l, l1 |-> L1(r.o, r.allow, CodeDevs)]))
Accepted == TLCGet("stats").diameter - 1 = Len(Trace)
=============================================================================
