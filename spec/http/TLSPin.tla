------------------------------- MODULE TLSPin -------------------------------
(* C41  TLS fingerprint pinning accepts exactly the pinned certificate
        (internal/protocols/tls/make_config.go: MakeConfig; users: auth.Manager http / JWKS,
         static sources, forwarding)

   Layer 2, the statement: when a fingerprint is configured, the connection succeeds ONLY IF
   the SHA-256 of the server's leaf certificate equals the fingerprint, compared
   case-insensitively, regardless of the certificate chain's validity        (PinOK).
   The converse (a matching pin connects even when the chain is invalid) is what layer 1 does;
   a real connection that fails although the pin matches is reported as DRIFT, not as a verdict.
   Without a fingerprint the statement says nothing.

   Ground truth (Match): a fingerprint is the hash of a named certificate written in some
   form; only the forms that differ from the lower-case hex text by letter case are equal to it
   ignoring case (SHA-256 is taken to be collision free).

   Layer 1 follows MakeConfig: empty fingerprint -> nil config (default verification against
   the roots the process trusts); otherwise InsecureSkipVerify plus VerifyConnection comparing
   ToLower(fingerprint) with the lower-case hex of sha256(PeerCertificates[0]).             *)
EXTENDS VerifCommon

CONSTANTS Vias      \* subset of {"dial", "httpget", "authhttp", "jwks"}: how the connection is made

\* certificates the servers of the harness present (leaf first; the CA-signed ones send the CA too)
\*   valid: signed by the harness CA (trusted by the harness process), right host, in date
Certs == {"Avalid", "Aself", "Aexpired", "Awronghost", "Bvalid", "Bself"}
ChainValid(cert) == cert \in {"Avalid", "Bvalid"}
Versions == {"tls12", "tls13"}

\* fingerprints: hash of a certificate (or of the CA certificate) in a written form
CaseForms  == {"lower", "upper", "mixed"}           \* the hex text in lower / upper / alternating case
OtherForms == {"short16",                           \* only the first 16 hex digits
               "long",                              \* the hex text followed by "00"
               "colons",                            \* AA:BB:... as printed by openssl
               "space",                             \* the hex text with a leading blank
               "garbage"}                           \* 64 characters that are not hex digits
FP(of, form) == [of |-> of, form |-> form]
NoFP == FP("", "empty")
FPs == {FP(of, f) : of \in Certs \cup {"CA"}, f \in CaseForms}
       \cup {FP(of, f) : of \in Certs, f \in OtherForms} \cup {NoFP}

Case(via, served, ver, fp) == [via |-> via, served |-> served, ver |-> ver, fp |-> fp]
Cases == {Case(v, s, tv, fp) : v \in Vias, s \in Certs, tv \in Versions, fp \in FPs}

\* ------------------------------------------------------------------ layer 2
Match(c) == c.fp.form \in CaseForms /\ c.fp.of = c.served
Configured(c) == c.fp.form # "empty"
PinOK(c, success) == Configured(c) => (success => Match(c))

\* ------------------------------------------------------------------ layer 1
ToLowerImpl(fp) == IF fp.form \in CaseForms THEN FP(fp.of, "lower") ELSE fp
ConnectImpl(c) ==
    IF c.fp.form = "empty" THEN ChainValid(c.served)
    ELSE ToLowerImpl(c.fp) = FP(c.served, "lower")

\* ------------------------------------------------------------------ bounded model
VARIABLES c, res, done
vars == <<c, res, done>>
Init == c \in Cases /\ res = FALSE /\ done = FALSE
Eval == ~done /\ done' = TRUE /\ res' = ConnectImpl(c) /\ UNCHANGED c
Next == Eval
Spec == Init /\ [][Next]_vars

ImplSatisfiesProp == done => PinOK(c, res)
\* layer 1 is even exact: with a fingerprint it connects iff the pin matches, whatever the chain
ImplExact == (done /\ Configured(c)) => (res <=> Match(c))
EmitCases == done => Emit("CASE", [c |-> c, l1 |-> res, match |-> Match(c)])
=============================================================================
