------------------------------- MODULE TLSPin -------------------------------
(* C41  TLS fingerprint pinning accepts exactly the pinned certificate
        (internal/protocols/tls/make_config.go: MakeConfig; users: auth.Manager http / JWKS,
         static sources, forwarding)

   Layer 2, the statement: when a fingerprint is configured, the connection succeeds ONLY IF
   the SHA-256 of the server's leaf certificate equals the fingerprint, compared
   case-insensitively, regardless of the certificate chain's validity        (PinOK).
   The converse (a matching pin connects even when the chain is invalid) is what layer 1 does;
   a real connection that fails although the pin matches is reported as DRIFT, not as a verdict.
   Without a fingerprint the statement says nothing.
   History independence: the statement decides a connection from its own fingerprint and the
   certificate the server presents, nothing else. A sequence case is a list of connections made
   one after the other in ONE process to the same server (application data is exchanged on every
   successful one, so that TLS session tickets are delivered and a later connection could be a
   resumption); every connection i is judged by PinOK on StepCase(c, i), which does not mention
   the earlier ones: a pin that was verified by an earlier connection, possibly made with another
   configuration, proves nothing about this one.

   Ground truth (Match): a fingerprint is the hash of a named certificate written in some
   form; only the forms that differ from the lower-case hex text by letter case are equal to it
   ignoring case (SHA-256 is taken to be collision free).

   Layer 1 follows MakeConfig: empty fingerprint -> nil config (default verification against
   the roots the process trusts); otherwise InsecureSkipVerify plus VerifyConnection comparing
   ToLower(fingerprint) with the lower-case hex of sha256(PeerCertificates[0]).             *)
EXTENDS VerifCommon

CONSTANTS Vias      \* subset of {"dial", "httpget", "authhttp", "jwks"}: how the connection is made

\* certificates the servers of the harness present (leaf first; the CA-signed ones send the CA too)
\*   valid: signed by the harness CA (trusted by the harness process), right host, in date
Certs == {"Avalid", "Aself", "Aexpired", "Awronghost", "Bvalid", "Bself"}
ChainValid(cert) == cert \in {"Avalid", "Bvalid", "Areissued"}
Versions == {"tls12", "tls13"}

\* fingerprints: hash of a certificate (or of the CA certificate) in a written form
CaseForms  == {"lower", "upper", "mixed"}           \* the hex text in lower / upper / alternating case
OtherForms == {"short16",                           \* only the first 16 hex digits
               "long",                              \* the hex text followed by "00"
               "colons",                            \* AA:BB:... as printed by openssl
               "space",                             \* the hex text with a leading blank
               "garbage"}                           \* 64 characters that are not hex digits
FP(of, form) == [of |-> of, form |-> form]
NoFP == FP("", "empty")
FPs == {FP(of, f) : of \in Certs \cup {"CA"}, f \in CaseForms}
       \cup {FP(of, f) : of \in Certs, f \in OtherForms} \cup {NoFP}

Case(via, served, ver, fp) == [via |-> via, served |-> served, ver |-> ver, fp |-> fp]
Cases == {Case(v, s, tv, fp) : v \in Vias, s \in Certs, tv \in Versions, fp \in FPs}

\* sequences of connections to one server; steps = the fingerprints of the successive connections
SeqCase(via, served, ver, fps) == [via |-> via, served |-> served, ver |-> ver, steps |-> fps]
IsSeq(x) == "steps" \in DOMAIN x
StepCase(sc, i) == Case(sc.via, sc.served, sc.ver, sc.steps[i])
OtherCert(s) == IF s = "Bvalid" THEN "Avalid" ELSE "Bvalid"
\* matching pin, the same in other letter case, the pin of another certificate, no pin (chain valid or not: by `served`)
SeqPins(s) == {FP(s, "lower"), FP(s, "upper"), FP(OtherCert(s), "lower"), NoFP}
SeqServed == {"Avalid", "Aself", "Aexpired"}
SeqCasesOf(s) ==
    {SeqCase(v, s, tv, <<a, b>>) : v \in Vias, tv \in Versions, a \in SeqPins(s), b \in SeqPins(s)}
    \cup {SeqCase(v, s, tv, <<a, b, e>>) : v \in Vias, tv \in Versions,
                                          a \in {FP(s, "lower"), FP(OtherCert(s), "lower")}, b \in SeqPins(s),
                                          e \in {FP(OtherCert(s), "lower"), FP(s, "lower")}}
SeqCases == UNION {SeqCasesOf(s) : s \in SeqServed}

\* sequences on ONE reused configuration (one tls.Config / http.Client / auth.Manager pinned to Avalid)
\* while the server changes the certificate it presents between the connections:
\*   AfSame     forged: another key, but the issuer DN and serial number of Avalid (signed by a look-alike CA)
\*   AfSubj     another key, the subject and SANs of Avalid (self-signed)
\*   Areissued  Avalid's key and subject re-issued by the CA with another serial number
\* None of them has Avalid's SHA-256; what an earlier connection of the same configuration accepted
\* proves nothing about the certificate presented now.
SwapCerts == {"Avalid", "AfSame", "AfSubj", "Areissued"}
SwapCase(via, ver, fp, certs) == [via |-> via, ver |-> ver, fp |-> fp, certs |-> certs]
IsSwap(x) == "certs" \in DOMAIN x
SwapStep(sc, i) == Case(sc.via, sc.certs[i], sc.ver, sc.fp)
SwapCases ==
    {SwapCase(v, tv, FP("Avalid", "lower"), <<a, b>>) : v \in Vias, tv \in Versions, a \in SwapCerts, b \in SwapCerts}
    \cup {SwapCase(v, tv, FP("Avalid", "lower"), <<"Avalid", b, e>>) : v \in Vias, tv \in Versions,
                                                                      b \in SwapCerts, e \in SwapCerts}
\* the steps of a sequence case of either kind
NSteps(x) == IF IsSwap(x) THEN Len(x.certs) ELSE Len(x.steps)
StepOf(x, i) == IF IsSwap(x) THEN SwapStep(x, i) ELSE StepCase(x, i)
IsMulti(x) == IsSeq(x) \/ IsSwap(x)

\* ------------------------------------------------------------------ layer 2
Match(c) == c.fp.form \in CaseForms /\ c.fp.of = c.served
Configured(c) == c.fp.form # "empty"
PinOK(c, success) == Configured(c) => (success => Match(c))

\* ------------------------------------------------------------------ layer 1
ToLowerImpl(fp) == IF fp.form \in CaseForms THEN FP(fp.of, "lower") ELSE fp
ConnectImpl(c) ==
    IF c.fp.form = "empty" THEN ChainValid(c.served)
    ELSE ToLowerImpl(c.fp) = FP(c.served, "lower")

\* ------------------------------------------------------------------ bounded model
VARIABLES c, res, done
vars == <<c, res, done>>
Init == c \in Cases \cup SeqCases \cup SwapCases /\ res = FALSE /\ done = FALSE
\* layer 1 keeps nothing between connections: a sequence is decided connection by connection
Eval == /\ ~done /\ done' = TRUE /\ UNCHANGED c
        /\ res' = IF IsMulti(c) THEN [i \in 1..NSteps(c) |-> ConnectImpl(StepOf(c, i))] ELSE ConnectImpl(c)
Next == Eval
Spec == Init /\ [][Next]_vars

ImplSatisfiesProp ==
    done => IF IsMulti(c) THEN \A i \in 1..NSteps(c) : PinOK(StepOf(c, i), res[i]) ELSE PinOK(c, res)
\* layer 1 is even exact: with a fingerprint it connects iff the pin matches, whatever the chain
Exact(x, r) == Configured(x) => (r <=> Match(x))
ImplExact ==
    done => IF IsMulti(c) THEN \A i \in 1..NSteps(c) : Exact(StepOf(c, i), res[i]) ELSE Exact(c, res)
EmitCases ==
    done => IF IsMulti(c)
            THEN Emit("CASE", [c |-> c, l1 |-> res, match |-> [i \in 1..NSteps(c) |-> Match(StepOf(c, i))]])
            ELSE Emit("CASE", [c |-> c, l1 |-> res, match |-> Match(c)])
=============================================================================
