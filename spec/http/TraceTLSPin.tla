----------------------------- MODULE TraceTLSPin -----------------------------
(* Trace validation for C41: one record per real TLS connection attempt made with
   tls.MakeConfig(fingerprint) (directly, through net/http, through auth.Manager's http method
   and JWKS download) against the TLS servers of the harness. The record carries the case, whether
   the connection succeeded, and `eqfold`: the harness's own comparison of the fingerprint text
   with the hex SHA-256 of the certificate the server was given (strings.EqualFold).
   TLC evaluates the statement (PinOK) on every record.                                      *)
EXTENDS TLSPin

Trace == ndJsonDeserialize("C41_trace.ndjson")

VARIABLE l
TraceInit == l = 0 /\ c = <<>> /\ res = FALSE /\ done = FALSE
TraceNext == l < Len(Trace) /\ l' = l + 1 /\ UNCHANGED vars
TraceSpec == TraceInit /\ [][TraceNext]_<<l, vars>>

\* the statement on the observation, with the pin equality taken from the token table and,
\* independently, from the harness's comparison of the real texts
RecOK(r) == PinOK(r.c, r.success) /\ (Configured(r.c) => (r.success => r.eqfold))

Verdicts == l >= 1 => Monitor(RecOK(Trace[l]), [l |-> l])
\* the token table and the real texts must agree (otherwise the harness is wrong)
Harness  == l >= 1 => ((Trace[l].eqfold = Match(Trace[l].c)) \/ Emit("HARNESS", [l |-> l]))
Drift    == l >= 1 => ((Trace[l].success = ConnectImpl(Trace[l].c)) \/ Emit("DRIFT", [l |-> l]))
Accepted == TLCGet("stats").diameter - 1 = Len(Trace)
=============================================================================
