----------------------------- MODULE TraceTLSPin -----------------------------
(* Trace validation for C41: one record per real TLS connection attempt made with
   tls.MakeConfig(fingerprint) (directly, through net/http, through auth.Manager's http method
   and JWKS download) against the TLS servers of the harness. The record carries the case, whether
   the connection succeeded, and `eqfold`: the harness's own comparison of the fingerprint text
   with the hex SHA-256 of the certificate the server was given (strings.EqualFold).
   TLC evaluates the statement (PinOK) on every record.                                      *)
EXTENDS TLSPin

Trace == ndJsonDeserialize("C41_trace.ndjson")

VARIABLE l
TraceInit == l = 0 /\ c = <<>> /\ res = FALSE /\ done = FALSE
TraceNext == l < Len(Trace) /\ l' = l + 1 /\ UNCHANGED vars
TraceSpec == TraceInit /\ [][TraceNext]_<<l, vars>>

\* the statement on one observed connection, with the pin equality taken from the token table and,
\* independently, from the harness's comparison of the real texts
ConnOK(x, o) == PinOK(x, o.success) /\ (Configured(x) => (o.success => o.eqfold))

\* a sequence record holds one observation per connection (r.steps); connection i is judged on
\* StepCase(c, i) alone: history independence
Verdicts ==
    l >= 1 => LET r == Trace[l] IN
              IF IsMulti(r.c) THEN \A i \in 1..NSteps(r.c) : Monitor(ConnOK(StepOf(r.c, i), r.steps[i]), [l |-> l, step |-> i])
              ELSE Monitor(ConnOK(r.c, r), [l |-> l, step |-> 0])
\* the token table and the real texts must agree (otherwise the harness is wrong)
Harness ==
    l >= 1 => LET r == Trace[l] IN
              IF IsMulti(r.c) THEN \A i \in 1..NSteps(r.c) : ((r.steps[i].eqfold = Match(StepOf(r.c, i))) \/ Emit("HARNESS", [l |-> l, step |-> i]))
              ELSE (r.eqfold = Match(r.c)) \/ Emit("HARNESS", [l |-> l, step |-> 0])
Drift ==
    l >= 1 => LET r == Trace[l] IN
              IF IsMulti(r.c) THEN \A i \in 1..NSteps(r.c) : ((r.steps[i].success = ConnectImpl(StepOf(r.c, i))) \/ Emit("DRIFT", [l |-> l, step |-> i]))
              ELSE (r.success = ConnectImpl(r.c)) \/ Emit("DRIFT", [l |-> l, step |-> 0])
Accepted == TLCGet("stats").diameter - 1 = Len(Trace)
=============================================================================
