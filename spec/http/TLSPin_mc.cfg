SPECIFICATION Spec
CONSTANTS
  Vias = {"dial", "httpget", "authhttp", "jwks"}
INVARIANT ImplSatisfiesProp
INVARIANT ImplExact
CHECK_DEADLOCK FALSE
