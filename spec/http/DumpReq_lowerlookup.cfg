\* regression LowercasedNameLookup (LowerBeforeLookup = TRUE): TLC must report DumpRedacts violated
\* (a credential header of an HTTP/2 or HTTP/3 request is printed verbatim)
SPECIFICATION Spec
CONSTANTS
  MaxHeaders = 1
  Protos = {"HTTP/1.0", "HTTP/1.1", "HTTP/2.0", "HTTP/3.0"}
  LowerBeforeLookup = TRUE
  GuardOnFirstValue = FALSE
INVARIANTS DumpRedacts
CHECK_DEADLOCK FALSE
