------------------------------ MODULE Metrics ------------------------------
(* C36  Metrics exposition is always valid and faithful   (internal/metrics/metrics.go)

   Texts (label values, lines) are sequences of Unicode code points (integers); metric names,
   label names and entity kinds are TLC strings.

   Layer 2 (the statement), evaluated on one answer of the metrics endpoint:
     Syntax    the body is valid Prometheus text format (exposition_formats.md: lines ending in LF;
               comments; `name{label="value",...} value [timestamp]`; in a label value backslash,
               double quote and line feed are written \\ \" \n and nothing else is an escape);
               decided by the harness's strict parser, which is itself checked against Render
               below (TLC-generated conformant and non-conformant lines) in every run
     Unique    no two samples with the same name and label set (same document)
     Faithful  every sample that carries labels corresponds to an entity: there is an entity of the
               sample's kind such that every label of the sample has the entity's value for that
               label (label names as documented in docs/2-features/22-metrics.md) and the value is
               the entity's counter named by the metric (1 for the presence gauge <kind>{...};
               paths_readers = number of readers of the labelled type). Metrics whose name maps to
               no counter of the entity are left open (counted). Samples without labels (the
               aggregate zero lines of empty kinds) and completeness (that every entity shows up)
               are not constrained by the statement; missing entities are DRIFT.

   The reader multiset of a path is a dimension of the bounded model (family "readers": three paths per scrape,
   each with one of the 35 multisets of <= 4 readers over three reader types, listed unsorted); every
   paths_readers sample is judged by value against the path's readers.

   Layer 1 (the code): label values are written with \ " LF escaped (labelValueEscaper), so no answer
   is predicted broken. The behaviour before the fix (commit "escape label values in the metrics
   exposition") is kept as the named deviation "RawLabelValues": values written between the quotes as
   they are, an answer is broken iff some label value contains \ " or LF. Constant L1Variant selects
   which of the two layer 1 is ("fixed" by default); whatever it is, a failing answer that the deviation
   predicts broken is reported with deviation = "RawLabelValues".                                  *)
EXTENDS VerifCommon

CONSTANTS Classes,      \* label-string classes of the bounded model
          Focuses,      \* which kinds are populated: a kind, or "all"
          Counts,       \* entities per populated kind (subset of {1, 2})
          Filters,      \* subset of {"none", "type", "path"}
          L1Variant,    \* "fixed" (the current code) or the name of a deviation: "RawLabelValues"
          ReaderSteps,  \* family "readers": path 2 / path 3 have reader multiset number i+k / i+2k+3 for k in ReaderSteps
          TwoFocuses    \* the focuses that are also populated with two entities per kind (then without filter
                        \* unless TwoFocuses = Focuses)

\* ------------------------------------------------------------------ code points
Ascii == " !\"#$%&'()*+,-./0123456789:;<=>?@ABCDEFGHIJKLMNOPQRSTUVWXYZ[\\]^_`abcdefghijklmnopqrstuvwxyz{|}~"
Ord(ch) == 31 + CHOOSE i \in 1..Len(Ascii) : SubSeq(Ascii, i, i) = ch
Cp(s) == [i \in 1..Len(s) |-> Ord(SubSeq(s, i, i))]

CpCam == Cp("cam")
CpPunct == Cp("a{},= #b")
CpUuidHead == Cp("00000000-0000-4000-8000-0000000000")
CpRemote1 == Cp("10.0.0.1:5001")
CpRemote2 == Cp("[fe80::2]:5002")
CpPublish == Cp("publish")
CpRead == Cp("read")
CpReady == Cp("ready")
CpNotReady == Cp("notReady")
CpRtmp == Cp("rtmp")
CpSrt == Cp("srt")
CpForwarding == Cp("forwarding")
CpError == Cp("error")
CpRtspSession == Cp("rtspSession")
CpRtmpConn == Cp("rtmpConn")
CpWebRTCSession == Cp("webRTCSession")
CpK == Cp("k")

ClassStr(c) ==
    CASE c = "plain"     -> CpCam
      [] c = "quote"     -> <<97, 34, 98>>                     \* a"b
      [] c = "bslash"    -> <<97, 92, 98>>                     \* a\b
      [] c = "bslashn"   -> <<97, 92, 110>>                    \* a\n  (backslash, letter n)
      [] c = "bslashend" -> <<97, 92>>                         \* a\
      [] c = "newline"   -> <<97, 10, 98>>                     \* a LF b
      [] c = "punct"     -> CpPunct
      [] c = "nonascii"  -> <<233, 8364, 128512>>
      [] c = "empty"     -> <<>>
AllClasses == {"plain", "quote", "bslash", "bslashn", "bslashend", "newline", "punct", "nonascii", "empty"}

\* the client-chosen string of the idx-th entity of a kind (the digit keeps two entities apart)
Str(idx, c) == IF c = "empty" THEN <<>> ELSE <<48 + idx>> \o ClassStr(c)
NeedsEscape(v) == \E i \in 1..Len(v) : v[i] \in {92, 34, 10}

\* ------------------------------------------------------------------ entities
Kinds == <<"paths", "forward_dests", "hls_sessions", "hls_muxers", "rtsp_conns", "rtsp_sessions",
           "rtsps_conns", "rtsps_sessions", "rtmp_conns", "rtmps_conns", "srt_conns",
           "webrtc_sessions", "moq_sessions">>
KindNo(k) == CHOOSE i \in 1..Len(Kinds) : Kinds[i] = k

Digits2(n) == <<48 + (n \div 10), 48 + (n % 10)>>
Uuid(g) == CpUuidHead \o Digits2(g)
Remote(idx) == IF idx = 1 THEN CpRemote1 ELSE CpRemote2
SessState(idx) == IF idx = 1 THEN CpPublish ELSE CpRead
A(k, v) == [k |-> k, v |-> v]

\* label names per kind as documented
Attrs(kind, g, idx, s) ==
    CASE kind = "paths"         -> <<A("name", s), A("state", IF idx = 1 THEN CpReady ELSE CpNotReady)>>
      [] kind = "hls_muxers"    -> <<A("name", s)>>
      [] kind = "hls_sessions"  -> <<A("id", Uuid(g)), A("path", s), A("remoteAddr", Remote(idx))>>
      [] kind \in {"rtsp_conns", "rtsps_conns"} -> <<A("id", Uuid(g))>>
      [] kind = "forward_dests" -> <<A("id", Uuid(g)), A("path", s),
                                     A("protocol", IF idx = 1 THEN CpRtmp ELSE CpSrt),
                                     A("state", IF idx = 1 THEN CpForwarding ELSE CpError)>>
      [] OTHER -> <<A("id", Uuid(g)), A("path", s), A("remoteAddr", Remote(idx)), A("state", SessState(idx))>>

\* readers of the idx-th path outside the family "readers": none for a path of class "plain"; otherwise the
\* first path has three readers of two types and the second two readers of two types (one type in common)
Readers(idx, c) == IF c = "plain" THEN <<>>
                   ELSE IF idx = 1 THEN <<CpRtspSession, CpRtmpConn, CpRtspSession>>
                   ELSE <<CpWebRTCSession, CpRtspSession>>

\* family "readers": the reader MULTISET of a path is a dimension. A multiset over three reader types (in sorted
\* order rtmpConn < rtspSession < webRTCSession) is a vector <<na, nb, nc>> with na + nb + nc <= 4: all 35 of them
\* (none; all the same; 2+1 and 1+2 in every sorted position; 1+1+1; 2+2; 3+1; 2+1+1 ...). The readers are listed
\* round-robin from the last type, so the list is not sorted and equal types are not adjacent.
ReaderTypes == <<CpRtmpConn, CpRtspSession, CpWebRTCSession>>
ShapeList == SelectSeq([i \in 1..125 |-> <<(i - 1) \div 25, ((i - 1) \div 5) % 5, (i - 1) % 5>>],
                       LAMBDA v : v[1] + v[2] + v[3] <= 4)
NShapes == Len(ShapeList)
ShapeAt(k) == ShapeList[((k - 1) % NShapes) + 1]
RECURSIVE RoundRobin(_, _)
RoundRobin(v, t) ==
    IF v[1] + v[2] + v[3] = 0 THEN <<>>
    ELSE LET nt == IF t = 1 THEN 3 ELSE t - 1 IN
         IF v[t] > 0 THEN <<ReaderTypes[t]>> \o RoundRobin([v EXCEPT ![t] = v[t] - 1], nt) ELSE RoundRobin(v, nt)
ReadersOfShape(v) == RoundRobin(v, 3)
\* the three paths of scenario (i, k) of the family
ShapesOf(i, k) == <<ShapeAt(i), ShapeAt(i + k), ShapeAt(i + 2 * k + 3)>>

Populated(focus) == IF focus = "all" THEN Range(Kinds)
                    ELSE IF focus = "forward_dests" THEN {"paths", "forward_dests"}
                    ELSE IF focus = "readers" THEN {"paths"} ELSE {focus}

\* shapes = <<>> (readers by class) or one reader multiset per path
Entity(kind, idx, c, shapes) ==
    LET g == 2 * (KindNo(kind) - 1) + idx  s == Str(idx, c) IN
    [kind |-> kind, idx |-> idx, g |-> g, attrs |-> Attrs(kind, g, idx, s),
     ready |-> (idx = 1),
     readers |-> IF kind # "paths" THEN <<>> ELSE IF shapes = <<>> THEN Readers(idx, c) ELSE ReadersOfShape(shapes[idx])]

Entities(focus, cs, n, shapes) ==
    LET ks == SelectSeq(Kinds, LAMBDA k : k \in Populated(focus)) IN
    Flatten([i \in 1..Len(ks) |-> [idx \in 1..n |-> Entity(ks[i], idx, cs[idx], shapes)]])

\* ------------------------------------------------------------------ layer 2: the record formula
\* e: [kind, attrs, readers, counters (seq of [k, v4])];  s: [kind, key, labels (seq of [k, v]), val4, valOK]
AttrOf(e, k) == LET m == CHOOSE m \in 1..Len(e.attrs) : e.attrs[m].k = k IN e.attrs[m].v
HasAttr(e, k) == \E m \in 1..Len(e.attrs) : e.attrs[m].k = k
LabelOf(s, k) == LET m == CHOOSE m \in 1..Len(s.labels) : s.labels[m].k = k IN s.labels[m].v
HasLabel(s, k) == \E m \in 1..Len(s.labels) : s.labels[m].k = k
NReaders(e, t) == Cardinality({m \in 1..Len(e.readers) : e.readers[m] = t})

IsReaders(s) == s.kind = "paths" /\ s.key = "readers"
LabelsMatch(s, e) ==
    \A j \in 1..Len(s.labels) :
        LET lb == s.labels[j] IN
        IF IsReaders(s) /\ lb.k = "readerType" THEN TRUE
        ELSE HasAttr(e, lb.k) /\ AttrOf(e, lb.k) = lb.v
KeyKnown(s, e) == s.key = "" \/ IsReaders(s) \/ \E m \in 1..Len(e.counters) : e.counters[m].k = s.key
ValueMatch(s, e) ==
    /\ s.valOK
    /\ IF s.key = "" THEN s.val4 = 4
       ELSE IF IsReaders(s)
            THEN HasLabel(s, "readerType") /\ s.val4 = 4 * NReaders(e, LabelOf(s, "readerType"))
            ELSE \E m \in 1..Len(e.counters) : e.counters[m].k = s.key /\ e.counters[m].v4 = s.val4
Corresponds(s, e) == e.kind = s.kind /\ LabelsMatch(s, e) /\ (KeyKnown(s, e) => ValueMatch(s, e))
SampleOK(s, ents) == \E i \in 1..Len(ents) : Corresponds(s, ents[i])

BadSamples(r) == {j \in 1..Len(r.samples) : ~SampleOK(r.samples[j], r.ents)}
Failing(r) ==
    (IF r.status = 200 /\ r.parseOK THEN {} ELSE {"Syntax"}) \cup
    (IF r.dup THEN {"Unique"} ELSE {}) \cup
    (IF BadSamples(r) = {} THEN {} ELSE {"Faithful"})

\* DRIFT only: an entity without its presence sample in an unfiltered answer
Missing(r) == {i \in 1..Len(r.ents) :
                 ~\E j \in 1..Len(r.samples) : r.samples[j].key = "" /\ Corresponds(r.samples[j], r.ents[i])}
\* DRIFT only: a reader type of a path without its paths_readers sample in an unfiltered answer
MissingReaders(r) == {i \in 1..Len(r.ents) :
                        \E m \in 1..Len(r.ents[i].readers) :
                            ~\E j \in 1..Len(r.samples) :
                                /\ IsReaders(r.samples[j]) /\ HasLabel(r.samples[j], "readerType")
                                /\ LabelOf(r.samples[j], "readerType") = r.ents[i].readers[m]
                                /\ Corresponds(r.samples[j], r.ents[i])}
Deviations == {"RawLabelValues"}
RawBroken(ents) == \E i \in 1..Len(ents) : \E m \in 1..Len(ents[i].attrs) : NeedsEscape(ents[i].attrs[m].v)
L1Broken(ents) == IF L1Variant = "fixed" THEN FALSE ELSE RawBroken(ents)       \* L1Variant = "RawLabelValues"
DeviationOf(ents) == IF RawBroken(ents) THEN "RawLabelValues" ELSE "none"
ASSUME L1Variant \in {"fixed"} \cup Deviations

\* ------------------------------------------------------------------ rendering (parser self-check; layer 1 = esc FALSE)
EscCp(v, esc) ==
    Flatten([i \in 1..Len(v) |->
        IF ~esc THEN <<v[i]>>
        ELSE IF v[i] = 92 THEN <<92, 92>> ELSE IF v[i] = 34 THEN <<92, 34>> ELSE IF v[i] = 10 THEN <<92, 110>>
        ELSE <<v[i]>>])
RenderLabels(ls, esc) ==
    IF ls = <<>> THEN <<>>
    ELSE <<123>> \o Flatten([i \in 1..Len(ls) |->
                      (IF i > 1 THEN <<44>> ELSE <<>>) \o Cp(ls[i].k) \o <<61, 34>> \o EscCp(ls[i].v, esc) \o <<34>>])
         \o <<125>>
RenderLine(name, ls, valtxt, esc) == Cp(name) \o RenderLabels(ls, esc) \o <<32>> \o Cp(valtxt) \o <<10>>

ParserTests ==
    LET one(c, esc) == [text |-> RenderLine("m_x", <<A("l1", Str(1, c)), A("z", CpK)>>, "7", esc),
                        conformant |-> esc \/ ~NeedsEscape(Str(1, c)),
                        name |-> "m_x", labels |-> <<A("l1", Str(1, c)), A("z", CpK)>>, val4 |-> 28, class |-> c]
    IN  { one(c, e) : c \in AllClasses, e \in BOOLEAN }

\* lines with a fixed verdict (format documentation), LF appended unless said otherwise
SyntaxTests ==
    LET t(txt, ok) == [text |-> Cp(txt) \o <<10>>, conformant |-> ok] IN
    { t("m_x 7", TRUE), t("m_x 7 1395066363000", TRUE), t("m_x{a=\"b\",} 7", TRUE), t("m_x{} 7", TRUE),
      t("m:x{a=\"b\"}   7.5e3", TRUE), t("# HELP m_x some text {", TRUE), t("# TYPE m_x gauge", TRUE),
      t("# anything \" {", TRUE), t("m_x NaN", TRUE), t("m_x +Inf", TRUE), t("", TRUE), t("m_x{a=\"\\\\ \\\" \\n\"} 7", TRUE),
      t("m_x", FALSE), t("m_x{a=\"b\"}", FALSE), t("m_x{1a=\"b\"} 7", FALSE), t("m_x{a=b} 7", FALSE),
      t("m_x{a=\"\\t\"} 7", FALSE), t("m_x abc", FALSE), t("m-x 7", FALSE), t("m_x 7 8 9", FALSE),
      t("m_x{a=\"b\" c=\"d\"} 7", FALSE), t("m_x{a=\"b\"", FALSE), t("m_x{a:b=\"c\"} 7", FALSE), t("m_x 7 x", FALSE),
      t("m_x{a=\"b\",a=\"c\"} 7", FALSE), t("# TYPE m_x nonsense", FALSE),
      [text |-> Cp("m_x 7"), conformant |-> FALSE] }

\* ------------------------------------------------------------------ bounded model
VARIABLES focus, c1, c2, n, filter, ri, rk, done
vars == <<focus, c1, c2, n, filter, ri, rk, done>>
IsReadersFam == focus = "readers"
Init == /\ focus \in Focuses /\ c1 \in Classes /\ c2 \in Classes /\ n \in Counts \cup {3} /\ filter \in Filters
        /\ ri \in 0..NShapes /\ rk \in ReaderSteps \cup {0}
        /\ IF focus = "readers"
           THEN n = 3 /\ c1 = "punct" /\ c2 = "nonascii" /\ filter = "none" /\ ri >= 1 /\ rk \in ReaderSteps
           ELSE /\ n \in Counts /\ ri = 0 /\ rk = 0
                /\ (n = 1 => c2 = c1)                                    \* c2 unused
                /\ (n = 2 => ~(c1 = "empty" /\ c2 = "empty"))            \* two entities need different names
                /\ (filter = "path" => focus \in {"paths", "forward_dests", "all"})
                /\ (n = 2 => focus \in TwoFocuses /\ (TwoFocuses # Focuses => filter = "none"))
        /\ done = FALSE
Next == ~done /\ done' = TRUE /\ UNCHANGED <<focus, c1, c2, n, filter, ri, rk>>
Spec == Init /\ [][Next]_vars

CurShapes == IF focus = "readers" THEN ShapesOf(ri, rk) ELSE <<>>
CurEntities == Entities(focus, <<c1, c2, "plain">>, n, CurShapes)

Scenario ==
    LET ents == CurEntities IN
    [focus |-> focus, c1 |-> c1, c2 |-> c2, n |-> n, filter |-> filter, ents |-> ents,
     shapes |-> CurShapes,
     typeArg |-> IF focus \in {"all", "readers"} THEN "paths" ELSE focus,
     pathArg |-> Str(1, c1),
     l1broken |-> L1Broken(ents)]

\* the model is consistent: entities are distinguishable by their labels, rendering with escapes is
\* injective on the classes, and layer 1 coincides with the conformant rendering exactly when nothing
\* needs escaping
ModelSane ==
    done => LET ents == CurEntities IN
            /\ \A i, j \in 1..Len(ents) : (i # j /\ ents[i].kind = ents[j].kind) => ents[i].attrs # ents[j].attrs
            /\ \A i \in 1..Len(ents) : \A m \in 1..Len(ents[i].attrs) :
                   LET v == ents[i].attrs[m].v IN (EscCp(v, TRUE) = EscCp(v, FALSE)) <=> ~NeedsEscape(v)
            /\ NShapes = 35
            /\ \A i \in 1..Len(ents) : \A t \in 1..3 :
                   CurShapes # <<>> => NReaders(ents[i], ReaderTypes[t]) = CurShapes[ents[i].idx][t]

EmitCases == done => Emit("CASE", Scenario)
EmitParserTests == (done /\ focus = "paths" /\ c1 = "plain" /\ n = 1 /\ filter = "none") =>
                       /\ \A t \in ParserTests : Emit("PTEST", t)
                       /\ \A t \in SyntaxTests : Emit("STEST", t)
=============================================================================
