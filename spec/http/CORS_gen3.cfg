SPECIFICATION Spec
CONSTANT MaxList = 3
INVARIANT DeviationsExplainAll
INVARIANT EmitCases
CHECK_DEADLOCK FALSE
