------------------------------ MODULE DumpReq ------------------------------
(* C07 (second sentence)  Debug dumps of HTTP requests never contain Authorization, Cookie or
   similar credential header values  (internal/protocols/httpp/handler_logger.go dumpRequest,
   requestHeadersToRedact; reached through handlerLogger of httpp.Server at log level debug).

   A request is a protocol version plus a sequence of header lines as a client writes them (any
   spelling of the name). The HTTP server canonicalizes names before the handler sees them
   (HTTP/2 and HTTP/3 carry them in lowercase on the wire).
   Layer 1: the dump prints every header line; the value is replaced when the name, as looked up,
            is in the code's list (canonical-case keys). The lookup uses the canonical name for every
            protocol version (LowerBeforeLookup = FALSE, the current code).
            Named regression "LowercasedNameLookup" (LowerBeforeLookup = TRUE): for ProtoMajor >= 2 the
            name is lowercased for display BEFORE the lookup, which then never matches
            (DumpReq_lowerlookup.cfg must violate DumpRedacts).
            Named regression "FirstValueGuard" (GuardOnFirstValue = TRUE): a field is redacted only if
            its FIRST value (Header.Get) is non-empty; `Authorization:` followed by
            `Authorization: Bearer secret` is then printed verbatim (DumpReq_firstvalue.cfg must violate).
   A field may occur several times; a value is a secret (marker), empty, or whitespace only (which the
   HTTP/1.x reader trims to empty).
   Layer 2 (statement): no value of a credential header occurs in the dump - whatever the protocol,
   however many values the field has and whatever stands in front of the secret.                 *)
EXTENDS VerifCommon

CONSTANTS MaxHeaders,
          Protos,               \* protocol versions of the requests (subset of DOMAIN ProtoMajor)
          LowerBeforeLookup,
          GuardOnFirstValue

ProtoMajor == ("HTTP/1.0" :> 1) @@ ("HTTP/1.1" :> 1) @@ ("HTTP/2.0" :> 2) @@ ("HTTP/3.0" :> 3)
ASSUME Protos \subseteq DOMAIN ProtoMajor

\* canonical name -> spellings a client may use
Spellings ==
    [x \in {} |-> {}] @@
    ("Authorization" :> {"Authorization", "authorization", "AUTHORIZATION", "aUtHoRiZaTiOn"}) @@
    ("Cookie" :> {"Cookie", "cookie", "COOKIE"}) @@
    ("Proxy-Authorization" :> {"Proxy-Authorization", "proxy-authorization", "PROXY-AUTHORIZATION"}) @@
    ("Set-Cookie" :> {"Set-Cookie", "set-cookie"}) @@
    ("X-Api-Key" :> {"X-Api-Key", "x-api-key", "X-API-KEY", "X-API-Key"}) @@
    ("X-Auth-Token" :> {"X-Auth-Token", "x-auth-token", "X-AUTH-TOKEN"}) @@
    ("Accept" :> {"Accept", "accept"}) @@
    ("X-Forwarded-For" :> {"X-Forwarded-For", "x-forwarded-for"}) @@
    ("User-Agent" :> {"User-Agent"}) @@
    ("X-Custom" :> {"X-Custom"})

\* the statement: "Authorization, Cookie or similar credential header"
CredentialHeaders == {"Authorization", "Cookie", "Proxy-Authorization", "Set-Cookie", "X-Api-Key", "X-Auth-Token"}
\* the code: requestHeadersToRedact
RedactList == {"Authorization", "Cookie", "Proxy-Authorization", "Set-Cookie", "X-Api-Key", "X-Auth-Token"}

Canon(sp) == CHOOSE c \in DOMAIN Spellings : sp \in Spellings[c]
AllSpellings == UNION {Spellings[c] : c \in DOMAIN Spellings}

\* a header line: spelling + value marker (the position in the request makes the value unique: "v<k>")
\* + what the value is: "s" a secret/marker, "e" empty, "w" whitespace only
LineK(sp, k, kind) == [name |-> sp, value |-> k, kind |-> kind]
Line(sp, k) == LineK(sp, k, "s")

\* value-list shapes of one field (every line the same name): one value, two, three, and an empty or
\* whitespace-only value before / after / between the secrets
ValueShapes == {<<"s">>, <<"s", "s">>, <<"e", "s">>, <<"s", "e">>, <<"w", "s">>, <<"s", "s", "s">>,
                <<"e", "e", "s">>, <<"e", "s", "s">>, <<"s", "e", "s">>, <<"w", "e", "s">>}

\* layer 1
\* the key with which requestHeadersToRedact is consulted; "lower:<name>" stands for the lowercased name,
\* which is no key of the (canonical-case) list unless the canonical name is itself lowercase (none is)
LookupKey(l, pr) == IF LowerBeforeLookup /\ ProtoMajor[pr] >= 2 THEN "lower:" \o Canon(l.name) ELSE Canon(l.name)
\* the first value of the field a line belongs to (Header.Get), for the regression FirstValueGuard
FirstKind(req, i) == LET j == CHOOSE j \in 1..Len(req) : /\ Canon(req[j].name) = Canon(req[i].name)
                                                         /\ \A m \in 1..(j - 1) : Canon(req[m].name) # Canon(req[i].name)
                     IN req[j].kind
Redacts(req, i, pr) == /\ LookupKey(req[i], pr) \in RedactList
                       /\ (GuardOnFirstValue => FirstKind(req, i) = "s")
DumpLine(req, i, pr) == [name |-> Canon(req[i].name),
                         shown |-> IF Redacts(req, i, pr) THEN 0 ELSE IF req[i].kind = "s" THEN req[i].value ELSE -1]   \* 0 = "<redacted>", -1 = nothing secret
Dump(req, pr) == [i \in 1..Len(req) |-> DumpLine(req, i, pr)]

\* layer 2
NoCredentialValue(req, dump) ==
    \A i \in 1..Len(req) : (Canon(req[i].name) \in CredentialHeaders /\ req[i].kind = "s") =>
        \A j \in 1..Len(dump) : dump[j].shown # req[i].value

VARIABLES req, proto, done
vars == <<req, proto, done>>
Init == req = <<>> /\ proto \in Protos /\ done = FALSE
Add(sp) == ~done /\ Len(req) < MaxHeaders /\ req' = Append(req, Line(sp, Len(req) + 1)) /\ UNCHANGED <<proto, done>>
Send == ~done /\ req # <<>> /\ done' = TRUE /\ UNCHANGED <<req, proto>>
\* a credential field with a list of values of some shape (same spelling on every line)
Shaped(c, sp, sh) == /\ ~done /\ req = <<>>
                     /\ req' = [i \in 1..Len(sh) |-> LineK(sp, i, sh[i])]
                     /\ UNCHANGED <<proto, done>>
Next == \/ Send
        \/ \E sp \in AllSpellings : Add(sp)
        \/ \E c \in CredentialHeaders : \E sp \in Spellings[c] : \E sh \in ValueShapes : Shaped(c, sp, sh)
Spec == Init /\ [][Next]_vars

DumpRedacts == done => NoCredentialValue(req, Dump(req, proto))
EmitCases == done => Emit("HDRCASE", [proto |-> proto, major |-> ProtoMajor[proto], headers |-> [i \in 1..Len(req) |->
                         [name |-> req[i].name, canon |-> Canon(req[i].name), value |-> req[i].value, kind |-> req[i].kind,
                          credential |-> Canon(req[i].name) \in CredentialHeaders]]])

\* observed: one header line of one real request and the real dump of that request
DumpObs(r) == r.credential => ~r.leak
=============================================================================
