------------------------------ MODULE DumpReq ------------------------------
(* C07 (second sentence)  Debug dumps of HTTP requests never contain Authorization, Cookie or
   similar credential header values  (internal/protocols/httpp/handler_logger.go dumpRequest,
   requestHeadersToRedact; reached through handlerLogger of httpp.Server at log level debug).

   A request is a sequence of header lines as a client writes them (any spelling of the name).
   The HTTP server canonicalizes names before the handler sees them.
   Layer 1: the dump prints every header line; the value is replaced when the canonical name is
            in the code's list.
   Layer 2 (statement): no value of a credential header occurs in the dump.                    *)
EXTENDS VerifCommon

CONSTANT MaxHeaders

\* canonical name -> spellings a client may use
Spellings ==
    [x \in {} |-> {}] @@
    ("Authorization" :> {"Authorization", "authorization", "AUTHORIZATION", "aUtHoRiZaTiOn"}) @@
    ("Cookie" :> {"Cookie", "cookie", "COOKIE"}) @@
    ("Proxy-Authorization" :> {"Proxy-Authorization", "proxy-authorization", "PROXY-AUTHORIZATION"}) @@
    ("Set-Cookie" :> {"Set-Cookie", "set-cookie"}) @@
    ("X-Api-Key" :> {"X-Api-Key", "x-api-key", "X-API-KEY", "X-API-Key"}) @@
    ("X-Auth-Token" :> {"X-Auth-Token", "x-auth-token", "X-AUTH-TOKEN"}) @@
    ("Accept" :> {"Accept", "accept"}) @@
    ("X-Forwarded-For" :> {"X-Forwarded-For", "x-forwarded-for"}) @@
    ("User-Agent" :> {"User-Agent"}) @@
    ("X-Custom" :> {"X-Custom"})

\* the statement: "Authorization, Cookie or similar credential header"
CredentialHeaders == {"Authorization", "Cookie", "Proxy-Authorization", "Set-Cookie", "X-Api-Key", "X-Auth-Token"}
\* the code: requestHeadersToRedact
RedactList == {"Authorization", "Cookie", "Proxy-Authorization", "Set-Cookie", "X-Api-Key", "X-Auth-Token"}

Canon(sp) == CHOOSE c \in DOMAIN Spellings : sp \in Spellings[c]
AllSpellings == UNION {Spellings[c] : c \in DOMAIN Spellings}

\* a header line: spelling + value marker (the position in the request makes the value unique: "v<k>")
Line(sp, k) == [name |-> sp, value |-> k]

\* layer 1
DumpLine(l) == [name |-> Canon(l.name), shown |-> IF Canon(l.name) \in RedactList THEN 0 ELSE l.value]   \* 0 = "<redacted>"
Dump(req) == [i \in 1..Len(req) |-> DumpLine(req[i])]

\* layer 2
NoCredentialValue(req, dump) ==
    \A i \in 1..Len(req) : Canon(req[i].name) \in CredentialHeaders =>
        \A j \in 1..Len(dump) : dump[j].shown # req[i].value

VARIABLES req, done
vars == <<req, done>>
Init == req = <<>> /\ done = FALSE
Add(sp) == ~done /\ Len(req) < MaxHeaders /\ req' = Append(req, Line(sp, Len(req) + 1)) /\ UNCHANGED done
Send == ~done /\ req # <<>> /\ done' = TRUE /\ UNCHANGED req
Next == Send \/ \E sp \in AllSpellings : Add(sp)
Spec == Init /\ [][Next]_vars

DumpRedacts == done => NoCredentialValue(req, Dump(req))
EmitCases == done => Emit("HDRCASE", [headers |-> [i \in 1..Len(req) |->
                         [name |-> req[i].name, canon |-> Canon(req[i].name), value |-> req[i].value,
                          credential |-> Canon(req[i].name) \in CredentialHeaders]]])

\* observed: one header line of one real request and the real dump of that request
DumpObs(r) == r.credential => ~r.leak
=============================================================================
