------------------------------ MODULE Paginate ------------------------------
(* C44  API list pagination partitions results  (internal/api/paginate.go)

   Layer 1 (PaginateImpl) follows the code: parse itemsPerPage (default 100, zero rejected),
   parse page (default 0), pageCount by division with remainder, slice [min(p*ipp,n), min((p+1)*ipp,n)).
   Layer 2 (PartitionProp) is the property statement: pages 0..pageCount-1 concatenate to the
   list, each page has at most itemsPerPage items, pages past the end are empty, invalid
   parameters are rejected.                                                              *)
EXTENDS VerifCommon

CONSTANTS MaxN            \* list lengths 0..MaxN

\* Parameter tokens: the string a client writes, whether the statement calls it valid, and its value.
\* (Values are kept small enough for TLC's 32-bit integers; 2147483647 is used only as itemsPerPage.)
IntTok(s, v) == [s |-> s, kind |-> "int", v |-> v]
BadTok(s)    == [s |-> s, kind |-> "bad", v |-> 0]
EmptyTok     == [s |-> "", kind |-> "empty", v |-> 0]

SmallInts == {IntTok("0",0), IntTok("1",1), IntTok("2",2), IntTok("3",3), IntTok("4",4),
              IntTok("5",5), IntTok("6",6), IntTok("7",7), IntTok("8",8), IntTok("9",9),
              IntTok("10",10)}
BadToks == {BadTok("-1"), BadTok("abc"), BadTok("1.5"), BadTok(" 1"), BadTok("1 "),
            BadTok("0x1"), BadTok("1e1"), BadTok("99999999999999999999")}
\* large values whose PRODUCT page * itemsPerPage passes 2^31, 2^32 or 2^63 (in 32- or 64-bit arithmetic it would wrap
\* to a small number: 65536 * 65536 = 2^32, 1073741824 * 4 = 2^32, 3 * 1431655766 = 2^32 + 2, 2147483647^2)
BigToks == {IntTok("65536",65536), IntTok("1073741824",1073741824), IntTok("1431655766",1431655766),
            IntTok("2147483647",2147483647), IntTok("2147483646",2147483646), IntTok("46341",46341)}
IppToks  == SmallInts \cup {IntTok("100",100), EmptyTok} \cup BigToks \cup BadToks
PageToks == SmallInts \cup {IntTok("100",100), IntTok("46340", 46340), EmptyTok} \cup BigToks \cup BadToks

Default(tok, d) == IF tok.kind = "empty" THEN d ELSE tok.v

\* -------- layer 1: the code
\* p*ipp clipped to n, without overflowing TLC integers
MulClip(p, ipp, n) == IF p = 0 THEN 0 ELSE IF ipp > n \/ p > n THEN n ELSE Min(p * ipp, n)

PaginateImpl(n, ippTok, pageTok) ==
    IF ippTok.kind = "bad" THEN [err |-> TRUE, pc |-> 0, lo |-> 0, hi |-> 0]
    ELSE LET ipp == Default(ippTok, 100) IN
      IF ipp = 0 THEN [err |-> TRUE, pc |-> 0, lo |-> 0, hi |-> 0]
      ELSE IF pageTok.kind = "bad" THEN [err |-> TRUE, pc |-> 0, lo |-> 0, hi |-> 0]
      ELSE LET p == Default(pageTok, 0) IN
        IF n = 0 THEN [err |-> FALSE, pc |-> 0, lo |-> 0, hi |-> 0]
        ELSE [err |-> FALSE,
              pc  |-> (n \div ipp) + (IF n % ipp # 0 THEN 1 ELSE 0),
              lo  |-> MulClip(p, ipp, n),
              hi  |-> IF p >= n THEN n ELSE MulClip(p + 1, ipp, n)]     \* (p+1)*ipp >= n when p >= n; avoids p+1 overflowing

\* -------- layer 2: the statement, over an observed table  page number -> items (sequence)
\* pages[k+1] is page k, for k = 0..Len(pages)-1; items are the list positions 1..n
IppValid(ippTok) == ippTok.kind = "empty" \/ (ippTok.kind = "int" /\ ippTok.v > 0)

PartitionProp(n, ipp, pc, pages) ==
    /\ pc >= 0
    /\ pc <= Len(pages)                       \* enough pages were observed to decide
    /\ Flatten(SubSeq(pages, 1, pc)) = [i \in 1..n |-> i]
    /\ \A k \in 1..Len(pages) : Len(pages[k]) <= ipp
    /\ \A k \in 1..Len(pages) : k > pc => pages[k] = <<>>

\* -------- bounded model: every (n, ipp token) with every page token
VARIABLES n, ipp, res, done
vars == <<n, ipp, res, done>>

Items(r) == [i \in 1..(r.hi - r.lo) |-> r.lo + i]

Init == n \in 0..MaxN /\ ipp \in IppToks /\ res = <<>> /\ done = FALSE
Eval == ~done /\ done' = TRUE /\ res' = [p \in PageToks |-> PaginateImpl(n, ipp, p)] /\ UNCHANGED <<n, ipp>>
Next == Eval
Spec == Init /\ [][Next]_vars

PageByNumber(k) == CHOOSE t \in SmallInts : t.v = k

\* layer 1 |= layer 2 on the bounded domain
ImplSatisfiesProp ==
    done =>
      IF ~IppValid(ipp) THEN \A p \in PageToks : res[p].err
      ELSE /\ \A p \in PageToks : res[p].err <=> p.kind = "bad"
           /\ \A p, q \in PageToks : (~res[p].err /\ ~res[q].err) => res[p].pc = res[q].pc
           /\ LET pc == res[EmptyTok].pc
                  pages == [k \in 1..11 |-> Items(res[PageByNumber(k-1)])]
              IN  /\ PartitionProp(n, Default(ipp, 100), pc, pages)
                  /\ Items(res[EmptyTok]) = pages[1]
                  /\ \A p \in PageToks : (p.kind = "int" /\ p.v >= pc) => Items(res[p]) = <<>>

\* generator: one case per (n, ipp token, page token)
EmitCases ==
    done =>
      \A p \in PageToks :
        Emit("CASE", [n |-> n, ipp |-> ipp.s, page |-> p.s,
                      err |-> res[p].err, pc |-> res[p].pc, items |-> Items(res[p])])
=============================================================================
