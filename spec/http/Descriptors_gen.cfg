SPECIFICATION Spec
CONSTANT LinkLen = 3
INVARIANT LayersAgreeWhereDecided
INVARIANT EmitCases
CHECK_DEADLOCK FALSE
