SPECIFICATION Spec
CONSTANT MaxN = 7
INVARIANT ImplSatisfiesProp
CHECK_DEADLOCK FALSE
