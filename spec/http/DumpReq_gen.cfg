\* the current code, every protocol version, requests of up to 2 header lines
SPECIFICATION Spec
CONSTANTS
  MaxHeaders = 2
  Protos = {"HTTP/1.0", "HTTP/1.1", "HTTP/2.0", "HTTP/3.0"}
  LowerBeforeLookup = FALSE
  GuardOnFirstValue = FALSE
INVARIANTS DumpRedacts EmitCases
CHECK_DEADLOCK FALSE
