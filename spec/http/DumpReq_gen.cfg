SPECIFICATION Spec
CONSTANT MaxHeaders = 2
INVARIANTS DumpRedacts EmitCases
CHECK_DEADLOCK FALSE
