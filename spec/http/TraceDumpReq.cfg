SPECIFICATION TraceSpec
CONSTANT MaxHeaders = 1
INVARIANT Verdicts
POSTCONDITION Accepted
CHECK_DEADLOCK FALSE
