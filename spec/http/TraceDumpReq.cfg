SPECIFICATION TraceSpec
CONSTANTS
  MaxHeaders = 1
  Protos = {"HTTP/1.1"}
  LowerBeforeLookup = FALSE
  GuardOnFirstValue = FALSE
INVARIANT Verdicts
POSTCONDITION Accepted
CHECK_DEADLOCK FALSE
