----------------------------- MODULE Descriptors -----------------------------
(* C34  Client-supplied descriptors parse faithfully
        internal/servers/srt/streamid.go, internal/protocols/whip/link_header.go,
        internal/protocols/httpp/credentials.go, internal/protocols/rtsp/credentials.go

   Layer 2 is written from the documentation, not from the code:
   * SRT stream id, custom syntax (docs/3-publish/03-srt-clients.md, docs/2-features/06-authentication.md
     and the text the server answers to a malformed id):
         action:pathname[:query]      action:pathname:user:pass[:query]      action = read | publish
     standard syntax (docs/2-features/24-srt-specific-features.md):
         #!::k=v,k=v,...   m = publish | request (action), r = path, u = user, s = password,
         any other key is ignored
     A descriptor BUILT from fields in one of these syntaxes must parse to exactly these fields
     (absent ones empty, the standard syntax carries no query).
   * Link header: whatever (username, credential) is written by LinkHeaderMarshal is read back
     unchanged by LinkHeaderUnmarshal.
   * HTTP: "Authorization: Basic base64(user:pass)", "Authorization: Bearer user:pass",
     "Authorization: Bearer token" (docs/2-features/06-authentication.md) yield these values exactly.
     RTSP: Basic yields user and password, Digest yields the user.
   Left open (decided = FALSE; only compared with the code-shaped expectation l1 as DRIFT):
     a last custom-syntax field ending in "#feedbackplay" (undocumented client quirk that the code
     strips), standard syntax without m or with another mode, malformed ids, an empty user name in a
     Link header (nothing is written), Bearer values with two or more colons, malformed base64,
     lower-case scheme names.
   Several Authorization values in one request (Admitted / Bare below): every value yields what its
   kind says (a malformed Basic value yields nothing). The statement's sentence gives three
   alternatives for the result, so the result has to be the yield of ONE value, never a mixture
   (Bare); among values of the same scheme it does not say which one counts (open). Between a
   Basic and a Bearer value the check decides for the Bearer one (BearerOverBasicDecided): the
   documentation introduces "Authorization: Bearer" as the channel for clients that cannot use
   Basic, the sentence names 'Bearer user:pass' credentials and the bearer token as the two things
   a Bearer value yields, and the repository's own pinned case "user and pass and token" makes a
   Bearer token displace a Basic value -- so a Bearer user:pass must not be displaced by a Basic
   value either, whatever the order of the values.                                            *)
EXTENDS VerifCommon, Wild

CONSTANT LinkLen            \* Link header credentials: all strings over LinkAlpha up to this length

RECURSIVE Str(_)
Str(t) == IF t = <<>> THEN "" ELSE Head(t) \o Str(Tail(t))

NoneV == [has |-> FALSE, s |-> "", st |-> ""]
Val(s) == [has |-> TRUE, s |-> s, st |-> s]
FB(s, st) == [has |-> TRUE, s |-> s, st |-> st]      \* st: s without a trailing "#feedbackplay"

\* ------------------------------------------------------------------ SRT, custom syntax
Actions  == {"read", "publish", "other", "READ", ""}
CPaths   == {Val("p"), Val("a/b"), Val(""), Val("x=y,z"), Val("m=publish,r=x"), FB("p#feedbackplay", "p")}
CUsers   == {Val("u"), Val(""), Val("x=y"), Val("read"), Val("a b")}
CPasses  == {Val("s"), Val(""), Val("u,v=w"), Val("#!"), FB("x#feedbackplay", "x"), FB("#feedbackplay", "")}
CQueries == {NoneV, Val("k=v&w=1"), Val(""), Val("?a"), Val("publish"), FB("q#feedbackplay", "q")}
CCreds   == {[has |-> FALSE, u |-> NoneV, p |-> NoneV]} \cup {[has |-> TRUE, u |-> u, p |-> p] : u \in CUsers, p \in CPasses}

CustomStr(a, path, cred, query) ==
    a \o ":" \o path.s \o (IF cred.has THEN ":" \o cred.u.s \o ":" \o cred.p.s ELSE "")
      \o (IF query.has THEN ":" \o query.s ELSE "")
SidRes(err, mode, path, user, pass, query) ==
    [err |-> err, mode |-> mode, path |-> path, user |-> user, pass |-> pass, query |-> query]
SidErr == SidRes(TRUE, "", "", "", "", "")

CustomCase(a, path, cred, query) ==
    LET last == IF query.has THEN query ELSE IF cred.has THEN cred.p ELSE path
        quirk == last.s # last.st
        ok == a \in {"read", "publish"}          \* (the code strips the suffix of the last field only)
    IN [fam |-> "srt", syntax |-> "custom", raw |-> CustomStr(a, path, cred, query),
        decided |-> ok /\ ~quirk,
        exp |-> SidRes(FALSE, a, path.s, cred.u.s, cred.p.s, query.s),
        l1  |-> IF ~ok THEN SidErr
                ELSE SidRes(FALSE, a,
                            IF ~query.has /\ ~cred.has THEN path.st ELSE path.s,
                            cred.u.s,
                            IF ~query.has /\ cred.has THEN cred.p.st ELSE cred.p.s,
                            IF query.has THEN query.st ELSE "")]

MalformedIds == {"", "read", "publish", "read:p:u:s:q:x", "publish:p:u:s:q:x:y", "#!::", "#!::r", "#!::r=p,,",
                 "#!::m=publish,r=p,", "#!:r=p"}
\* "#!:r=p" does not start with "#!::" and is read as custom syntax with action "#!" -> error
MalformedCase(raw) == [fam |-> "srt", syntax |-> "malformed", raw |-> raw, decided |-> FALSE, exp |-> SidErr, l1 |-> SidErr]

\* ------------------------------------------------------------------ SRT, standard syntax
Modes == {"publish", "request", "bidirectional", "-"}          \* "-" = key m absent
SR == {NoneV, Val("p"), Val("a/b=c"), Val("")}
SU == {NoneV, Val("u"), Val("x=y"), Val("a:b")}
SS == {NoneV, Val("s"), Val("#!::"), Val("r=q:1")}
SH == {NoneV, Val("h.com")}
Orders == {"fwd", "rev", "rot"}

KV(k, v) == IF v.has THEN <<[k |-> k, v |-> v.s]>> ELSE <<>>
Reorder(kvs, o) ==
    IF o = "fwd" \/ Len(kvs) < 2 THEN kvs
    ELSE IF o = "rev" THEN [i \in 1..Len(kvs) |-> kvs[Len(kvs) + 1 - i]]
    ELSE Tail(kvs) \o <<Head(kvs)>>
RECURSIVE JoinKV(_)
JoinKV(kvs) == IF kvs = <<>> THEN ""
               ELSE kvs[1].k \o "=" \o kvs[1].v \o (IF Len(kvs) > 1 THEN "," \o JoinKV(Tail(kvs)) ELSE "")
StdStr(kvs) == "#!::" \o JoinKV(kvs)

StdCase(m, r, u, s, h, o) ==
    LET kvs == Reorder(KV("bmd_name", Val("cam-1")) \o KV("m", IF m = "-" THEN NoneV ELSE Val(m)) \o KV("r", r)
                       \o KV("u", u) \o KV("t", Val("stream")) \o KV("s", s) \o KV("h", h), o)
        mode == IF m = "publish" THEN "publish" ELSE "read"
    IN [fam |-> "srt", syntax |-> "standard", raw |-> StdStr(kvs),
        decided |-> m \in {"publish", "request"},
        exp |-> SidRes(FALSE, mode, r.s, u.s, s.s, ""),
        l1  |-> IF m = "bidirectional" THEN SidErr ELSE SidRes(FALSE, mode, r.s, u.s, s.s, "")]

\* ------------------------------------------------------------------ WHIP/WHEP Link header
LinkAlpha == {"a", "\"", "\\", ";", "=", "<", ">", " "}
LinkStrings(first) ==          \* all strings of length 1..LinkLen starting with `first`; "" alone for first = ""
    IF first = "" THEN {""}
    ELSE { first \o Str(t) : t \in UNION {[1..k -> LinkAlpha] : k \in 0..(LinkLen - 1)} }
FixedCreds == {"", "c", "\\", "\"", "a\\\"", "\"; credential=\"x", "p w"}
FixedUsers == {"u", "\\", "\"; username=\"x"}
Urls == {"stun:stun.example.com:3478", "turns:t.example.com:5349?transport=tcp"}

\* the quoting of an RFC 8288 quoted-string: backslash and double quote are escaped with a backslash
RECURSIVE QuoteChars(_)
QuoteChars(cs) == IF cs = <<>> THEN ""
                  ELSE (IF Head(cs) = "\\" THEN "\\\\" ELSE IF Head(cs) = "\"" THEN "\\\"" ELSE Head(cs)) \o QuoteChars(Tail(cs))
Quote(s) == QuoteChars(Chars(s))
Wire(url, user, cred) ==
    "<" \o url \o ">; rel=\"ice-server\"" \o
    (IF user = "" THEN ""
     ELSE "; username=\"" \o Quote(user) \o "\"; credential=\"" \o Quote(cred) \o "\"; credential-type=\"password\"")

LinkCase(url, user, cred) ==
    [fam |-> "link", url |-> url, user |-> user, cred |-> cred,
     decided |-> user # "",
     exp |-> [err |-> FALSE, url |-> url, user |-> user, cred |-> cred],
     l1  |-> [err |-> FALSE, url |-> url, user |-> user, cred |-> IF user = "" THEN "" ELSE cred, wire |-> Wire(url, user, cred)]]

\* ------------------------------------------------------------------ HTTP / RTSP Authorization
HUsers  == {"user", "", "a b", "x=y", "Bearer"}
HPasses == {"pass", "", "a:b", ":", "x y", "p=1&q", "::"}
Tokens  == {"tok", "eyJhbGciOi.eyJzdWIi.c2ln", "", "a b", "Basic"}
Cred(u, p, t) == [user |-> u, pass |-> p, token |-> t]
NoCred == Cred("", "", "")

\* header descriptions: the harness renders kind "basic" as "Basic " + base64(user ":" pass), "raw" verbatim
Basic(u, p) == [kind |-> "basic", user |-> u, pass |-> p, raw |-> ""]
Raw(s)      == [kind |-> "raw", user |-> "", pass |-> "", raw |-> s]

HttpCase(proto, hdrs, decided, exp, l1) ==
    [fam |-> proto, headers |-> hdrs, decided |-> decided, exp |-> exp, l1 |-> l1,
     dev |-> IF decided /\ l1 # exp THEN "RtspBasicPasswordWithColon" ELSE ""]
HasColon(s) == HasChar(Chars(s), ":")

\* ---- several Authorization values: entries [scheme, form, user, pass, token]
\*      basic/wf  "Basic base64(user:pass)"      basic/bad  a Basic value that is not base64
\*      bearer/up "Bearer user:pass"  bearer/tok "Bearer token"  bearer/2c "Bearer a:b:c" (open: what is it?)
HV(scheme, form, u, p, t) == [scheme |-> scheme, form |-> form, user |-> u, pass |-> p, token |-> t]
HdrOf(h) == CASE h.form = "wf"  -> Basic(h.user, h.pass)
              [] h.form = "bad" -> Raw("Basic !!!")
              [] h.form = "up"  -> Raw("Bearer " \o h.user \o ":" \o h.pass)
              [] OTHER          -> Raw("Bearer " \o h.token)
YieldOf(h) == CASE h.form \in {"wf", "up"} -> Cred(h.user, h.pass, "")
                [] h.form = "bad" -> NoCred
                [] OTHER -> Cred("", "", h.token)
BearerOverBasicDecided == TRUE      \* FALSE: which scheme wins is left open (only "no mixture" is judged)

Yields(hs) == [i \in 1..Len(hs) |-> YieldOf(hs[i])]
OfScheme(hs, sch) == SelectSeq(hs, LAMBDA h : h.scheme = sch)
Has2c(hs) == \E i \in 1..Len(hs) : hs[i].form = "2c"
\* the bare sentence: the yield of one of the values (of a well-formed one when another scheme is present too)
Bare(hs) ==
    LET b == OfScheme(hs, "basic")  r == OfScheme(hs, "bearer") IN
    IF r = <<>> THEN Yields(b) ELSE IF b = <<>> THEN Yields(r)
    ELSE Yields(r) \o Yields(SelectSeq(b, LAMBDA h : h.form = "wf"))
Admitted(hs) ==
    LET b == OfScheme(hs, "basic")  r == OfScheme(hs, "bearer") IN
    IF BearerOverBasicDecided /\ b # <<>> /\ r # <<>> THEN Yields(r) ELSE Bare(hs)
InSeq(x, sq) == \E i \in 1..Len(sq) : sq[i] = x
\* layer 1, the code: the first Bearer value wins wherever it stands; otherwise only the FIRST value is looked at
MultiL1(hs) == LET r == OfScheme(hs, "bearer") IN
               IF r # <<>> THEN YieldOf(r[1]) ELSE IF hs = <<>> THEN NoCred ELSE YieldOf(hs[1])

HPool == {HV("basic", "wf", "u1", "p1", ""), HV("basic", "wf", "u2", "p:2", ""), HV("basic", "bad", "", "", ""),
          HV("bearer", "up", "u3", "p3", ""), HV("bearer", "up", "", "p4", ""), HV("bearer", "tok", "", "", "tok"),
          HV("bearer", "2c", "", "", "a:b:c")}
MultiCase(hs) ==
    [fam |-> "http", headers |-> [i \in 1..Len(hs) |-> HdrOf(hs[i])], decided |-> ~Has2c(hs),
     exp |-> Admitted(hs)[1], acc |-> Admitted(hs), bare |-> Bare(hs), l1 |-> MultiL1(hs), dev |-> ""]
MultiCases == {MultiCase(<<a, b>>) : a \in HPool, b \in HPool}
              \cup {MultiCase(<<a, b, c>>) : a \in HPool, b \in HPool, c \in HPool}

HttpCases ==
    {HttpCase("http", <<Basic(u, p)>>, TRUE, Cred(u, p, ""), Cred(u, p, "")) : u \in HUsers, p \in HPasses}
    \cup {HttpCase("http", <<Raw("Bearer " \o u \o ":" \o p)>>, TRUE, Cred(u, p, ""), Cred(u, p, ""))
            : u \in HUsers, p \in {"pass", "", "x y", "p=1&q"}}
    \cup {HttpCase("http", <<Raw("Bearer " \o t)>>, TRUE, Cred("", "", t), Cred("", "", t)) : t \in Tokens}
    \* open: two colons are read as a token
    \cup {HttpCase("http", <<Raw("Bearer " \o t)>>, FALSE, NoCred, Cred("", "", t)) : t \in {"a:b:c", "u::", "::"}}
    \cup {          HttpCase("http", <<>>, TRUE, NoCred, NoCred),
    \* open: malformed / other schemes / letter case
          HttpCase("http", <<Raw("Basic !!!")>>, FALSE, NoCred, NoCred),
          HttpCase("http", <<Raw("Basic dXNlcg==")>>, FALSE, NoCred, NoCred),
          HttpCase("http", <<Raw("basic dTpw")>>, FALSE, NoCred, Cred("u", "p", "")),
          HttpCase("http", <<Raw("bearer tok")>>, FALSE, NoCred, NoCred),
          HttpCase("http", <<Raw("Bearer")>>, FALSE, NoCred, NoCred),
          HttpCase("http", <<Raw("Digest username=\"u\"")>>, FALSE, NoCred, NoCred)}

RUsers == {"user", "a b", "x=y", "u-1_2"}
Digest(u) == [kind |-> "digest", user |-> u, pass |-> "", raw |-> ""]
RtspCases ==
    \* named deviation of layer 1: gortsplib's headers.Authorization splits user:pass at EVERY colon and
    \* rejects the header unless there are exactly two parts, so a password containing ':' yields nothing
    {HttpCase("rtsp", <<Basic(u, p)>>, TRUE, Cred(u, p, ""), IF HasColon(p) THEN NoCred ELSE Cred(u, p, ""))
        : u \in RUsers \cup {""}, p \in HPasses}
    \cup {HttpCase("rtsp", <<Digest(u)>>, TRUE, Cred(u, "", ""), Cred(u, "", "")) : u \in RUsers}
    \cup {HttpCase("rtsp", <<>>, TRUE, NoCred, NoCred),
          HttpCase("rtsp", <<Raw("Basic !!!")>>, FALSE, NoCred, NoCred),
          HttpCase("rtsp", <<Raw("Bearer tok")>>, FALSE, NoCred, NoCred)}

\* ------------------------------------------------------------------ bounded model (generator)
Parts == {<<"http_multi", "">>} \cup {<<"srt_custom", a>> : a \in Actions} \cup {<<"srt_std", m>> : m \in Modes} \cup {<<"srt_malformed", "">>}
         \cup {<<"link_user", c>> : c \in LinkAlpha \cup {""}} \cup {<<"link_cred", c>> : c \in LinkAlpha \cup {""}}
         \cup {<<"http", "">>, <<"rtsp", "">>}

CasesOf(p) ==
    CASE p[1] = "srt_custom" -> {CustomCase(p[2], path, cred, q) : path \in CPaths, cred \in CCreds, q \in CQueries}
      [] p[1] = "srt_std" -> {StdCase(p[2], r, u, s, h, o) : r \in SR, u \in SU, s \in SS, h \in SH, o \in Orders}
      [] p[1] = "srt_malformed" -> {MalformedCase(x) : x \in MalformedIds}
      [] p[1] = "link_user" -> {LinkCase(url, user, cred) : url \in Urls, user \in LinkStrings(p[2]), cred \in FixedCreds}
      [] p[1] = "link_cred" -> {LinkCase("stun:stun.example.com:3478", user, cred) : user \in FixedUsers, cred \in LinkStrings(p[2])}
      [] p[1] = "http" -> HttpCases
      [] p[1] = "http_multi" -> MultiCases
      [] p[1] = "rtsp" -> RtspCases

VARIABLES part, done
vars == <<part, done>>
Init == part \in Parts /\ done = FALSE
Next == ~done /\ done' = TRUE /\ UNCHANGED part
Spec == Init /\ [][Next]_vars

\* the two layers agree wherever the documentation decides, except for the named deviation
LayersAgreeWhereDecided ==
    done => \A c \in CasesOf(part) : c.decided =>
        IF c.fam = "link" THEN c.l1.user = c.exp.user /\ c.l1.cred = c.exp.cred /\ c.l1.err = c.exp.err
        ELSE IF c.fam = "srt" THEN c.l1 = c.exp
        ELSE IF "acc" \in DOMAIN c THEN InSeq(c.l1, c.acc) /\ \A i \in 1..Len(c.acc) : InSeq(c.acc[i], c.bare)
        ELSE c.l1 = c.exp \/ c.dev # ""

EmitCases == done => \A c \in CasesOf(part) : Emit("CASE", c)
=============================================================================
