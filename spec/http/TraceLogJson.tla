---------------------------- MODULE TraceLogJson ----------------------------
(* Trace validation for C37. One ndjson record per (log record, destination) written by the REAL
   logger.Logger (Structured, destinations stdout and file):
     bytes, lvl, sec, nano            the case (message bytes, level, instant)
     nl, endsNL                       line feeds in what the destination wrote / is the last byte one
     utf8, json, obj                  valid UTF-8 / accepted by encoding/json / value is an object
     keys                             member names of the object, in order
     msgIsStr, msg                    "message" is a string / its code points
     levelIsStr, level                "level"
     tsOK, tsSec, tsNano              "timestamp" parses as RFC 3339 / the instant it denotes
     lit                              bytes of the message literal as written (layer 1 only)
   TLC evaluates the statement's formula (LogJson.tla layer 2) on every record and reports the
   failing monitors (naming the deviation the literal exhibits); records whose literal differs from
   layer 1 (L1Lit: json.Marshal, or the deviation selected by L1Variant) are DRIFT.                *)
EXTENDS LogJson

Trace == ndJsonDeserialize("C37_trace.ndjson")

VARIABLE l
TraceInit == l = 0 /\ first = "" /\ lvl = "info" /\ mode = "arg" /\ done = FALSE
TraceNext == l < Len(Trace) /\ l' = l + 1 /\ UNCHANGED vars
TraceSpec == TraceInit /\ [][TraceNext]_<<l, vars>>

Verdicts ==
    l >= 1 => LET r == Trace[l]  f == Failing(r) IN
              /\ Monitor(f = {}, [l |-> l, monitors |-> f, exp |-> Decode(r.bytes), deviation |-> DeviationOf(r.lit, r.bytes)])
              /\ (r.lit = L1Lit(r.bytes) \/ Emit("DRIFT", [l |-> l]))
Accepted == TLCGet("stats").diameter - 1 = Len(Trace)
=============================================================================
