------------------------------ MODULE LogJson ------------------------------
(* C37  Structured log lines are valid JSON
        (internal/logger/destination_stdout.go, destination_file.go)

   A message is a sequence of BYTES (0..255); the bounded model builds it from character
   classes (ClassBytes). Code points are integers.

   Layer 2 (the statement):
     OneLine     what a destination wrote for one record contains exactly one line feed, its last byte
     ValidJSON   the line (without the line feed) is an RFC 8259 JSON text - UTF-8, grammar decided
                 by the harness with Go's encoding/json (trusted parser) - whose value is an object
     Fields      the members "timestamp", "level", "message" occur exactly once each
     Message     "message" is a string that decodes to the formatted message, invalid UTF-8 bytes
                 replaced by U+FFFD. Decode below is RFC 3629. The statement does not say how many
                 U+FFFD stand for a run of invalid bytes (one per byte, Go; one per maximal subpart,
                 WHATWG), so runs of U+FFFD are compared collapsed (Collapse).
     Level       "level" is a string naming the record's level (short or long name, any case listed)
     Timestamp   "timestamp" is an RFC 3339 string denoting the record's instant (zone left open)

   Layer 1 (the code), used for DRIFT only: the message literal is json.Marshal(formatted message)
   (QuoteJson: encoding/json's string encoder with HTML escaping). The behaviour before the fix
   (commit "logger message via encoding/json") is kept as the named deviation "GoQuoteLiteral":
   the literal is strconv.Quote(message) (QuoteGo; its printable test approximates strconv.IsPrint and
   is exact for the classes of the bounded model). Constant L1Variant selects which of the two layer 1
   is ("fixed" by default); whatever it is, a failing record whose literal is the old one is reported
   with deviation = "GoQuoteLiteral", so a regression is named in the violation record.            *)
EXTENDS VerifCommon

CONSTANTS ClassNames,     \* classes the bounded model draws from
          MaxLen,         \* messages of 0..MaxLen classes
          Levels,         \* subset of {"debug","info","warn","error"}
          Modes,          \* "arg": Log(level, "%s", msg);  "fmt": Log(level, msg with % doubled)
          L1Variant       \* "fixed" (the current code) or the name of a deviation: "GoQuoteLiteral"

\* ------------------------------------------------------------------ character classes
ClassBytes(c) ==
    CASE c = "letter" -> <<97>>                 \* a
      [] c = "quote"  -> <<34>>                 \* "
      [] c = "bslash" -> <<92>>                 \* \
      [] c = "nl"     -> <<10>>
      [] c = "tab"    -> <<9>>
      [] c = "nul"    -> <<0>>
      [] c = "bel"    -> <<7>>
      [] c = "esc"    -> <<27>>
      [] c = "del"    -> <<127>>
      [] c = "lt"     -> <<60>>                 \* <
      [] c = "r2"     -> <<195, 169>>           \* U+00E9
      [] c = "r3"     -> <<226, 130, 172>>      \* U+20AC
      [] c = "r4"     -> <<240, 159, 152, 128>> \* U+1F600
      [] c = "cont"   -> <<128>>                \* lone continuation byte
      [] c = "trunc"  -> <<226, 130>>           \* truncated three-byte sequence
      [] c = "pct"    -> <<37>>                 \* %
      \* further classes
      [] c = "cr"     -> <<13>>
      [] c = "vt"     -> <<11>>
      [] c = "bs"     -> <<8>>
      [] c = "ff"     -> <<12>>
      [] c = "c1"     -> <<194, 133>>           \* U+0085 NEL (C1 control)
      [] c = "ls"     -> <<226, 128, 168>>      \* U+2028 LINE SEPARATOR
      [] c = "np4"    -> <<243, 160, 128, 129>> \* U+E0001 (not printable, four bytes)
      [] c = "fffd"   -> <<239, 191, 189>>      \* a genuine U+FFFD
      [] c = "surr"   -> <<237, 160, 128>>      \* encoded surrogate U+D800: invalid
      [] c = "over"   -> <<192, 175>>           \* overlong '/': invalid

BaseClasses == {"letter", "quote", "bslash", "nl", "tab", "nul", "bel", "esc", "del", "lt",
                "r2", "r3", "r4", "cont", "trunc", "pct"}
AllClasses  == BaseClasses \cup {"cr", "vt", "bs", "ff", "c1", "ls", "np4", "fffd", "surr", "over"}

RECURSIVE BytesOf(_)
BytesOf(msg) == IF msg = <<>> THEN <<>> ELSE ClassBytes(Head(msg)) \o BytesOf(Tail(msg))

\* ------------------------------------------------------------------ layer 2: UTF-8 (RFC 3629)
FFFD == 65533
IsCont(b) == b >= 128 /\ b <= 191
Second3(b0, b1) == IF b0 = 224 THEN b1 >= 160 /\ b1 <= 191
                   ELSE IF b0 = 237 THEN b1 >= 128 /\ b1 <= 159 ELSE IsCont(b1)
Second4(b0, b1) == IF b0 = 240 THEN b1 >= 144 /\ b1 <= 191
                   ELSE IF b0 = 244 THEN b1 >= 128 /\ b1 <= 143 ELSE IsCont(b1)

\* the unit starting at position i of byte sequence b: code point, width, well-formed?
UnitAt(b, i) ==
    LET b0 == b[i]
        c(k) == IF i + k <= Len(b) THEN b[i + k] ELSE 0
    IN  IF b0 < 128 THEN [cp |-> b0, w |-> 1, ok |-> TRUE]
        ELSE IF b0 >= 194 /\ b0 <= 223 /\ IsCont(c(1))
             THEN [cp |-> (b0 - 192) * 64 + (c(1) - 128), w |-> 2, ok |-> TRUE]
        ELSE IF b0 >= 224 /\ b0 <= 239 /\ Second3(b0, c(1)) /\ IsCont(c(2))
             THEN [cp |-> (b0 - 224) * 4096 + (c(1) - 128) * 64 + (c(2) - 128), w |-> 3, ok |-> TRUE]
        ELSE IF b0 >= 240 /\ b0 <= 244 /\ Second4(b0, c(1)) /\ IsCont(c(2)) /\ IsCont(c(3))
             THEN [cp |-> (b0 - 240) * 262144 + (c(1) - 128) * 4096 + (c(2) - 128) * 64 + (c(3) - 128),
                   w |-> 4, ok |-> TRUE]
        ELSE [cp |-> FFFD, w |-> 1, ok |-> FALSE]

RECURSIVE UnitsFrom(_, _)
UnitsFrom(b, i) ==
    IF i > Len(b) THEN <<>>
    ELSE LET u == UnitAt(b, i) IN <<[cp |-> u.cp, w |-> u.w, ok |-> u.ok, at |-> i]>> \o UnitsFrom(b, i + u.w)
Units(b) == UnitsFrom(b, 1)

\* the message the statement expects: one U+FFFD per invalid byte ...
Decode(b) == LET us == Units(b) IN [k \in 1..Len(us) |-> us[k].cp]
\* ... compared modulo the length of U+FFFD runs
RECURSIVE Collapse(_)
Collapse(cs) ==
    IF Len(cs) <= 1 THEN cs
    ELSE IF cs[1] = FFFD /\ cs[2] = FFFD THEN Collapse(Tail(cs))
    ELSE <<cs[1]>> \o Collapse(Tail(cs))

\* ------------------------------------------------------------------ layer 2: the record formula
LevelNames(lvl) ==
    CASE lvl = "debug" -> {"DEB", "deb", "DEBUG", "debug", "Debug"}
      [] lvl = "info"  -> {"INF", "inf", "INFO", "info", "Info"}
      [] lvl = "warn"  -> {"WAR", "war", "WARN", "warn", "Warn", "WARNING", "warning", "Warning"}
      [] lvl = "error" -> {"ERR", "err", "ERROR", "error", "Error"}

Count(seq, x) == Cardinality({k \in 1..Len(seq) : seq[k] = x})

\* r: the case (bytes, lvl, sec, nano) and what the harness measured on the bytes one destination wrote
OneLineOK(r)   == r.nl = 1 /\ r.endsNL
ValidJSONOK(r) == r.utf8 /\ r.json /\ r.obj
FieldsOK(r)    == Count(r.keys, "timestamp") = 1 /\ Count(r.keys, "level") = 1 /\ Count(r.keys, "message") = 1
MessageOK(r)   == r.msgIsStr /\ Collapse(r.msg) = Collapse(Decode(r.bytes))
LevelOK(r)     == r.levelIsStr /\ r.level \in LevelNames(r.lvl)
TimestampOK(r) == r.tsOK /\ r.tsSec = r.sec /\ r.tsNano = r.nano

\* the monitors that fail on r; the members can only be read from a JSON object, so the four member
\* monitors are evaluated only when ValidJSON holds
Failing(r) ==
    (IF OneLineOK(r) THEN {} ELSE {"OneLine"}) \cup
    (IF ~ValidJSONOK(r) THEN {"ValidJSON"}
     ELSE (IF FieldsOK(r) THEN {} ELSE {"Fields"}) \cup
          (IF MessageOK(r) THEN {} ELSE {"Message"}) \cup
          (IF LevelOK(r) THEN {} ELSE {"Level"}) \cup
          (IF TimestampOK(r) THEN {} ELSE {"Timestamp"}))

\* ------------------------------------------------------------------ layer 1: strconv.Quote
HexD(d) == IF d < 10 THEN 48 + d ELSE 87 + d
Hex2(v) == <<HexD(v \div 16), HexD(v % 16)>>
Hex4(v) == Hex2(v \div 256) \o Hex2(v % 256)
\* approximation of strconv.IsPrint (exact on the classes above)
NotPrintable == {173, 8232, 8233, 917505, 65534, 65535} \cup (127..160) \cup (55296..57343) \cup (57344..63743)
Printable(cp) == cp >= 32 /\ cp \notin NotPrintable
QuoteUnit(b, u) ==
    IF ~u.ok THEN <<92, 120>> \o Hex2(b[u.at])
    ELSE IF u.cp = 34 THEN <<92, 34>>
    ELSE IF u.cp = 92 THEN <<92, 92>>
    ELSE IF Printable(u.cp) THEN SubSeq(b, u.at, u.at + u.w - 1)
    ELSE CASE u.cp = 7  -> <<92, 97>>
           [] u.cp = 8  -> <<92, 98>>
           [] u.cp = 12 -> <<92, 102>>
           [] u.cp = 10 -> <<92, 110>>
           [] u.cp = 13 -> <<92, 114>>
           [] u.cp = 9  -> <<92, 116>>
           [] u.cp = 11 -> <<92, 118>>
           [] OTHER -> IF u.cp < 32 \/ u.cp = 127 THEN <<92, 120>> \o Hex2(u.cp)
                       ELSE IF u.cp < 65536 THEN <<92, 117>> \o Hex4(u.cp)
                       ELSE <<92, 85>> \o Hex4(u.cp \div 65536) \o Hex4(u.cp % 65536)
QuoteGo(b) == LET us == Units(b) IN <<34>> \o Flatten([k \in 1..Len(us) |-> QuoteUnit(b, us[k])]) \o <<34>>

\* is a literal produced by QuoteGo a JSON string? (the escapes JSON knows: \" \\ \/ \b \f \n \r \t \uXXXX)
RECURSIVE JsonEscapesOnly(_, _)
JsonEscapesOnly(q, i) ==
    IF i >= Len(q) THEN TRUE                      \* closing quote
    ELSE IF q[i] = 92 THEN q[i + 1] \in {34, 92, 47, 98, 102, 110, 114, 116, 117} /\ JsonEscapesOnly(q, i + 2)
    ELSE q[i] >= 32 /\ JsonEscapesOnly(q, i + 1)

\* layer 1, current code: encoding/json's string encoder (escapeHTML on)
JsonUnit(b, u) ==
    IF ~u.ok THEN <<92, 117, 102, 102, 102, 100>>                               \* \ufffd for every invalid byte
    ELSE CASE u.cp = 34 -> <<92, 34>>
           [] u.cp = 92 -> <<92, 92>>
           [] u.cp = 8  -> <<92, 98>>
           [] u.cp = 12 -> <<92, 102>>
           [] u.cp = 10 -> <<92, 110>>
           [] u.cp = 13 -> <<92, 114>>
           [] u.cp = 9  -> <<92, 116>>
           [] OTHER -> IF u.cp < 32 \/ u.cp \in {60, 62, 38} \/ u.cp \in {8232, 8233}
                       THEN <<92, 117>> \o Hex4(u.cp)
                       ELSE SubSeq(b, u.at, u.at + u.w - 1)
QuoteJson(b) == LET us == Units(b) IN <<34>> \o Flatten([k \in 1..Len(us) |-> JsonUnit(b, us[k])]) \o <<34>>

Deviations == {"GoQuoteLiteral"}
DeviationLit(d, b) == QuoteGo(b)                      \* d = "GoQuoteLiteral"
L1Lit(b) == IF L1Variant = "fixed" THEN QuoteJson(b) ELSE DeviationLit(L1Variant, b)
\* the named deviation an observed literal exhibits (if any)
DeviationOf(lit, b) == IF lit = QuoteGo(b) /\ lit # QuoteJson(b) THEN "GoQuoteLiteral" ELSE "none"
L1JsonString(b) == JsonEscapesOnly(L1Lit(b), 2)
ASSUME L1Variant \in {"fixed"} \cup Deviations

\* ------------------------------------------------------------------ bounded model
Times == << [sec |-> 1068000908, nano |-> 431232,    zone |-> 0],
            [sec |-> 1790000000, nano |-> 0,         zone |-> 0],
            [sec |-> 1790000001, nano |-> 500000000, zone |-> 330],
            [sec |-> 2147483647, nano |-> 999999999, zone |-> -480],
            [sec |-> 0,          nano |-> 1,         zone |-> 0],
            [sec |-> 951782400,  nano |-> 120000000, zone |-> 60] >>
RECURSIVE Sum(_)
Sum(s) == IF s = <<>> THEN 0 ELSE Head(s) + Sum(Tail(s))
TimeOf(b, k) == Times[((Sum(b) + Len(b) + k) % Len(Times)) + 1]

Firsts == ClassNames \cup {""}
MsgsOf(first) ==
    IF first = "" THEN {<<>>}
    ELSE { <<first>> \o rest : rest \in UNION {[1..k -> ClassNames] : k \in 0..(MaxLen - 1)} }

LevelNo(lvl) == CASE lvl = "debug" -> 1 [] lvl = "info" -> 2 [] lvl = "warn" -> 3 [] lvl = "error" -> 4

VARIABLES first, lvl, mode, done
vars == <<first, lvl, mode, done>>
Init == first \in Firsts /\ lvl \in Levels /\ mode \in Modes /\ done = FALSE
Next == ~done /\ done' = TRUE /\ UNCHANGED <<first, lvl, mode>>
Spec == Init /\ [][Next]_vars

\* the decoder is total, consumes every byte, and what a JSON-conformant logger would write (every
\* code point of Decode as a JSON string) is a fixed point: decoding valid UTF-8 is the identity on
\* code points, and class boundaries never hide a byte
DecoderSane ==
    done => \A m \in MsgsOf(first) :
        LET b == BytesOf(m)  us == Units(b) IN
        /\ Sum([k \in 1..Len(us) |-> us[k].w]) = Len(b)
        /\ \A k \in 1..Len(us) : us[k].ok <=> ~(us[k].cp = FFFD /\ us[k].w = 1)
        /\ \A k \in 1..Len(us) : us[k].cp \in 0..1114111 /\ us[k].cp \notin 55296..57343
        /\ Len(Collapse(Decode(b))) <= Len(b)

EmitCases ==
    done => \A m \in MsgsOf(first) :
        LET b == BytesOf(m)  t == TimeOf(b, LevelNo(lvl)) IN
        Emit("CASE", [msg |-> m, bytes |-> b, lvl |-> lvl, mode |-> mode,
                      sec |-> t.sec, nano |-> t.nano, zone |-> t.zone,
                      l1json |-> L1JsonString(b)])
=============================================================================
