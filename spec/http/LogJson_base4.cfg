SPECIFICATION Spec
CONSTANTS
  ClassNames <- BaseClasses
  MaxLen = 4
  Levels = {"error"}
  Modes = {"fmt"}
  L1Variant = "fixed"
INVARIANT DecoderSane
INVARIANT EmitCases
CHECK_DEADLOCK FALSE
