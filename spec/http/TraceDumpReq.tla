---------------------------- MODULE TraceDumpReq ----------------------------
(* Trace validation for C07 (request dumps): one record per header line of a request sent to a real
   httpp.Server whose logger captured the handlerLogger dump; TLC evaluates DumpObs.            *)
EXTENDS DumpReq

Trace == ndJsonDeserialize("C07_dump_trace.ndjson")

VARIABLE l
TraceInit == l = 0 /\ req = <<>> /\ done = FALSE
TraceNext == l < Len(Trace) /\ l' = l + 1 /\ UNCHANGED vars
TraceSpec == TraceInit /\ [][TraceNext]_<<l, vars>>

Verdicts == l >= 1 => Monitor(DumpObs(Trace[l]), [l |-> l])
Accepted == TLCGet("stats").diameter - 1 = Len(Trace)
=============================================================================
