---------------------------- MODULE TraceDumpReq ----------------------------
(* Trace validation for C07 (request dumps): one record per header line of a request of some protocol
   version, either given to the real dumpRequest (via = direct) or sent to a real httpp.Server (plain
   TCP for HTTP/1.x, TLS + h2 for HTTP/2.0) whose logger captured the handlerLogger dump (via = wire);
   TLC evaluates DumpObs.                                                                       *)
EXTENDS DumpReq

Trace == ndJsonDeserialize("C07_dump_trace.ndjson")

VARIABLE l
TraceInit == l = 0 /\ req = <<>> /\ proto = "HTTP/1.1" /\ done = FALSE
TraceNext == l < Len(Trace) /\ l' = l + 1 /\ UNCHANGED vars
TraceSpec == TraceInit /\ [][TraceNext]_<<l, vars>>

Verdicts == l >= 1 => Monitor(DumpObs(Trace[l]), [l |-> l])
Accepted == TLCGet("stats").diameter - 1 = Len(Trace)
=============================================================================
