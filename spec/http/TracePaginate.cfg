SPECIFICATION TraceSpec
CONSTANT MaxN = 7
INVARIANT Verdicts
POSTCONDITION Accepted
CHECK_DEADLOCK FALSE
