SPECIFICATION TraceSpec
CONSTANT LinkLen = 0
INVARIANT Verdicts
POSTCONDITION Accepted
CHECK_DEADLOCK FALSE
