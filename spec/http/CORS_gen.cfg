SPECIFICATION Spec
CONSTANT MaxList = 2
INVARIANT DeviationsExplainAll
INVARIANT EmitCases
CHECK_DEADLOCK FALSE
