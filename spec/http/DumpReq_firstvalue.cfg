\* regression FirstValueGuard (GuardOnFirstValue = TRUE: `if header.Get(k) != "" { header.Set(k, "<redacted>") }`):
\* TLC must report DumpRedacts violated (an empty first value lets the later values through)
SPECIFICATION Spec
CONSTANTS
  MaxHeaders = 1
  Protos = {"HTTP/1.1"}
  LowerBeforeLookup = FALSE
  GuardOnFirstValue = TRUE
INVARIANTS DumpRedacts
CHECK_DEADLOCK FALSE
