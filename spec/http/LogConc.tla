------------------------------ MODULE LogConc ------------------------------
(* C37, concurrent stage: several goroutines log through ONE Logger (internal/logger/logger.go Log,
   destination_stdout.go / destination_file.go log).

   Statement (layer 2) for a run in which records 1..n were submitted by any number of goroutines: the
   destination's output is a sequence of lines; every line is one valid record (judged line by line with
   the formula of LogJson.tla) that is one of the submitted records, and every submitted record appears
   exactly once; the order across goroutines is free  (MultisetOK, evaluated on the recorded runs).

   Layer 1 (the code), tiny instance: a destination owns ONE scratch buffer; Log = acquire the logger's
   lock, reset the buffer, append prefix / message / suffix, write the buffer once, release. With the
   EXCLUSIVE lock of the code every Log call is atomic with respect to the others and the output is a
   permutation of the records' lines (invariant AtomicOutput). The named deviation "SharedLock" (Log
   under a read lock) lets the calls interleave on the buffer; TLC shows on this instance that a
   corrupted output is then reachable (postcondition SharedLockCorrupts, one example is emitted).   *)
EXTENDS VerifCommon

CONSTANTS Procs          \* goroutines of the tiny instance (strings), each logs one record

Line(g) == <<"{", g, "}">>                       \* prefix, message of goroutine g, suffix (with line feed)

VARIABLES lock, pc, holder, buf, out
vars == <<lock, pc, holder, buf, out>>

Init == /\ lock \in {"exclusive", "SharedLock"}
        /\ pc = [g \in Procs |-> "acquire"] /\ holder = {} /\ buf = <<>> /\ out = <<>>

Step(g, from, to) == pc[g] = from /\ pc' = [pc EXCEPT ![g] = to]
Acquire(g) == /\ Step(g, "acquire", "reset")
              /\ (lock = "exclusive" => holder = {})
              /\ holder' = holder \cup {g} /\ UNCHANGED <<lock, buf, out>>
Reset(g)   == Step(g, "reset", "fill1") /\ buf' = <<>> /\ UNCHANGED <<lock, holder, out>>
Fill(g, k) == /\ Step(g, CASE k = 1 -> "fill1" [] k = 2 -> "fill2" [] k = 3 -> "fill3",
                         CASE k = 1 -> "fill2" [] k = 2 -> "fill3" [] k = 3 -> "write")
              /\ buf' = Append(buf, Line(g)[k]) /\ UNCHANGED <<lock, holder, out>>
Write(g)   == Step(g, "write", "release") /\ out' = Append(out, buf) /\ UNCHANGED <<lock, holder, buf>>
Release(g) == Step(g, "release", "done") /\ holder' = holder \ {g} /\ UNCHANGED <<lock, buf, out>>
Next == \E g \in Procs : Acquire(g) \/ Reset(g) \/ (\E k \in 1..3 : Fill(g, k)) \/ Write(g) \/ Release(g)
Spec == Init /\ [][Next]_vars

Terminated == \A g \in Procs : pc[g] = "done"
OutputOK == /\ Len(out) = Cardinality(Procs)
            /\ \A g \in Procs : Cardinality({i \in 1..Len(out) : out[i] = Line(g)}) = 1

\* the code's lock makes every call atomic
AtomicOutput == (lock = "exclusive" /\ Terminated) => OutputOK
\* the deviation really corrupts (remembered for the postcondition; the first example is printed)
NoteCorruption ==
    (lock = "SharedLock" /\ Terminated /\ ~OutputOK /\ TLCGet(37) = FALSE)
        => (TLCSet(37, TRUE) /\ Emit("CORRUPT", [out |-> out]))
SharedLockCorrupts == TLCGet(37) = TRUE
ASSUME TLCSet(37, FALSE)

\* ------------------------------------------------------------------ verdict on the recorded concurrent runs
\* one record per (run, destination): n = number of submitted records, ids = for every output line the number of
\* the submitted record it decodes to (0 = none / not decodable)
ConcTrace == ndJsonDeserialize("C37_conc.ndjson")
MultisetOK(r) == /\ Len(r.ids) = r.n
                 /\ \A k \in 1..r.n : Cardinality({i \in 1..Len(r.ids) : r.ids[i] = k}) = 1
IsFirstState == lock = "exclusive" /\ out = <<>> /\ \A g \in Procs : pc[g] = "acquire"
ConcVerdicts ==
    IsFirstState => \A i \in 1..Len(ConcTrace) :
        LET r == ConcTrace[i] IN
        Monitor(MultisetOK(r), [i |-> i, dest |-> r.dest,
                                 missing |-> {k \in 1..r.n : ~\E j \in 1..Len(r.ids) : r.ids[j] = k},
                                 twice |-> {k \in 1..r.n : Cardinality({j \in 1..Len(r.ids) : r.ids[j] = k}) > 1},
                                 orphans |-> Cardinality({j \in 1..Len(r.ids) : r.ids[j] = 0})])
=============================================================================
