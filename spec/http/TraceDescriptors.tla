-------------------------- MODULE TraceDescriptors --------------------------
(* Trace validation for C34: records produced by the real parsers on random field values outside
   the bounded model. Every record carries the FIELDS the harness chose, the descriptor it built
   and what the real code made of it. TLC rebuilds the descriptor from the fields with the
   documented syntax (a record whose descriptor is not that text is reported as MISBUILT and is an
   infrastructure error), decides whether the documentation determines the outcome, and if so
   demands that the parsed values are exactly the fields.                                     *)
EXTENDS Descriptors

Trace == ndJsonDeserialize("C34_trace.ndjson")

VARIABLE l
TraceInit == l = 0 /\ part = <<"http", "">> /\ done = FALSE
TraceNext == l < Len(Trace) /\ l' = l + 1 /\ UNCHANGED vars
TraceSpec == TraceInit /\ [][TraceNext]_<<l, vars>>

Has(s, c) == HasChar(Chars(s), c)
Suffix == Chars("#feedbackplay")
EndsWithQuirk(s) ==
    LET cs == Chars(s) IN Len(cs) >= Len(Suffix) /\ SubSeq(cs, Len(cs) - Len(Suffix) + 1, Len(cs)) = Suffix

V(has, s) == [has |-> has, s |-> s, st |-> s]

\* ---- SRT custom: x = [action, path, hasCred, user, pass, hasQuery, query, raw, got]
CustomBuilt(x) == CustomStr(x.action, V(TRUE, x.path), [has |-> x.hasCred, u |-> V(TRUE, x.user), p |-> V(TRUE, x.pass)],
                            V(x.hasQuery, x.query))
CustomDecided(x) ==
    /\ x.action \in {"read", "publish"}
    /\ ~Has(x.path, ":") /\ ~Has(x.user, ":") /\ ~Has(x.pass, ":") /\ ~Has(x.query, ":")
    /\ ~EndsWithQuirk(IF x.hasQuery THEN x.query ELSE IF x.hasCred THEN x.pass ELSE x.path)
CustomOK(x) == x.got = SidRes(FALSE, x.action, x.path, IF x.hasCred THEN x.user ELSE "",
                              IF x.hasCred THEN x.pass ELSE "", IF x.hasQuery THEN x.query ELSE "")

\* ---- SRT standard: x = [kvs (sequence of [k, v]), raw, got]
Keys(x) == {x.kvs[i].k : i \in 1..Len(x.kvs)}
Lookup(x, k) == IF k \in Keys(x) THEN x.kvs[CHOOSE i \in 1..Len(x.kvs) : x.kvs[i].k = k].v ELSE ""
StdDecided(x) ==
    /\ Cardinality(Keys(x)) = Len(x.kvs)
    /\ \A i \in 1..Len(x.kvs) : ~Has(x.kvs[i].k, ",") /\ ~Has(x.kvs[i].k, "=") /\ ~Has(x.kvs[i].v, ",")
    /\ "m" \in Keys(x) /\ Lookup(x, "m") \in {"publish", "request"}
StdOK(x) == x.got = SidRes(FALSE, IF Lookup(x, "m") = "publish" THEN "publish" ELSE "read",
                           Lookup(x, "r"), Lookup(x, "u"), Lookup(x, "s"), "")

\* ---- Link header: x = [url, user, cred, wire, got = [err, user, cred]]
LinkOK(x) == ~x.got.err /\ x.got.user = x.user /\ x.got.cred = x.cred

\* ---- Authorization: x = [fam, kind, user, pass, token, got = [user, pass, token]]
\* kind "multi": x.hs = sequence of [scheme, form, user, pass, token] (Descriptors!HV), several values in one request
MultiFieldsOK(h) ==
    CASE h.form = "wf" -> ~Has(h.user, ":")
      [] h.form = "up" -> ~Has(h.user, ":") /\ ~Has(h.pass, ":")
      [] h.form = "tok" -> ~Has(h.token, ":")
      [] OTHER -> TRUE
AuthDecided(x) ==
    CASE x.kind = "multi" -> ~Has2c(x.hs) /\ \A i \in 1..Len(x.hs) : MultiFieldsOK(x.hs[i])
      [] x.kind = "basic" -> ~Has(x.user, ":")
      [] x.kind = "bearer_up" -> ~Has(x.user, ":") /\ ~Has(x.pass, ":")
      [] x.kind = "bearer_tok" -> ~Has(x.token, ":")
      [] x.kind = "digest" -> TRUE
      [] OTHER -> FALSE
AuthOK(x) ==
    CASE x.kind = "multi" -> InSeq(x.got, Admitted(x.hs))
      [] x.kind \in {"basic", "bearer_up"} -> x.got = Cred(x.user, x.pass, "")
      [] x.kind = "bearer_tok" -> x.got = Cred("", "", x.token)
      [] x.kind = "digest" -> x.got = Cred(x.user, "", "")
      [] OTHER -> TRUE

Built(x) == CASE x.fam = "srt_custom" -> x.raw = CustomBuilt(x)
              [] x.fam = "srt_std" -> x.raw = StdStr(x.kvs)
              [] OTHER -> TRUE
Decided(x) == CASE x.fam = "srt_custom" -> CustomDecided(x)
                [] x.fam = "srt_std" -> StdDecided(x)
                [] x.fam = "link" -> x.user # ""
                [] OTHER -> AuthDecided(x)
OK(x) == CASE x.fam = "srt_custom" -> CustomOK(x)
           [] x.fam = "srt_std" -> StdOK(x)
           [] x.fam = "link" -> LinkOK(x)
           [] OTHER -> AuthOK(x)

Verdicts ==
    l >= 1 => LET x == Trace[l] IN
        /\ (Built(x) \/ Emit("MISBUILT", [l |-> l]))
        /\ (Decided(x) \/ Emit("OPEN", [l |-> l]))
        /\ Monitor(~Decided(x) \/ OK(x),
                   [l |-> l, dev |-> IF x.fam = "rtsp" /\ x.kind = "basic" /\ Has(x.pass, ":") /\ x.got = NoCred
                                     THEN "RtspBasicPasswordWithColon"
                                     ELSE IF x.fam = "http" /\ x.kind = "multi" /\ InSeq(x.got, Bare(x.hs))
                                     THEN "BearerDisplacedByBasic" ELSE "none"])
        /\ (~(x.fam = "http" /\ x.kind = "multi") \/ x.got = MultiL1(x.hs) \/ Emit("DRIFT", [l |-> l]))
        /\ (x.fam # "link" \/ x.wire = Wire(x.url, x.user, x.cred) \/ Emit("DRIFT", [l |-> l]))
Accepted == TLCGet("stats").diameter - 1 = Len(Trace)
=============================================================================
