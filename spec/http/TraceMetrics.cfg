SPECIFICATION TraceSpec
CONSTANTS
  Classes = {}
  Focuses = {}
  Counts = {}
  Filters = {}
  L1Variant = "fixed"
  ReaderSteps = {}
  TwoFocuses = {}
INVARIANT Verdicts
POSTCONDITION Accepted
CHECK_DEADLOCK FALSE
