SPECIFICATION TraceSpec
CONSTANTS
  Classes = {}
  Focuses = {}
  Counts = {}
  Filters = {}
  TwoFocuses = {}
INVARIANT Verdicts
POSTCONDITION Accepted
CHECK_DEADLOCK FALSE
