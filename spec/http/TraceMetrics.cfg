SPECIFICATION TraceSpec
CONSTANTS
  Classes = {}
  Focuses = {}
  Counts = {}
  Filters = {}
INVARIANT Verdicts
POSTCONDITION Accepted
CHECK_DEADLOCK FALSE
