-------------------------------- MODULE Wild --------------------------------
(* Character-level strings and literal glob matching (shared; first used by C05).

   A text is a sequence of one-character strings. In a glob pattern only "*" is special; every
   other character stands for itself. Two readings of "*" are provided because statements
   usually say "any characters" without saying whether "none" counts:
     GlobMatch0  each "*" stands for zero or more characters
     GlobMatch1  each "*" stands for one or more characters
   GlobMatch1(p, s) => GlobMatch0(p, s); a check should demand a match only when GlobMatch1
   holds and forbid it only when GlobMatch0 fails.                                          *)
EXTENDS Integers, Sequences

\* TLC evaluates Len and SubSeq on strings: "a.b" -> <<"a", ".", "b">>
Chars(s) == [i \in 1..Len(s) |-> SubSeq(s, i, i)]

HasChar(s, c) == \E i \in 1..Len(s) : s[i] = c

RECURSIVE GlobMatch0(_, _)
GlobMatch0(p, s) ==
    IF p = <<>> THEN s = <<>>
    ELSE IF Head(p) = "*"
         THEN GlobMatch0(Tail(p), s) \/ (s # <<>> /\ GlobMatch0(p, Tail(s)))
         ELSE s # <<>> /\ Head(s) = Head(p) /\ GlobMatch0(Tail(p), Tail(s))

RECURSIVE GlobMatch1(_, _)
GlobMatch1(p, s) ==
    IF p = <<>> THEN s = <<>>
    ELSE IF Head(p) = "*"
         THEN s # <<>> /\ (GlobMatch1(Tail(p), Tail(s)) \/ GlobMatch1(p, Tail(s)))
         ELSE s # <<>> /\ Head(s) = Head(p) /\ GlobMatch1(Tail(p), Tail(s))

\* decimal digits of a natural number as characters
DigitChar(d) == CASE d = 0 -> "0" [] d = 1 -> "1" [] d = 2 -> "2" [] d = 3 -> "3" [] d = 4 -> "4"
                  [] d = 5 -> "5" [] d = 6 -> "6" [] d = 7 -> "7" [] d = 8 -> "8" [] d = 9 -> "9"
RECURSIVE NatChars(_)
NatChars(n) == IF n < 10 THEN <<DigitChar(n)>> ELSE NatChars(n \div 10) \o <<DigitChar(n % 10)>>
=============================================================================
