---------------------------- MODULE VerifCommon ----------------------------
(* Shared vocabulary of the mediamtx specification tree: emission of cases and verdicts
   for the replay / trace-validation drivers (see DESIGN.md 3.1).                        *)
EXTENDS Integers, Sequences, FiniteSets, TLC, Json

\* PrintT returns TRUE, so Emit/Report can be used inside invariants without changing them.
Emit(tag, rec) == PrintT(tag \o " " \o ToJson(rec))

\* A monitor that never stops TLC: a failing conjunct is reported as a BAD line and the
\* run continues, so one TLC run yields every verdict of a trace file.
Monitor(ok, rec) == ok \/ Emit("BAD", rec)

Min(a, b) == IF a <= b THEN a ELSE b
Max(a, b) == IF a >= b THEN a ELSE b

RECURSIVE Flatten(_)
Flatten(ss) == IF ss = <<>> THEN <<>> ELSE Head(ss) \o Flatten(Tail(ss))

Range(f) == { f[x] : x \in DOMAIN f }
=============================================================================
