--------------------------------- MODULE MTX ---------------------------------
(* Composition of the configuration plane (PathManager.tla) with the path event loop (Path.tla).

   PathManager.tla knows which names have a live path, under which configuration and with which
   incarnation; Path.tla knows what a path does with publishers and readers. Here every live
   name of the manager carries a Path state record; a reload that closes a path (its
   incarnation ends) runs the path's termination (Path!DoTerminate: held requests answered,
   the publisher closed, hooks closed), and a request for a name creates the path (Path!StartPath)
   through the manager (PathManager!Request).

   Cross-module invariants (neither module can state them alone):
     SourceOnlyOnLivePath   a publisher is attached only to a name that has a live path
     ClientsOfClosedPathAreClosed (action property)
                            when a reload ends an incarnation, the publisher that was attached
                            to it is closed in that step - "any other change recreates the path"
                            (C15) and "the previous publisher is closed" (C16) meet here
     HooksClosedWithPath    no hook pair stays open on a name without a live path (C20 across reloads)

   Checked at tiny bounds (see MTX.cfg); the per-module configurations carry the depth.          *)
EXTENDS VerifCommon

CONSTANTS Names, StaticKey, RegexOrder, Match, Hot, Cold, HotKeys, InitKeys, MaxReloads, MaxInc, SimDepth,
          Pubs

VARIABLES cm, live, inflight, nseq, ninc, nreload, closedIncs, busy, hist,   \* PathManager.tla
          pst,       \* name -> Path state record (Path!NewPath shape) or Path!Dead
          lastEv     \* name -> events of the last step that touched the name
pmvars == <<cm, live, inflight, nseq, ninc, nreload, closedIncs, busy, hist>>
vars == <<pmvars, pst, lastEv>>

PM == INSTANCE PathManagerMC
\* the path loop of a publisher path without on-demand features; only its constant-level
\* operators (StartPath, Step, DoTerminate) are used, so its variables are instantiated away
P == INSTANCE Path WITH
        Readers <- {"r1"}, Descs <- {"d1"}, SourceKind <- "publisher", Override <- TRUE, MaxReaders <- 0,
        OnDemandPub <- FALSE, Regex <- FALSE, Fallback <- FALSE, AlwaysAvail <- FALSE, MaxSteps <- 99,
        KeepHist <- FALSE, InitFailureTakesStreamDown <- TRUE,
        st <- 0, nstream <- 0, pstat <- 0, rstat <- 0, dstat <- 0, confGone <- FALSE, steps <- 0, hist <- 0

PMRegexOrder == PM!RegexOrderDef
PMMatch == PM!MatchDef

Init == /\ PM!Init
        /\ pst = [n \in Names |-> IF live[n].alive THEN P!StartPath(0) ELSE P!Dead]
        /\ lastEv = [n \in Names |-> <<>>]

\* paths whose incarnation ended in this manager step are terminated, new incarnations start
Sync(n) ==
    IF live[n].alive /\ (~live'[n].alive \/ live'[n].inc # live[n].inc)
    THEN LET t == P!DoTerminate([pst[n] EXCEPT !.ev = <<>>])
         IN [st |-> IF live'[n].alive THEN P!StartPath(0) ELSE [t EXCEPT !.ev = <<>>], ev |-> t.ev]
    ELSE IF ~live[n].alive /\ live'[n].alive
    THEN [st |-> P!StartPath(0), ev |-> <<>>]
    ELSE [st |-> pst[n], ev |-> <<>>]

Reload(c) == /\ PM!Reload(c)
             /\ pst' = [n \in Names |-> Sync(n).st]
             /\ lastEv' = [n \in Names |-> Sync(n).ev]
Deliver(d) == PM!Deliver(d) /\ UNCHANGED <<pst, lastEv>>

\* a client publishes to a name: the manager creates the path if needed, then the path loop runs
Publish(n, p) ==
    /\ \/ (live[n].alive /\ UNCHANGED pmvars)
       \/ PM!Request(n)
    /\ LET base == IF live[n].alive THEN pst[n] ELSE P!StartPath(0)
           s2 == P!Step(base, [a |-> "AddPublisher", c |-> p], 1)
       IN /\ pst' = [pst EXCEPT ![n] = [s2 EXCEPT !.ev = <<>>]]
          /\ lastEv' = [m \in Names |-> IF m = n THEN s2.ev ELSE <<>>]
Unpublish(n, p) ==
    /\ live[n].alive /\ pst[n].source = p /\ UNCHANGED pmvars
    /\ LET s2 == P!Step(pst[n], [a |-> "RemovePublisher", c |-> p], 1)
       IN /\ pst' = [pst EXCEPT ![n] = [s2 EXCEPT !.ev = <<>>]]
          /\ lastEv' = [m \in Names |-> IF m = n THEN s2.ev ELSE <<>>]

Next == \/ \E c \in PM!ConfMaps : Reload(c)
        \/ \E d \in inflight : Deliver(d)
        \/ \E n \in Names, p \in Pubs : Publish(n, p) \/ Unpublish(n, p)
Spec == Init /\ [][Next]_vars

SourceOnlyOnLivePath == \A n \in Names : (pst[n].alive /\ pst[n].source \in Pubs) => live[n].alive
LoopIffLive          == \A n \in Names : pst[n].alive <=> live[n].alive
HooksClosedWithPath  == \A n \in Names : ~live[n].alive => (~pst[n].hAvail /\ ~pst[n].hOnline /\ ~pst[n].hDemand)
StreamOnlyOnLivePath == \A n \in Names : ~live[n].alive => pst[n].stream = 0
ClientsOfClosedPathAreClosed ==
    [][\A n \in Names :
          (live[n].alive /\ pst[n].source \in Pubs /\ (~live'[n].alive \/ live'[n].inc # live[n].inc))
              => \E k \in 1..Len(lastEv'[n]) : lastEv'[n][k].t = "close" /\ lastEv'[n][k].c = pst[n].source]_vars
View == <<cm, live, inflight, nseq, ninc, nreload, closedIncs, pst>>
=============================================================================
