SPECIFICATION Spec
CONSTANTS
  IfaceDeep = TRUE
  ExactSize = FALSE
  RedactOnCopy = TRUE
  MaxMut = 0
INVARIANTS RoundTrip
CHECK_DEADLOCK FALSE
