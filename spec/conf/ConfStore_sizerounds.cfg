\* regression SizeRenderingRounds (ExactSize = FALSE, the code before efb98fd): TLC must report RoundTrip violated
\* (the check configurations ConfStore_c11/c08/c07.cfg describe the current code: all TRUE)
SPECIFICATION Spec
CONSTANTS
  IfaceDeep = TRUE
  EmptyDeep = TRUE
  ExactSize = FALSE
  RedactOnCopy = TRUE
  MaxMut = 0
INVARIANTS RoundTrip
CHECK_DEADLOCK FALSE
