SPECIFICATION Spec
CONSTANTS
  GenMode = TRUE
  Full = FALSE
INVARIANT EmitCases
INVARIANT NoTable
INVARIANT EmitLists
INVARIANT NoItemTable
CHECK_DEADLOCK FALSE
