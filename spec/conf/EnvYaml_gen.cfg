SPECIFICATION Spec
CONSTANTS
  GenMode = TRUE
  Full = FALSE
INVARIANT EmitCases
INVARIANT NoTable
CHECK_DEADLOCK FALSE
