SPECIFICATION TraceSpec
INVARIANT Verdicts
INVARIANT Drift
POSTCONDITION Accepted
CHECK_DEADLOCK FALSE
