\* the current code: deepClone follows interfaces, exact size rendering, redaction on a clone
SPECIFICATION Spec
CONSTANTS
  IfaceDeep = TRUE
  EmptyDeep = TRUE
  ExactSize = TRUE
  RedactOnCopy = TRUE
  MaxMut = 0
INVARIANTS Redacted RoundTrip
INVARIANT EmitSecretCases
CHECK_DEADLOCK FALSE
