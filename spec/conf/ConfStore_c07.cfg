SPECIFICATION Spec
CONSTANTS
  IfaceDeep = TRUE
  ExactSize = TRUE
  RedactOnCopy = TRUE
  MaxMut = 0
INVARIANTS Redacted RoundTrip
INVARIANT EmitSecretCases
CHECK_DEADLOCK FALSE
