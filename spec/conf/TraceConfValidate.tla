-------------------------- MODULE TraceConfValidate --------------------------
(* Trace validation for C10. One ndjson record per case executed by the REAL conf.Load in a
   child process (harness/internal/conf/zz_verif_c10_test.go) or by a real Core during hot
   reload (harness/internal/core/zz_verif_c10_test.go):
     crash  - the child process died while executing the case
     panic  - Load panicked (recovered in the child, message recorded)
     ok     - Load returned a configuration; then conf holds the constraint-relevant values,
              encoded without loss (64-bit integers as sign + 16 hexadecimal digits, texts as
              character sequences, camera ids as decimal text)
     pred   - "accept" / "reject" (layer 1 of ConfValidate.tla) or "none" (shape classes)
     rep, firstOk, firstErr, firstFailed, sameAsFirst - history runs: the step repeats an input of the same process
   TLC evaluates the statement on every record: no crash, no panic, and a returned
   configuration satisfies every constraint named by the statement (SatObs).
   A difference from layer 1's prediction is reported as DRIFT (never a verdict).           *)
EXTENDS VerifCommon

Trace == ndJsonDeserialize("C10_trace.ndjson")

VARIABLE l
TraceInit == l = 0
TraceNext == l < Len(Trace) /\ l' = l + 1
TraceSpec == TraceInit /\ [][TraceNext]_l

\* ---- 64-bit integers: [neg |-> BOOLEAN, h |-> <<16 hexadecimal digits, most significant first>>]
HexDigits == <<"0","1","2","3","4","5","6","7","8","9","a","b","c","d","e","f">>
HexVal(ch) == CHOOSE i \in 0..15 : HexDigits[i + 1] = ch
IsZero(x) == \A i \in 1..16 : x.h[i] = "0"
Pos(x)    == ~x.neg /\ ~IsZero(x)
Pow2(x)   == /\ Pos(x)
             /\ Cardinality({i \in 1..16 : x.h[i] # "0"}) = 1
             /\ \A i \in 1..16 : x.h[i] \in {"0", "1", "2", "4", "8"}
RECURSIVE MagCmp(_, _, _)
MagCmp(a, b, i) == IF i > 16 THEN 0
                   ELSE IF HexVal(a[i]) < HexVal(b[i]) THEN -1
                   ELSE IF HexVal(a[i]) > HexVal(b[i]) THEN 1
                   ELSE MagCmp(a, b, i + 1)
Cmp(x, y) == CASE IsZero(x) /\ IsZero(y) -> 0
               [] x.neg /\ ~IsZero(x) /\ (~y.neg \/ IsZero(y)) -> -1
               [] (~x.neg \/ IsZero(x)) /\ y.neg /\ ~IsZero(y) -> 1
               [] x.neg /\ y.neg -> 0 - MagCmp(x.h, y.h, 1)
               [] OTHER -> MagCmp(x.h, y.h, 1)
Geq(x, y) == Cmp(x, y) >= 0

\* ---- texts as character sequences
Contains(s, sub) == \E i \in 1..(Len(s) - Len(sub) + 1) : SubSeq(s, i, i + Len(sub) - 1) = sub

\* ---- the statement, on an observed configuration
HasPathVar(rp) == Contains(rp, <<"%", "p", "a", "t", "h">>)
FullTimestamp(rp) == \/ Contains(rp, <<"%", "s">>)
                     \/ \A ch \in {"Y", "m", "d", "H", "M", "S"} : Contains(rp, <<"%", ch>>)
IsRegexOrAll(name) == \/ (Len(name) > 0 /\ name[1] = "~")
                      \/ name = <<"a", "l", "l">>
                      \/ name = <<"a", "l", "l", "_", "o", "t", "h", "e", "r", "s">>
StaticSource(p) == p.source \notin {"publisher", "redirect"}

PathMonitors == {"RecordPathHasPath", "RecordPathFullTimestamp", "DeleteAfterVsSegment", "RegexStaticOnDemand"}
PathOK(p, mon) ==
    CASE mon = "RecordPathHasPath"       -> HasPathVar(p.recordPath)
      [] mon = "RecordPathFullTimestamp" -> FullTimestamp(p.recordPath)
      [] mon = "DeleteAfterVsSegment"    -> IsZero(p.del) \/ Geq(p.del, p.seg)
      [] mon = "RegexStaticOnDemand"     -> (IsRegexOrAll(p.name) /\ StaticSource(p)) => p.onDemand

ConfMonitors == {"ReadTimeoutPositive", "WriteTimeoutPositive", "WriteQueuePowerOfTwo", "UniqueRpiCameraIds"}
ConfOK(cf, mon) ==
    CASE mon = "ReadTimeoutPositive"  -> Pos(cf.rt)
      [] mon = "WriteTimeoutPositive" -> Pos(cf.wt)
      [] mon = "WriteQueuePowerOfTwo" -> Pow2(cf.wq)
      [] mon = "UniqueRpiCameraIds"   ->
            \A i, j \in 1..Len(cf.paths) :
                (i # j /\ cf.paths[i].source = "rpiCamera" /\ cf.paths[j].source = "rpiCamera"
                 /\ ~cf.paths[i].secondary /\ ~cf.paths[j].secondary) => cf.paths[i].camID # cf.paths[j].camID

\* history independence: rep marks a step that submits an input the same process has been given before
\* (ConfValidate!HistoryPattern); first* is what the first submission got. Same input => same verdict
\* (and, when accepted, the same constraint-relevant values).
HistoryIndependent(r) ==
    (r.rep /\ ~r.crash /\ ~r.panic /\ ~r.firstFailed) =>
        /\ r.ok = r.firstOk
        /\ r.err = r.firstErr
        /\ r.ok => r.sameAsFirst

RecVerdict(r, ln) ==
    /\ Monitor(HistoryIndependent(r), [l |-> ln, id |-> r.id, monitor |-> "HistoryIndependent"])
    /\ Monitor(~r.crash, [l |-> ln, id |-> r.id, monitor |-> "NoCrash"])
    /\ Monitor(~r.panic, [l |-> ln, id |-> r.id, monitor |-> "NoPanic"])
    /\ r.ok =>
        /\ \A mon \in ConfMonitors : Monitor(ConfOK(r.conf, mon), [l |-> ln, id |-> r.id, monitor |-> mon])
        /\ \A mon \in PathMonitors :
               Monitor(\A i \in 1..Len(r.conf.paths) : PathOK(r.conf.paths[i], mon),
                       [l |-> ln, id |-> r.id, monitor |-> mon])

\* ---- not verdicts
Conforms(r) == \/ r.pred = "none"
               \/ r.crash \/ r.panic
               \/ (r.pred = "accept") = r.ok
\* a variable whose name merely continues the name of a scalar parameter (MTX_READTIMEOUT_X) addresses nothing
\* in the documented grammar; sfxLeaf marks such cases, same = the load gave the configuration it gives without it
SuffixIgnored(r) == (r.sfxLeaf /\ r.ok /\ r.compared) => r.same
OtherTimeoutsPositive(r) == r.ok => \A i \in 1..Len(r.conf.otherTimeouts) : Pos(r.conf.otherTimeouts[i].v)

Verdicts == l >= 1 => RecVerdict(Trace[l], l)
Drift    == l >= 1 => /\ (Conforms(Trace[l]) \/ Emit("DRIFT", [l |-> l, id |-> Trace[l].id, what |-> "layer1"]))
                      /\ (OtherTimeoutsPositive(Trace[l]) \/ Emit("DRIFT", [l |-> l, id |-> Trace[l].id, what |-> "otherTimeout"]))
                      /\ (SuffixIgnored(Trace[l]) \/ Emit("DRIFT", [l |-> l, id |-> Trace[l].id, what |-> "suffixChangedConf"]))
Accepted == TLCGet("stats").diameter - 1 = Len(Trace)
=============================================================================
