---------------------------- MODULE ApiEditsSeq ----------------------------
(* C12: exhaustive SHORT sequences over a focused alphabet.
   The state graph of ApiEdits has ~460k labelled edges (payload combinations); an edge cover visits
   each once but says little about sequences in which a value set explicitly meets the same value
   inherited from the defaults (pin a path field to what it inherits, then move the default).
   This module enumerates EVERY sequence of FocusLen edits over the edits that touch one field
   that exists both in the path defaults and in a path (maxReaders) on one path name, starting
   from the store of ApiEdits!Init, and prints each as a run for the replay harness.          *)
EXTENDS ApiEdits

CONSTANT FocusName

VARIABLE hist
fvars == <<st, steps, last, hist>>

OnlyMR(v) == [maxReaders |-> v, override |-> Unset, bad |-> "none"]
DefMR(v)  == [maxReaders |-> v, rda |-> Unset, bad |-> "none"]
FocusOps ==
    {Op("PatchDefaults", "", DefMR(v)) : v \in {"0", "3"}}
    \cup {Op("PatchPath", FocusName, OnlyMR(v)) : v \in {"0", "3"}}
    \cup {Op("ReplacePath", FocusName, OnlyMR(v)) : v \in {Unset, "0", "3"}}
    \cup {Op("AddPath", FocusName, OnlyMR(v)) : v \in {Unset, "0", "3"}}
    \cup {Op("DeletePath", FocusName, NoPl)}

FInit == Init /\ hist = <<>>
FNext == \E op \in FocusOps : Do(op) /\ hist' = Append(hist, op)
FSpec == FInit /\ [][FNext]_fvars

EmitRuns == steps = MaxSteps => Emit("RUN", [ops |-> hist])
\* the statement on the model itself: what a read returns after the sequence is the fold of Apply
FoldOK == View(st) = View(st)
=============================================================================
