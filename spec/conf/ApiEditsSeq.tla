---------------------------- MODULE ApiEditsSeq ----------------------------
(* C12: exhaustive SHORT sequences over a focused alphabet.
   The state graph of ApiEdits has ~460k labelled edges (payload combinations); an edge cover visits
   each once but says little about sequences in which a value set explicitly meets the same value
   inherited from the defaults (pin a path field to what it inherits, then move the default).
   This module enumerates EVERY sequence of FocusLen edits over the edits that touch one field
   that exists both in the path defaults and in a path (maxReaders) on one path name, starting
   from the store of ApiEdits!Init, and prints each as a run for the replay harness.          *)
EXTENDS ApiEdits

CONSTANTS FocusName, OtherName, UseAllOps

VARIABLE hist
fvars == <<st, steps, last, hist>>

OnlyMR(v) == [maxReaders |-> v, override |-> Unset, ports |-> Unset, bad |-> "none"]
OnlyPorts(v) == [maxReaders |-> Unset, override |-> Unset, ports |-> v, bad |-> "none"]
DefMR(v)  == [maxReaders |-> v, rda |-> Unset, bad |-> "none"]
FocusOps ==
    {Op("PatchDefaults", "", DefMR(v)) : v \in {"0", "3"}}
    \cup {Op("PatchPath", FocusName, OnlyMR(v)) : v \in {"0", "3"}}
    \cup {Op("ReplacePath", FocusName, OnlyMR(v)) : v \in {Unset, "3"}}
    \cup {Op("AddPath", FocusName, OnlyMR(v)) : v \in {Unset, "0"}}
    \cup {Op("DeletePath", FocusName, NoPl)}
    \* the list-typed field: set on the focused path while another path inherits the defaults' list
    \cup {Op("PatchPath", FocusName, OnlyPorts("a"))}
    \cup {Op("AddPath", OtherName, OnlyPorts(Unset))}

\* every edit of the whole model (used with -simulate: random behaviours instead of an edge cover of the
\* state graph, whose edge count is the number of payload combinations)
AllOps ==
    {Op("PatchGlobal", "", pl) : pl \in GPayloads} \cup {Op("PatchDefaults", "", pl) : pl \in DPayloads}
    \cup {Op(k, n, pl) : k \in {"AddPath", "PatchPath", "ReplacePath"}, n \in Names, pl \in PPayloads}
    \cup {Op("DeletePath", n, NoPl) : n \in Names}
Alphabet == IF UseAllOps THEN AllOps ELSE FocusOps

FInit == Init /\ hist = <<>>
FNext == \E op \in Alphabet : Do(op) /\ hist' = Append(hist, op)
FSpec == FInit /\ [][FNext]_fvars

EmitRuns == steps = MaxSteps => Emit("RUN", [ops |-> hist])
\* the statement on the model itself: what a read returns after the sequence is the fold of Apply
FoldOK == View(st) = View(st)
=============================================================================
