---------------------------- MODULE PathNameGen ----------------------------
(* Bounded model of path names (C06, C14): every string of length <= MaxLen over an alphabet.
   TLC checks on each of them that
     - the code-shaped validity (ImplValidErr) coincides with the statement's Valid,
     - the strict reading implies the loose one,
     - the statement's "Consequently": for a valid name, the file path derived from each record
       path format lies under that format's fixed directory prefix,
   and emits the names (NAME), the configuration keys (KEY) and configuration sets (CFG) that the
   check replays into the real code.                                                            *)
EXTENDS PathName

CONSTANTS AlphaSel,   \* "c06" | "c14"
          MaxLen

\* DESIGN.md C06: letters/digits, every allowed punctuation, and characters that must be refused
Alpha06 == {"a", "0", "_", "-", ".", "/", "~", "%", " ", "é"}
\* C14: enough to spell names the regular-expression keys below distinguish
Alpha14 == {"c", "a", "m", "b", "0", "/", ".", "~", "é"}
Alpha == IF AlphaSel = "c06" THEN Alpha06 ELSE Alpha14

BoundedSeq(S, n) == UNION {[1..m -> S] : m \in 0..n}

\* ---- C14 configuration keys and sets (DESIGN.md C14)
KeyList == <<
  <<"c","a","m">>,                                       \* cam
  <<"c","a","m","/","a">>,                               \* cam/a
  <<"~","^","c","a","m","(",".","*",")","$">>,           \* ~^cam(.*)$
  <<"~","^","(","c",")","(","a","m",".","*",")","$">>,   \* ~^(c)(am.*)$
  <<"~","^","b">>,                                       \* ~^b
  KAllOthers,                                            \* all_others
  KAll,                                                  \* all
  <<"~","^",".","*","$">>,                               \* ~^.*$
  <<"~","^","c","a","m","[","0","-","9","]","+","$">>,  \* ~^cam[0-9]+$
  \* expressions that are NOT anchored: "matching" is Go's: the expression is found somewhere in
  \* the name, the groups are those of the leftmost match (literal prefix "cam", "m", none)
  <<"~","c","a","m","(","[","0","-","9","]","+",")">>,  \* ~cam([0-9]+)
  <<"~","m","(",".",")">>,                               \* ~m(.)
  <<"~","[","0","-","9","]","b">> >>                     \* ~[0-9]b
CatchAll == {KAllOthers, KAll, <<"~","^",".","*","$">>}
\* conf.Validate: all_others, all and ~^.*$ are aliases, at most one of them may be configured
CfgSets == {K \in SUBSET (1..Len(KeyList)) :
              /\ Cardinality(K) <= 3
              /\ Cardinality({i \in K : KeyList[i] \in CatchAll}) <= 1}

ASSUME \A i \in 1..Len(KeyList) :
          Emit("KEY", [idx |-> i, chars |-> KeyList[i], regex |-> IsRegexKey(KeyList[i]),
                       src |-> IF IsRegexKey(KeyList[i]) THEN RegexSrc(KeyList[i]) ELSE <<>>])
ASSUME \A K \in CfgSets : Emit("CFG", [keys |-> K])

\* ---- C06 record path formats (the harness uses the same three, with /R = its temporary root)
Formats == {
  <<"/","R","/","r","e","c","/","%","p","a","t","h","/","%","Y","-","%","m","-","%","d","_","%","H","-","%","M","-","%","S","-","%","f">>,
  <<"/","R","/","r","e","c","/","%","Y","/","%","p","a","t","h","_","%","m","-","%","d","_","%","H","-","%","M","-","%","S","-","%","f">>,
  <<"/","R","/","r","e","c","/","s","u","b","/","x","%","p","a","t","h","-","%","s","-","%","f">> }

VARIABLE name
Init == name \in BoundedSeq(Alpha, MaxLen)
Next == UNCHANGED name
Spec == Init /\ [][Next]_name

ValidAgree   == (ImplValidErr(name) = "ok") <=> Valid(name)
StrictInLoose == Valid(name) => ValidLoose(name)
Consequently ==
    ValidLoose(name) =>
        \A f \in Formats :
            /\ FixedPrefix(f) = << <<"R">>, <<"r","e","c">> >> \/ FixedPrefix(f) = << <<"R">>, <<"r","e","c">>, <<"s","u","b">> >>
            /\ Under(FixedPrefix(f), Subst(f, name))
\* the converse direction shows the rule is needed: some refused name of the model escapes
EmitName == Emit("NAME", [chars |-> name, valid |-> Valid(name), loose |-> ValidLoose(name),
                          escapes |-> \E f \in Formats : ~Under(FixedPrefix(f), Subst(f, name))])
=============================================================================
