------------------------------- MODULE EnvYaml -------------------------------
(* C09  Environment overrides are equivalent to file values
        (internal/conf/env/env.go, internal/conf/conf.go Load, internal/conf/yamlwrapper)

   Addressing (docs/2-features/05-configuration.md): MTX_ followed by the upper-cased name of
   the parameter; parameters inside maps and lists are addressed by appending, separated by
   underscores, the upper-cased map key or the position in the list; lists of scalars are
   written as comma-separated text. Merge order: defaults < file < environment.

   Layer 2 (the statement): for every parameter p and value v that can be written both ways,
       Load(file[p := v], env {})            = Load(file, env {Key(p) = Enc(v)})      (EnvEqualsFile)
       Load(file[p := a], env {Key(p) = Enc(v)}) = Load(file[p := v], env {})         (EnvOverridesFile)
   "Can be written both ways" (Expressible) comes from the documented grammar: a map key must
   survive upper-casing and contain no underscore (the next underscore ends the key); a list
   position must not leave a gap; an item of a comma-separated list cannot contain a comma and
   a list cannot consist of one empty item (empty text is the empty list).

   Layer 1 (LoadEnv) follows env.loadEnvInternal on an abstract tree of scalars, comma lists,
   structs, maps of structs and lists of structs. TLC checks Expressible => both equations on
   the bounded universe (GenMode = FALSE).

   Generator (GenMode = TRUE): reads the parameters of the REAL conf.Conf (enumerated by
   reflection by the harness, C09_params.ndjson), and emits for every parameter, addressing
   context and value class the environment key (computed by KeyOf), the environment text
   (Enc), the YAML value, the value to be overridden and whether the case is Expressible.    *)
EXTENDS VerifCommon

CONSTANTS GenMode, Full

\* ------------------------------------------------------------------ characters
LowerAZ == <<"a","b","c","d","e","f","g","h","i","j","k","l","m","n","o","p","q","r","s","t","u","v","w","x","y","z">>
UpperAZ == <<"A","B","C","D","E","F","G","H","I","J","K","L","M","N","O","P","Q","R","S","T","U","V","W","X","Y","Z">>
DigitCh == <<"0","1","2","3","4","5","6","7","8","9">>
IsLower(ch) == \E i \in 1..26 : LowerAZ[i] = ch
IsUpper(ch) == \E i \in 1..26 : UpperAZ[i] = ch
IsDigit(ch) == \E i \in 1..10 : DigitCh[i] = ch
UpC(ch) == IF IsLower(ch) THEN UpperAZ[CHOOSE i \in 1..26 : LowerAZ[i] = ch] ELSE ch
LoC(ch) == IF IsUpper(ch) THEN LowerAZ[CHOOSE i \in 1..26 : UpperAZ[i] = ch] ELSE ch
UpS(s) == [i \in 1..Len(s) |-> UpC(s[i])]
LoS(s) == [i \in 1..Len(s) |-> LoC(s[i])]
HasCh(s, ch) == \E i \in 1..Len(s) : s[i] = ch
HasPrefix(s, p) == Len(s) >= Len(p) /\ SubSeq(s, 1, Len(p)) = p
Drop(s, n) == SubSeq(s, n + 1, Len(s))
\* text up to the first underscore (strings.Cut(s, "_"))
CutU(s) == IF HasCh(s, "_") THEN SubSeq(s, 1, (CHOOSE i \in 1..Len(s) : s[i] = "_" /\ \A j \in 1..(i - 1) : s[j] # "_") - 1) ELSE s
RECURSIVE SplitComma(_)
SplitComma(s) == IF ~HasCh(s, ",") THEN <<s>>
                 ELSE LET i == CHOOSE k \in 1..Len(s) : s[k] = "," /\ \A j \in 1..(k - 1) : s[j] # ","
                      IN <<SubSeq(s, 1, i - 1)>> \o SplitComma(Drop(s, i))
RECURSIVE JoinComma(_)
JoinComma(items) == IF items = <<>> THEN <<>>
                    ELSE IF Len(items) = 1 THEN items[1] ELSE items[1] \o <<",">> \o JoinComma(Tail(items))
Digits(n) == IF n < 10 THEN <<DigitCh[n + 1]>> ELSE <<DigitCh[(n \div 10) + 1], DigitCh[(n % 10) + 1]>>

\* ------------------------------------------------------------------ addressing
\* step: [t |-> "f", s |-> tag] field | [t |-> "k", s |-> key] map entry | [t |-> "i", n |-> position] list item
Seg(st) == IF st.t = "i" THEN Digits(st.n) ELSE UpS(st.s)
RECURSIVE KeyOf(_)
KeyOf(addr) == IF addr = <<>> THEN <<"M", "T", "X">>
               ELSE KeyOf(SubSeq(addr, 1, Len(addr) - 1)) \o <<"_">> \o Seg(addr[Len(addr)])

\* a map key that can be addressed: non-empty, letters and digits only (so no underscore), unchanged by
\* upper-casing and lower-casing again
KeyExpressible(k) == /\ k # <<>>
                     /\ \A i \in 1..Len(k) : IsLower(k[i]) \/ IsDigit(k[i])
KeyWhy(k) == IF k = <<>> THEN "empty map key"
             ELSE IF HasCh(k, "_") THEN "map key contains an underscore (the key ends at the next underscore)"
             ELSE IF \E i \in 1..Len(k) : IsUpper(k[i]) THEN "map key contains an upper-case letter (keys are lower-cased)"
             ELSE IF ~KeyExpressible(k) THEN "map key is not made of letters and digits (not a portable variable name)"
             ELSE ""

\* ================================================================== abstract model (GenMode = FALSE)
\* types
TScalar == [k |-> "s"]
TList   == [k |-> "l"]
TStruct(f) == [k |-> "st", f |-> f]
TMap(e)    == [k |-> "m", e |-> e]
TSList(e)  == [k |-> "sl", e |-> e]

A1 == <<"a">>
L1 == <<"l">>
M1 == <<"m">>
U1 == <<"u">>
Inner == TStruct((A1 :> TScalar) @@ (L1 :> TList))
Root  == TStruct((A1 :> TScalar) @@ (L1 :> TList) @@ (M1 :> TMap(Inner)) @@ (U1 :> TSList(Inner)))

Unset == <<"#">>     \* a field that nothing has set (zero value / nil pointer)
Zero(ty) == CASE ty.k = "s" -> Unset
              [] ty.k = "l" -> <<Unset>>       \* nil list, distinct from the empty list
              [] ty.k = "st" -> [t \in DOMAIN ty.f |-> IF ty.f[t].k = "s" THEN Unset ELSE <<Unset>>]
              [] OTHER -> <<>>

RECURSIVE LoadEnv(_, _, _, _)
RECURSIVE LoopSL(_, _, _, _, _)
LoadEnv(env, prefix, ty, val) ==
    CASE ty.k = "s" -> IF prefix \in DOMAIN env THEN env[prefix] ELSE val
      [] ty.k = "l" -> IF prefix \in DOMAIN env
                       THEN (IF env[prefix] = <<>> THEN <<>> ELSE SplitComma(env[prefix]))
                       ELSE val
      [] ty.k = "st" -> [t \in DOMAIN ty.f |-> LoadEnv(env, prefix \o <<"_">> \o UpS(t), ty.f[t], val[t])]
      [] ty.k = "m" ->
            LET pre  == prefix \o <<"_">>
                mks  == {CutU(Drop(k, Len(pre))) : k \in {x \in DOMAIN env : HasPrefix(x, pre)}}
                good == {mk \in mks : mk # <<>> /\ UpS(mk) = mk}
                dom  == DOMAIN val \cup {LoS(mk) : mk \in good}
            IN [key \in dom |->
                   IF \E mk \in good : LoS(mk) = key
                   THEN LoadEnv(env, pre \o (CHOOSE mk \in good : LoS(mk) = key), ty.e,
                                IF key \in DOMAIN val THEN val[key] ELSE Zero(ty.e))
                   ELSE val[key]]
      [] ty.k = "sl" -> IF prefix \in DOMAIN env /\ env[prefix] = <<>> THEN <<>>
                        ELSE LoopSL(env, prefix, ty, val, 0)
LoopSL(env, prefix, ty, val, i) ==
    LET ip  == prefix \o <<"_">> \o Digits(i)
        has == \E k \in DOMAIN env : HasPrefix(k, ip)
    IN IF (~has /\ Len(val) <= i) \/ i > 12 THEN val
       ELSE LET cur == IF Len(val) > i THEN val[i + 1] ELSE Zero(ty.e)
                nv  == LoadEnv(env, ip, ty.e, cur)
            IN LoopSL(env, prefix, ty, IF Len(val) > i THEN [val EXCEPT ![i + 1] = nv] ELSE Append(val, nv), i + 1)

\* writing the value into the file: the tree with the leaf at addr replaced (entries / items created on demand)
RECURSIVE SetAt(_, _, _, _)
SetAt(ty, val, addr, v) ==
    IF addr = <<>> THEN v
    ELSE LET st == addr[1] rest == Tail(addr) IN
         CASE st.t = "f" -> [val EXCEPT ![st.s] = SetAt(ty.f[st.s], val[st.s], rest, v)]
           [] st.t = "k" -> LET old == IF st.s \in DOMAIN val THEN val[st.s] ELSE Zero(ty.e)
                            IN [key \in DOMAIN val \cup {st.s} |-> IF key = st.s THEN SetAt(ty.e, old, rest, v) ELSE val[key]]
           [] st.t = "i" -> IF st.n < Len(val) THEN [val EXCEPT ![st.n + 1] = SetAt(ty.e, val[st.n + 1], rest, v)]
                            ELSE Append(val, SetAt(ty.e, Zero(ty.e), rest, v))

\* bounded universe
ScalarVals == {<<"x">>, <<"y">>, <<>>, <<"x", ",", "y">>}
ListVals   == {<<>>, <<<<"x">>>>, <<<<"x">>, <<"y">>>>, <<<<"x", ",", "y">>>>, <<<<>>>>, <<<<"x">>, <<>>>>}
MapKeys    == {<<"b">>, <<"b", "1">>, <<"B">>, <<"b", "_", "c">>, <<"c">>}
InnerVal(a, l) == (A1 :> a) @@ (L1 :> l)
InnerVals == {InnerVal(<<"x">>, <<<<"x">>>>), InnerVal(Unset, <<Unset>>)}
EmptyMap  == [x \in {} |-> <<>>]
BaseMaps  == {EmptyMap} \cup {(<<"b">> :> iv) : iv \in InnerVals} \cup {(<<"b">> :> InnerVal(<<"x">>, <<>>)) @@ (<<"b", "1">> :> iv) : iv \in InnerVals}
BaseLists == {<<>>} \cup {<<iv>> : iv \in InnerVals} \cup {<<InnerVal(<<"x">>, <<>>), iv>> : iv \in InnerVals}
Bases == {(A1 :> <<"x">>) @@ (L1 :> <<<<"x">>>>) @@ (M1 :> m) @@ (U1 :> u) : m \in BaseMaps, u \in BaseLists}

F(s) == [t |-> "f", s |-> s]
K(s) == [t |-> "k", s |-> s]
I(n) == [t |-> "i", n |-> n]
LeafAddrs == {<<F(A1)>>, <<F(L1)>>}
             \cup {<<F(M1), K(k), F(f)>> : k \in MapKeys, f \in {A1, L1}}
             \cup {<<F(U1), I(n), F(f)>> : n \in 0..3, f \in {A1, L1}}
IsListLeaf(addr) == addr[Len(addr)].s = L1

\* the list a position step refers to, in the base tree
ListLenAt(base, addr) == Len(base[U1])

Enc(addr, v) == IF IsListLeaf(addr) THEN JoinComma(v) ELSE v

ValueExpressible(addr, v) ==
    IF IsListLeaf(addr)
    THEN (\A i \in 1..Len(v) : ~HasCh(v[i], ",")) /\ v # <<<<>>>>
    ELSE TRUE
Expressible(base, addr, v) ==
    /\ ValueExpressible(addr, v)
    /\ \A i \in 1..Len(addr) : addr[i].t = "k" => KeyExpressible(addr[i].s)
    /\ \A i \in 1..Len(addr) : addr[i].t = "i" => addr[i].n <= ListLenAt(base, addr)

VARIABLES base, addr, v, alt
vars == <<base, addr, v, alt>>

ValsFor(a) == IF IsListLeaf(a) THEN ListVals ELSE ScalarVals

MCInit == /\ base \in Bases
          /\ addr \in LeafAddrs
          /\ v \in ValsFor(addr)
          /\ alt \in {<<"z">>}
GenInit == base = <<>> /\ addr = <<>> /\ v = <<>> /\ alt = <<>>
Init == IF GenMode THEN GenInit ELSE MCInit
Next == UNCHANGED vars
Spec == Init /\ [][Next]_vars

EnvOf(a, val) == (KeyOf(a) :> Enc(a, val))
AltVal == IF IsListLeaf(addr) THEN <<alt>> ELSE alt

\* layer 1 |= layer 2
EnvEqualsFile ==
    (~GenMode /\ Expressible(base, addr, v)) =>
        LoadEnv(EnvOf(addr, v), <<"M", "T", "X">>, Root, base) = SetAt(Root, base, addr, v)
EnvOverridesFile ==
    (~GenMode /\ Expressible(base, addr, v)) =>
        LoadEnv(EnvOf(addr, v), <<"M", "T", "X">>, Root, SetAt(Root, base, addr, AltVal)) = SetAt(Root, base, addr, v)
\* the grammar restrictions are needed: outside them the environment does address something else
\* (reported by TLC as the number of such states; not a verdict)
NeedsRestriction == ~GenMode /\ ~Expressible(base, addr, v)
                    /\ LoadEnv(EnvOf(addr, v), <<"M", "T", "X">>, Root, base) # SetAt(Root, base, addr, v)

\* ================================================================== generator (GenMode = TRUE)
Params == IF GenMode THEN ndJsonDeserialize("C09_params.ndjson") ELSE <<>>

\* ---- value classes: n name, y YAML value, e environment text, x expressible both ways, why (if not)
V(n, y, e) == [n |-> n, y |-> y, e |-> e, x |-> TRUE, why |-> ""]
X(n, y, e, why) == [n |-> n, y |-> y, e |-> e, x |-> FALSE, why |-> why]
Raw(s) == [raw |-> s]       \* a plain (unquoted) YAML scalar

\* list classes are built from items: the environment text is the items joined by commas
It(s) == [s |-> s, y |-> s, comma |-> FALSE]
ItC(s) == [s |-> s, y |-> s, comma |-> TRUE]
Num(s, n) == [s |-> s, y |-> n, comma |-> FALSE]
RECURSIVE JoinS(_)
JoinS(items) == IF items = <<>> THEN "" ELSE IF Len(items) = 1 THEN items[1].s ELSE items[1].s \o "," \o JoinS(Tail(items))
LV(n, items) ==
    LET ys == [i \in 1..Len(items) |-> items[i].y]
        comma == \E i \in 1..Len(items) : items[i].comma
        oneEmpty == Len(items) = 1 /\ items[1].s = ""
    IN [n |-> n, y |-> ys, e |-> JoinS(items), x |-> ~comma /\ ~oneEmpty,
        why |-> IF comma THEN "a list item contains a comma" ELSE IF oneEmpty THEN "a list of one empty item is written like the empty list" ELSE ""]

StringVals == << V("simple", "abc", "abc"), V("empty", "", ""), V("spaces", "two words here", "two words here"),
                 V("comma", "a,b", "a,b"), V("numeric", "123", "123"), V("boolLike", "yes", "yes"), V("nullLike", "null", "null"),
                 V("punct", "~t #h a: b", "~t #h a: b"), V("leadSpace", " lead", " lead"),
                 V("quoteBackslash", "a\"b\\c", "a\"b\\c"), V("plain", Raw("plainvalue"), "plainvalue") >>
IntVals    == << V("small", 5, "5"), V("zero", 0, "0"), V("negative", -3, "-3"), V("max32", 2147483647, "2147483647"),
                 V("pow2", 1024, "1024"), V("one", 1, "1"), V("payload", 1400, "1400"),
                 X("beyond32", Raw("2147483648"), "2147483648", "integers from the environment are parsed with 32 bits") >>
UintVals   == << V("small", 7, "7"), V("zero", 0, "0"), V("multiple8", 640, "640"),
                 V("max32", Raw("4294967295"), "4294967295"),
                 X("beyond32", Raw("4294967296"), "4294967296", "integers from the environment are parsed with 32 bits") >>
FloatVals  == << V("fraction", Raw("1.5"), "1.5"), V("zero", 0, "0"), V("negative", Raw("-0.25"), "-0.25"), V("integer", 3, "3") >>
BoolVals   == << V("true", TRUE, "true"), V("false", FALSE, "false"), V("yes", Raw("yes"), "yes"), V("no", Raw("no"), "no"),
                 X("on", Raw("on"), "on", "on/off are accepted in the file only (YAML 1.1 legacy)"),
                 X("upperYES", Raw("true"), "YES", "the environment is case-insensitive; the file grammar is not stated") >>
DurationVals == << V("seconds", "5s", "5s"), V("zero", "0s", "0s"), V("compound", "1m30s", "1m30s"), V("days", "1d", "1d"),
                   V("hours", "25h", "25h"), V("millis", "100ms", "100ms"), V("negative", "-1s", "-1s"),
                   V("plain", Raw("45s"), "45s") >>
StringSizeVals == << V("mega", "1M", "1M"), V("kilo", "512K", "512K"), V("fraction", "1.5G", "1.5G"), V("plainMB", Raw("10MB"), "10MB") >>
CredentialVals == << V("plain", "user1", "user1"), V("symbols", "pa!$()*+.;<=>[]^_-{}@#&", "pa!$()*+.;<=>[]^_-{}@#&"),
                     V("sha256", "sha256:j1tsRqDEw9xvq/D7/9tMx6Jh/jMhk3UfjwIB2f1zgMo=", "sha256:j1tsRqDEw9xvq/D7/9tMx6Jh/jMhk3UfjwIB2f1zgMo="),
                     V("argon2", "argon2:$argon2id$v=19$m=4096,t=3,p=1$MTIzNDU2Nzg$Ux/LWeTgJQPyfMMJo1myR64+o8rALHoPmlE1i/TR+58",
                                 "argon2:$argon2id$v=19$m=4096,t=3,p=1$MTIzNDU2Nzg$Ux/LWeTgJQPyfMMJo1myR64+o8rALHoPmlE1i/TR+58"),
                     V("empty", "", "") >>
StrListVals == << LV("empty", <<>>), LV("one", <<It("a")>>), LV("two", <<It("a"), It("b")>>), LV("spaces", <<It("a b"), It("c")>>),
                  LV("urls", <<It("stun:stun.example.org:3478"), It("https://example.org")>>),
                  LV("mixedCase", <<It("Alpha"), It("BETA"), It("gamma")>>),
                  LV("emptyItemLast", <<It("a"), It("")>>),
                  LV("commaItem", <<ItC("a,b")>>), LV("oneEmptyItem", <<It("")>>) >>
UintListVals == << LV("two", <<Num("10000", 10000), Num("20000", 20000)>>), LV("one", <<Num("7", 7)>>), LV("empty", <<>>) >>
FloatListVals == << LV("two", <<Num("1.5", Raw("1.5")), Num("2", 2)>>), LV("zeros", <<Num("0", 0), Num("0", 0)>>), LV("empty", <<>>) >>
StructListVals == << LV("empty", <<>>) >>

\* values by Go type name of enumerations and list types with their own decoder
E(s) == V(s, s, s)
TypeVals(ty) ==
    CASE ty = "conf.LogLevel" -> << E("error"), E("warn"), E("info"), E("debug") >>
      [] ty = "conf.AuthMethod" -> << E("internal"), E("http"), E("jwt") >>
      [] ty = "conf.Encryption" -> << E("no"), E("optional"), E("strict") >>
      [] ty = "conf.RTSPTransport" -> << E("udp"), E("multicast"), E("tcp"), E("automatic") >>
      [] ty = "conf.RTSPRangeType" -> << E("clock"), E("npt"), E("smpte"), V("undefined", "", "") >>
      [] ty = "conf.HLSVariant" -> << E("mpegts"), E("fmp4"), E("lowLatency") >>
      [] ty = "conf.RecordFormat" -> << E("fmp4"), E("mpegts") >>
      [] ty = "conf.MoQTransport" -> << E("quic"), E("webtransport") >>
      [] ty = "conf.AuthAction" -> << E("publish"), E("read"), E("playback"), E("api"), E("metrics"), E("pprof") >>
      [] ty = "conf.AlwaysAvailableTrackCodec" -> << E("G711"), E("LPCM"), E("MPEG4Audio") >>
      [] ty = "conf.LogDestinations" -> << LV("stdout", <<It("stdout")>>), LV("two", <<It("stdout"), It("file")>>), LV("empty", <<>>) >>
      [] ty = "conf.IPNetworks" -> << LV("cidr", <<It("192.168.1.0/24")>>), LV("mixed", <<It("10.0.0.1"), It("::1"), It("fe80::/64")>>), LV("empty", <<>>) >>
      [] ty = "conf.RTSPTransports" -> << LV("tcp", <<It("tcp")>>), LV("two", <<It("udp"), It("tcp")>>), LV("all", <<It("udp"), It("multicast"), It("tcp")>>) >>
      [] ty = "conf.RTSPAuthMethods" -> << LV("basic", <<It("basic")>>), LV("two", <<It("basic"), It("digest")>>), LV("empty", <<>>) >>
      [] OTHER -> <<>>

\* values of parameters that the configuration validates further (a generic value would be refused both ways)
FieldVals(tag) ==
    CASE tag = "source" -> << V("rtsp", "rtsp://us:pw@host.example:8554/s?x=1,2", "rtsp://us:pw@host.example:8554/s?x=1,2"), E("publisher"),
                              E("rpiCamera"), E("udp+mpegts://238.0.0.1:1234"), E("srt://host.example:8890?streamid=read:a"),
                              V("plain", Raw("rtmp://host.example/app/key"), "rtmp://host.example/app/key") >>
      [] tag = "recordPath" -> << E("/r/%path/%Y-%m-%d_%H-%M-%S-%f"), E("%path/%s-%f") >>
      [] tag = "srtReadPassphrase" -> << E("0123456789ab"), E("pass phrase, with comma") >>
      [] tag = "srtPublishPassphrase" -> << E("0123456789ab"), E("pass phrase, with comma") >>
      [] tag = "hlsCDNSecret" -> << E("s3cr3t!") >>
      [] tag = "fallback" -> << E("/other"), E("rtsp://host.example:8554/x") >>
      [] tag = "url" -> << E("stun:stun.example.org:3478"), E("turn:turn.example.org:3478") >>
      [] tag = "dest" -> << E("rtsp://dest.example.org:8554/a"), E("rtmp://dest.example.org/app/$MTX_PATH"), E("srt://dest.example.org:8890?streamid=publish:x") >>
      [] tag = "webrtcICEServers" -> << LV("one", <<It("stun:stun.example.org:3478")>>), LV("two", <<It("stun:a.example.org:3478"), It("turn:user:pass:b.example.org:3478")>>), LV("empty", <<>>) >>
      [] tag = "sampleRate" -> << V("rate", 48000, "48000"), V("rate2", 22050, "22050") >>
      [] tag = "channelCount" -> << V("mono", 1, "1"), V("stereo", 2, "2") >>
      [] tag = "writeQueueSize" -> << V("pow2", 1024, "1024"), V("one", 1, "1") >>
      [] tag = "readBufferCount" -> << V("pow2", 256, "256") >>
      [] tag = "readTimeout" -> << E("5s"), E("1m30s"), E("1d") >>
      [] tag = "writeTimeout" -> << E("5s"), E("1m30s"), E("1d") >>
      [] tag = "recordSegmentDuration" -> << E("30m"), E("1s") >>
      [] tag = "recordDeleteAfter" -> << E("0s"), E("2d") >>
      [] OTHER -> <<>>

KindVals(kind) ==
    CASE kind = "string" -> StringVals [] kind = "int" -> IntVals [] kind = "uint" -> UintVals [] kind = "float" -> FloatVals
      [] kind = "bool" -> BoolVals [] kind = "duration" -> DurationVals [] kind = "stringsize" -> StringSizeVals
      [] kind = "credential" -> CredentialVals [] kind = "strlist" -> StrListVals [] kind = "uintlist" -> UintListVals
      [] kind = "floatlist" -> FloatListVals [] kind = "structlist" -> StructListVals
      [] OTHER -> <<>>

ValsOf(p) == LET fv == FieldVals(p.tag) tv == TypeVals(p.type) IN
             IF fv # <<>> THEN fv ELSE IF tv # <<>> THEN tv ELSE KindVals(p.kind)

\* ---- addressing contexts
Ch3(a, b, c) == <<a, b, c>>
KeyClasses == IF Full
              THEN << <<"c","a","m">>, <<"c","a","m","1">>, <<"0","9">>, <<"m","y","_","c","a","m">>, <<"C","a","m">>,
                      <<"a","l","l","_","o","t","h","e","r","s">>, <<"c","a","m","/","s","u","b">>, <<"c","a","m","-","1">> >>
              ELSE << <<"c","a","m">>, <<"c","a","m","1">>, <<"m","y","_","c","a","m">>, <<"C","a","m">> >>
\* state of the map entry in the file before the parameter is written: no entry, an entry with another
\* parameter, an entry without a value ("cam:" - as all_others in the shipped mediamtx.yml)
NullEntryTags == {"source", "record", "recordDeleteAfter", "maxReaders", "forward"}
Entries(k, p) == IF ~KeyExpressible(k) THEN <<"present">>
                 ELSE IF Full THEN <<"absent", "present", "null">>
                 ELSE IF k # <<"c","a","m">> THEN <<"present">>
                 ELSE IF p.tag \in NullEntryTags THEN <<"absent", "present", "null">> ELSE <<"absent", "present">>
\* list contexts: [len |-> items of the list in the file, idx |-> position addressed];
\* len = -1: the list is not in the file, the built-in defaults (p.dlen items) apply
ListCtx == IF Full
           THEN << [len |-> 0, idx |-> 0], [len |-> 1, idx |-> 0], [len |-> 2, idx |-> 1], [len |-> 2, idx |-> 2], [len |-> 2, idx |-> 0],
                   [len |-> 1, idx |-> 2], [len |-> 1, idx |-> 10], [len |-> 10, idx |-> 10], [len |-> 11, idx |-> 1], [len |-> -1, idx |-> 0], [len |-> -1, idx |-> 1] >>
           ELSE << [len |-> 0, idx |-> 0], [len |-> 2, idx |-> 1], [len |-> 2, idx |-> 2], [len |-> 1, idx |-> 2], [len |-> -1, idx |-> 0] >>
\* parameters inside a list inside a list: the outer item exists in the file (it holds the inner list)
OuterListCtx == << [len |-> 1, idx |-> 0], [len |-> 2, idx |-> 1] >>
InnerListCtx == << [len |-> 1, idx |-> 0], [len |-> 1, idx |-> 1], [len |-> 1, idx |-> 3] >>

NK(p) == Cardinality({i \in 1..Len(p.addr) : p.addr[i].t = "k"})
NI(p) == Cardinality({i \in 1..Len(p.addr) : p.addr[i].t = "i"})

\* concrete address of parameter p in context (key, list contexts in order of occurrence)
RECURSIVE Concrete(_, _, _)
Concrete(a, key, lcs) ==
    IF a = <<>> THEN <<>>
    ELSE LET st == a[1] IN
         IF st.t = "k" THEN <<K(key)>> \o Concrete(Tail(a), key, lcs)
         ELSE IF st.t = "i" THEN <<I(lcs[1].idx)>> \o Concrete(Tail(a), key, Tail(lcs))
         ELSE <<F(st.cs)>> \o Concrete(Tail(a), key, lcs)

\* (len = -1: the list has the length it has in the built-in defaults, dlen)
EffLen(lc, dlen) == IF lc.len = -1 THEN dlen ELSE lc.len
ListsOK(lcs, dlen) == \A i \in 1..Len(lcs) : lcs[i].idx <= EffLen(lcs[i], dlen)
\* a new item of a list whose items are decoded and validated as a whole by the file decoder (p.itemdec,
\* reported by the harness: the item type has its own UnmarshalJSON) cannot be written with one variable
NewItem(lcs, dlen) == \E i \in 1..Len(lcs) : lcs[i].idx = EffLen(lcs[i], dlen)
ItemOK(p, lcs) == ~(p.itemdec /\ NewItem(lcs, p.dlen))
ListWhy(p, lcs) == IF ~ListsOK(lcs, p.dlen) THEN "the list position leaves a gap"
                   ELSE IF ~ItemOK(p, lcs) THEN "a new item of a list whose items are validated as a whole needs several variables"
                   ELSE ""

CtxsOf(p) ==
    LET keys == IF NK(p) = 0 THEN << <<>> >> ELSE KeyClasses
        lists == IF NI(p) = 0 THEN << <<>> >>
                 ELSE IF NI(p) = 1 THEN [i \in 1..Len(ListCtx) |-> <<ListCtx[i]>>]
                 ELSE [i \in 1..(Len(OuterListCtx) * Len(InnerListCtx)) |->
                          <<OuterListCtx[((i - 1) \div Len(InnerListCtx)) + 1], InnerListCtx[((i - 1) % Len(InnerListCtx)) + 1]>>]
        ents(kk) == IF NK(p) = 0 THEN {"none"} ELSE Range(Entries(kk, p))
    IN UNION {{[key |-> keys[i], entry |-> en, lists |-> lists[j]] : j \in 1..Len(lists), en \in ents(keys[i])} : i \in 1..Len(keys)}

EmitParam(p) ==
    LET vals == ValsOf(p) IN
    \A cx \in CtxsOf(p) : \A vi \in 1..Len(vals) :
        LET val == vals[vi]
            altv == vals[(vi % Len(vals)) + 1]
            ca  == Concrete(p.addr, cx.key, cx.lists)
            kx  == NK(p) = 0 \/ KeyExpressible(cx.key)
            why == IF ~val.x THEN val.why ELSE IF ~kx THEN KeyWhy(cx.key) ELSE ListWhy(p, cx.lists)
        IN Emit("CASE", [pid |-> p.pid, key |-> cx.key, entry |-> cx.entry, lists |-> cx.lists, vn |-> val.n,
                         y |-> val.y, alt |-> altv.y, e |-> val.e, k |-> KeyOf(ca), sk |-> <<>>, exact |-> TRUE, np |-> FALSE,
                         x |-> val.x /\ kx /\ ListsOK(cx.lists, p.dlen) /\ ItemOK(p, cx.lists), why |-> why])

\* ---- variables whose name continues after a complete parameter name (MTX_READTIMEOUT_X, ..._0, ..._0_X, ...__):
\* they address nothing in the documented grammar, so the equations demand nothing (x = FALSE); the only demand
\* is that loading does not crash (np = TRUE). sk is the suffixed name, exact says whether Key(p) is set as well.
Sfx(n, cs, ex) == [n |-> n, cs |-> cs, ex |-> ex]
Suffixes == IF Full
            THEN << Sfx("_X", <<"_", "X">>, FALSE), Sfx("_0", <<"_", "0">>, FALSE), Sfx("_0_X", <<"_", "0", "_", "X">>, FALSE),
                    Sfx("__", <<"_", "_">>, FALSE), Sfx("_X", <<"_", "X">>, TRUE), Sfx("_0_X", <<"_", "0", "_", "X">>, TRUE) >>
            ELSE << Sfx("_X", <<"_", "X">>, FALSE), Sfx("_0_X", <<"_", "0", "_", "X">>, TRUE) >>
OwnDecoder(p) == p.kind \in {"duration", "stringsize", "credential", "enum", "ulist"}
SuffixParam(p) == Full \/ (p.ptr /\ OwnDecoder(p))
SuffixCtx(p) == [key |-> IF NK(p) = 0 THEN <<>> ELSE <<"c","a","m">>, entry |-> IF NK(p) = 0 THEN "none" ELSE "present",
                 lists |-> IF NI(p) = 0 THEN <<>> ELSE IF NI(p) = 1 THEN << [len |-> 2, idx |-> 1] >>
                           ELSE << [len |-> 1, idx |-> 0], [len |-> 1, idx |-> 0] >>]
EmitSuffix(p) ==
    LET vals == ValsOf(p) cx == SuffixCtx(p) val == vals[1] k == KeyOf(Concrete(p.addr, cx.key, cx.lists)) IN
    \A si \in 1..Len(Suffixes) :
        LET sf == Suffixes[si] IN
        Emit("CASE", [pid |-> p.pid, key |-> cx.key, entry |-> cx.entry, lists |-> cx.lists,
                      vn |-> "suffix" \o sf.n \o (IF sf.ex THEN "+exact" ELSE ""),
                      y |-> val.y, alt |-> val.y, e |-> val.e, k |-> k, sk |-> k \o sf.cs, exact |-> sf.ex, np |-> TRUE,
                      x |-> FALSE, why |-> "the variable name continues after the parameter name (only a crash would be a violation)"])


\* ---- several variables cooperating on one list of structs (every struct-list parameter, both tiers).
\* The statement quantifies over parameters; a list item field is a parameter, and a user who defines a list
\* through the environment sets several of them at once (docs: MTX_AUTHINTERNALUSERS_0_USER, ..._0_PASS).
\* The file holds blen complete items (or, base = "defaults", the list is not in the file and the built-in
\* defaults apply); each scenario is a set of assignments [idx, sub, fv]: field fv.f of item idx (sub = <<>>), or of
\* item sub.n of the list sub.tag nested in item idx. Equations as for one variable: environment = same values
\* written into the file; environment overrides other values written into the file.
FV(f, yv, av, ev) == [f |-> f, y |-> yv, alt |-> av, e |-> ev]
ES(f, va, vb) == FV(f, va, vb, va)
ItemTable(tag) ==
    CASE tag = "authInternalUsers" ->
            [ov |-> <<ES("user", "userx", "usery")>>, ov2 |-> <<ES("pass", "passz", "passw")>>,
             new1 |-> <<ES("user", "newa", "newb")>>, new2 |-> <<ES("user", "newc", "newd"), ES("pass", "pwc", "pwd")>>,
             nested |-> [tag |-> "permissions", fv |-> ES("path", "nestedp", "nestedq")]]
      [] tag \in {"permissions", "authHTTPExclude", "authJWTExclude"} ->
            [ov |-> <<ES("action", "read", "playback")>>, ov2 |-> <<ES("path", "ovp", "ovq")>>,
             new1 |-> <<ES("action", "api", "metrics")>>, new2 |-> <<ES("action", "pprof", "publish"), ES("path", "np", "nq")>>,
             nested |-> [tag |-> "", fv |-> ES("", "", "")]]
      [] tag = "webrtcICEServers2" ->
            [ov |-> <<ES("url", "stun:ov.example.org:3478", "stun:ow.example.org:3478")>>, ov2 |-> <<ES("username", "ovu", "ovv")>>,
             new1 |-> <<ES("url", "turn:na.example.org:3478", "turn:nb.example.org:3478")>>,
             new2 |-> <<ES("url", "stun:nc.example.org:3478", "stun:nd.example.org:3478"), ES("password", "s3", "s4")>>,
             nested |-> [tag |-> "", fv |-> ES("", "", "")]]
      [] tag = "forward" ->
            [ov |-> <<ES("dest", "rtsp://ov.example.org:8554/a", "rtsp://ow.example.org:8554/a")>>, ov2 |-> <<ES("whipBearerToken", "tok1", "tok2")>>,
             new1 |-> <<ES("dest", "rtmp://na.example.org/app/k", "rtmp://nb.example.org/app/k")>>,
             new2 |-> <<ES("dest", "srt://nc.example.org:8890?streamid=publish:x", "srt://nd.example.org:8890?streamid=publish:x")>>,
             nested |-> [tag |-> "", fv |-> ES("", "", "")]]
      [] tag = "alwaysAvailableTracks" ->
            [ov |-> <<FV("sampleRate", 48000, 22050, "48000")>>, ov2 |-> <<FV("channelCount", 1, 6, "1")>>,
             new1 |-> <<ES("codec", "G711", "LPCM"), FV("sampleRate", 8000, 16000, "8000"), FV("channelCount", 1, 2, "1")>>,
             new2 |-> <<ES("codec", "LPCM", "G711"), FV("sampleRate", 48000, 44100, "48000"), FV("channelCount", 2, 1, "2")>>,
             nested |-> [tag |-> "", fv |-> ES("", "", "")]]
      [] OTHER -> [ov |-> <<>>, ov2 |-> <<>>, new1 |-> <<>>, new2 |-> <<>>, nested |-> [tag |-> "", fv |-> ES("", "", "")]]

Asg(idx, sub, fvs) == [i \in 1..Len(fvs) |-> [idx |-> idx, sub |-> sub, fv |-> fvs[i]]]
NoSub == [tag |-> "", n |-> 0]
Scenarios(tag, blen) ==
    LET t == ItemTable(tag) IN
    << [n |-> "overrideExisting",       a |-> Asg(0, NoSub, t.ov)],
       [n |-> "appendNew",              a |-> Asg(blen, NoSub, t.new1)],
       [n |-> "overrideExistingAppendNew", a |-> Asg(0, NoSub, t.ov) \o Asg(blen, NoSub, t.new1)],
       [n |-> "overrideLastAppendNew",  a |-> Asg(blen - 1, NoSub, t.ov) \o Asg(blen, NoSub, t.new1)],
       [n |-> "overrideTwoExisting",    a |-> Asg(0, NoSub, t.ov) \o Asg(1, NoSub, t.ov2)],
       [n |-> "appendTwoNew",           a |-> Asg(blen, NoSub, t.new1) \o Asg(blen + 1, NoSub, t.new2)] >>
    \o (IF t.nested.tag = "" THEN <<>>
        ELSE << [n |-> "overrideNestedAppendNew",
                 a |-> Asg(0, [tag |-> t.nested.tag, n |-> 0], <<t.nested.fv>>) \o Asg(blen, NoSub, t.new1)],
                [n |-> "appendNestedAppendNew",
                 a |-> Asg(0, [tag |-> t.nested.tag, n |-> 1], <<t.nested.fv>>) \o Asg(blen, NoSub, t.new1)] >>)

\* characters of the tag of field f of the items of list parameter lp (from the parameters the harness enumerated)
IsChildOf(q, a, f) == /\ Len(q.addr) = Len(a) + 2 /\ SubSeq(q.addr, 1, Len(a)) = a
                      /\ q.addr[Len(a) + 1].t = "i" /\ q.addr[Len(a) + 2].t = "f" /\ q.addr[Len(a) + 2].s = f
FieldCs(a, f) == LET i == CHOOSE j \in 1..Len(Params) : IsChildOf(Params[j], a, f) IN Params[i].addr[Len(a) + 2].cs
HasField(a, f) == \E j \in 1..Len(Params) : IsChildOf(Params[j], a, f)
\* address (in the enumerated form) of the list nested under field tg of the items of the list at a
NestedAddr(a, tg) == LET i == CHOOSE j \in 1..Len(Params) : IsChildOf(Params[j], a, tg) IN Params[i].addr

ListBases(p) == IF p.dlen > 0 /\ NI(p) = 0 THEN <<"file", "defaults">> ELSE <<"file">>
EmitListParam(p) ==
    LET cx   == SuffixCtx(p)                       \* the simple context: path cam present, outer item 0 of 2
        la   == Concrete(p.addr, cx.key, IF NI(p) = 0 THEN <<>> ELSE << [len |-> 2, idx |-> 0] >>)
    IN \A bi \in 1..Len(ListBases(p)) :
        LET bs == ListBases(p)[bi]
            blen == IF bs = "defaults" THEN p.dlen ELSE 2
            scs  == Scenarios(p.tag, blen)
        IN \A si \in 1..Len(scs) :
            LET sc == scs[si]
                keyOf(as) == IF as.sub.tag = ""
                             THEN KeyOf(la \o <<I(as.idx), F(FieldCs(p.addr, as.fv.f))>>)
                             ELSE KeyOf(la \o <<I(as.idx), F(FieldCs(p.addr, as.sub.tag)), I(as.sub.n),
                                                 F(FieldCs(NestedAddr(p.addr, as.sub.tag), as.fv.f))>>)
            IN (sc.a # <<>> /\ \A ai \in 1..Len(sc.a) : IF sc.a[ai].sub.tag = "" THEN HasField(p.addr, sc.a[ai].fv.f) ELSE HasField(p.addr, sc.a[ai].sub.tag)) =>
               Emit("MCASE", [pid |-> p.pid, scen |-> sc.n, base |-> bs, blen |-> blen, key |-> cx.key,
                              outer |-> NI(p) > 0,
                              assigns |-> [ai \in 1..Len(sc.a) |->
                                  [idx |-> sc.a[ai].idx, subtag |-> sc.a[ai].sub.tag, subn |-> sc.a[ai].sub.n,
                                   f |-> sc.a[ai].fv.f, y |-> sc.a[ai].fv.y, alt |-> sc.a[ai].fv.alt, e |-> sc.a[ai].fv.e,
                                   k |-> keyOf(sc.a[ai])]]])
EmitLists == GenMode => \A i \in 1..Len(Params) : (Params[i].kind = "structlist" /\ NI(Params[i]) <= 1) => EmitListParam(Params[i])
\* a struct-list parameter without an item table would go unnoticed: reported like a missing value table
NoItemTable == GenMode => \A i \in 1..Len(Params) :
                   (Params[i].kind = "structlist" /\ ItemTable(Params[i].tag).ov = <<>>) => Emit("NOTABLE", [pid |-> Params[i].pid, type |-> Params[i].type])

EmitCases == GenMode => \A i \in 1..Len(Params) :
                 ValsOf(Params[i]) # <<>> => (EmitParam(Params[i]) /\ (SuffixParam(Params[i]) => EmitSuffix(Params[i])))
NoTable   == GenMode => \A i \in 1..Len(Params) :
                 (ValsOf(Params[i]) = <<>> /\ Params[i].kind \notin {"struct", "map", "optpath"}) => Emit("NOTABLE", [pid |-> Params[i].pid, type |-> Params[i].type])
=============================================================================
