----------------------------- MODULE ConfValidate -----------------------------
(* C10  Loading any configuration input never panics
        (internal/conf/conf.go Load/Validate, internal/conf/path.go validate,
         internal/conf/decrypt/decrypt.go, internal/conf/env/env.go)

   Layer 2 (Sat, and SatObs in TraceConfValidate.tla) is the property statement: a loaded
   configuration has positive read/write timeouts, a power-of-two write queue, and every path
   has a record path with %path and a full timestamp, a deleteAfter that is zero (documented:
   "0s disables deletion") or not below the segment duration, a static source on a regular
   expression / all_others path only together with sourceOnDemand, and no two primary
   rpiCamera paths share a camera id. The statement's "..." is left open: nothing else is
   demanded.
   Layer 1 (Accept1) follows conf.Validate / Path.validate on the same abstract
   configuration (adds: playback => %f, segment duration <= 1 day, sourceOnDemand useless
   with publisher, secondary rpiCamera stream needs a primary). Accept1 => Sat is model
   checked; a difference between Accept1 and what the real Load did is DRIFT, not a verdict.

   The module is also the generator: one CASE per abstract configuration (file and
   environment assignments spelled out) and, once, the robustness shape classes (SHAPE),
   which the driver concretizes.                                                            *)
EXTENDS VerifCommon

CONSTANTS ASel      \* "each" : the three constraint groups varied one at a time around a valid centre
                    \* "pairs": additionally the groups crossed pairwise (few globals x path, record x few paths,
                    \*          path-level record settings x every single path)

\* ------------------------------------------------------------------ token tables
\* A duration token: the text a user writes and an order rank (monotone in the real value;
\* TLC integers are 32 bit, nanoseconds do not fit).
D(s, r) == [s |-> s, r |-> r]

RTs  == {D("10s", 30), D("1ns", 1), D("0s", 0), D("-1s", -10)}
Segs == {D("1s", 10), D("1h", 50), D("24h", 70), D("24h0m1s", 71)}
Dels == {D("0s", 0), D("999ms", 9), D("1s", 10), D("59m59s", 49), D("1h", 50), D("1d", 70), D("2d", 90)}

W(s, n) == [s |-> s, n |-> n]
WQs == {W("512", 512), W("1", 1), W("2", 2), W("1073741824", 1073741824),
        W("0", 0), W("-8", -8), W("3", 3), W("513", 513), W("1000", 1000)}

RP(s, p, ts, f) == [s |-> s, hasPath |-> p, hasTs |-> ts, hasF |-> f]
RPs == {RP("./recordings/%path/%Y-%m-%d_%H-%M-%S-%f", TRUE, TRUE, TRUE),
        RP("/rec/%path/%Y%m%d%H%M%S%f", TRUE, TRUE, TRUE),
        RP("%path/%s", TRUE, TRUE, FALSE),
        RP("%path/%s-%f", TRUE, TRUE, TRUE),
        RP("./recordings/%path/%Y-%m-%d_%H-%M-%S", TRUE, TRUE, FALSE),
        RP("./recordings/%Y-%m-%d_%H-%M-%S-%f", FALSE, TRUE, TRUE),
        RP("./recordings/%path/%Y-%m-%d_%H-%M-%f", TRUE, FALSE, TRUE),
        RP("./recordings/%path/%m-%d_%H-%M-%S-%f", TRUE, FALSE, TRUE),
        RP("./recordings/%PATH/%Y-%m-%d_%H-%M-%S-%f", FALSE, TRUE, TRUE),
        RP("%path", TRUE, FALSE, FALSE),
        RP("", FALSE, FALSE, FALSE)}

N(s, rx, seg) == [s |-> s, rx |-> rx, seg |-> seg]     \* seg: environment key segment, "" = not addressable
Names == {N("cam", FALSE, "CAM"), N("~^cam(.*)$", TRUE, ""), N("all_others", TRUE, ""), N("all", TRUE, "")}

S(s, st, rpi) == [s |-> s, static |-> st, rpi |-> rpi]
Sources == {S("publisher", FALSE, FALSE), S("rtsp://127.0.0.1:8554/s", TRUE, FALSE),
            S("redirect", FALSE, FALSE), S("rpiCamera", TRUE, TRUE)}

Seconds == {"none", "rpiSame", "rpiSameSec", "rpiOther"}

IsPow2(n) == n > 0 /\ \E k \in 0..30 : n = 2^k

\* ------------------------------------------------------------------ layer 2: the statement
SatA(c) == c.rt.r > 0 /\ c.wt.r > 0 /\ IsPow2(c.wq.n)
SatB(c) == c.rp.hasPath /\ c.rp.hasTs /\ (c.del.r = 0 \/ c.del.r >= c.seg.r)
Primaries0(c) == (IF c.src.rpi THEN 1 ELSE 0) + (IF c.second = "rpiSame" THEN 1 ELSE 0)
SatC(c) == /\ (c.name.rx /\ c.src.static) => c.od
           /\ Primaries0(c) <= 1
Sat(c) == SatA(c) /\ SatB(c) /\ SatC(c)

\* ------------------------------------------------------------------ layer 1: the code
Acc1A(c) == c.rt.r > 0 /\ c.wt.r > 0 /\ c.wq.n > 0 /\ IsPow2(c.wq.n)
Acc1B(c) == /\ c.rp.hasPath /\ c.rp.hasTs
            /\ c.pb => c.rp.hasF
            /\ c.seg.r <= 70
            /\ (c.del.r = 0 \/ c.del.r >= c.seg.r)
Acc1C(c) == /\ ~(c.od /\ c.src.s = "publisher")
            /\ ~(~c.od /\ c.src.static /\ c.name.rx)
            /\ Primaries0(c) <= 1
            /\ (c.second = "rpiSameSec") => c.src.rpi
Accept1(c) == Acc1A(c) /\ Acc1B(c) /\ Acc1C(c)

\* ------------------------------------------------------------------ concretization
\* An assignment: address in the configuration tree, YAML value, environment key ("" = the
\* address cannot be written as an environment variable: regular expression keys, keys with
\* an underscore) and environment text.
A(addr, y, k, e) == [addr |-> addr, y |-> y, k |-> k, e |-> e]
YN(b) == IF b THEN "yes" ELSE "no"

PathAssign(name, fld, FLD, y, e) ==
    A(<<"paths", name.s, fld>>, y, IF name.seg = "" THEN "" ELSE "MTX_PATHS_" \o name.seg \o "_" \o FLD, e)

Assignments(c) ==
    LET g == << A(<<"readTimeout">>, c.rt.s, "MTX_READTIMEOUT", c.rt.s),
                A(<<"writeTimeout">>, c.wt.s, "MTX_WRITETIMEOUT", c.wt.s),
                A(<<"writeQueueSize">>, c.wq.n, "MTX_WRITEQUEUESIZE", c.wq.s),
                A(<<"playback">>, c.pb, "MTX_PLAYBACK", YN(c.pb)) >>
        rec == IF c.lvl = "defaults"
               THEN << A(<<"pathDefaults", "recordPath">>, c.rp.s, "MTX_PATHDEFAULTS_RECORDPATH", c.rp.s),
                       A(<<"pathDefaults", "recordSegmentDuration">>, c.seg.s, "MTX_PATHDEFAULTS_RECORDSEGMENTDURATION", c.seg.s),
                       A(<<"pathDefaults", "recordDeleteAfter">>, c.del.s, "MTX_PATHDEFAULTS_RECORDDELETEAFTER", c.del.s) >>
               ELSE << PathAssign(c.name, "recordPath", "RECORDPATH", c.rp.s, c.rp.s),
                       PathAssign(c.name, "recordSegmentDuration", "RECORDSEGMENTDURATION", c.seg.s, c.seg.s),
                       PathAssign(c.name, "recordDeleteAfter", "RECORDDELETEAFTER", c.del.s, c.del.s) >>
        p1 == << PathAssign(c.name, "source", "SOURCE", c.src.s, c.src.s),
                 PathAssign(c.name, "sourceOnDemand", "SOURCEONDEMAND", c.od, YN(c.od)) >>
              \o (IF c.src.s = "redirect"
                  THEN << PathAssign(c.name, "sourceRedirect", "SOURCEREDIRECT", "/other", "/other") >> ELSE <<>>)
        n2 == N("cam2", FALSE, "CAM2")
        p2 == IF c.second = "none" THEN <<>>
              ELSE << PathAssign(n2, "source", "SOURCE", "rpiCamera", "rpiCamera"),
                      PathAssign(n2, "rpiCameraCamID", "RPICAMERACAMID", IF c.second = "rpiOther" THEN 1 ELSE 0,
                                 IF c.second = "rpiOther" THEN "1" ELSE "0"),
                      PathAssign(n2, "rpiCameraSecondary", "RPICAMERASECONDARY", c.second = "rpiSameSec", YN(c.second = "rpiSameSec")) >>
    IN g \o rec \o p1 \o p2

InFile(c, a) == c.via = "file" \/ a.k = ""
FileOf(c) == LET as == Assignments(c) IN
             [i \in {j \in 1..Len(as) : InFile(c, as[j])} |-> [addr |-> as[i].addr, y |-> as[i].y]]
EnvOf(c)  == LET as == Assignments(c) IN
             [i \in {j \in 1..Len(as) : ~InFile(c, as[j])} |-> [k |-> as[i].k, e |-> as[i].e]]
\* (functions over index subsets; ToJson prints them as objects keyed by index, the driver takes the values)

\* ------------------------------------------------------------------ bounded model
VARIABLE c
vars == <<c>>

Centre == [rt |-> D("10s", 30), wt |-> D("10s", 30), wq |-> W("512", 512), pb |-> FALSE,
           rp |-> RP("./recordings/%path/%Y-%m-%d_%H-%M-%S-%f", TRUE, TRUE, TRUE),
           seg |-> D("1h", 50), del |-> D("1d", 70), lvl |-> "defaults",
           name |-> N("cam", FALSE, "CAM"), src |-> S("publisher", FALSE, FALSE), od |-> FALSE,
           second |-> "none", via |-> "file"]

GA == [rt : RTs, wt : RTs, wq : WQs]
GB == [pb : BOOLEAN, rp : RPs, seg : Segs, del : Dels, lvl : {"defaults", "path"}]
GC == [name : Names, src : Sources, od : BOOLEAN, second : Seconds]
SmallA == {[rt |-> D("10s", 30), wt |-> D("10s", 30), wq |-> W("512", 512)],
           [rt |-> D("0s", 0),   wt |-> D("10s", 30), wq |-> W("512", 512)],
           [rt |-> D("1ns", 1),  wt |-> D("-1s", -10), wq |-> W("1", 1)],
           [rt |-> D("10s", 30), wt |-> D("1ns", 1),  wq |-> W("3", 3)]}

Put(a, b, cc, via) ==
    [rt |-> a.rt, wt |-> a.wt, wq |-> a.wq, pb |-> b.pb, rp |-> b.rp, seg |-> b.seg, del |-> b.del,
     lvl |-> b.lvl, name |-> cc.name, src |-> cc.src, od |-> cc.od, second |-> cc.second, via |-> via]

CA == [rt |-> Centre.rt, wt |-> Centre.wt, wq |-> Centre.wq]
CB == [pb |-> Centre.pb, rp |-> Centre.rp, seg |-> Centre.seg, del |-> Centre.del, lvl |-> Centre.lvl]
CC == [name |-> Centre.name, src |-> Centre.src, od |-> Centre.od, second |-> Centre.second]

NoSecond == {x \in GC : x.second = "none"}
FewC == {CC,
         [name |-> N("~^cam(.*)$", TRUE, ""), src |-> S("rtsp://127.0.0.1:8554/s", TRUE, FALSE), od |-> TRUE, second |-> "none"],
         [name |-> N("all_others", TRUE, ""), src |-> S("redirect", FALSE, FALSE), od |-> FALSE, second |-> "none"]}
Vias == {"file", "env"}

Universe ==
    CASE ASel = "each"  -> {Put(a, CB, CC, v) : a \in GA, v \in Vias}
                           \cup {Put(CA, b, CC, v) : b \in GB, v \in Vias}
                           \cup {Put(CA, CB, cc, v) : cc \in GC, v \in Vias}
      [] ASel = "pairs" -> {Put(a, CB, CC, v) : a \in GA, v \in Vias}
                           \cup {Put(CA, CB, cc, v) : cc \in GC, v \in Vias}
                           \cup {Put(a, CB, cc, v) : a \in SmallA, cc \in GC, v \in Vias}
                           \cup {Put(CA, b, cc, v) : b \in GB, cc \in FewC, v \in Vias}
                           \cup {Put(CA, b, cc, "file") : b \in {x \in GB : x.lvl = "path" /\ ~x.pb}, cc \in NoSecond}

\* ------------------------------------------------------------------ shape classes
FieldKinds == {"string", "int", "uint", "float", "bool", "duration", "stringsize", "enum", "credential",
               "strlist", "uintlist", "floatlist", "ulist", "structlist", "map", "struct", "optpath"}
YTypes == {"null", "string", "emptyString", "int", "negInt", "hugeInt", "float", "bool", "list", "listOfLists",
           "listOfMaps", "map", "emptyMap", "emptyList"}
TextShapes == {"empty", "whitespace", "comment", "scalarString", "scalarInt", "scalarBool", "scalarNull", "tilde",
               "topList", "topEmptyList", "topEmptyMap", "multiDoc", "docMarkers", "unknownKeyTop", "unknownKeyDefaults",
               "unknownKeyPath", "unknownKeyListItem", "duplicateKeyTop", "duplicateKeyPath", "duplicatePath",
               "anchorOk", "aliasUndefined", "mergeKey", "mergeUndefined", "selfAnchor", "anchorOnMap",
               "nul", "invalidUtf8", "bom", "crlf", "tabIndent", "badIndent", "unclosedFlow", "unclosedQuote",
               "boolKey", "intKey", "floatKey", "nullKey", "complexKey", "emptyPathName", "slashPathName", "dotdotPathName",
               "badRegexPathName", "tildeOnlyPathName", "nullPaths", "nullPathEntry", "nullPathDefaults", "nullUsers",
               "allAliases", "longScalar", "manyPaths", "yamlTag", "binaryTag", "octalInt", "hexInt", "floatForInt",
               "bigDuration", "overflowDuration", "negativeStringSize", "hugeQueue", "pow2Beyond32"}
DeepKinds == {"flowSeq", "flowMap", "blockMap", "blockSeq"}
DeepUnder == {"top", "paths", "pathDefaults", "authInternalUsers"}
CipherLens == {"0", "<24", "=24", ">24badmac", "valid"}
B64s == {"valid", "badchar", "badpad", "newline"}
Keys == {"empty", "short", "32", ">32"}
KeyVars == {"mtx", "rtsp", "both"}
Plains == {"validConf", "invalidConf", "empty", "garbage"}
EnvScalarVals == {"empty", "space", "word", "negative", "huge", "float", "quote", "backslash", "comma", "nul8", "unicode", "long"}
EnvListElems == {"string", "uint", "float", "struct", "unmarshaler"}
EnvKeyShapes == {"emptyMapKey", "doubleUnderscore", "lowercaseMapKey", "mixedCaseMapKey", "mapKeyOnly", "mapKeyOnlyValue",
                 "listIndexOnly", "listIndexGap", "listIndexNegative", "listIndexHuge", "listIndexNonNumeric", "listIndex10",
                 "structExact", "mapExact", "listExactNonEmpty", "unknownVar", "prefixOnly", "nullEntryThenEnv",
                 "emptyEntryThenEnv", "permissionsNested", "legacyPrefix", "bothPrefixes", "equalsInValue"}

\* environment variables whose name continues after a complete parameter name
EnvSuffixes == {"_X", "_0", "_0_X", "__"}

\* history: Load is a function of the file and the environment, whatever the process has loaded before.
\* Every input class A is submitted in ONE process in this order ("A" the input, "OK" a valid configuration):
\* twice in a row, then after a valid load. Each step is judged by the per-load formula, and the steps of the
\* same input must get the same verdict (TraceConfValidate!HistoryIndependent).
HistoryPattern == <<"A", "A", "OK", "A">>

\* ------------------------------------------------------------------ specification
Init == c \in Universe
Next == UNCHANGED vars
Spec == Init /\ [][Next]_vars

\* layer 1 |= layer 2 on the bounded domain
ImplSatisfiesProp == Accept1(c) => Sat(c)

EmitCases ==
        Emit("CASE", [via |-> c.via, lvl |-> c.lvl,
                      tok |-> [rt |-> c.rt.s, wt |-> c.wt.s, wq |-> c.wq.s, pb |-> c.pb, rp |-> c.rp.s, seg |-> c.seg.s,
                               del |-> c.del.s, name |-> c.name.s, src |-> c.src.s, od |-> c.od, second |-> c.second],
                      file |-> FileOf(c), env |-> EnvOf(c), sat |-> Sat(c), acc |-> Accept1(c)])

EmitShapes ==
    c = Centre =>     \* once per run
        /\ \A fk \in FieldKinds, yt \in YTypes : Emit("SHAPE", [class |-> "wrongType", kind |-> fk, ytype |-> yt])
        /\ \A s \in TextShapes : Emit("SHAPE", [class |-> "text", shape |-> s])
        /\ \A k \in DeepKinds, u \in DeepUnder : Emit("SHAPE", [class |-> "deep", kind |-> k, under |-> u])
        /\ \A cl \in CipherLens, b \in B64s, k \in Keys, kv \in KeyVars :
               Emit("SHAPE", [class |-> "encrypted", cipherLen |-> cl, b64 |-> b, key |-> k, keyVar |-> kv])
        /\ \A p \in Plains, kv \in KeyVars : Emit("SHAPE", [class |-> "encryptedPlain", plain |-> p, keyVar |-> kv])
        /\ \A fk \in FieldKinds, v \in EnvScalarVals : Emit("SHAPE", [class |-> "envValue", kind |-> fk, val |-> v])
        /\ \A e \in EnvListElems, p \in BOOLEAN : Emit("SHAPE", [class |-> "envEmptyList", elem |-> e, ptr |-> p])
        /\ \A s \in EnvKeyShapes : Emit("SHAPE", [class |-> "envKey", shape |-> s])
        /\ Emit("HISTORY", [pattern |-> HistoryPattern])
        /\ \A fk \in FieldKinds, sf \in EnvSuffixes, ex \in BOOLEAN :
               Emit("SHAPE", [class |-> "envSuffix", kind |-> fk, suffix |-> sf, withExact |-> ex])
=============================================================================
