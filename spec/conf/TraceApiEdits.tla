---------------------------- MODULE TraceApiEdits ----------------------------
\* Trace validation for C12: one record per run of edits sent to the real Control API of a real
\* Core (harness internal/core/zz_verif_c12_test.go). steps = << [op, status, view, rest] >>,
\* where view is the configuration read back through the API after the edit (the modelled
\* parameters) and rest are digests of all other parameters of the global / defaults / path objects.
EXTENDS ApiEdits

Trace == ndJsonDeserialize("C12_trace.ndjson")

VARIABLE l
TraceInit == l = 0 /\ Init
TraceNext == l < Len(Trace) /\ l' = l + 1 /\ UNCHANGED vars
TraceSpec == TraceInit /\ [][TraceNext]_<<l, vars>>

\* view    = the configuration read back after the core has finished applying the edit
\* viewNow = the configuration read back immediately after the API answered
AsView(v) == [g |-> [origins |-> v.g.origins, playback |-> v.g.playback],
              d |-> [maxReaders |-> v.d.maxReaders, rda |-> v.d.rda],
              paths |-> [n \in Names |-> [maxReaders |-> v.paths[n].maxReaders, override |-> v.paths[n].override,
                                          ports |-> v.paths[n].ports]]]
ObsView(o) == AsView(o.view)

\* first step at which the real API departs from the decision function; 0 = never
RECURSIVE FirstBad(_, _, _)
FirstBad(r, k, s) ==
    IF k > Len(r.steps) THEN [step |-> 0, why |-> "", atomic |-> FALSE]
    ELSE LET o == r.steps[k]
             acc == Accepted(s, o.op)
             s2 == Apply(s, o.op)
             okStatus == (o.status = 200) <=> acc
             okView == ObsView(o) = View(s2)
             \* every parameter the edits never name keeps its value; all paths share the defaults' values
             okRest == /\ o.rest.g = r.rest0.g /\ o.rest.d = r.rest0.d
                       /\ \A n \in Names : o.rest.paths[n] \in {"absent", r.rest0.path}
         IN IF ~okStatus THEN [step |-> k, why |-> IF acc THEN "valid edit refused" ELSE "invalid edit accepted", atomic |-> FALSE]
            ELSE IF ~okView THEN [step |-> k, why |-> IF acc THEN "accepted edit not exact" ELSE "rejected edit changed the configuration",
                                  atomic |-> ~acc]
            ELSE IF ~okRest THEN [step |-> k, why |-> "a parameter outside the request changed", atomic |-> ~acc]
            \* "a successful edit is what subsequent reads return": also the read issued right after the answer
            ELSE IF AsView(o.viewNow) # View(s2)
                 THEN [step |-> k, why |-> IF AsView(o.viewNow) = View(s)
                                           THEN "read right after the answer returned the previous configuration"
                                           ELSE "read right after the answer returned neither the old nor the new configuration",
                       atomic |-> FALSE]
            ELSE FirstBad(r, k + 1, s2)

Verdicts == l >= 1 =>
    LET r == Trace[l]
        b == FirstBad(r, 1, st)
    IN b.step = 0 \/ Emit("BAD", [l |-> l, run |-> r.run, step |-> b.step, why |-> b.why,
                                  kind |-> r.steps[b.step].op.kind, bad |-> r.steps[b.step].op.pl.bad])
Accepted2 == TLCGet("stats").diameter - 1 = Len(Trace)
=============================================================================
