\* the current code: deepClone follows interfaces, exact size rendering, redaction on a clone
SPECIFICATION Spec
CONSTANTS
  IfaceDeep = TRUE
  EmptyDeep = TRUE
  ExactSize = TRUE
  RedactOnCopy = TRUE
  MaxMut = 2
INVARIANTS CloneIndependent NoSharedCell CloneEqual
INVARIANT EmitShapes
CHECK_DEADLOCK FALSE
