SPECIFICATION Spec
CONSTANTS
  IfaceDeep = TRUE
  ExactSize = TRUE
  RedactOnCopy = TRUE
  MaxMut = 2
INVARIANTS CloneIndependent NoSharedCell CloneEqual
INVARIANT EmitShapes
CHECK_DEADLOCK FALSE
