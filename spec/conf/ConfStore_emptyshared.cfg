\* regression EmptyContainerSharedByClone (EmptyDeep = FALSE: `if rv.Len() == 0 { return rv }` in deepClone):
\* TLC must report NoSharedCell / CloneIndependent violated (an entry inserted into the clone's empty map
\* appears in the original)
SPECIFICATION Spec
CONSTANTS
  IfaceDeep = TRUE
  EmptyDeep = FALSE
  ExactSize = TRUE
  RedactOnCopy = TRUE
  MaxMut = 1
INVARIANTS CloneIndependent NoSharedCell
CHECK_DEADLOCK FALSE
