------------------------------ MODULE ApiEdits ------------------------------
(* C12  API configuration edits are exact and atomic
   (internal/api/api_config_*.go, internal/core/core.go doAPIConfig*, internal/conf/conf.go
    PatchGlobal / PatchPathDefaults / AddPath / PatchPath / ReplacePath / RemovePath)

   The store: two global parameters, two path-default parameters, and for each path name an
   OPTIONAL record (which of the two path parameters it sets explicitly). What the API returns
   for a path is the effective record: explicit values over the defaults.
   The statement determines the outcome of every edit as a function of the store:
     - a patch sets exactly the fields present in the request;
     - add fails on an existing name, patch and delete fail on a missing name, replace sets
       exactly the given fields (and creates the path if needed);
     - an edit with an invalid payload is rejected; a rejected edit leaves the store unchanged;
     - a successful edit is what subsequent reads return.
   So Apply/Accepted below are both the code-shaped layer and the statement (a decision
   function); the trace module folds them over the observed edits and compares statuses and the
   configuration read back through the API after every edit.                                 *)
EXTENDS VerifCommon

CONSTANTS Names, MaxSteps

Unset == "unset"
GVals == [origins : {"A", "B"}, playback : {"on", "off"}]
DVals == [maxReaders : {"0", "3"}, rda : {"1h", "2h"}]
\* "ports" is a LIST-typed path parameter (rtspUDPSourcePortRange) that the path defaults also have (value "def",
\* never edited): a list set on one path must not write through to the defaults or to other paths
PFields == {"maxReaders", "override", "ports"}
PVal(f) == IF f = "maxReaders" THEN {"0", "3"} ELSE IF f = "ports" THEN {"a", "b"} ELSE {"t", "f"}
Optional == [maxReaders : {Unset, "0", "3"}, override : {Unset, "t", "f"}, ports : {Unset, "a", "b"}]
Absent == [maxReaders |-> "absent", override |-> "absent", ports |-> "absent"]

\* payloads: a record over the same fields with Unset = field omitted, plus a defect marker
\*   "none" | "value" (a value that validation rejects) | "type" (wrong JSON type) | "unknown" (unknown key)
Bad == {"none", "value", "type", "unknown"}
GPayloads == {[origins |-> o, playback |-> p, bad |-> b] : o \in {Unset, "A", "B"}, p \in {Unset, "on", "off"}, b \in Bad}
DPayloads == {[maxReaders |-> m, rda |-> r, bad |-> b] : m \in {Unset, "0", "3"}, r \in {Unset, "1h", "2h"}, b \in Bad}
\* (the list-typed field is combined with the scalar ones in a few payloads only: the graph has one edge per payload)
PPayloads == {[maxReaders |-> m, override |-> o, ports |-> Unset, bad |-> b] : m \in {Unset, "0", "3"}, o \in {Unset, "t", "f"}, b \in Bad}
             \cup {[maxReaders |-> m, override |-> Unset, ports |-> q, bad |-> "none"] : m \in {Unset, "3"}, q \in {"a", "b"}}

Op(kind, name, pl) == [kind |-> kind, name |-> name, pl |-> pl]
NoPl == [maxReaders |-> Unset, override |-> Unset, ports |-> Unset, bad |-> "none"]

\* ---- the decision function
Accepted(s, op) ==
    CASE op.kind = "PatchGlobal"   -> op.pl.bad = "none"
      [] op.kind = "PatchDefaults" -> op.pl.bad = "none"
      [] op.kind = "AddPath"       -> op.pl.bad = "none" /\ s.p[op.name] = Absent
      [] op.kind = "PatchPath"     -> op.pl.bad = "none" /\ s.p[op.name] # Absent
      [] op.kind = "ReplacePath"   -> op.pl.bad = "none"
      [] op.kind = "DeletePath"    -> s.p[op.name] # Absent

Over(old, pl, fs) == [f \in fs |-> IF pl[f] = Unset THEN old[f] ELSE pl[f]]

Apply(s, op) ==
    IF ~Accepted(s, op) THEN s
    ELSE CASE op.kind = "PatchGlobal"   -> [s EXCEPT !.g = Over(s.g, op.pl, {"origins", "playback"})]
           [] op.kind = "PatchDefaults" -> [s EXCEPT !.d = Over(s.d, op.pl, {"maxReaders", "rda"})]
           [] op.kind = "AddPath"       -> [s EXCEPT !.p[op.name] = [f \in PFields |-> op.pl[f]]]
           [] op.kind = "PatchPath"     -> [s EXCEPT !.p[op.name] = Over(s.p[op.name], op.pl, PFields)]
           [] op.kind = "ReplacePath"   -> [s EXCEPT !.p[op.name] = [f \in PFields |-> op.pl[f]]]
           [] op.kind = "DeletePath"    -> [s EXCEPT !.p[op.name] = Absent]

\* what the API shows for a path: explicit values over the defaults (overridePublisher defaults to yes)
Effective(s, n) ==
    IF s.p[n] = Absent THEN Absent
    ELSE [maxReaders |-> IF s.p[n].maxReaders = Unset THEN s.d.maxReaders ELSE s.p[n].maxReaders,
          override   |-> IF s.p[n].override = Unset THEN "t" ELSE s.p[n].override,
          ports      |-> IF s.p[n].ports = Unset THEN "def" ELSE s.p[n].ports]
View(s) == [g |-> s.g, d |-> s.d, paths |-> [n \in Names |-> Effective(s, n)]]

\* ---- bounded model
VARIABLES st, steps, last
vars == <<st, steps, last>>
Init == /\ st = [g |-> [origins |-> "A", playback |-> "on"], d |-> [maxReaders |-> "0", rda |-> "1h"],
                 p |-> [n \in Names |-> Absent]]
        /\ steps = 0 /\ last = "none"
Do(op) == steps < MaxSteps /\ st' = Apply(st, op) /\ steps' = steps + 1
          /\ last' = IF Accepted(st, op) THEN "ok" ELSE "rejected"
PatchGlobal(pl)      == Do(Op("PatchGlobal", "", pl))
PatchDefaults(pl)    == Do(Op("PatchDefaults", "", pl))
AddPath(n, pl)       == Do(Op("AddPath", n, pl))
PatchPath(n, pl)     == Do(Op("PatchPath", n, pl))
ReplacePath(n, pl)   == Do(Op("ReplacePath", n, pl))
DeletePath(n)        == Do(Op("DeletePath", n, NoPl))
Next == \/ \E pl \in GPayloads : PatchGlobal(pl)
        \/ \E pl \in DPayloads : PatchDefaults(pl)
        \/ \E n \in Names, pl \in PPayloads : AddPath(n, pl) \/ PatchPath(n, pl) \/ ReplacePath(n, pl)
        \/ \E n \in Names : DeletePath(n)
Spec == Init /\ [][Next]_vars
GenView == st

\* design-level sanity: the properties the statement lists, as action properties of the model
Atomic == [][last' = "rejected" => st' = st]_vars
TypeOK == /\ st.g \in GVals /\ st.d \in DVals
          /\ \A n \in Names : st.p[n] = Absent \/ st.p[n] \in Optional
=============================================================================
