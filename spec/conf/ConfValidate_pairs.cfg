SPECIFICATION Spec
CONSTANTS
  ASel = "pairs"
INVARIANT ImplSatisfiesProp
INVARIANT EmitCases
INVARIANT EmitShapes
CHECK_DEADLOCK FALSE
