---------------------------- MODULE TraceEnvYaml ----------------------------
(* Trace validation for C09. One ndjson record per case of EnvYaml.tla executed by the REAL
   conf.Load (harness/internal/conf/zz_verif_c09_test.go):
     np   - nothing is demanded of the case except that no load crashes
     x    - the case is expressible both ways (EnvYaml!Expressible, computed by TLC when the case
            was generated)
     l1   - Load(file with the parameter set to v, empty environment)        [err, panic]
     l2   - Load(file without it, environment Key(p) = Enc(v))
     l3   - Load(file with the parameter set to another value, environment Key(p) = Enc(v))
     eq12, eq13 - reflect.DeepEqual of the returned configurations (false when one is missing)
   TLC evaluates the statement on every record. Error texts are not compared (the statement
   does not specify them): a value refused both ways satisfies the equations.              *)
EXTENDS VerifCommon

Trace == ndJsonDeserialize("C09_trace.ndjson")

VARIABLE l
TraceInit == l = 0
TraceNext == l < Len(Trace) /\ l' = l + 1
TraceSpec == TraceInit /\ [][TraceNext]_l

AnyPanic(r) == r.l1.panic \/ r.l2.panic \/ r.l3.panic

\* np: the case demands nothing but the absence of a crash (variable names that continue after a parameter name)
Monitors == {"NoPanic", "EnvEqualsFile", "EnvOverridesFile"}
RecOK(r, mon) ==
    IF ~r.x THEN (mon = "NoPanic" /\ r.np) => ~AnyPanic(r)
    ELSE
      CASE mon = "NoPanic"          -> ~AnyPanic(r)
        [] mon = "EnvEqualsFile"    -> (~r.l1.panic /\ ~r.l2.panic) => (r.l1.err = r.l2.err /\ (~r.l1.err => r.eq12))
        [] mon = "EnvOverridesFile" -> (~r.l1.panic /\ ~r.l3.panic) => (r.l1.err = r.l3.err /\ (~r.l1.err => r.eq13))

Verdicts == l >= 1 => \A mon \in Monitors : Monitor(RecOK(Trace[l], mon), [l |-> l, id |-> Trace[l].id, monitor |-> mon])
Accepted == TLCGet("stats").diameter - 1 = Len(Trace)
=============================================================================
