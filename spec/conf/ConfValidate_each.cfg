SPECIFICATION Spec
CONSTANTS
  ASel = "each"
INVARIANT ImplSatisfiesProp
INVARIANT EmitCases
INVARIANT EmitShapes
CHECK_DEADLOCK FALSE
