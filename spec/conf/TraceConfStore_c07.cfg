SPECIFICATION TraceSpec
CONSTANTS
  IfaceDeep = TRUE
  EmptyDeep = TRUE
  ExactSize = TRUE
  RedactOnCopy = TRUE
  MaxMut = 0
  TraceFile = "C07_trace.ndjson"
INVARIANTS Verdicts FixedPlaceholder
POSTCONDITION Accepted
CHECK_DEADLOCK FALSE
