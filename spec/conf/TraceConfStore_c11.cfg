SPECIFICATION TraceSpec
CONSTANTS
  IfaceDeep = TRUE
  EmptyDeep = TRUE
  ExactSize = TRUE
  RedactOnCopy = TRUE
  MaxMut = 0
  TraceFile = "C11_trace.ndjson"
INVARIANT Verdicts
POSTCONDITION Accepted
CHECK_DEADLOCK FALSE
