SPECIFICATION TraceSpec
INVARIANT Verdicts
POSTCONDITION Accepted
CHECK_DEADLOCK FALSE
