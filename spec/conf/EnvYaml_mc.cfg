SPECIFICATION Spec
CONSTANTS
  GenMode = FALSE
  Full = FALSE
INVARIANT EnvEqualsFile
INVARIANT EnvOverridesFile
CHECK_DEADLOCK FALSE
