------------------------------ MODULE ConfStore ------------------------------
(* C11 / C08 / C07  The configuration store of mediamtx as a tree of cells
   (internal/conf/conf.go deepClone, Conf.Clone, Path.Clone; the JSON codecs of
   internal/conf/*.go and jsonwrapper; internal/api/api.go redactCredentials).

   A Go value is modelled as it lies in memory: scalars and structs are inline, pointers,
   slices, maps refer to heap cells by address, an interface value holds another value
   (in conf: OptionalPath.Values holds a pointer to a struct of optional fields).

   Layer 1 (code-shaped):   CloneOf = deepClone kind by kind (Pointer, Struct, Slice, Map, Interface);
                            Get = clone, redact through the clone, render; WriteBack = decode, patch.
        The constants below select the CURRENT code when TRUE (all check configurations use TRUE). Each
        FALSE value is a named regression: a behaviour the code once had (fixed in /repo by 8aad5d9,
        efb98fd) or a plausible slip, kept switchable so that, if it comes back, it has a name and a
        ready counterexample (ConfStore_ifaceshared.cfg, ConfStore_emptyshared.cfg, ConfStore_sizerounds.cfg,
        ConfStore_inplace.cfg must each VIOLATE their invariant; the thorough tier checks that they still do):
          IfaceDeep = TRUE      deepClone follows reflect.Interface (OptionalPath.Values is copied)
                    = FALSE     "InterfaceSharedByClone": no Interface case, Values shared with the clone
          EmptyDeep = TRUE      only NIL slices/maps are returned as they are; an empty one gets its own cell
                    = FALSE     "EmptyContainerSharedByClone": `if rv.Len() == 0 { return rv }` - an empty but
                                non-nil map (OptionalPaths after the last path was deleted) or a zero-length
                                slice with capacity is shared with the clone
          ExactSize = TRUE      StringSize renders exactly ("<n>B" when one decimal of the unit is lossy)
                    = FALSE     "SizeRenderingRounds": bytefmt.ByteSize alone, 1234567 -> "1.2M" -> 1258291
          RedactOnCopy = TRUE   redactCredentials works on a clone of the live configuration
                    = FALSE     "RedactInPlace": redaction through the live store
   Layer 2 (from the statements):
          CloneIndependent  no mutation through the copy changes what the original reads   (C11)
          NoSharedCell      original and copy reach no common mutable cell                 (C11)
          RoundTrip         WriteBack(Get(s)) = s                                          (C08)
          Redacted          no secret in any view; producing a view leaves s unchanged     (C07)

   The module also carries the tables from which the Go harness is driven (GEN): mutation
   operations per cell kind and path shapes, scalar value classes per Go type, secret
   placements.                                                                             *)
EXTENDS VerifCommon

CONSTANTS IfaceDeep, EmptyDeep, ExactSize, RedactOnCopy,
          MaxMut                    \* mutations through the copy per behaviour

N     == 16                         \* original cells are 1..N, the clone of cell a is a + N
Spare == 2 * N + 1                  \* Spare + n: the cell the (n+1)-th mutation may allocate (setnew, append)
Top   == 2 * N + 3

\* ---------------------------------------------------------------- values and cells
Sc(t, v) == [k |-> "s", t |-> t, v |-> v]      \* scalar of abstract type t
St(fs)   == [k |-> "st", f |-> fs]             \* struct, fs: field name -> value (inline)
Ptr(a)   == [k |-> "p", a |-> a]               \* a = 0: nil
Lst(a)   == [k |-> "l", a |-> a]               \* slice header; a = 0: nil slice
Mp(a)    == [k |-> "m", a |-> a]               \* map; a = 0: nil map
Ifc(x)   == [k |-> "i", x |-> x]               \* interface value holding x

PCell(x)  == [c |-> "p", x |-> x]              \* pointee
LCell(xs) == [c |-> "l", xs |-> xs]            \* backing array
MCell(kv) == [c |-> "m", kv |-> kv]            \* buckets: key -> value
Free      == [c |-> "free"]

Placeholder == "REDACTED"
Secrets     == {"SECRET1", "SECRET2", "SECRET3"}
\* what one decimal of the unit makes of a size (regression SizeRenderingRounds only); 1234567 is the
\* only size of the abstract tree that one decimal cannot express
Rounded(v)  == IF v = "1234567" THEN "1258291" ELSE v

\* ---------------------------------------------------------------- the abstract tree
\* g      scalar global field (a duration)            -- Conf.ReadTimeout
\* gsz    scalar global field (a byte size)           -- Conf.HLSSegmentMaxSize
\* gp     optional (deprecated) pointer field         -- Conf.RecordPath *string
\* gl     list of scalars                             -- Conf.APIAllowOrigins
\* users  list of structs with a nested list          -- Conf.AuthInternalUsers[i].{Pass,IPs}
\* tr     map used as a set                           -- Conf.RTSPTransports
\* defs   inline struct with an optional secret       -- Conf.PathDefaults.{RecordMaxPartSize,ReadPass}
\* opt    map name -> pointer -> struct{Values any}   -- Conf.OptionalPaths
\* paths  map name -> pointer -> resolved struct      -- Conf.Paths
FullRoot ==
    St([g     |-> Sc("dur", "25h30m"),
        gsz   |-> Sc("size", "1234567"),
        gp    |-> Ptr(1),
        gl    |-> Lst(2),
        users |-> Lst(3),
        tr    |-> Mp(5),
        defs  |-> St([d |-> Sc("size", "1536"), rp |-> Ptr(6)]),
        opt   |-> Mp(7),
        paths |-> Mp(13)])
FullHeap ==
    [a \in 1..Top |->
       CASE a = 1  -> PCell(Sc("str", "rec"))
         [] a = 2  -> LCell(<<Sc("str", "o1"), Sc("str", "o2")>>)
         [] a = 3  -> LCell(<<St([user |-> Sc("cred", "u1"), pass |-> Sc("pass", "SECRET1"), ips |-> Lst(4)])>>)
         [] a = 4  -> LCell(<<Sc("net", "n1")>>)
         [] a = 5  -> MCell([udp |-> Sc("unit", "u"), tcp |-> Sc("unit", "u")])
         [] a = 6  -> PCell(Sc("pass", "SECRET2"))
         [] a = 7  -> MCell([pa |-> Ptr(8)])
         [] a = 8  -> PCell(St([values |-> Ifc(Ptr(9))]))
         [] a = 9  -> PCell(St([o |-> Ptr(10), ol |-> Ptr(11)]))
         [] a = 10 -> PCell(Sc("pass", "SECRET3"))
         [] a = 11 -> PCell(Lst(12))
         [] a = 12 -> LCell(<<Sc("str", "e1")>>)
         [] a = 13 -> MCell([pa |-> Ptr(14)])
         [] a = 14 -> PCell(St([p |-> Sc("dur", "1s"), pp |-> Ptr(15)]))
         [] a = 15 -> PCell(Sc("pass", "SECRET3"))
         [] OTHER  -> Free]

\* the same tree with optional pointers nil and lists empty (but not nil: Load forbids nil lists)
SparseRoot ==
    St([g     |-> Sc("dur", "0"),
        gsz   |-> Sc("size", "1024"),
        gp    |-> Ptr(0),
        gl    |-> Lst(2),
        users |-> Lst(3),
        tr    |-> Mp(5),
        defs  |-> St([d |-> Sc("size", "0"), rp |-> Ptr(0)]),
        opt   |-> Mp(7),
        paths |-> Mp(13)])
SparseHeap ==
    [a \in 1..Top |->
       CASE a = 2  -> LCell(<<>>)
         [] a = 3  -> LCell(<<>>)
         [] a = 5  -> MCell([tcp |-> Sc("unit", "u")])
         [] a = 7  -> MCell([pa |-> Ptr(8)])
         [] a = 8  -> PCell(St([values |-> Ifc(Ptr(9))]))
         [] a = 9  -> PCell(St([o |-> Ptr(0), ol |-> Ptr(0)]))
         [] a = 13 -> MCell([pa |-> Ptr(14)])
         [] a = 14 -> PCell(St([p |-> Sc("dur", "1s"), pp |-> Ptr(0)]))
         [] OTHER  -> Free]

\* a configuration whose last path was deleted through the API: the path maps are empty but not nil,
\* lists are empty (zero length; the cell is the backing array with its spare capacity)
EmptyRoot == SparseRoot
EmptyHeap ==
    [a \in 1..Top |->
       CASE a = 2  -> LCell(<<>>)
         [] a = 3  -> LCell(<<>>)
         [] a = 5  -> MCell(<<>>)
         [] a = 7  -> MCell(<<>>)
         [] a = 13 -> MCell(<<>>)
         [] OTHER  -> Free]

Exposed == {"g", "gsz", "gp", "gl", "users", "tr", "defs", "paths"}    \* what the API returns (never opt)

\* ---------------------------------------------------------------- reading
\* the heap-free content of a value: what a reader of the configuration sees
RECURSIVE Mat(_, _)
Mat(v, h) ==
    CASE v.k = "s"  -> v
      [] v.k = "st" -> [k |-> "st", f |-> [n \in DOMAIN v.f |-> Mat(v.f[n], h)]]
      [] v.k = "p"  -> IF v.a = 0 THEN [k |-> "nil"] ELSE [k |-> "ref", x |-> Mat(h[v.a].x, h)]
      [] v.k = "l"  -> IF v.a = 0 THEN [k |-> "nil"]
                       ELSE [k |-> "seq", xs |-> [i \in 1..Len(h[v.a].xs) |-> Mat(h[v.a].xs[i], h)]]
      [] v.k = "m"  -> IF v.a = 0 THEN [k |-> "nil"]
                       ELSE [k |-> "map", kv |-> [key \in DOMAIN h[v.a].kv |-> Mat(h[v.a].kv[key], h)]]
      [] v.k = "i"  -> [k |-> "ifc", x |-> Mat(v.x, h)]

\* addresses reachable from a value (every mutable cell a writer could get to)
RECURSIVE Reach(_, _, _)
Reach(v, h, thruIface) ==
    CASE v.k = "s"  -> {}
      [] v.k = "st" -> UNION {Reach(v.f[n], h, thruIface) : n \in DOMAIN v.f}
      [] v.k = "p"  -> IF v.a = 0 THEN {} ELSE {v.a} \cup Reach(h[v.a].x, h, thruIface)
      [] v.k = "l"  -> IF v.a = 0 THEN {}
                       ELSE {v.a} \cup UNION {Reach(h[v.a].xs[i], h, thruIface) : i \in 1..Len(h[v.a].xs)}
      [] v.k = "m"  -> IF v.a = 0 THEN {}
                       ELSE {v.a} \cup UNION {Reach(h[v.a].kv[key], h, thruIface) : key \in DOMAIN h[v.a].kv}
      [] v.k = "i"  -> IF thruIface THEN Reach(v.x, h, thruIface) ELSE {}

\* ---------------------------------------------------------------- access paths
Step(s, n, i) == [s |-> s, n |-> n, i |-> i]        \* s: "f" field, "*" deref, "i" index, "k" key, "x" interface content
Pre(st, S) == {<<st>> \o p : p \in S}

RECURSIVE Pos(_, _)
Pos(v, h) ==
    {<<>>} \cup
    CASE v.k = "s"  -> {}
      [] v.k = "st" -> UNION {Pre(Step("f", n, 0), Pos(v.f[n], h)) : n \in DOMAIN v.f}
      [] v.k = "p"  -> IF v.a = 0 THEN {} ELSE Pre(Step("*", "", 0), Pos(h[v.a].x, h))
      [] v.k = "l"  -> IF v.a = 0 THEN {}
                       ELSE UNION {Pre(Step("i", "", i), Pos(h[v.a].xs[i], h)) : i \in 1..Len(h[v.a].xs)}
      [] v.k = "m"  -> IF v.a = 0 THEN {}
                       ELSE UNION {Pre(Step("k", key, 0), Pos(h[v.a].kv[key], h)) : key \in DOMAIN h[v.a].kv}
      [] v.k = "i"  -> Pre(Step("x", "", 0), Pos(v.x, h))

RECURSIVE ValAt(_, _, _)
ValAt(v, h, p) ==
    IF p = <<>> THEN v
    ELSE LET st == Head(p) t == Tail(p)
         IN CASE st.s = "f" -> ValAt(v.f[st.n], h, t)
              [] st.s = "*" -> ValAt(h[v.a].x, h, t)
              [] st.s = "i" -> ValAt(h[v.a].xs[st.i], h, t)
              [] st.s = "k" -> ValAt(h[v.a].kv[st.n], h, t)
              [] st.s = "x" -> ValAt(v.x, h, t)

\* Go assignment  root.<path> = new : inline parts are rewritten in the (by-value) root, cells in place
RECURSIVE Assign(_, _, _, _)
Assign(v, h, p, new) ==
    IF p = <<>> THEN [v |-> new, h |-> h]
    ELSE LET st == Head(p) t == Tail(p)
         IN CASE st.s = "f" -> LET r == Assign(v.f[st.n], h, t, new)
                               IN [v |-> [v EXCEPT !.f[st.n] = r.v], h |-> r.h]
              [] st.s = "*" -> LET r == Assign(h[v.a].x, h, t, new)
                               IN [v |-> v, h |-> [r.h EXCEPT ![v.a].x = r.v]]
              [] st.s = "i" -> LET r == Assign(h[v.a].xs[st.i], h, t, new)
                               IN [v |-> v, h |-> [r.h EXCEPT ![v.a].xs[st.i] = r.v]]
              [] st.s = "k" -> LET r == Assign(h[v.a].kv[st.n], h, t, new)
                               IN [v |-> v, h |-> [r.h EXCEPT ![v.a].kv[st.n] = r.v]]
              [] st.s = "x" -> LET r == Assign(v.x, h, t, new)
                               IN [v |-> [v EXCEPT !.x = r.v], h |-> r.h]

\* mutation operations a holder of a value can perform at a position, by kind of what is there
OpsOf(w, h) ==
    CASE w.k = "s"  -> {"set"}
      [] w.k = "p"  -> IF w.a = 0 THEN {"setnew"} ELSE {"setnil", "setnew"}
      [] w.k = "l"  -> IF w.a = 0 THEN {} ELSE {"setnil", "append", "growset"}
      [] w.k = "m"  -> IF w.a = 0 THEN {}
                       ELSE {"setnil", "mapins"} \cup (IF DOMAIN h[w.a].kv = {} THEN {} ELSE {"mapdel"})
      [] w.k = "i"  -> {"setnil"}
      [] w.k = "st" -> {}

Mutate(v, h, p, op, fresh) ==
    LET w == ValAt(v, h, p)
    IN CASE op = "set"    -> Assign(v, h, p, Sc(w.t, "MUT"))
         [] op = "setnil" -> Assign(v, h, p, IF w.k = "i" THEN Ifc(Ptr(0)) ELSE [w EXCEPT !.a = 0])
         [] op = "setnew" -> Assign(v, [h EXCEPT ![fresh] = PCell(Sc("str", "MUT"))], p, Ptr(fresh))
         \* append beyond the capacity: a new backing array
         [] op = "append" -> Assign(v, [h EXCEPT ![fresh] = LCell(Append(h[w.a].xs, Sc("str", "MUT")))], p, Lst(fresh))
         \* reslice within the capacity and set the new element: a write into the SAME backing array
         [] op = "growset" -> [v |-> v, h |-> [h EXCEPT ![w.a].xs = Append(@, Sc("str", "MUT"))]]
         [] op = "mapins" -> [v |-> v, h |-> [h EXCEPT ![w.a].kv =
                                 [key \in DOMAIN @ \cup {"zz"} |-> IF key = "zz" THEN Sc("str", "MUT") ELSE @[key]]]]
         [] op = "mapdel" -> LET d == CHOOSE key \in DOMAIN h[w.a].kv : TRUE
                             IN [v |-> v, h |-> [h EXCEPT ![w.a].kv = [key \in DOMAIN @ \ {d} |-> @[key]]]]

\* ---------------------------------------------------------------- layer 1: deepClone
\* is the slice/map at address a of zero length
EmptyAt(h, a) == IF h[a].c = "l" THEN Len(h[a].xs) = 0 ELSE IF h[a].c = "m" THEN DOMAIN h[a].kv = {} ELSE FALSE
\* does deepClone give the container at address a a cell of its own
Copied(h, a) == EmptyDeep \/ ~EmptyAt(h, a)

RECURSIVE Relabel(_, _)
Relabel(v, h) ==
    CASE v.k = "s"  -> v
      [] v.k = "st" -> [v EXCEPT !.f = [n \in DOMAIN v.f |-> Relabel(v.f[n], h)]]
      [] v.k = "p"  -> IF v.a = 0 THEN v ELSE [v EXCEPT !.a = v.a + N]
      [] v.k \in {"l", "m"} -> IF v.a = 0 THEN v                                   \* if rv.IsNil()
                               ELSE IF Copied(h, v.a) THEN [v EXCEPT !.a = v.a + N]
                               ELSE v                                              \* regression: if rv.Len() == 0 { return rv }
      [] v.k = "i"  -> IF IfaceDeep THEN [v EXCEPT !.x = Relabel(v.x, h)]          \* case reflect.Interface
                       ELSE v                                                     \* regression: default: return rv

RelabelCell(c, h) ==
    CASE c.c = "p" -> [c EXCEPT !.x = Relabel(c.x, h)]
      [] c.c = "l" -> [c EXCEPT !.xs = [i \in 1..Len(c.xs) |-> Relabel(c.xs[i], h)]]
      [] c.c = "m" -> [c EXCEPT !.kv = [key \in DOMAIN c.kv |-> Relabel(c.kv[key], h)]]
      [] OTHER     -> c

CloneOf(v, h) ==
    LET R == Reach(v, h, IfaceDeep)
    IN [v |-> Relabel(v, h),
        h |-> [a \in DOMAIN h |-> IF a > N /\ a <= 2 * N /\ (a - N) \in R THEN RelabelCell(h[a - N], h) ELSE h[a]]]

\* ---------------------------------------------------------------- layer 1: Get / WriteBack
ExposedPart(v) == St([n \in Exposed |-> v.f[n]])

SecretPos(v, h) == {p \in Pos(v, h) : LET w == ValAt(v, h, p) IN w.k = "s" /\ w.t = "pass" /\ w.v # ""}

RECURSIVE RedactSet(_, _, _)
RedactSet(v, h, S) ==
    IF S = {} THEN [v |-> v, h |-> h]
    ELSE LET p == CHOOSE x \in S : TRUE
             r == Assign(v, h, p, Sc("pass", Placeholder))
         IN RedactSet(r.v, r.h, S \ {p})
RedactThrough(v, h) == RedactSet(v, h, SecretPos(ExposedPart(v), h))

\* rendering of scalars; decoding is the identity on tokens
RECURSIVE Enc(_)
Enc(m) ==
    CASE m.k = "s"   -> IF m.t = "size" /\ ~ExactSize THEN [m EXCEPT !.v = Rounded(m.v)] ELSE m
      [] m.k = "st"  -> [m EXCEPT !.f = [n \in DOMAIN m.f |-> Enc(m.f[n])]]
      [] m.k = "ref" -> [m EXCEPT !.x = Enc(m.x)]
      [] m.k = "seq" -> [m EXCEPT !.xs = [i \in 1..Len(m.xs) |-> Enc(m.xs[i])]]
      [] m.k = "map" -> [m EXCEPT !.kv = [key \in DOMAIN m.kv |-> Enc(m.kv[key])]]
      [] m.k = "ifc" -> [m EXCEPT !.x = Enc(m.x)]
      [] OTHER       -> m

\* decode + patch over the current configuration: a field absent from the view (nil pointer,
\* omitempty) keeps its current value; a present field is replaced by what was decoded
Patch(cur, view) ==
    [k |-> "st", f |-> [n \in DOMAIN cur.f |->
         IF n \notin DOMAIN view.f THEN cur.f[n]
         ELSE IF view.f[n].k = "nil" /\ cur.f[n].k \in {"nil", "ref"} THEN cur.f[n]
         ELSE view.f[n]]]

\* ---------------------------------------------------------------- the machine
VARIABLES heap, live, copy, mode, snap, view, written, nmut
vars == <<heap, live, copy, mode, snap, view, written, nmut>>

NoView == [k |-> "nil"]

Init ==
    /\ \/ live = FullRoot /\ heap = FullHeap
       \/ live = SparseRoot /\ heap = SparseHeap
       \/ live = EmptyRoot /\ heap = EmptyHeap
    /\ copy = Ptr(0) /\ mode = "idle" /\ snap = Mat(live, heap)
    /\ view = NoView /\ written = NoView /\ nmut = 0

Clone ==
    /\ mode = "idle"
    /\ LET c == CloneOf(live, heap) IN copy' = c.v /\ heap' = c.h
    /\ mode' = "cloned"
    /\ UNCHANGED <<live, snap, view, written, nmut>>

MutateCopy(p, op) ==
    /\ mode = "cloned" /\ nmut < MaxMut /\ Spare + nmut <= Top
    /\ p \in Pos(copy, heap) /\ op \in OpsOf(ValAt(copy, heap, p), heap)
    /\ LET r == Mutate(copy, heap, p, op, Spare + nmut) IN copy' = r.v /\ heap' = r.h
    /\ nmut' = nmut + 1
    /\ UNCHANGED <<live, mode, snap, view, written>>

Get ==
    /\ mode = "idle"
    /\ IF RedactOnCopy
       THEN LET c == CloneOf(live, heap)
                r == RedactThrough(c.v, c.h)
            IN /\ view' = Enc(Mat(ExposedPart(r.v), r.h))
               /\ heap' = r.h /\ live' = live
       ELSE LET r == RedactThrough(live, heap)
            IN /\ view' = Enc(Mat(ExposedPart(r.v), r.h))
               /\ heap' = r.h /\ live' = r.v
    /\ mode' = "viewed"
    /\ UNCHANGED <<copy, snap, written, nmut>>

WriteBack ==
    /\ mode = "viewed"
    /\ written' = Patch(Mat(ExposedPart(live), heap), view)
    /\ mode' = "written"
    /\ UNCHANGED <<heap, live, copy, snap, view, nmut>>

Next == \/ Clone \/ Get \/ WriteBack
        \/ \E p \in Pos(copy, heap) : \E op \in {"set", "setnil", "setnew", "append", "growset", "mapins", "mapdel"} : MutateCopy(p, op)
Spec == Init /\ [][Next]_vars

\* ---------------------------------------------------------------- layer 2: the statements
\* C11: whatever is done through the copy, the original reads what it read before
CloneIndependent == mode = "cloned" => Mat(live, heap) = snap
\* C11: "deep copy": no mutable cell is common to both
NoSharedCell == mode = "cloned" => Reach(live, heap, TRUE) \cap Reach(copy, heap, TRUE) = {}
\* a clone reads the same as the original when it is made
CloneEqual == (mode = "cloned" /\ nmut = 0) => Mat(copy, heap) = snap

\* C07: no secret anywhere in a view, secrets show as one fixed placeholder, the store is untouched
RECURSIVE Scalars(_)
Scalars(m) ==
    CASE m.k = "s"   -> {m}
      [] m.k = "st"  -> UNION {Scalars(m.f[n]) : n \in DOMAIN m.f}
      [] m.k = "ref" -> Scalars(m.x)
      [] m.k = "seq" -> UNION {Scalars(m.xs[i]) : i \in 1..Len(m.xs)}
      [] m.k = "map" -> UNION {Scalars(m.kv[key]) : key \in DOMAIN m.kv}
      [] m.k = "ifc" -> Scalars(m.x)
      [] OTHER       -> {}
Redacted ==
    mode \in {"viewed", "written"} =>
        /\ \A s \in Scalars(view) : s.v \notin Secrets
        /\ \A s \in Scalars(view) : (s.t = "pass" /\ s.v # "") => s.v = Placeholder
        /\ Mat(live, heap) = snap

\* C08: writing back what was read is a no-op (passwords are shown as the placeholder by C07,
\* so they are compared masked)
RECURSIVE Masked(_)
Masked(m) ==
    CASE m.k = "s"   -> IF m.t = "pass" /\ m.v # "" THEN [m EXCEPT !.v = "*"] ELSE m
      [] m.k = "st"  -> [m EXCEPT !.f = [n \in DOMAIN m.f |-> Masked(m.f[n])]]
      [] m.k = "ref" -> [m EXCEPT !.x = Masked(m.x)]
      [] m.k = "seq" -> [m EXCEPT !.xs = [i \in 1..Len(m.xs) |-> Masked(m.xs[i])]]
      [] m.k = "map" -> [m EXCEPT !.kv = [key \in DOMAIN m.kv |-> Masked(m.kv[key])]]
      [] m.k = "ifc" -> [m EXCEPT !.x = Masked(m.x)]
      [] OTHER       -> m
SnapExposed == [k |-> "st", f |-> [n \in Exposed |-> snap.f[n]]]
RoundTrip == mode = "written" => Masked(written) = Masked(SnapExposed)

\* ---------------------------------------------------------------- observed records (trace validation)
\* C11: one mutation through a clone of the real configuration
IndependentObs(r) == r.origBefore = r.origAfter /\ ~r.shared
\* C11 corollary: a rejected edit leaves the running configuration untouched
RejectedObs(r) == r.rejected => r.liveBefore = r.liveAfter
\* C08: one parameter of a valid configuration through encode (as the API returns it) and decode + patch
\* (`after`), and, when the written-back edit was accepted, after it was applied as Core applies it
\* (`afterApplied`): "yields an equal configuration ... so writing back what was read is a no-op".
\* A nil list and an empty list are the same configuration value (both mean "no entries" to every
\* consumer; the API renders both as [] since 06a23a0): the harness renders them alike in before/after.
\* before/after are VALUES (a canonical rendering of the Go value: byte lengths of addresses and masks,
\* nil vs set pointers, map contents), not JSON text; the harness also evaluates reflect.DeepEqual, the
\* equality Core uses to decide what to restart, and lists a parameter as different when either says so.
RoundTripObs(r) == r.valid => (/\ r.encErr = "" /\ r.decErr = "" /\ r.before = r.after
                                  /\ (r.applied => r.before = r.afterApplied))
\* C07: one secret position seen through one API response
RedactedObs(r) == ~r.leak /\ r.storeBefore = r.storeAfter /\ (r.shownAt => r.shown # r.secret)

\* ---------------------------------------------------------------- GEN: tables for the harness
Shape(p) == [i \in 1..Len(p) |-> p[i].s]
EmitShapes ==
    (mode = "cloned" /\ nmut = 0) =>
        \A p \in Pos(copy, heap) :
            LET w == ValAt(copy, heap, p)
            IN OpsOf(w, heap) = {} \/ Emit("SHAPE", [shape |-> Shape(p), kind |-> w.k, ops |-> OpsOf(w, heap)])

\* Go type -> value class. A field whose leaf type is not listed has no table: the harness fails (exit 2).
TypeClass ==
    [x \in {} |-> ""] @@
    ("bool" :> "Bool") @@ ("int" :> "Int") @@ ("uint" :> "Uint") @@ ("float64" :> "Float") @@
    ("string" :> "String") @@
    ("conf.Duration" :> "Duration") @@ ("conf.StringSize" :> "StringSize") @@
    ("conf.Credential" :> "Credential") @@ ("conf.IPNetwork" :> "IPNetwork") @@
    ("conf.LogLevel" :> "LogLevel") @@ ("conf.LogDestination" :> "LogDestination") @@
    ("conf.AuthMethod" :> "AuthMethod") @@ ("conf.AuthAction" :> "AuthAction") @@
    ("conf.Encryption" :> "Encryption") @@ ("conf.HLSVariant" :> "HLSVariant") @@
    ("conf.RTSPAuthMethod" :> "RTSPAuthMethod") @@ ("conf.RTSPTransport" :> "RTSPTransport") @@
    ("conf.RTSPTransports" :> "RTSPTransports") @@ ("conf.RecordFormat" :> "RecordFormat") @@
    ("conf.RTSPRangeType" :> "RTSPRangeType") @@ ("conf.MoQTransport" :> "MoQTransport") @@
    ("conf.AlwaysAvailableTrack" :> "Track")

\* members: m = name, lit = how the harness builds the Go value WITHOUT the codec under test
\* (numbers as decimal strings: TLC integers are 32-bit; strings %XX-escaped), t = tier
M(m, lit)  == [m |-> m, lit |-> lit, t |-> "quick"]
MT(m, lit) == [m |-> m, lit |-> lit, t |-> "thorough"]
Classes ==
    [x \in {} |-> {}] @@
    ("Bool" :> {M("false", "false"), M("true", "true")}) @@
    ("Int" :> {M("0", "0"), M("1", "1"), M("-1", "-1"), M("512", "512"), M("int32max", "2147483647"),
               M("int32min", "-2147483648"), M("2^53+1", "9007199254740993"), MT("int64max", "9223372036854775807")}) @@
    ("Uint" :> {M("0", "0"), M("1", "1"), M("65535", "65535"), M("uint32max", "4294967295"),
                M("2^53+1", "9007199254740993"), MT("uint64max", "18446744073709551615")}) @@
    ("Float" :> {M("0", "0"), M("1", "1"), M("-1", "-1"), M("0.5", "0.5"), M("0.1", "0.1"), M("30", "30"),
                 M("1e-7", "1e-7"), M("1e21", "1e21"), M("pi", "3.141592653589793"),
                 MT("maxfloat", "1.7976931348623157e308"), MT("denormal", "5e-324")}) @@
    ("String" :> {M("empty", ""), M("word", "abc"), M("space", "a%20b%20"), M("quote", "q%22b%5Cs%27"),
                  M("html", "%3Ca%26b%3E"), M("utf8", "caf%C3%A9%20%E2%98%83"), M("newline", "l1%0Al2%09t"),
                  M("u2028", "x%E2%80%A8y"), M("percent", "%25path%2F%25Y"), M("nul", "a%00b"),
                  MT("emoji", "%F0%9F%8E%A5"), MT("del", "a%7Fb%1B")}) @@
    \* durations in nanoseconds
    ("Duration" :> {M("0", "0"), M("1ns", "1"), M("1s", "1000000000"), M("1.5s", "1500000000"),
                    M("59m59s", "3599000000000"), M("1h", "3600000000000"), M("24h", "86400000000000"),
                    M("25h30m", "91800000000000"), M("400d", "34560000000000000"),
                    M("-1s", "-1000000000"), M("-36h", "-129600000000000"), M("-24h", "-86400000000000"),
                    MT("1d0.000000001s", "86400000000001"), MT("int64max", "9223372036854775807")}) @@
    \* sizes in bytes
    ("StringSize" :> {M("0", "0"), M("1", "1"), M("1023", "1023"), M("1024", "1024"), M("1025", "1025"),
                      M("1536", "1536"), M("1MiB", "1048576"), M("1234567", "1234567"), M("50MiB", "52428800"),
                      M("2^40+1", "1099511627777"), MT("1000", "1000"), MT("1.5GiB", "1610612736"),
                      MT("2^60", "1152921504606846976")}) @@
    ("Credential" :> {M("empty", ""), M("plain", "user1"), M("plainspecial", "p!$()*+.;%3C=%3E[]^_-{}@#&"),
                      M("sha256", "sha256:j1tsRqDEw9xvq/D7/9tMx6Jh/jMhk3UfjwIB2f1zgMo="),
                      M("argon2", "argon2:$argon2id$v=19$m=4096,t=3,p=1$MTIzNDU2Nzg$Ux/LWeTgJQPyfMMJo1myR64+o8rALHoPmlE1i/TR+58")}) @@
    \* address family : address : prefix length  (built without the decoder), or
    \* text:<what a configuration file / API body says> - stored as the REAL decoder stores it: a valid
    \* configuration is whatever the loaders produce from such a text, e.g. an IPv4-mapped IPv6 network
    ("IPNetwork" :> {M("v4/32", "4:127.0.0.1:32"), M("v4/24", "4:192.168.1.0:24"), M("v4/8", "4:10.0.0.0:8"),
                     M("v4/0", "4:0.0.0.0:0"), M("v6/128", "6:::1:128"), M("v6/64", "6:fe80:::64"),
                     M("v6/32", "6:2001:db8:::32"), M("v6/0", "6::::0"), MT("v4/31", "4:192.168.1.2:31"),
                     MT("v6/127", "6:2001:db8::2:127"),
                     M("t:mapped/104", "text:::ffff:10.0.0.0/104"), M("t:mapped/120", "text:::ffff:192.168.1.0/120"),
                     M("t:mapped/128", "text:::ffff:1.2.3.4/128"), M("t:mapped/96", "text:::ffff:0.0.0.0/96"),
                     M("t:mapped-bare", "text:::ffff:192.168.3.8"), M("t:v4-bare", "text:192.168.3.7"),
                     M("t:v6-bare", "text:2001:db8::1"), M("t:v4/8", "text:10.0.0.0/8"), M("t:v4/0", "text:0.0.0.0/0"),
                     M("t:v4/32", "text:10.1.2.3/32"), M("t:v6/0", "text:::/0"), M("t:v6/32", "text:2001:db8::/32"),
                     M("t:v4-hostbits", "text:10.1.2.3/8"), MT("t:v6-hostbits", "text:2001:db8::7/32"),
                     MT("t:mapped-hex/112", "text:::ffff:c0a8:0/112"), MT("t:v6-compressed", "text:2001:0db8:0000::/48")}) @@
    \* integer enumerations are built from the Go constant of that name
    ("LogLevel" :> {M("debug", "Debug"), M("info", "Info"), M("warn", "Warn"), M("error", "Error")}) @@
    ("LogDestination" :> {M("stdout", "DestinationStdout"), M("file", "DestinationFile"), M("syslog", "DestinationSyslog")}) @@
    ("HLSVariant" :> {M("mpegts", "MuxerVariantMPEGTS"), M("fmp4", "MuxerVariantFMP4"), M("lowLatency", "MuxerVariantLowLatency")}) @@
    ("RTSPAuthMethod" :> {M("basic", "VerifyMethodBasic"), M("digest", "VerifyMethodDigestMD5")}) @@
    ("RTSPTransport" :> {M("automatic", "nil"), M("udp", "ProtocolUDP"), M("multicast", "ProtocolUDPMulticast"),
                         M("tcp", "ProtocolTCP")}) @@
    ("RTSPTransports" :> {M("none", ""), M("udp", "ProtocolUDP"), M("tcp", "ProtocolTCP"),
                          M("udp+tcp", "ProtocolUDP,ProtocolTCP"), M("all", "ProtocolUDP,ProtocolUDPMulticast,ProtocolTCP")}) @@
    ("AuthMethod" :> {M("internal", "internal"), M("http", "http"), M("jwt", "jwt")}) @@
    ("AuthAction" :> {M("publish", "publish"), M("read", "read"), M("playback", "playback"), M("api", "api"),
                      M("metrics", "metrics"), M("pprof", "pprof")}) @@
    ("Encryption" :> {M("no", "no"), M("optional", "optional"), M("strict", "strict")}) @@
    ("RecordFormat" :> {M("fmp4", "fmp4"), M("mpegts", "mpegts")}) @@
    ("RTSPRangeType" :> {M("undefined", ""), M("clock", "clock"), M("npt", "npt"), M("smpte", "smpte")}) @@
    ("MoQTransport" :> {M("quic", "quic"), M("webtransport", "webtransport")}) @@
    \* codec : sample rate : channel count : muLaw  (only combinations the decoder accepts are configurations)
    ("Track" :> {M("AV1", "AV1:0:0:false"), M("VP9", "VP9:0:0:false"), M("H265", "H265:0:0:false"),
                 M("H264", "H264:0:0:false"), M("Opus", "Opus:0:0:false"), M("MPEG4Audio", "MPEG4Audio:44100:2:false"),
                 M("G711mulaw", "G711:8000:1:true"), M("G711alaw", "G711:8000:1:false"), M("LPCM", "LPCM:48000:2:false")})

\* Fields whose validation only admits strings of a certain form: the class member is embedded after
\* this prefix so that the configuration stays valid (JSON key chain, list indexes omitted).
FieldPrefix ==
    [x \in {} |-> ""] @@
    ("recordPath" :> "./rec/%25path/%25Y-%25m-%25d_%25H-%25M-%25S-%25f/") @@
    ("srtReadPassphrase" :> "0123456789") @@ ("srtPublishPassphrase" :> "0123456789") @@
    ("forward.dest" :> "rtsp://host:8554/") @@ ("fallback" :> "rtsp://host:8554/") @@
    ("source" :> "rtsp://host:8554/") @@
    ("webrtcICEServers2.url" :> "stun:") @@ ("webrtcICEServers" :> "stun:")

ASSUME \A ty \in DOMAIN TypeClass : TypeClass[ty] \in DOMAIN Classes
ASSUME \A c \in DOMAIN Classes : Classes[c] # {} /\ \A a, b \in Classes[c] : a.m = b.m => a = b

EmitClasses ==
    mode = "idle" =>
        /\ \A ty \in DOMAIN TypeClass : Emit("TYPE", [type |-> ty, class |-> TypeClass[ty]])
        /\ \A c \in DOMAIN Classes : \A x \in Classes[c] :
               Emit("MEMBER", [class |-> c, m |-> x.m, lit |-> x.lit, tier |-> x.t])
        /\ \A fld \in DOMAIN FieldPrefix : Emit("PREFIX", [field |-> fld, prefix |-> FieldPrefix[fld]])

\* C07: where secrets are placed. Internal users and the deprecated per-path credentials exclude each
\* other (Validate), hence two modes. A case = the set of positions that carry a secret.
UserKinds == {"plain", "plainspecial", "sha256", "argon2"}
DepPos    == {"defaults.publishPass", "defaults.readPass", "path.publishPass", "path.readPass",
              "repath.publishPass", "repath.readPass"}
SecretCases ==
    {[mode |-> "internal", users |-> us, dep |-> {}] : us \in SUBSET UserKinds \ {{}}} \cup
    {[mode |-> "deprecated", users |-> {}, dep |-> ds] : ds \in {d \in SUBSET DepPos : Cardinality(d) \in {1, 2, 6}}}
EmitSecretCases == mode = "idle" => \A c \in SecretCases : Emit("SECRETCASE", c)
=============================================================================
