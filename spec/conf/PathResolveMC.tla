--------------------------- MODULE PathResolveMC ---------------------------
(* C14  Path configuration resolution is deterministic and precedence-correct.

   One state per (configuration set, name), plus one root state per configuration set. The three tables are written by checks/C14.py:
     C14_cfgs.ndjson    line c : [keys |-> <<indices into KeyList>>]          (from PathNameGen CFG records)
     C14_table.ndjson   line n : [chars |-> name, rx |-> <<[ok, g] per key index>>]
                        rx is the ground truth of regular-expression matching, computed by the
                        harness with Go's regexp package alone (RegexSrc of the key on the name)
     C14_obs.ndjson     line c : [res |-> << per name: the DISTINCT results [ok, key, groups] that
                        conf.FindPathConf returned over the repeated calls on freshly built maps >>]
   TLC checks, for every pair,
     ImplInSpec : layer 1 (ImplResolve, code-shaped) is an admissible outcome of the statement
     Verdict    : every result the real function returned is an admissible outcome of the
                  statement (ResolveSet); more than one distinct result can never pass when the
                  statement fixes the outcome, which is the "does not depend on map iteration
                  order" clause.                                                               *)
EXTENDS PathNameGen

Cfgs == ndJsonDeserialize("C14_cfgs.ndjson")
Tab  == ndJsonDeserialize("C14_table.ndjson")
Obs  == ndJsonDeserialize("C14_obs.ndjson")

VARIABLES c, n
mcvars == <<c, n>>

KeyIdx(k) == CHOOSE i \in 1..Len(KeyList) : KeyList[i] = k
KeysOf(ci) == {KeyList[Cfgs[ci].keys[j]] : j \in 1..Len(Cfgs[ci].keys)}

\* one initial state per configuration set (n = 0), its successors are the names: TLC spreads the
\* sets over its workers
MCInit == c \in 1..Len(Cfgs) /\ n = 0 /\ name = <<>>
MCNext == n = 0 /\ n' \in 1..Len(Tab) /\ UNCHANGED <<c, name>>
MCSpec == MCInit /\ [][MCNext]_<<c, n, name>>

\* regular-expression ground truth for the name of this state
M(k, nm) == Tab[n].rx[KeyIdx(k)]

Expected == ResolveSet(KeysOf(c), Tab[n].chars, M)

TablesOK == n > 0 =>
    /\ Len(Obs) = Len(Cfgs)
    /\ Len(Obs[c].res) = Len(Tab)
    /\ Len(Tab[n].rx) = Len(KeyList)
    /\ \A i \in 1..Len(Tab[n].chars) : Tab[n].chars[i] \in KnownChars
    /\ Obs[c].res[n] # <<>>

ImplInSpec == n > 0 => ImplResolve(KeysOf(c), Tab[n].chars, M) \in Expected

ObsOutcome(o) == [ok |-> o.ok, key |-> IF o.ok THEN KeyList[o.key] ELSE <<>>, groups |-> o.groups]

ExpView == {[ok |-> e.ok, key |-> IF e.ok THEN KeyIdx(e.key) ELSE 0, exact |-> e.exact, groups |-> e.groups] : e \in Expected}

Verdict == n > 0 =>
    Monitor(\A i \in 1..Len(Obs[c].res[n]) :
                \E e \in Expected : Agrees(ObsOutcome(Obs[c].res[n][i]), e),
            [c |-> c, n |-> n, exp |-> ExpView])
=============================================================================
