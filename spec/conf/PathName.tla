------------------------------ MODULE PathName ------------------------------
(* C06 / C14  Path names, their validity, and the resolution of a name to a path configuration
   (internal/conf/path.go: IsValidPathName, FindPathConf; internal/recordstore: CommonPath, Encode).

   Strings are sequences of one-character strings, so that the statements' character rules,
   the '/'-segment rules and the "name order" of configuration keys are evaluated by TLC itself.
   This module has no variables: it is the shared vocabulary of
     PathNameGen.tla      bounded model (names, layer 1 = layer 2, containment lemma), case generator
     PathResolveMC.tla    C14: resolution oracle over (configuration set, name), judged by TLC
     TracePathSafety.tla  C06: records of the real entry points, judged by TLC

   Layer 2 (from the property statements): Valid, ValidLoose, ResolveSet, FixedPrefix, Under.
   Layer 1 (follows the code): ImplValidErr, ImplResolve.                                        *)
EXTENDS VerifCommon

\* ---------------------------------------------------------------- characters
\* printable ASCII in code order (32..126); Ord gives the byte value used by "name order"
AsciiSeq == <<" ","!","\"","#","$","%","&","'","(",")","*","+",",","-",".","/","0","1","2","3","4","5","6","7","8","9",":",";","<","=",">","?","@","A","B","C","D","E","F","G","H","I","J","K","L","M","N","O","P","Q","R","S","T","U","V","W","X","Y","Z","[","\\","]","^","_","`","a","b","c","d","e","f","g","h","i","j","k","l","m","n","o","p","q","r","s","t","u","v","w","x","y","z","{","|","}","~">>
AsciiSet == Range(AsciiSeq)
OrdTab == [c \in AsciiSet |-> 31 + (CHOOSE i \in 1..Len(AsciiSeq) : AsciiSeq[i] = c)]
Ord(c) == IF c \in AsciiSet THEN OrdTab[c] ELSE 1000

Lower  == {"a","b","c","d","e","f","g","h","i","j","k","l","m","n","o","p","q","r","s","t","u","v","w","x","y","z"}
Upper  == {"A","B","C","D","E","F","G","H","I","J","K","L","M","N","O","P","Q","R","S","T","U","V","W","X","Y","Z"}
Digits == {"0","1","2","3","4","5","6","7","8","9"}
Punct  == {"_", "-", ".", "/"}
\* Letters of other scripts. The statement says "letters": whether these count is left open
\* (three-valued validity below). Control characters are definitely not allowed.
ForeignLetters == {"é", "д"}
Control == {"\n", "\t"}
KnownChars == AsciiSet \cup ForeignLetters \cup Control

StrictSet == Lower \cup Upper \cup Digits \cup Punct
AllowedStrict(c) == c \in StrictSet
AllowedLoose(c)  == AllowedStrict(c) \/ c \in ForeignLetters

\* ---------------------------------------------------------------- segments
RECURSIVE SplitAcc(_, _, _, _)
SplitAcc(s, sep, cur, acc) ==
    IF s = <<>> THEN Append(acc, cur)
    ELSE IF Head(s) = sep THEN SplitAcc(Tail(s), sep, <<>>, Append(acc, cur))
    ELSE SplitAcc(Tail(s), sep, Append(cur, Head(s)), acc)
\* strings.Split(s, "/"): "a//b" has an empty middle segment, "" has one empty segment
Segments(s) == SplitAcc(s, "/", <<>>, <<>>)

Dot    == <<".">>
DotDot == <<".", ".">>

\* ---------------------------------------------------------------- layer 2: validity (statement of C06)
\* "non-empty, uses only letters, digits, '_', '-', '.', '/', has no leading/trailing slash and
\*  no '.' or '..' segment"
ValidWith(n, Allowed(_)) ==
    /\ n # <<>>
    /\ \A i \in 1..Len(n) : Allowed(n[i])
    /\ n[1] # "/"
    /\ n[Len(n)] # "/"
    /\ LET segs == Segments(n) IN \A k \in 1..Len(segs) : segs[k] # Dot /\ segs[k] # DotDot

Valid(n)      == ValidWith(n, AllowedStrict)   \* every reading of the statement calls n valid
ValidLoose(n) == ValidWith(n, AllowedLoose)    \* some reading of the statement calls n valid

\* ---------------------------------------------------------------- layer 1: IsValidPathName, in code order
ImplValidErr(n) ==
    IF n = <<>> THEN "empty"
    ELSE IF n[1] = "/" THEN "beginslash"
    ELSE IF n[Len(n)] = "/" THEN "endslash"
    ELSE IF \E i \in 1..Len(n) : ~AllowedStrict(n[i]) THEN "charset"   \* ^[0-9a-zA-Z_\-/\.]+$
    ELSE IF LET segs == Segments(n) IN \E k \in 1..Len(segs) : segs[k] = Dot \/ segs[k] = DotDot THEN "dotsegment"
    ELSE "ok"

\* ---------------------------------------------------------------- configuration keys
KAll       == <<"a","l","l">>
KAllOthers == <<"a","l","l","_","o","t","h","e","r","s">>
IsAllLike(k)  == k = KAll \/ k = KAllOthers
IsRegexKey(k) == IsAllLike(k) \/ (k # <<>> /\ Head(k) = "~")
\* the regular expression a key stands for
RegexSrc(k) == IF IsAllLike(k) THEN <<"^",".","*","$">> ELSE Tail(k)

RECURSIVE LexLess(_, _)
LexLess(a, b) ==
    IF b = <<>> THEN FALSE
    ELSE IF a = <<>> THEN TRUE
    ELSE IF Head(a) = Head(b) THEN LexLess(Tail(a), Tail(b))
    ELSE Ord(Head(a)) < Ord(Head(b))

\* "in name order, with all/all_others last"
Before(k1, k2) ==
    IF IsAllLike(k1) # IsAllLike(k2) THEN IsAllLike(k2) ELSE LexLess(k1, k2)

\* ---------------------------------------------------------------- layer 2: resolution (statement of C14)
\* M(k, name) is the ground truth of regular-expression matching: [ok |-> BOOLEAN, g |-> capture groups]
\* (a table produced with Go's regexp package, see PathResolveMC.tla).
\* The result is a SET of admissible outcomes; it has two elements only where the statement is
\* open (a name whose only doubtful characters are letters of another script).
Outcome(ok, key, exact, groups) == [ok |-> ok, key |-> key, exact |-> exact, groups |-> groups]
RejectedOutcome == Outcome(FALSE, <<>>, FALSE, <<>>)

ResolveSet(K, name, M(_, _)) ==
    IF name \in K THEN {Outcome(TRUE, name, TRUE, <<>>)}
    ELSE LET cand  == {k \in K : IsRegexKey(k) /\ M(k, name).ok}
             first == {k \in cand : \A o \in cand \ {k} : Before(k, o)}
             hit   == {Outcome(TRUE, k, FALSE, M(k, name).g) : k \in first}
         IN  IF Valid(name) THEN (IF cand = {} THEN {RejectedOutcome} ELSE hit)
             ELSE IF ValidLoose(name) THEN {RejectedOutcome} \cup hit
             ELSE {RejectedOutcome}

\* an observed result o = [ok, key, groups] agrees with an admissible outcome e
\* (capture groups are stated only for a regular-expression match)
Agrees(o, e) ==
    /\ o.ok = e.ok
    /\ e.ok => o.key = e.key
    /\ (e.ok /\ ~e.exact) => o.groups = e.groups

\* ---------------------------------------------------------------- layer 1: FindPathConf, in code order
ImplLess(i, j) == IF IsAllLike(i) THEN FALSE ELSE IF IsAllLike(j) THEN TRUE ELSE LexLess(i, j)

RECURSIVE ImplSorted(_)
ImplSorted(S) ==
    IF S = {} THEN <<>>
    ELSE LET m == CHOOSE x \in S : \A y \in S \ {x} : ~ImplLess(y, x)
         IN <<m>> \o ImplSorted(S \ {m})

\* the first element of the sorted slice whose expression matches
ImplFirstMatch(seq, name, M(_, _)) ==
    LET idx == {i \in 1..Len(seq) : M(seq[i], name).ok}
    IN IF idx = {} THEN RejectedOutcome
       ELSE LET i == CHOOSE x \in idx : \A y \in idx : x <= y
            IN Outcome(TRUE, seq[i], FALSE, M(seq[i], name).g)

ImplResolve(K, name, M(_, _)) ==
    IF name \in K THEN Outcome(TRUE, name, TRUE, <<>>)
    ELSE IF ImplValidErr(name) # "ok" THEN RejectedOutcome
    ELSE ImplFirstMatch(ImplSorted({k \in K : IsRegexKey(k)}), name, M)

\* ---------------------------------------------------------------- file paths (statement of C06, second sentence)
PathVar == <<"%","p","a","t","h">>

IsPrefixAt(s, i, p) == i + Len(p) - 1 <= Len(s) /\ SubSeq(s, i, i + Len(p) - 1) = p

\* strings.ReplaceAll(fmt, "%path", name)
RECURSIVE SubstFrom(_, _, _)
SubstFrom(f, i, name) ==
    IF i > Len(f) THEN <<>>
    ELSE IF IsPrefixAt(f, i, PathVar) THEN name \o SubstFrom(f, i + Len(PathVar), name)
    ELSE <<f[i]>> \o SubstFrom(f, i + 1, name)
Subst(f, name) == SubstFrom(f, 1, name)

\* lexical cleaning of an absolute path, as a sequence of segments
RECURSIVE CleanAcc(_, _)
CleanAcc(segs, acc) ==
    IF segs = <<>> THEN acc
    ELSE LET s == Head(segs) IN
         IF s = <<>> \/ s = Dot THEN CleanAcc(Tail(segs), acc)
         ELSE IF s = DotDot THEN CleanAcc(Tail(segs), IF acc = <<>> THEN acc ELSE SubSeq(acc, 1, Len(acc) - 1))
         ELSE CleanAcc(Tail(segs), Append(acc, s))
CleanPath(p) == CleanAcc(Segments(p), <<>>)

HasPercent(seg) == \E i \in 1..Len(seg) : seg[i] = "%"

\* "the fixed directory prefix of that path's record path": the directories of the configured
\* record path that precede the first element containing a variable (never the file name itself)
RECURSIVE FixedAcc(_, _)
FixedAcc(segs, acc) ==
    IF Len(segs) <= 1 THEN acc
    ELSE IF HasPercent(Head(segs)) THEN acc
    ELSE FixedAcc(Tail(segs), Append(acc, Head(segs)))
FixedPrefix(recordPath) == CleanAcc(FixedAcc(Segments(recordPath), <<>>), <<>>)

\* file (a path string) lies under the directory given as cleaned segments
Under(prefixSegs, file) ==
    LET f == CleanPath(file)
    IN Len(prefixSegs) < Len(f) /\ SubSeq(f, 1, Len(prefixSegs)) = prefixSegs
=============================================================================
