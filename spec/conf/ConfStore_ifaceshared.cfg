SPECIFICATION Spec
CONSTANTS
  IfaceDeep = FALSE
  ExactSize = TRUE
  RedactOnCopy = TRUE
  MaxMut = 1
INVARIANTS CloneIndependent
CHECK_DEADLOCK FALSE
