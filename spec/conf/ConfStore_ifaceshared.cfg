\* regression InterfaceSharedByClone (IfaceDeep = FALSE, the code before 8aad5d9): TLC must report CloneIndependent violated
\* (the check configurations ConfStore_c11/c08/c07.cfg describe the current code: all TRUE)
SPECIFICATION Spec
CONSTANTS
  IfaceDeep = FALSE
  EmptyDeep = TRUE
  ExactSize = TRUE
  RedactOnCopy = TRUE
  MaxMut = 1
INVARIANTS CloneIndependent
CHECK_DEADLOCK FALSE
