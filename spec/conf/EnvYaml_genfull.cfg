SPECIFICATION Spec
CONSTANTS
  GenMode = TRUE
  Full = TRUE
INVARIANT EmitCases
INVARIANT NoTable
INVARIANT EmitLists
INVARIANT NoItemTable
CHECK_DEADLOCK FALSE
