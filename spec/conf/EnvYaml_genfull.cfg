SPECIFICATION Spec
CONSTANTS
  GenMode = TRUE
  Full = TRUE
INVARIANT EmitCases
INVARIANT NoTable
CHECK_DEADLOCK FALSE
