-------------------------- MODULE TracePathSafety --------------------------
(* C06  Path names cannot escape the recording tree: trace validation.

   C06_trace.ndjson has one record per (entry point, configuration context, name) observed on the
   REAL code (packages conf, recordstore, playback, api, core):
       name      the name as the server saw it (sequence of characters)
       accepted  whether the entry point accepted the name
       rp        the record path configured for the context (absolute; /R = the harness' root)
       files     the files the entry point derived, handed out, served or deleted for the name
   TLC evaluates the statement on every record:
       NameOK   accepted => the name is valid (in the loosest reading of "letters")
       FilesOK  every such file lies under the fixed directory prefix of the record path
   A record whose name is valid only in the loose reading is reported as OPEN (never a verdict).
   Records are spread over blocks so that TLC's workers share them.                            *)
EXTENDS PathName

CONSTANT BlockSize

Trace == ndJsonDeserialize("C06_trace.ndjson")
NBlocks == (Len(Trace) + BlockSize - 1) \div BlockSize

VARIABLES b, l
TraceInit == b \in 1..NBlocks /\ l = 0
TraceNext == /\ l = 0
             /\ l' \in ((b - 1) * BlockSize + 1)..Min(b * BlockSize, Len(Trace))
             /\ UNCHANGED b
TraceSpec == TraceInit /\ [][TraceNext]_<<b, l>>

NameOK(r)  == r.accepted => ValidLoose(r.name)
FilesOK(r) == \A i \in 1..Len(r.files) : Under(FixedPrefix(r.rp), r.files[i])
Open(r)    == r.accepted /\ ValidLoose(r.name) /\ ~Valid(r.name)
KnownOK(r) == \A i \in 1..Len(r.name) : r.name[i] \in KnownChars

Verdicts ==
    l >= 1 =>
      /\ Monitor(NameOK(Trace[l]),  [l |-> l, monitor |-> "name"])
      /\ Monitor(FilesOK(Trace[l]), [l |-> l, monitor |-> "files"])
      /\ (~Open(Trace[l]) \/ Emit("OPEN", [l |-> l]))
      /\ (KnownOK(Trace[l]) \/ Emit("UNKNOWNCHAR", [l |-> l]))

\* conformance of the real IsValidPathName with layer 1 (never a verdict)
Drift ==
    (l >= 1 /\ Trace[l].direct) =>
        ((Trace[l].accepted <=> ImplValidErr(Trace[l].name) = "ok") \/ Emit("DRIFT", [l |-> l]))

\* the directory the real CommonPath computes is the statement's fixed prefix (never a verdict)
Prefixes == ndJsonDeserialize("C06_prefix.ndjson")
PrefixDrift ==
    l = 0 => \A i \in 1..Len(Prefixes) :
        (CleanPath(Prefixes[i].common) = FixedPrefix(Prefixes[i].rp)) \/ Emit("PREFIXDRIFT", [i |-> i])
=============================================================================
