\* regression RedactInPlace (RedactOnCopy = FALSE): TLC must report Redacted violated
\* (the check configurations ConfStore_c11/c08/c07.cfg describe the current code: all TRUE)
SPECIFICATION Spec
CONSTANTS
  IfaceDeep = TRUE
  EmptyDeep = TRUE
  ExactSize = TRUE
  RedactOnCopy = FALSE
  MaxMut = 0
INVARIANTS Redacted
CHECK_DEADLOCK FALSE
