SPECIFICATION Spec
CONSTANTS
  IfaceDeep = TRUE
  ExactSize = TRUE
  RedactOnCopy = FALSE
  MaxMut = 0
INVARIANTS Redacted
CHECK_DEADLOCK FALSE
