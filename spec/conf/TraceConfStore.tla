--------------------------- MODULE TraceConfStore ---------------------------
(* Trace validation for C11, C08 and C07: ndjson records written by the Go harness from
   the REAL conf.Conf / conf.Path / api.API; TLC evaluates the statements' observation
   formulas of ConfStore.tla (IndependentObs, RejectedObs, RoundTripObs, RedactedObs) on
   every record. Which formula applies is the record's `rec` field; the file is chosen by
   the configuration (TraceConfStore_c11.cfg, ..._c08.cfg, ..._c07.cfg).                 *)
EXTENDS ConfStore

CONSTANT TraceFile

Trace == ndJsonDeserialize(TraceFile)

VARIABLE l
TraceInit == /\ l = 0
             /\ live = SparseRoot /\ heap = SparseHeap /\ copy = Ptr(0) /\ mode = "trace"
             /\ snap = NoView /\ view = NoView /\ written = NoView /\ nmut = 0
TraceNext == l < Len(Trace) /\ l' = l + 1 /\ UNCHANGED vars
TraceSpec == TraceInit /\ [][TraceNext]_<<l, vars>>

RecOK(r) ==
    CASE r.rec = "mutation"  -> IndependentObs(r)
      [] r.rec = "rejected"  -> RejectedObs(r)
      [] r.rec = "roundtrip" -> RoundTripObs(r)
      [] r.rec = "secret"    -> RedactedObs(r)
      [] OTHER               -> TRUE            \* summary records carry no verdict

Verdicts == l >= 1 => Monitor(RecOK(Trace[l]), [l |-> l, rec |-> Trace[l].rec])

\* C07: the placeholder is one fixed string: every shown value of a secret position is the same
FixedPlaceholder ==
    l = Len(Trace) =>
        LET shown == {Trace[i].shown : i \in {j \in 1..Len(Trace) : Trace[j].rec = "secret" /\ Trace[j].shownAt}}
        IN Monitor(Cardinality(shown) <= 1, [l |-> 0, rec |-> "placeholder"])

Accepted == TLCGet("stats").diameter - 1 = Len(Trace)
=============================================================================
