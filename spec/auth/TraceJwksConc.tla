---------------------------- MODULE TraceJwksConc ----------------------------
(* Trace validation for the concurrent JWKS cache part of C02: every record is one schedule of
   JwksConc.tla executed on ONE real auth.Manager against a JWKS endpoint that holds every download
   until the schedule releases it. The record is the list of events with logical time stamps t:
     astart(c, k)  a call with a valid token signed by k is started
     aret(c, k, ok) it returned (observed by the driver; not before it really returned)
     rstart / rret(t0) RefreshJWTJWKS was started / was seen to have returned (t0 = its rstart)
     dl(id, set)   the endpoint served a download: the authority's key set of that instant
     rotate, release(c, id), skip
   TLC evaluates the statement on every decision (DecisionOK of JwksConc.tla, with instants instead
   of epochs): the decision is the one for the key set of ONE download served before the call
   returned; if a RefreshJWTJWKS had returned before the call started, only downloads served after
   that refresh count (a download served while the refresh call was in flight is counted as after
   it: the harness cannot order the two), and without such a download the call must be rejected. *)
EXTENDS JwksConc

Trace == ndJsonDeserialize("C02_conc_trace.ndjson")

VARIABLE l
TraceInit == /\ l = 0 /\ stage = 1 /\ has = FALSE /\ cs = {} /\ fresh = FALSE /\ lock = "free"
             /\ call = [c \in Callers |-> Idle] /\ ref = "idle" /\ epoch = 0 /\ dls = {} /\ bad = FALSE
TraceNext == l < Len(Trace) /\ l' = l + 1 /\ UNCHANGED vars
TraceSpec == TraceInit /\ [][TraceNext]_<<l, vars>>

MaxOf(S) == CHOOSE x \in S : \A y \in S : y <= x

RetOK(evs, i) ==
    LET e    == evs[i]
        sidx == MaxOf({j \in 1..(i - 1) : evs[j].e = "astart" /\ evs[j].c = e.c})
        s    == evs[sidx]
        thrs == {evs[j].t0 : j \in {j \in 1..Len(evs) : evs[j].e = "rret" /\ evs[j].t < s.t}}
        thr  == IF thrs = {} THEN 0 ELSE MaxOf(thrs)
        adm  == {j \in 1..Len(evs) : evs[j].e = "dl" /\ evs[j].t < e.t /\ evs[j].t > thr}
    IN IF adm = {} THEN ~e.ok ELSE \E j \in adm : e.ok = (s.k \in Range(evs[j].set))

Verdicts == l >= 1 => LET evs == Trace[l].events IN
            \A i \in 1..Len(evs) : evs[i].e = "aret" => Monitor(RetOK(evs, i), [l |-> l, step |-> i])
Accepted == TLCGet("stats").diameter - 1 = Len(Trace)
=============================================================================
