------------------------- MODULE TraceAuthInternal -------------------------
(* Trace validation for C01: every record is one call of the real auth.Manager (internal
   method) on RANDOM users and requests outside the token tables of AuthInternal.tla.
   For every user entry the harness logged atoms it computed on its own (CIDR containment by
   bit arithmetic on the generated address bytes, regular expression found by the harness's
   own matcher, credential match by recomputing sha256 / argon2 with other libraries, the
   verdict of the request's verifier on the configured texts) and what the real code
   answered. TLC evaluates the statement's boolean structure (EntryF, GrantF, VerdictF of
   AuthInternal.tla) on the atoms. Records of kind "reload" were taken while another
   goroutine swapped the user list between A and B: the answer must be the statement's
   answer for one of the two lists.                                                       *)
EXTENDS AuthInternal

Trace == ndJsonDeserialize("C01_trace.ndjson")

VARIABLE l
TraceInit == l = 0 /\ prof = "" /\ users = <<>> /\ res = <<>> /\ done = FALSE
TraceNext == l < Len(Trace) /\ l' = l + 1 /\ UNCHANGED vars
TraceSpec == TraceInit /\ [][TraceNext]_<<l, vars>>

GrantsT(u, rq, open) ==
    \E j \in 1..Len(u.perms) :
      LET p == u.perms[j] IN
      IF open THEN GrantOpenF(p.actEq, rq.pathAct, p.kind, p.eq, p.found)
      ELSE GrantF(p.actEq, rq.pathAct, p.kind, p.eq, p.found)
MatchT(u, rq) == IF rq.ver THEN u.vm ELSE u.um /\ u.pm
AdmitT(us, rq, open) ==
    \E i \in 1..Len(us) :
      EntryF(us[i].ipEmpty, IF open THEN us[i].ipHi ELSE us[i].ipLo, GrantsT(us[i], rq, open),
             us[i].any, MatchT(us[i], rq))
AskAllowedT(rq) == rq.ask /\ rq.user = "" /\ rq.pass = ""

ListOK(us, r) == VerdictF(AdmitT(us, r.req, FALSE), AdmitT(us, r.req, TRUE), AskAllowedT(r.req), r.req.user, r.obs)

RecOK(r) ==
    IF r.kind = "reload" THEN ListOK(r.users, r) \/ ListOK(r.usersB, r)
    ELSE ListOK(r.users, r)

\* layer 1 says more than the statement: asks exactly when allowed (token ignored)
Layer1Ask(r) == r.obs.ask = (~r.obs.ok /\ AskAllowedT(r.req))

Verdicts == l >= 1 => Monitor(RecOK(Trace[l]), [l |-> l])
Drift    == l >= 1 => (Layer1Ask(Trace[l]) \/ Emit("DRIFT", [l |-> l]))
Accepted == TLCGet("stats").diameter - 1 = Len(Trace)
=============================================================================
