------------------------------ MODULE AuthFlow ------------------------------
(* C03  Every media publish or read is authorized for that path and action
        (internal/core/path_manager.go doFindPathConf / doDescribe / doAddReader / doAddPublisher,
         internal/defs/path_access_request.go, the protocol handlers below internal/servers)

   A client session talks to the path manager through the calls its protocol handler makes:
     FindPathConf(auth)                       -> remembers the path configuration it was shown
     Describe(auth)                           (RTSP)
     AddReader(auth | skipAuth)
     AddPublisher(auth | skipAuth, with or without ConfToCompare)
   and the configuration of a path can be reloaded between any two of them.

   Layer 1: the flows of the protocol handlers as transcribed from the servers
     rtsp/rtmp/srt/webrtc publish : FindPathConf(publish) ; AddPublisher(skipAuth, ConfToCompare)
     moq publish                  : AddPublisher(auth)
     rtsp read                    : Describe(auth) ; AddReader(auth)
     rtmp/srt/webrtc/moq read     : AddReader(auth)
     hls read                     : FindPathConf(read) ; AddReader(auth)
   and the path manager's guards (authentication unless skipAuth; ConfToCompare equality).

   Layer 2: the statement
     AttachOnlyIfAdmitted       a session is publisher / reader of n only if the authentication
                                manager admitted that session for exactly (n, publish / read) before
     SkipAuthOnlyAfterAuth      a call with skipAuth for (n, a) is made only by a session that was
                                admitted for (n, a) before
     PublisherConfStillInForce  a publisher is attached only if the configuration of n it was
                                authorized against is still the one in force

   The second half of the module (ScenarioOK) states the same for one observed scenario of the
   real server: the Authenticate calls the path manager made (recorded at its authManager
   field), configuration reloads, and whether the client ended up attached. "Admitted" is
   C01's statement formula (AuthInternal.tla: EntryF, GrantF) over the configured users.     *)
EXTENDS VerifCommon, SequencesExt

AI == INSTANCE AuthInternal WITH Profiles <- {}, Big <- FALSE,
                                 prof <- "", users <- <<>>, res <- <<>>, done <- FALSE

CONSTANTS Sessions,       \* client sessions
          Names,          \* path names
          MaxVer          \* reloads per path

Actions == {"publish", "read"}
Flows == {"pub_find_skip", "pub_auth", "read_describe_add", "read_add", "read_find_add"}
FlowAction(f) == IF f \in {"pub_find_skip", "pub_auth"} THEN "publish" ELSE "read"
\* the calls of a flow, in order: <<call, uses auth?, ConfToCompare?>>
Calls(f) ==
    CASE f = "pub_find_skip"     -> << <<"find", TRUE, FALSE>>, <<"addpub", FALSE, TRUE>> >>
      [] f = "pub_auth"          -> << <<"addpub", TRUE, FALSE>> >>
      [] f = "read_describe_add" -> << <<"describe", TRUE, FALSE>>, <<"addreader", TRUE, FALSE>> >>
      [] f = "read_add"          -> << <<"addreader", TRUE, FALSE>> >>
      [] f = "read_find_add"     -> << <<"find", TRUE, FALSE>>, <<"addreader", TRUE, FALSE>> >>

VARIABLES adm,        \* what the authentication manager answers session s for (its name, its action)
          flow, name, \* the flow and the path name of each session
          pc,         \* calls made so far (0 .. Len(Calls)); -1: refused, flow ended
          ver,        \* configuration version in force per name
          admitted,   \* history: [session -> set of <<name, action, version>>] admitted by the manager
          snap,       \* the configuration version a session was shown by FindPathConf (0 = none)
          att,        \* attached as: "none" | "publish" | "read"
          attVer,     \* history: version in force when the publisher was attached
          skipOK      \* history: every skipAuth call so far was preceded by an admission for (name, action)
vars == <<adm, flow, name, pc, ver, admitted, snap, att, attVer, skipOK>>

Init == /\ adm \in [Sessions -> BOOLEAN]
        /\ flow \in [Sessions -> Flows] /\ name \in [Sessions -> Names]
        /\ pc = [s \in Sessions |-> 0] /\ ver = [n \in Names |-> 1]
        /\ admitted = [s \in Sessions |-> {}] /\ snap = [s \in Sessions |-> 0]
        /\ att = [s \in Sessions |-> "none"] /\ attVer = [s \in Sessions |-> 0]
        /\ skipOK = TRUE

\* one call of session s into the path manager
Call(s) ==
    /\ pc[s] >= 0 /\ pc[s] < Len(Calls(flow[s]))
    /\ LET c == Calls(flow[s])[pc[s] + 1]
           a == FlowAction(flow[s])
           n == name[s]
           authOK == ~c[2] \/ adm[s]
           cmpOK  == ~c[3] \/ snap[s] = ver[n]
           ok == authOK /\ (c[1] # "addpub" \/ cmpOK)
       IN /\ pc' = [pc EXCEPT ![s] = IF ok THEN pc[s] + 1 ELSE -1]
          /\ admitted' = IF c[2] /\ adm[s] THEN [admitted EXCEPT ![s] = @ \cup {<<n, a, ver[n]>>}] ELSE admitted
          /\ snap' = IF ok /\ c[1] = "find" THEN [snap EXCEPT ![s] = ver[n]] ELSE snap
          /\ att' = IF ok /\ c[1] = "addpub" THEN [att EXCEPT ![s] = "publish"]
                    ELSE IF ok /\ c[1] = "addreader" THEN [att EXCEPT ![s] = "read"] ELSE att
          /\ attVer' = IF ok /\ c[1] = "addpub" THEN [attVer EXCEPT ![s] = ver[n]] ELSE attVer
          /\ skipOK' = (skipOK /\ (c[2] \/ \E x \in admitted[s] : x[1] = n /\ x[2] = a))
    /\ UNCHANGED <<adm, flow, name, ver>>

\* a reload of the configuration of n lands between two calls. What it does to the configuration in force:
\*   same    nothing (another entry changed)
\*   nonhot  a field of n's entry that cannot be hot-reloaded changed (maxReaders, source, ...)
\*   hot     ONLY a hot-reloadable field of n's entry changed (record*, forward, rpiCamera*)
\*   rehome  n now resolves to a different entry (a new exact entry shadows the regex / all_others
\*           entry) that is identical except for its name
\* "still the one in force" is equality: every kind but "same" gives n another configuration.
ReloadKinds == {"same", "nonhot", "hot", "rehome"}
Reload(n, k) == /\ k \in ReloadKinds /\ ver[n] < MaxVer
                /\ ver' = [ver EXCEPT ![n] = IF k = "same" THEN @ ELSE @ + 1]
                /\ UNCHANGED <<adm, flow, name, pc, admitted, snap, att, attVer, skipOK>>

Next == (\E s \in Sessions : Call(s)) \/ (\E n \in Names, k \in ReloadKinds : Reload(n, k))
Spec == Init /\ [][Next]_vars

\* ------------------------------------------------------------------ layer 2 on the model
AttachOnlyIfAdmitted ==
    \A s \in Sessions : att[s] # "none" => \E x \in admitted[s] : x[1] = name[s] /\ x[2] = att[s]
SkipAuthOnlyAfterAuth == skipOK
PublisherConfStillInForce ==
    \A s \in Sessions : att[s] = "publish" =>
        \E x \in admitted[s] : x[1] = name[s] /\ x[2] = "publish" /\ x[3] = attVer[s]

\* ------------------------------------------------------------------ layer 2 on an observed scenario
\* users of the real server: entries [ips, perms: <<[action, kind, cls]>>, user, pass]; a permission path
\* is empty, or the regular expression ^vf<cls> which is found exactly in the names of class cls
\* dave is admitted from the single host 10.0.0.5 (not from 10.0.0.50, whose text extends it)
NetHas(n) == CASE n = "127.0.0.1" -> {"127.0.0.1"} [] n = "10.0.0.5" -> {"10.0.0.5"}
P(a, kind, cls) == [action |-> a, kind |-> kind, cls |-> cls]
U(ips, perms, user, pass) == [ips |-> ips, perms |-> perms, user |-> user, pass |-> pass]
Users == << U(<<>>, <<P("publish", "empty", ""), P("read", "empty", "")>>, "alice", "pw"),
            U(<<>>, <<P("publish", "re", "a")>>, "puba", "pw"),
            U(<<>>, <<P("read", "empty", "")>>, "reader", "pw"),
            U(<<"10.0.0.5">>, <<P("publish", "empty", ""), P("read", "empty", "")>>, "dave", "pw"),
            U(<<"127.0.0.1">>, <<P("api", "empty", "")>>, "any", "") >>
\* C01's statement over these atoms
OracleAdmit(action, cls, user, pass, ip) ==
    \E i \in 1..Len(Users) :
        LET u == Users[i] IN
        AI!EntryF(u.ips = <<>>, \E k \in 1..Len(u.ips) : ip \in NetHas(u.ips[k]),
                  \E j \in 1..Len(u.perms) :
                      AI!GrantF(u.perms[j].action = action, TRUE, u.perms[j].kind, FALSE, u.perms[j].cls = cls),
                  u.user = "any", u.user = user /\ u.pass = pass)

\* r: [proto, mode, place, action, name, cls, user, pass, ip, events, attached]
\*   events: <<[op |-> "auth", action, path, user, pass, ip, ok]>> | [op |-> "reload", changes]
\*   changes = the configuration the real path manager resolves r.name to after the reload differs from the
\*   one before it (both obtained from the path manager itself, compared field by field by the harness)
\*   in the order they happened before the attachment was looked up
\* place: where the client put user and password: "native" (the protocol's own way), "basic" / "bearer"
\* (Authorization: Basic, Authorization: Bearer user:pass) or "query" (?user=&pass= on an HTTP protocol: not a
\* placement these endpoints define, so the statement is read both ways: these credentials / none).
Readings(r) == {[user |-> r.user, pass |-> r.pass]} \cup (IF r.place = "query" THEN {[user |-> "", pass |-> ""]} ELSE {})
Qualifies(r, e, rd) == e.op = "auth" /\ e.ok /\ e.action = r.action /\ e.path = r.name
                       /\ e.user = rd.user /\ e.pass = rd.pass /\ e.ip = r.ip
ScenarioOK(r) ==
    r.attached =>
      \E rd \in Readings(r) :
        /\ \E i \in 1..Len(r.events) : Qualifies(r, r.events[i], rd)
        /\ OracleAdmit(r.action, r.cls, rd.user, rd.pass, r.ip)
        /\ r.action = "publish" =>
             \E i \in 1..Len(r.events) :
                /\ Qualifies(r, r.events[i], rd)
                /\ \A j \in (i + 1)..Len(r.events) : ~(r.events[j].op = "reload" /\ r.events[j].changes)
\* the real manager's answers agree with C01's statement (conformance of the wiring: DRIFT)
AnswersAgree(r) ==
    \A i \in 1..Len(r.events) :
        r.events[i].op = "auth" /\ r.events[i].path = r.name =>
            r.events[i].ok = OracleAdmit(r.events[i].action, r.cls, r.events[i].user, r.events[i].pass, r.events[i].ip)
\* layer 1's prediction of the outcome: the code reads no credentials from the query of an HTTP protocol;
\* a request that carries no valid offer (mode "http") never gets as far as an attachment
CodeUser(r) == IF r.place = "query" THEN "" ELSE r.user
CodePass(r) == IF r.place = "query" THEN "" ELSE r.pass
ExpectAttached(r) ==
    /\ r.mode \notin {"http", "cdn"}     \* (cdn: media is served to sessions only, and no session was opened)
    /\ OracleAdmit(r.action, r.cls, CodeUser(r), CodePass(r), r.ip)
    /\ ~(r.action = "publish" /\ r.reload \in {"nonhot", "hot", "rehome"})
\* layer 1: the handler asks the manager for exactly the scenario's action, path, IP and the credentials it reads
AsksAsExpected(r) ==
    \A i \in 1..Len(r.events) : r.events[i].op = "auth" /\ ~r.events[i].feed /\ r.events[i].proto = r.proto =>
        /\ r.events[i].action = r.action /\ r.events[i].ip = r.ip
        /\ \/ r.events[i].user = CodeUser(r) /\ r.events[i].pass = CodePass(r)
           \/ r.events[i].user = "" /\ r.events[i].pass = ""      \* a first attempt before the credentials were asked for
\* layer 1's prediction of what a reload of that kind does to the configuration in force
ReloadsAsExpected(r) ==
    \A i \in 1..Len(r.events) : r.events[i].op = "reload" /\ ~r.events[i].prep =>
        r.events[i].changes = (r.reload \in {"nonhot", "hot", "rehome"})

\* generator: the scenario space
\* pm: the harness calls the path manager directly (FindPathConf, then AddPublisher with ConfToCompare and skipAuth)
\* mode: std  a real client of the protocol
\*       http (webrtc) a WHIP / WHEP POST without a usable offer: the decision side only
\*       full (webrtc) the repository's WHIP client over loopback ICE
\*       cdn  (hls)    media requested directly while the path's CDN session exists
Protos == {"rtsp", "rtmp", "srt", "hls", "pm", "webrtc", "moq"}
CredTok == {"alice", "puba", "reader", "dave", "bad", "none"}
UserOf(c) == IF c = "none" THEN "" ELSE IF c = "bad" THEN "alice" ELSE c
PassOf(c) == IF c = "none" THEN "" ELSE IF c = "bad" THEN "wrong" ELSE "pw"
HTTPProtos == {"hls", "webrtc"}            \* behind the trusted proxy: the client IP is the forwarded one
Scenarios ==
    {x \in [proto : Protos, mode : {"std", "http", "full", "cdn"}, place : {"native", "basic", "bearer", "query"},
            action : Actions, cred : CredTok, cls : {"a", "b"},
            reload : {"none", "other", "nonhot", "hot", "rehome"}, ip : {"127.0.0.1", "10.0.0.5", "10.0.0.50", "10.0.1.5"},
            proxy : {"trusted", "none"}] :
        /\ (x.proto = "hls" => x.action = "read")
        /\ (x.proto = "pm" => x.action = "publish")
        \* proxy "none": the listener trusts no proxy, the client IP is the TCP peer (127.0.0.1) and the
        \* forwarding headers the request carries (naming 10.0.0.5, the host dave is allowed from) are forged
        /\ (x.proxy = "none" => x.proto \in HTTPProtos)
        /\ (x.proto \in HTTPProtos /\ x.proxy = "trusted" <=> x.ip # "127.0.0.1")
        /\ (x.proxy = "none" /\ x.mode = "http" => x.place = "basic")
        /\ (x.proto = "webrtc" <=> x.mode \in {"http", "full"})
        \* cdn (hls): a CDN that holds the configured hlsCDNSecret has pulled <path>/index.m3u8 (its session
        \* exists); the client skips index.m3u8 and asks for a media playlist and a segment directly, with its
        \* own credentials at most. "Becomes a reader" = is served the path's media.
        /\ (x.mode = "cdn" => x.proto = "hls" /\ x.cred \in {"none", "bad", "alice"} /\ x.cls = "a" /\ x.proxy = "trusted")
        /\ (x.proto = "webrtc" <=> x.place # "native")
        /\ (x.mode = "full" => x.place = "basic")
        /\ (x.place \in {"bearer", "query"} => x.cls = "a")
        /\ (x.action = "read" \/ x.mode = "http" \/ x.proto = "moq" => x.reload = "none")}
ASSUME \A x \in Scenarios :
    Emit("SCEN", x @@ [user |-> UserOf(x.cred), pass |-> PassOf(x.cred),
                      admit |-> OracleAdmit(x.action, x.cls, UserOf(x.cred), PassOf(x.cred), x.ip)])
ASSUME Emit("USERS", [users |-> Users])
=============================================================================
