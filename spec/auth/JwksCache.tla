----------------------------- MODULE JwksCache -----------------------------
(* C02 (jwt method)  The authority's key set changes over time; auth.Manager caches it.
        (internal/auth/manager.go: pullJWTJWKS, RefreshJWTJWKS, jwksRefreshPeriod = 1 h)

   Environment: the authority publishes a key set that rotates {k1} -> {k1,k2} -> {k2} -> {k1};
   its JWKS endpoint is healthy or broken in one of several ways. The manager is asked to decide
   tokens that are valid in every respect and signed by k1, k2 or k3 (k3 is never published).

   Layer 2, from the statement ("admitted iff ... the token verifies against the JWKS keys"),
   over what can be observed: the decisions and the downloads the JWKS endpoint answered
   (DecisionOK):
     only-if   a token is admitted only if its signing key was in the set the endpoint served at
               the last download it answered successfully to this manager;
     current   once the cache period has elapsed since that download, or RefreshJWTJWKS has
               returned, the next decision is the one for the authority's CURRENT set
               (withdrawn key rejected, newly published key admitted); within the period the
               set of the last successful download may still be used (or a new one fetched);
     closed    while the endpoint is broken and the cached set is stale, nothing is admitted;
               an answer that is not a successful download is not a key set: once the endpoint
               has recovered the next decision is again the one for the current set.
   Layer 1 (ImplAuth, ImplHalf, ImplRefresh) follows the code: lastRefresh/keyfunc are replaced
   only after a download that was answered 2xx and parsed; errors (among them every non-2xx
   answer, fix 468a92b in /repo) leave both untouched.
   CodeIgnoresStatus = TRUE is the named deviation "the HTTP status of the answer is not looked
   at" (the code before 468a92b, finding C02-F2): a 503 answer whose body is a JSON object then
   parses as an EMPTY key set and is cached; layer 1 with the deviation violates "closed".

   via / ff are coverage ghosts (how the cache became stale, whether the last download attempt
   failed): they make the edge cover of the state graph walk through those histories.        *)
EXTENDS VerifCommon

CONSTANTS MaxAge,            \* cache period in time steps (1: one step = the whole period; 2: half periods)
          Healths,           \* the endpoint behaviours explored, "ok" included
          CodeIgnoresStatus  \* FALSE: the code as it is; TRUE: deviation, non-2xx answers are parsed (C02-F2)

Keys == {"k1", "k2", "k3"}
PubOf(stage) == CASE stage = 1 -> {"k1"} [] stage = 2 -> {"k1", "k2"} [] stage = 3 -> {"k2"}
\* endpoint behaviours: ok = 200 + key set; s500 = 500 + text; s503json = 503 + a JSON object that
\* is not a key set; badjson = 200 + text; down = connection dropped without an answer
StatusIgnored == IF CodeIgnoresStatus THEN {"s503json"} ELSE {}

\* ------------------------------------------------------------------ layer 2
\* g = [has, set, age]: the last download the endpoint answered successfully, and the time since
Stale(g) == ~g.has \/ g.age >= MaxAge
\* one decision: token signed by k, answer ok, fetch = "none" | "ok" | "fail" = what the endpoint
\* saw during the call, served = the key set of its successful answer
DecisionOK(g, pub, health, k, ok, fetch, served) ==
    LET has2 == g.has \/ fetch = "ok"
        set2 == IF fetch = "ok" THEN served ELSE g.set
    IN /\ ok => (has2 /\ k \in set2)                                     \* only-if
       /\ (Stale(g) /\ health = "ok") => (ok <=> k \in pub)              \* current
       /\ (Stale(g) /\ health # "ok") => ~ok                             \* closed
       /\ (~Stale(g) /\ fetch = "none") => (ok <=> k \in g.set)          \* within the period: the old set ...
       /\ (~Stale(g) /\ fetch = "ok") => (ok <=> k \in served)           \* ... or a new download
GhostAuth(g, fetch, served) == IF fetch = "ok" THEN [has |-> TRUE, set |-> served, age |-> 0] ELSE g
GhostHalf(g)    == [g EXCEPT !.age = Min(MaxAge, g.age + 1)]
GhostRefresh(g) == [g EXCEPT !.age = MaxAge]
Ghost0 == [has |-> FALSE, set |-> {}, age |-> MaxAge]

\* ------------------------------------------------------------------ layer 1
\* s = [has, set, age]: keyfunc and lastRefresh of the manager
ImplAuth(s, pub, health, k) ==
    IF s.age >= MaxAge THEN
        CASE health = "ok"       -> [s |-> [has |-> TRUE, set |-> pub, age |-> 0], ok |-> k \in pub, fetch |-> "ok", served |-> pub]
          [] health \in StatusIgnored -> [s |-> [has |-> TRUE, set |-> {}, age |-> 0], ok |-> FALSE, fetch |-> "fail", served |-> {}]
          [] OTHER               -> [s |-> s, ok |-> FALSE, fetch |-> "fail", served |-> {}]
    ELSE [s |-> s, ok |-> s.has /\ k \in s.set, fetch |-> "none", served |-> {}]
ImplHalf(s)    == [s EXCEPT !.age = Min(MaxAge, s.age + 1)]
ImplRefresh(s) == [s EXCEPT !.age = MaxAge]

\* ------------------------------------------------------------------ bounded model
VARIABLES stage, health, m, g, via, ff, ev
vars == <<stage, health, m, g, via, ff, ev>>

\* ev: verdict of the statement on the decision just taken (kept small: it is part of the state graph)
NoEv == [a |-> "env", good |-> TRUE, tainted |-> FALSE]
Init == /\ stage = 1 /\ health = "ok" /\ m = Ghost0 /\ g = Ghost0
        /\ via = "init" /\ ff = FALSE /\ ev = NoEv

Auth(k) ==
    LET r == ImplAuth(m, PubOf(stage), health, k) IN
    /\ m' = r.s
    /\ g' = GhostAuth(g, r.fetch, r.served)
    /\ ev' = [a |-> "auth", good |-> DecisionOK(g, PubOf(stage), health, k, r.ok, r.fetch, r.served),
              tainted |-> m # g]
    /\ via' = IF r.fetch = "ok" THEN "fetched" ELSE via
    /\ ff' = IF r.fetch = "ok" THEN FALSE ELSE IF r.fetch = "fail" THEN TRUE ELSE ff
    /\ UNCHANGED <<stage, health>>
Rotate == /\ stage' = (stage % 3) + 1 /\ ev' = NoEv /\ UNCHANGED <<health, m, g, via, ff>>
Break(h) == /\ health = "ok" /\ h # "ok" /\ health' = h /\ ev' = NoEv
            /\ UNCHANGED <<stage, m, g, via, ff>>
Recover == /\ health # "ok" /\ health' = "ok" /\ ev' = NoEv /\ UNCHANGED <<stage, m, g, via, ff>>
Half == /\ m' = ImplHalf(m) /\ g' = GhostHalf(g) /\ ev' = NoEv
        /\ via' = IF m.age < MaxAge /\ m'.age >= MaxAge THEN "time" ELSE via
        /\ UNCHANGED <<stage, health, ff>>
Refresh == /\ m' = ImplRefresh(m) /\ g' = GhostRefresh(g) /\ ev' = NoEv
           /\ via' = "refresh" /\ UNCHANGED <<stage, health, ff>>

Next == \/ \E k \in Keys : Auth(k)
        \/ Rotate \/ Recover \/ Half \/ Refresh
        \/ \E h \in Healths : Break(h)
Spec == Init /\ [][Next]_vars

\* layer 1 |= layer 2: every decision of the bounded model satisfies the statement. Holds for the
\* code as it is; must be VIOLATED with CodeIgnoresStatus = TRUE (sanity run of the check).
ImplSatisfiesPropStrict == ev.a = "auth" => ev.good
\* the weaker form that excepts decisions taken while the manager holds a "set" that no successful
\* download delivered (m # g: tainted) - what remains true under the deviation
ImplSatisfiesProp == (ev.a = "auth" /\ ~ev.tainted) => ev.good
\* the manager never holds anything but the last successful download, unless the status is ignored
TaintOnlyByStatusIgnored == (Healths \cap StatusIgnored = {}) => m = g
=============================================================================
