---------------------------- MODULE TraceAuthExt ----------------------------
(* Trace validation for C02: one record per case of AuthExt.tla executed by the real
   auth.Manager. A record holds the case (c), the strings the harness handed to the manager (r,
   http method), what the manager answered (obs) and what the auth server of the harness
   received and answered (log). TLC evaluates the statement's formulas (JWTAdmit, HTTPObsOK of
   AuthExt.tla) on what was observed.                                                      *)
EXTENDS AuthExt

Trace == ndJsonDeserialize("C02_trace.ndjson")

VARIABLE l
TraceInit == l = 0 /\ c = <<>> /\ res = <<>> /\ done = FALSE
TraceNext == l < Len(Trace) /\ l' = l + 1 /\ UNCHANGED vars
TraceSpec == TraceInit /\ [][TraceNext]_<<l, vars>>

\* one decision: st = [obs, log, r (http method only)]
StepOK(x, st) ==
    IF x.cfg.method = "jwt" THEN st.obs.ok \in JWTAdmit(x)
    ELSE HTTPObsOK(x, st.r, st.obs.ok, st.log)

\* a sequence record holds one entry per step (rec.steps); every step is judged by the per-request
\* formula on StepCase(c, i) alone: history independence
Verdicts ==
    l >= 1 => LET rec == Trace[l] IN
              IF IsSeq(rec.c)
              THEN \A i \in 1..Len(rec.c.steps) : Monitor(StepOK(StepCase(rec.c, i), rec.steps[i]), [l |-> l, step |-> i])
              ELSE Monitor(StepOK(rec.c, rec), [l |-> l, step |-> 0])
\* the real code differs from layer 1 (not a verdict)
Drift ==
    l >= 1 => LET rec == Trace[l] IN
              IF IsSeq(rec.c)
              THEN \A i \in 1..Len(rec.c.steps) : (rec.steps[i].obs.ok = rec.l1ok[i] \/ Emit("DRIFT", [l |-> l, step |-> i]))
              ELSE rec.obs.ok = rec.l1ok \/ Emit("DRIFT", [l |-> l, step |-> 0])
Accepted == TLCGet("stats").diameter - 1 = Len(Trace)
=============================================================================
