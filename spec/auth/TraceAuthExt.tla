---------------------------- MODULE TraceAuthExt ----------------------------
(* Trace validation for C02: one record per case of AuthExt.tla executed by the real
   auth.Manager. A record holds the case (c), the strings the harness handed to the manager (r,
   http method), what the manager answered (obs) and what the auth server of the harness
   received and answered (log). TLC evaluates the statement's formulas (JWTAdmit, HTTPObsOK of
   AuthExt.tla) on what was observed.                                                      *)
EXTENDS AuthExt

Trace == ndJsonDeserialize("C02_trace.ndjson")

VARIABLE l
TraceInit == l = 0 /\ c = <<>> /\ res = <<>> /\ done = FALSE
TraceNext == l < Len(Trace) /\ l' = l + 1 /\ UNCHANGED vars
TraceSpec == TraceInit /\ [][TraceNext]_<<l, vars>>

RecOK(rec) ==
    IF rec.c.cfg.method = "jwt" THEN rec.obs.ok \in JWTAdmit(rec.c)
    ELSE HTTPObsOK(rec.c, rec.r, rec.obs.ok, rec.log)

Verdicts == l >= 1 => Monitor(RecOK(Trace[l]), [l |-> l])
\* the real code differs from layer 1 (not a verdict)
Drift    == l >= 1 => (Trace[l].obs.ok = Trace[l].l1ok \/ Emit("DRIFT", [l |-> l]))
Accepted == TLCGet("stats").diameter - 1 = Len(Trace)
=============================================================================
