--------------------------- MODULE TraceHlsSession ---------------------------
(* Trace validation for C43. One ndjson record per walk replayed on the REAL hls.Server
   (real stream.Stream behind it; the path manager's decisions come from the real auth.Manager):
     walk, trusted (hlsTrustedProxies holds the peer / is empty), cdnConf, events: << e >> with
       (ip is the client address of the statement: the forwarded address when the peer is the trusted
        proxy, the TCP peer otherwise; fwd / hdr describe a forged forwarding header and do not count)
       [op |-> "open",    path, cred, ip, bearer ("" or the Bearer form sent instead of credentials),
                          res ("ok" | "refused" | "notfound" | "other"), sid (0: no session secret came back)]
       [op |-> "req",     kind, path, sid, place, ip, auth, status, served]
       [op |-> "kick",    sid]   [op |-> "expire", sid]   [op |-> "kickcdn", path]
       [op |-> "noexpire", sid]  (the aged session was still there after two cleanup periods)
   sid numbers the sessions in the order the server created them (the harness keeps the secret
   strings); a req with sid 0 carries no secret, one with a sid beyond the sessions created so
   far a random secret.
   TLC folds the events into the set of sessions that exist (authorized? per C01's statement,
   not per the code) and evaluates ServedOK of HlsSession.tla on every request; separately it
   compares every answer with layer 1 (DRIFT, never a verdict).                           *)
EXTENDS HlsSession

Trace == ndJsonDeserialize("C43_trace.ndjson")

VARIABLE l
TraceInit == l = 0 /\ Init
TraceNext == l < Len(Trace) /\ l' = l + 1 /\ UNCHANGED vars
TraceSpec == TraceInit /\ [][TraceNext]_<<l, vars>>

St0 == [ss |-> <<>>, cdn |-> [p \in Paths |-> FALSE], bad |-> <<>>, drift |-> <<>>]

\* layer 1 on the folded state
ServedL1(st, cdnConf, e) ==
    IF e.path \notin Paths THEN FALSE
    ELSE IF cdnConf /\ e.auth = "cdn" THEN st.cdn[e.path]
    ELSE e.sid \in 1..Len(st.ss) /\ st.ss[e.sid].alive /\ st.ss[e.sid].path = e.path /\ st.ss[e.sid].ip = e.ip

Step(st, cdnConf, e, k) ==
    CASE e.op = "open" ->
           IF e.bearer = "cdn" /\ cdnConf
           THEN [st EXCEPT !.cdn = IF e.res = "ok" /\ e.path \in Paths THEN [st.cdn EXCEPT ![e.path] = TRUE] ELSE st.cdn,
                           !.drift = IF (e.res = "ok") = (e.path \in Paths) THEN st.drift ELSE Append(st.drift, k)]
           ELSE \* credentials, or a Bearer value that is not the configured CDN secret (an anonymous client)
                LET adm == Admit(e.path, IF e.bearer # "" THEN "none" ELSE e.cred, e.ip) IN
                [st EXCEPT !.ss = IF e.res = "ok" /\ e.sid > 0
                                  THEN Append(st.ss, [path |-> e.path, ip |-> e.ip, adm |-> adm, alive |-> TRUE])
                                  ELSE st.ss,
                           \* a playlist without a session secret: the code opened its CDN route (layer 1 follows it)
                           !.cdn = IF e.res = "ok" /\ e.sid = 0 /\ e.path \in Paths THEN [st.cdn EXCEPT ![e.path] = TRUE] ELSE st.cdn,
                           !.drift = IF (e.res = "ok" /\ e.sid > 0) = (adm /\ e.path \in Paths) /\ ~(e.res = "ok" /\ e.sid = 0)
                                     THEN st.drift ELSE Append(st.drift, k)]
      [] e.op \in {"kick", "expire"} ->
           [st EXCEPT !.ss = [st.ss EXCEPT ![e.sid].alive = FALSE]]
      [] e.op = "noexpire" -> [st EXCEPT !.drift = Append(st.drift, k)]   \* the idle session was not removed
      [] e.op = "kickcdn" -> [st EXCEPT !.cdn = [st.cdn EXCEPT ![e.path] = FALSE]]
      [] e.op = "req" ->
           [st EXCEPT !.bad = IF ServedOK(e.served, st.ss, cdnConf, e.path, e.sid, e.ip, e.auth) THEN st.bad
                              ELSE Append(st.bad, k),
                      !.drift = IF e.served = ServedL1(st, cdnConf, e) THEN st.drift ELSE Append(st.drift, k)]

RECURSIVE Fold(_, _, _, _)
Fold(st, cdnConf, es, k) == IF k > Len(es) THEN st ELSE Fold(Step(st, cdnConf, es[k], k), cdnConf, es, k + 1)

Verdicts == l >= 1 =>
    LET r == Trace[l]
        f == Fold(St0, r.cdnConf, r.events, 1)
    IN /\ Monitor(f.bad = <<>>, [l |-> l, walk |-> r.walk, events |-> f.bad])
       /\ (f.drift = <<>> \/ Emit("DRIFT", [l |-> l, walk |-> r.walk, events |-> f.drift]))
Accepted == TLCGet("stats").diameter - 1 = Len(Trace)
=============================================================================
