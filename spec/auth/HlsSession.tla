------------------------------ MODULE HlsSession ------------------------------
(* C43  HLS media is served only to authorized sessions
        (internal/servers/hls/http_server.go onRequest, muxer.go findSession / addSession /
         apiSessionsKick / session cleanup, session.go initialize)

   State: the sessions that were created (secret id -> path, client IP, created by an admitted
   client?, still existing?), the per-path CDN session, the configured CDN secret (on/off).
   Muxers of the paths cam1 and other always exist (hlsAlwaysRemux); the path ghost has none.

   Layer 1 (Open / OpenBearer / Kick / Expire / KickCDN / Req with ServedImpl) follows the code:
   the multivariant playlist creates a session iff the path manager admits the client (a CDN
   request creates the path's CDN session without authentication); media playlists, segments
   and parts are served to a CDN request iff the path's CDN session exists, otherwise iff
   findSession finds the secret (cookie first, else query) in the muxer of that path and the
   client IP equals the session's.

   Layer 2 (ServedOK) is the statement: served => the request carries the secret of a session
   (one that exists) created for that path by an authorized client from the same IP, or the
   configured CDN secret. "Authorized" is C01's statement formula over the configured users
   (AuthInternal.tla), never the code's answer.                                             *)
EXTENDS VerifCommon, SequencesExt

CONSTANTS MaxS,            \* sessions created per behaviour
          CDNConfigured,   \* hlsCDNSecret set?
          TrustedProxy,    \* TRUE: hlsTrustedProxies holds the peer all requests come through (the client IP is the
                           \* forwarded one); FALSE: the list is empty: the client IP is the TCP peer, whatever
                           \* X-Forwarded-For / X-Real-IP headers the request carries
          WideIPs,         \* FALSE: sessions are opened from 4 of the 6 addresses only (quick tier bound)
          ExpireAny        \* FALSE: only session 1 may expire (generation bound: expiry costs 10 s of wall time)

AI == INSTANCE AuthInternal WITH Profiles <- {}, Big <- FALSE,
                                 prof <- "", users <- <<>>, res <- <<>>, done <- FALSE

Paths  == {"cam1", "other"}          \* paths with a stream and a muxer
Ghost  == "ghost"                    \* a path without stream
\* client addresses (forwarded by the trusted proxy). "The same IP" is equality of addresses: the set
\* holds addresses whose text is a prefix of another's (10.0.0.1 / 10.0.0.12 / 10.0.0.123,
\* 2001:db8::1 / 2001:db8::12), inside and outside the network of the IP-restricted user
FwdIPs == {"10.0.0.1", "10.0.0.12", "10.0.0.123", "10.0.1.5", "2001:db8::1", "2001:db8::12"}
\* real TCP peers (distinct loopback addresses) used when no proxy is trusted
Peers  == {"127.0.0.1", "127.0.0.2", "::1"}
\* the client addresses requests are judged for: "the IP" of the statement is the peer's unless the peer
\* is a trusted proxy, in which case it is the forwarded address
AllIPs == IF TrustedProxy THEN FwdIPs ELSE Peers
\* the addresses sessions are opened from in the bounded model
IPs    == IF ~TrustedProxy THEN Peers
          ELSE IF WideIPs THEN FwdIPs ELSE {"10.0.0.1", "10.0.0.12", "10.0.1.5", "2001:db8::12"}
Creds  == {"alice", "carol", "dave", "erin", "bad", "none"}
Kinds  == {"playlist", "segment", "part"}
\* Authorization header of a request:
\*   none absent                      basic     Basic alice:pw (credentials, no session secret)
\*   cdn  Bearer <the CDN secret>     wrong     Bearer <another token>
\*   bare Bearer  (empty token)       barespace Bearer followed by a space
\*   lower bearer (empty token)       lowercdn  bearer <the CDN secret> (scheme in lower case)
\* ("the CDN secret" is a fixed text; whether the server is configured with it is CDNConfigured)
BearerToks == {"cdn", "wrong", "bare", "barespace", "lower", "lowercdn"}
Auths  == {"none", "basic"} \cup BearerToks
\* "carrying the configured CDN secret": a secret is configured and the request carries exactly it.
\* With no secret configured NO Bearer value carries it. The statement is silent about the case
\* of the scheme: a lower-case scheme with the right secret is left open (may be served).
CarriesCDNSecret(cdnConf, auth) == cdnConf /\ auth \in {"cdn", "lowercdn"}
BearerIPs == IF TrustedProxy THEN {"10.0.0.1", "10.0.1.5"} ELSE {"127.0.0.1", "127.0.0.2"}
Places == {"cookie", "query"}

\* configured users (action read unless stated)
PReadAll == AI!Perm("read", "empty", "")
Users == << AI!Entry(<<>>, <<PReadAll>>, AI!Cred("plain", "alice"), AI!Cred("plain", "pw")),
            AI!Entry(<<>>, <<AI!PReadRe>>, AI!Cred("plain", "carol"), AI!Cred("sha256", "pw")),
            AI!Entry(<<"10.0.0.0/24">>, <<PReadAll>>, AI!Cred("plain", "dave"), AI!Cred("plain", "pw")),
            AI!Entry(<<>>, <<AI!PPubAll, AI!PPlayAll, AI!PApi>>, AI!Cred("plain", "erin"), AI!Cred("plain", "pw")) >>
UserOf(c) == IF c \in {"none"} THEN "" ELSE IF c = "bad" THEN "alice" ELSE c
PassOf(c) == IF c = "none" THEN "" ELSE IF c = "bad" THEN "wrong" ELSE "pw"

\* ground truth of containment for the networks used here
NetHas(n) == CASE n = "10.0.0.0/24" -> {"10.0.0.1", "10.0.0.12", "10.0.0.123"}
IPok(u, ip) == \E i \in 1..Len(u.ips) : ip \in NetHas(u.ips[i])
\* "an authorized client": C01's statement (EntryF / GrantsLo / CredMatch) for action read on that path
AdmitF(p, c, ip) ==
    LET r == AI!Req("read", p, UserOf(c), PassOf(c), "", ip, TRUE, "none") IN
    \E i \in 1..Len(Users) :
        AI!EntryF(Users[i].ips = <<>>, IPok(Users[i], ip), AI!GrantsLo(Users[i], r),
                  AI!IsAny(Users[i].user), AI!CredMatch(Users[i], r))
\* (a constant table: TLC evaluates it once)
AdmitTab == [x \in (Paths \cup {Ghost}) \X Creds \X (FwdIPs \cup Peers) |-> AdmitF(x[1], x[2], x[3])]
Admit(p, c, ip) == AdmitTab[<<p, c, ip>>]

\* ------------------------------------------------------------------ layer 2: the statement
\* ss: sequence of sessions [path, ip, adm, alive]; sid: the secret the request carries
\* (0 none, > Len(ss) a secret of no session)
ValidSession(ss, p, sid, ip) ==
    sid \in 1..Len(ss) /\ ss[sid].alive /\ ss[sid].path = p /\ ss[sid].ip = ip /\ ss[sid].adm
ServedOK(served, ss, cdnConf, p, sid, ip, auth) ==
    served => (ValidSession(ss, p, sid, ip) \/ CarriesCDNSecret(cdnConf, auth))

\* ------------------------------------------------------------------ layer 1: the code
VARIABLES sess, cdn
vars == <<sess, cdn>>

ServedImpl(p, sid, ip, auth) ==
    IF p \notin Paths THEN FALSE                         \* no muxer
    ELSE IF CDNConfigured /\ auth = "cdn" THEN cdn[p]    \* isCDN: only the CDN session counts
    ELSE sid \in 1..Len(sess) /\ sess[sid].alive /\ sess[sid].path = p /\ sess[sid].ip = ip

Init == sess = <<>> /\ cdn = [p \in Paths |-> FALSE]

\* GET <p>/index.m3u8 with credentials c from ip (no CDN secret)
Open(p, c, ip) ==
    /\ p \in Paths \cup {Ghost} /\ c \in Creds /\ ip \in IPs
    /\ IF p \in Paths /\ Admit(p, c, ip)
       THEN Len(sess) < MaxS /\ sess' = Append(sess, [path |-> p, ip |-> ip, adm |-> TRUE, alive |-> TRUE])
       ELSE UNCHANGED sess
    /\ UNCHANGED cdn
\* GET <p>/index.m3u8 with a Bearer authorization b: the exact configured CDN secret creates the
\* path's CDN session; anything else is an anonymous client (a token is no credential of the
\* internal method), which no configured user admits: nothing changes
OpenBearer(p, b, ip) ==
    /\ p \in Paths /\ b \in BearerToks /\ ip \in BearerIPs
    /\ cdn' = IF CDNConfigured /\ b = "cdn" THEN [cdn EXCEPT ![p] = TRUE] ELSE cdn
    /\ UNCHANGED sess
Kick(i) ==
    /\ i \in 1..Len(sess) /\ sess[i].alive
    /\ sess' = [sess EXCEPT ![i].alive = FALSE] /\ UNCHANGED cdn
Expire(i) ==
    /\ i \in 1..Len(sess) /\ sess[i].alive /\ (ExpireAny \/ i = 1)
    /\ sess' = [sess EXCEPT ![i].alive = FALSE] /\ UNCHANGED cdn
KickCDN(p) ==
    /\ p \in Paths /\ cdn[p]
    /\ cdn' = [cdn EXCEPT ![p] = FALSE] /\ UNCHANGED sess
\* GET of a media playlist / segment / part; does not change the state
Req(kind, p, sid, place, ip, auth) ==
    /\ kind \in Kinds /\ p \in Paths \cup {Ghost} /\ sid \in 0..(MaxS + 1) /\ place \in Places
    /\ ip \in AllIPs /\ auth \in Auths
    /\ UNCHANGED vars

Ctl == \/ \E p \in Paths \cup {Ghost}, c \in Creds, ip \in IPs : Open(p, c, ip)
       \/ \E p \in Paths, b \in BearerToks, ip \in BearerIPs : OpenBearer(p, b, ip)
       \/ \E i \in 1..MaxS : Kick(i) \/ Expire(i)
       \/ \E p \in Paths : KickCDN(p)
Next == Ctl \/ \E kind \in Kinds, p \in Paths \cup {Ghost}, sid \in 0..(MaxS + 1), place \in Places,
                  ip \in AllIPs, auth \in Auths : Req(kind, p, sid, place, ip, auth)
Spec    == Init /\ [][Next]_vars
SpecCtl == Init /\ [][Ctl]_vars        \* the state-changing actions only (walk generation)

\* layer 1 |= layer 2 in every reachable state, for every request
ServedOnlyToSessions ==
    \A p \in Paths \cup {Ghost}, sid \in 0..(MaxS + 1), ip \in AllIPs, auth \in Auths :
        ServedOK(ServedImpl(p, sid, ip, auth), sess, CDNConfigured, p, sid, ip, auth)
\* every session was created by an admitted client
SessionsAdmitted == \A i \in 1..Len(sess) : sess[i].adm
TypeOK == Len(sess) <= MaxS /\ cdn \in [Paths -> BOOLEAN]

\* the configured users, for the harness
ASSUME Emit("USERS", [users |-> Users])
=============================================================================
