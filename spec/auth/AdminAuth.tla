------------------------------ MODULE AdminAuth ------------------------------
(* C04  Administrative HTTP endpoints enforce their permission
        (internal/api/api.go, internal/metrics/metrics.go, internal/pprof/pprof.go,
         internal/playback/server.go, internal/protocols/httpp/credentials.go)

   A case is one HTTP request sent to one of the four administrative listeners of a server
   instance: (instance = internal user list + trusted-proxy switch, route of the route table,
   target = how the route is addressed, credential placement, X-Forwarded-For header,
   playback path token). An observation is what came back: status, class of the body,
   whether a canary of the server's state occurs in the body (leak), whether the server's
   state changed because of this request (mut).

   Layer 2 (ReqOK) is the property statement. "Admitted" is NOT taken from the code under
   test: it is the statement formula of C01 (AuthInternal.tla: EntryF / GrantsLo / CredMatch)
   over the configured users, the action of the listener, the requested path (playback), the
   client IP and the credentials the client put on the wire.

   Layer 1 (Impl) follows the code: preflight middleware, then (api, metrics, pprof) the auth
   middleware in front of every route, the router's own redirect of non-canonical URLs in
   front of all middleware; playback authenticates inside the two handlers, after the path
   name was validated.

   Open points of the statement (never a verdict, see StatusOpen):
     * requests that address no endpoint of the listener's route table in canonical form
       (trailing-slash variants answered by the router with a redirect; on the playback
       listener also unknown URLs and wrong methods, where no "requested path" exists) and
       playback requests whose path parameter is not a path name at all: the statement's
       "the response is 401" is not demanded for them, but "no data, no state change" is;
     * credentials placed in the query string (not a placement the statement's endpoints
       define): admission is bracketed between "no credentials" and "these credentials".   *)
EXTENDS VerifCommon, SequencesExt

\* C01's module, used for its pure operators only (its bounded model is switched off)
AI == INSTANCE AuthInternal WITH Profiles <- {}, Big <- FALSE,
                                 prof <- "", users <- <<>>, res <- <<>>, done <- FALSE

\* ------------------------------------------------------------------ route table
\* kind: how the URL is completed: plain, name (gin wildcard *name), id (:id, a UUID),
\* query (parameters in the query string), unk (an URL that is no route: only for negative cases)
\* mut: a successful call changes the server's state
R(svc, m, pat, kind, mut) == [svc |-> svc, m |-> m, pat |-> pat, kind |-> kind, mut |-> mut]

ConnKinds == <<"rtspconns", "rtspsconns", "rtmpconns", "rtmpsconns", "srtconns">>
SessKinds == <<"hlssessions", "rtspsessions", "rtspssessions", "webrtcsessions", "moqsessions">>
Kickable  == <<"hlssessions", "rtspsessions", "rtspssessions", "rtmpconns", "rtmpsconns",
               "srtconns", "webrtcsessions", "moqsessions">>

ApiFixed == <<
    R("api", "GET",    "/v3/info",                       "plain", FALSE),
    R("api", "POST",   "/v3/auth/jwks/refresh",          "plain", TRUE),
    R("api", "GET",    "/v3/config/global/get",          "plain", FALSE),
    R("api", "PATCH",  "/v3/config/global/patch",        "plain", TRUE),
    R("api", "GET",    "/v3/config/pathdefaults/get",    "plain", FALSE),
    R("api", "PATCH",  "/v3/config/pathdefaults/patch",  "plain", TRUE),
    R("api", "GET",    "/v3/config/paths/list",          "plain", FALSE),
    R("api", "GET",    "/v3/config/paths/get/*name",     "name",  FALSE),
    R("api", "POST",   "/v3/config/paths/add/*name",     "name",  TRUE),
    R("api", "PATCH",  "/v3/config/paths/patch/*name",   "name",  TRUE),
    R("api", "POST",   "/v3/config/paths/replace/*name", "name",  TRUE),
    R("api", "DELETE", "/v3/config/paths/delete/*name",  "name",  TRUE),
    R("api", "GET",    "/v3/paths/list",                 "plain", FALSE),
    R("api", "GET",    "/v3/paths/get/*name",            "name",  FALSE),
    R("api", "GET",    "/v3/paths/forward/list",         "query", FALSE),
    R("api", "GET",    "/v3/paths/forward/get",          "query", FALSE),
    R("api", "GET",    "/v3/hlsmuxers/list",             "plain", FALSE),
    R("api", "GET",    "/v3/hlsmuxers/get/*name",        "name",  FALSE),
    R("api", "GET",    "/v3/recordings/list",            "plain", FALSE),
    R("api", "GET",    "/v3/recordings/get/*name",       "name",  FALSE),
    R("api", "DELETE", "/v3/recordings/deletesegment",   "query", TRUE) >>

ApiLists == [i \in 1..Len(ConnKinds \o SessKinds) |->
               R("api", "GET", "/v3/" \o (ConnKinds \o SessKinds)[i] \o "/list", "plain", FALSE)]
ApiGets  == [i \in 1..Len(ConnKinds \o SessKinds) |->
               R("api", "GET", "/v3/" \o (ConnKinds \o SessKinds)[i] \o "/get/:id", "id", FALSE)]
ApiKicks == [i \in 1..Len(Kickable) |->
               R("api", "POST", "/v3/" \o Kickable[i] \o "/kick/:id", "id", TRUE)]

PprofNames == <<"cmdline", "profile", "symbol", "trace", "allocs", "block", "goroutine", "heap",
                "mutex", "threadcreate">>
PprofRoutes == << R("pprof", "GET", "/debug/pprof/", "plain", FALSE),
                  R("pprof", "POST", "/debug/pprof/symbol", "plain", FALSE) >>
               \o [i \in 1..Len(PprofNames) |-> R("pprof", "GET", "/debug/pprof/" \o PprofNames[i], "plain", FALSE)]

MetricsRoutes  == << R("metrics", "GET", "/metrics", "plain", FALSE) >>
PlaybackRoutes == << R("playback", "GET", "/list", "query", FALSE),
                     R("playback", "GET", "/get",  "query", FALSE) >>

\* URLs that are no routes
Unknown == << R("api", "GET", "/v3/nonexistent", "unk", FALSE),   R("api", "GET", "/", "unk", FALSE),
              R("api", "POST", "/v3/config/paths/nonexistent/x", "unk", FALSE),
              R("metrics", "GET", "/metricsx", "unk", FALSE),     R("metrics", "GET", "/", "unk", FALSE),
              R("pprof", "GET", "/debug/pprofx", "unk", FALSE),   R("pprof", "GET", "/", "unk", FALSE),
              R("playback", "GET", "/listx", "unk", FALSE),       R("playback", "GET", "/", "unk", FALSE) >>

RouteSeq == ApiFixed \o ApiLists \o ApiGets \o ApiKicks \o MetricsRoutes \o PprofRoutes \o PlaybackRoutes \o Unknown
Registered == {i \in 1..Len(RouteSeq) : RouteSeq[i].kind # "unk"}

\* how a route is addressed
\*   reg     its method and URL
\*   wrongm  its URL with a method that is not registered for it
\*   pre     CORS preflight: OPTIONS with Access-Control-Request-Method
\*   opt     OPTIONS without that header (not a preflight)
\*   tsr     non-canonical URL: trailing slash added (plain, id) / wildcard segment left out (name)
TargetsOf(rt) ==
    IF rt.kind = "unk" THEN {"reg", "pre", "opt"}
    ELSE {"reg", "wrongm", "pre", "opt"} \cup (IF rt.kind \in {"plain", "name", "id"} THEN {"tsr"} ELSE {})

\* the path a playback request names: a path with recordings that some users may play, another
\* path with recordings, something that is no path name, no parameter at all, and
\* cam1bad: the path cam1 together with another parameter that is not acceptable (start / duration / format);
\* unconf: a valid path name that no path configuration matches
PPaths == {"cam1", "other", "cam1bad", "unconf", "inv", "none"}
PPathsOf(rt, tg) == IF rt.svc = "playback" /\ rt.kind # "unk" /\ tg = "reg" THEN PPaths
                    ELSE IF rt.svc = "playback" THEN {"cam1"} ELSE {""}
ValidPath(pp) == pp \in {"cam1", "other", "cam1bad", "unconf"}
PathOf(pp) == CASE pp = "cam1bad" -> "cam1" [] pp = "unconf" -> "nocam" [] OTHER -> pp

ActionOf(svc) == svc          \* "api", "metrics", "pprof", "playback": listener = action

\* ------------------------------------------------------------------ credentials on the wire
Placements == {"none", "basic_ok", "basic_badpass", "basic_baduser", "bearer_ok", "bearer_bad",
               "bearer_tok", "query"}
UP(u, p) == [user |-> u, pass |-> p]
\* what the client supplied, as the statement reads it (a set: more than one reading = open)
Readings(pl) ==
    CASE pl = "none"          -> {UP("", "")}
      [] pl = "basic_ok"      -> {UP("alice", "pw")}
      [] pl = "basic_badpass" -> {UP("alice", "bad")}
      [] pl = "basic_baduser" -> {UP("bob", "pw")}
      [] pl = "bearer_ok"     -> {UP("alice", "pw")}      \* "Bearer alice:pw"
      [] pl = "bearer_bad"    -> {UP("alice", "bad")}
      [] pl = "bearer_tok"    -> {UP("", "")}             \* a token is no credential of the internal method
      [] pl = "query"         -> {UP("", ""), UP("alice", "pw")}
\* what httpp.Credentials extracts
CodeReading(pl) == IF pl = "query" THEN UP("", "") ELSE CHOOSE x \in Readings(pl) : TRUE
\* a refused request that carried user or password is delayed by the server (scheduling hint only)
Supplied(pl) == CodeReading(pl) # UP("", "")

\* ------------------------------------------------------------------ client address
\* 10.0.0.50: an address whose text extends 10.0.0.5 (a single-host entry must not admit it)
XFFs == {"none", "10.0.0.5", "10.0.0.50", "10.0.1.5"}
Loopback == "127.0.0.1"
\* the client's IP: what a trusted proxy forwarded, else the peer address
EffIP(trusted, xff) == IF trusted /\ xff # "none" THEN xff ELSE Loopback
\* ground truth of containment for the networks used here
NetHas(n) == CASE n = "127.0.0.1"   -> {"127.0.0.1"}
               [] n = "10.0.0.0/24" -> {"10.0.0.5", "10.0.0.50"}
               [] n = "10.0.0.5"    -> {"10.0.0.5"}

\* ------------------------------------------------------------------ instances
Alice    == AI!Cred("plain", "alice")
Pw       == AI!Cred("plain", "pw")
AliceSha == AI!Cred("sha256", "alice")
PwSha    == AI!Cred("sha256", "pw")
Bob      == AI!Cred("plain", "bob")
PPlayCam1 == AI!Perm("playback", "lit", "cam1")
AdminAll == <<AI!PApi, AI!PMetrics, AI!PPprof, AI!PPlayAll>>

UserLists == <<
    <<>>,
    << AI!Entry(<<>>, <<AI!PApi>>, Alice, Pw) >>,
    << AI!Entry(<<>>, <<AI!PMetrics>>, Alice, Pw) >>,
    << AI!Entry(<<>>, <<AI!PPprof>>, Alice, Pw) >>,
    << AI!Entry(<<>>, <<AI!PPlayAll>>, Alice, Pw) >>,
    << AI!Entry(<<>>, <<PPlayCam1>>, Alice, Pw) >>,
    << AI!Entry(<<>>, <<AI!PPlayRe>>, Alice, Pw) >>,
    << AI!Entry(<<"10.0.0.0/24">>, AdminAll, Alice, Pw) >>,
    << AI!Entry(<<"127.0.0.1">>, AdminAll, AI!CAny, AI!NoPass) >>,
    << AI!Entry(<<>>, <<AI!PPubAll, AI!PReadAny>>, AI!CAny, AI!NoPass), AI!Entry(<<>>, AdminAll, AliceSha, PwSha) >>,
    << AI!Entry(<<>>, <<AI!PApi>>, Bob, Pw), AI!Entry(<<>>, <<AI!PMetrics, PPlayCam1>>, Alice, Pw) >>,
    << AI!Entry(<<"10.0.0.0/24">>, AdminAll, AI!CAny, AI!NoPass) >>,
    << AI!Entry(<<"10.0.0.5">>, AdminAll, Alice, Pw) >> >>

\* instance k: user list (k+1) \div 2, trusted proxies off (odd k) / on (even k)
NInst == 2 * Len(UserLists)
InstUsers(k)   == UserLists[(k + 1) \div 2]
InstTrusted(k) == k % 2 = 0

\* ------------------------------------------------------------------ layer 2: the statement
AReq(action, path, ip, up) ==
    [action |-> action, path |-> path, user |-> up.user, pass |-> up.pass, ip |-> ip, ver |-> "none"]
IPok(u, ip) == \E i \in 1..Len(u.ips) : ip \in NetHas(u.ips[i])
\* C01's statement: some entry has an empty IP list or one containing the client IP, grants the
\* action (for playback: on that path) and is 'any' or matches the supplied user and password
Admit1(us, r) == \E i \in 1..Len(us) :
    AI!EntryF(us[i].ips = <<>>, IPok(us[i], r.ip), AI!GrantsLo(us[i], r), AI!IsAny(us[i].user), AI!CredMatch(us[i], r))
\* the request path of a playback request; other actions have none
APath(c) == IF c.svc = "playback" /\ ValidPath(c.pp) THEN PathOf(c.pp) ELSE ""
AdmitHi(c) == \E up \in Readings(c.cred) :
    Admit1(InstUsers(c.inst), AReq(ActionOf(c.svc), APath(c), EffIP(InstTrusted(c.inst), c.xff), up))
AdmitLo(c) == \A up \in Readings(c.cred) :
    Admit1(InstUsers(c.inst), AReq(ActionOf(c.svc), APath(c), EffIP(InstTrusted(c.inst), c.xff), up))

\* body classes: empty, autherr (the fixed error object), errobj (another error object),
\* stock (a fixed text of the HTTP framework: not found, redirect notice), other
Data(o)   == o.leak \/ o.body = "other"
NoData(o) == ~o.leak /\ o.body \in {"empty", "autherr"}

\* the status clause is left open for requests that address no endpoint in canonical form
StatusOpen(c) ==
    \/ c.tg = "tsr"
    \/ c.svc = "playback" /\ (c.tg \in {"wrongm", "opt"} \/ c.kind = "unk" \/ ~ValidPath(c.pp))

\* the statement on one observation; adm = "the client is admitted" (AdmitHi below)
ReqOKF(c, o, adm) ==
    IF c.tg = "pre"
    THEN \* "CORS preflight requests are answered without data" (and need no credentials)
         o.status # 401 /\ o.body = "empty" /\ ~o.leak /\ ~o.mut
    ELSE \* "returns data or changes state only if the client is admitted ..."
         /\ (Data(o) \/ o.mut) => adm
         \* "... otherwise the response is 401 and carries no data"
         /\ ~adm => (StatusOpen(c) \/ (o.status = 401 /\ NoData(o)))
ReqOK(c, o) == ReqOKF(c, o, AdmitHi(c))

\* ------------------------------------------------------------------ layer 1: the code
ContainsImpl(nets, ip) == \E i \in 1..Len(nets) : ip \in NetHas(nets[i])
WithUserImpl(u, r) ==
    IF Len(u.ips) # 0 /\ ~ContainsImpl(u.ips, r.ip) THEN FALSE
    ELSE IF ~AI!MatchesPermImpl(u.perms, r) THEN FALSE
    ELSE IF ~AI!IsAny(u.user) THEN AI!CheckImpl(u.user, r.user) /\ AI!CheckImpl(u.pass, r.pass)
    ELSE TRUE
AuthImpl(c) ==
    LET r == AReq(ActionOf(c.svc), APath(c), EffIP(InstTrusted(c.inst), c.xff), CodeReading(c.cred))
        us == InstUsers(c.inst)
    IN \E i \in 1..Len(us) : WithUserImpl(us[i], r)

\* predicted outcome: st in {"204", "401", "redirect", "400", "404", "handler"}; for "handler" the
\* route's handler ran (status, body as the handler decides; state changes iff the route mutates)
Out(st, body, mut) == [st |-> st, body |-> body, mut |-> mut]
ImplF(c, auth) ==
    IF c.tg = "pre" THEN Out("204", "empty", FALSE)
    ELSE IF c.tg = "tsr" THEN Out("redirect", "stock", FALSE)      \* router, in front of all middleware
    ELSE IF c.svc # "playback" THEN
        IF ~auth THEN Out("401", "autherr", FALSE)
        ELSE IF c.tg = "reg" /\ c.kind # "unk" THEN Out("handler", "any", c.mut)
        ELSE Out("404", "stock", FALSE)
    ELSE \* playback: no auth middleware; handlers validate the name, then authenticate
        IF c.tg # "reg" \/ c.kind = "unk" THEN Out("404", "stock", FALSE)
        ELSE IF ~ValidPath(c.pp) THEN Out("400", "errobj", FALSE)
        ELSE IF ~auth THEN Out("401", "autherr", FALSE)
        ELSE Out("handler", "any", FALSE)
Impl(c) == ImplF(c, AuthImpl(c))

\* an observation that layer 1 predicts (used for layer 1 |= layer 2 and for DRIFT)
ObsOfImpl(x) ==
    [status |-> CASE x.st = "204" -> 204 [] x.st = "401" -> 401 [] x.st = "redirect" -> 301
                  [] x.st = "400" -> 400 [] x.st = "404" -> 404 [] x.st = "handler" -> 200,
     body   |-> IF x.body = "any" THEN "other" ELSE x.body,
     leak   |-> x.body = "any",
     mut    |-> x.mut]
Conforms(c, o) ==
    LET x == Impl(c) IN
    CASE x.st = "handler"  -> o.status # 401 /\ o.mut = x.mut
      [] x.st = "redirect" -> o.status \in {301, 307, 308} /\ ~o.mut /\ ~Data(o)
      [] OTHER             -> o.status = ObsOfImpl(x).status /\ o.body = x.body /\ ~o.mut /\ ~o.leak

\* ------------------------------------------------------------------ bounded model
Case(in, svc, kind, mut, tg, cr, xf, pp) ==
    [inst |-> in, svc |-> svc, kind |-> kind, mut |-> mut, tg |-> tg, cred |-> cr, xff |-> xf, pp |-> pp]
CaseOfRoute(in, rt, tg, cr, xf, pp) == Case(in, rt.svc, rt.kind, rt.mut, tg, cr, xf, pp)

\* The formulas see a route only through (listener, kind, mutating?): the model ranges over every
\* such shape (a superset of the shapes in the route table; TLC does not cache constant
\* definitions, so the table itself is kept out of the per-state work).
Shapes == {x \in {"api", "metrics", "pprof", "playback"} \X {"plain", "name", "id", "query", "unk"} \X BOOLEAN
                 \X {"reg", "wrongm", "pre", "opt", "tsr"} \X (PPaths \cup {""}) :
             LET rt == [svc |-> x[1], kind |-> x[2], mut |-> x[3]] IN
             x[4] \in TargetsOf(rt) /\ x[5] \in PPathsOf(rt, x[4])}
ASSUME \A i \in 1..Len(RouteSeq) : \A tg \in TargetsOf(RouteSeq[i]) : \A pp \in PPathsOf(RouteSeq[i], tg) :
          <<RouteSeq[i].svc, RouteSeq[i].kind, RouteSeq[i].mut, tg, pp>> \in Shapes

\* one initial state per (instance, placement, forwarded address); one step decides every
\* request shape in that setting
VARIABLES inst, cred, xff, tab, done
vars == <<inst, cred, xff, tab, done>>

SvcPP == {<<"api", "">>, <<"metrics", "">>, <<"pprof", "">>} \cup {<<"playback", pp>> : pp \in PPaths}
Probe(svc, pp) == [inst |-> inst, svc |-> svc, cred |-> cred, xff |-> xff, pp |-> pp]

Init == inst \in 1..NInst /\ cred \in Placements /\ xff \in XFFs /\ tab = <<>> /\ done = FALSE
\* admission per (listener, playback path) in this setting: statement (lo, hi) and code (impl)
Eval == /\ ~done /\ done' = TRUE /\ UNCHANGED <<inst, cred, xff>>
        /\ tab' = [k \in SvcPP |-> [lo |-> AdmitLo(Probe(k[1], k[2])), hi |-> AdmitHi(Probe(k[1], k[2])),
                                    impl |-> AuthImpl(Probe(k[1], k[2]))]]
Next == Eval
Spec == Init /\ [][Next]_vars

\* layer 1 |= layer 2 on the whole bounded domain; layer 1's admission lies between the readings
ImplSatisfiesProp ==
    done => /\ \A k \in SvcPP : (tab[k].lo => tab[k].impl) /\ (tab[k].impl => tab[k].hi)
            /\ \A x \in Shapes :
                 LET c == Case(inst, x[1], x[2], x[3], x[4], cred, xff, x[5])
                     t == tab[<<c.svc, c.pp>>]
                 IN ReqOKF(c, ObsOfImpl(ImplF(c, t.impl)), t.hi)

\* generator: one row per setting with the statement's admission per action / playback path
\* (0 refused, 1 admitted, 2 open), and whether a refusal will be delayed
Code(c) == IF AdmitLo(c) THEN 1 ELSE IF AdmitHi(c) THEN 2 ELSE 0
TCode(t) == IF t.lo THEN 1 ELSE IF t.hi THEN 2 ELSE 0
EmitSettings ==
    done => Emit("SETTING", [inst |-> inst, cred |-> cred, xff |-> xff, supplied |-> Supplied(cred),
                             adm |-> [api |-> TCode(tab[<<"api", "">>]), metrics |-> TCode(tab[<<"metrics", "">>]),
                                      pprof |-> TCode(tab[<<"pprof", "">>]),
                                      cam1 |-> TCode(tab[<<"playback", "cam1">>]),
                                      other |-> TCode(tab[<<"playback", "other">>]),
                                      unconf |-> TCode(tab[<<"playback", "unconf">>]),
                                      nopath |-> TCode(tab[<<"playback", "inv">>])]])

ASSUME Emit("ROUTES", [routes |-> RouteSeq,
                       targets |-> [i \in 1..Len(RouteSeq) |-> SetToSeq(TargetsOf(RouteSeq[i]))],
                       instances |-> [k \in 1..NInst |-> [users |-> InstUsers(k), trusted |-> InstTrusted(k)]]])
=============================================================================
