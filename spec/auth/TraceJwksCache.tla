--------------------------- MODULE TraceJwksCache ---------------------------
(* Trace validation for the JWKS cache part of C02: every record is one walk of JwksCache.tla's
   state graph executed on ONE real auth.Manager (jwt method) against the JWKS endpoint of the
   harness: the environment actions (rotate, break, recover, time passes, RefreshJWTJWKS) and, for
   every decision, the answer of the manager plus what the endpoint saw during the call (fetch,
   served). TLC folds the layer-2 ghost (last successful download, time since) and the
   environment over the walk and evaluates DecisionOK on every decision.                      *)
EXTENDS JwksCache

Trace == ndJsonDeserialize("C02_jwks_trace.ndjson")

VARIABLE l
TraceInit == l = 0 /\ stage = 1 /\ health = "ok" /\ m = Ghost0 /\ g = Ghost0 /\ via = "init" /\ ff = FALSE
             /\ ev = NoEv
TraceNext == l < Len(Trace) /\ l' = l + 1 /\ UNCHANGED vars
TraceSpec == TraceInit /\ [][TraceNext]_<<l, vars>>

St0 == [stage |-> 1, health |-> "ok", g |-> Ghost0, m |-> Ghost0]
Apply(st, e) ==
    CASE e.a = "auth"    -> [st EXCEPT !.g = GhostAuth(st.g, e.fetch, Range(e.served)),
                                       !.m = ImplAuth(st.m, PubOf(st.stage), st.health, e.k).s]
      [] e.a = "rotate"  -> [st EXCEPT !.stage = (st.stage % 3) + 1]
      [] e.a = "break"   -> [st EXCEPT !.health = e.h]
      [] e.a = "recover" -> [st EXCEPT !.health = "ok"]
      [] e.a = "half"    -> [st EXCEPT !.g = GhostHalf(st.g), !.m = ImplHalf(st.m)]
      [] e.a = "refresh" -> [st EXCEPT !.g = GhostRefresh(st.g), !.m = ImplRefresh(st.m)]

\* Before[i] = environment, ghost and layer-1 state before step i+1
Before(steps) == LET F[i \in 0..Len(steps)] == IF i = 0 THEN St0 ELSE Apply(F[i - 1], steps[i]) IN F

StepOK(st, e) ==
    e.a = "auth" => DecisionOK(st.g, PubOf(st.stage), st.health, e.k, e.ok, e.fetch, Range(e.served))
\* the endpoint of the harness serves the authority's current set, and only when healthy
StepSane(st, e) ==
    e.a = "auth" => /\ e.fetch = "ok" => (st.health = "ok" /\ Range(e.served) = PubOf(st.stage))
                    /\ (e.fetch = "fail" => st.health # "ok")
StepAsLayer1(st, e) ==
    e.a = "auth" => LET r == ImplAuth(st.m, PubOf(st.stage), st.health, e.k) IN r.ok = e.ok /\ r.fetch = e.fetch

Verdicts == l >= 1 => LET w == Trace[l] B == Before(w.steps) IN
            \A i \in 1..Len(w.steps) : Monitor(StepOK(B[i - 1], w.steps[i]), [l |-> l, step |-> i])
Harness  == l >= 1 => LET w == Trace[l] B == Before(w.steps) IN
            \A i \in 1..Len(w.steps) : (StepSane(B[i - 1], w.steps[i]) \/ Emit("HARNESS", [l |-> l, step |-> i]))
Drift    == l >= 1 => LET w == Trace[l] B == Before(w.steps) IN
            \A i \in 1..Len(w.steps) : (StepAsLayer1(B[i - 1], w.steps[i]) \/ Emit("DRIFT", [l |-> l, step |-> i]))
Accepted == TLCGet("stats").diameter - 1 = Len(Trace)
=============================================================================
