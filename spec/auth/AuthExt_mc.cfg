SPECIFICATION Spec
CONSTANTS
  Profiles = {"hstatus", "htoken", "jclass", "jsig", "jplace", "jexcl", "jseq", "hseq"}
  Big = FALSE
INVARIANT ImplSatisfiesProp
INVARIANT RedirectDiverges
CHECK_DEADLOCK FALSE
