SPECIFICATION Spec
CONSTANTS
  Profiles = {"ip", "perm", "cred", "pair"}
  Big = FALSE
INVARIANT ImplSatisfiesProp
CHECK_DEADLOCK FALSE
