----------------------------- MODULE AuthReload -----------------------------
(* C01  A decision of the internal method is taken against ONE user list
        (internal/auth/manager.go: authenticateInternal scans m.InternalUsers under the read
         lock; ReloadInternalUsers replaces the list under the write lock)

   Authenticate is a scan over the user entries; the configured list can be replaced
   (ReloadInternalUsers, hot reload of the configuration) while a request is being decided -
   the evaluation of an entry may take long (argon2) or call out (CustomVerifyFunc of the
   request, the RTSP digest verifier), and the reload can be requested right then.

   Layer 2, from the statement ("admitted iff SOME CONFIGURED user entry ..."): the decision of a
   call equals the statement's decision function applied to one of the lists that were
   configured at some instant between the call and its return - the old list or the new one,
   never a mixture of entries of both                                            (HistoryOK).
   The decision function itself is C01's (AuthInternal.tla); here an entry is a token that
   either admits the request or not (Admits).

   Layer 1 follows the code: the scan holds the read lock until it returns, so a reload that is
   requested during the scan is applied after the return (the scan is atomic).
   ScanUnlocked = TRUE is the named deviation "the scan copies the slice header, releases the
   lock and iterates while reloads overwrite the backing array in place": entries not yet
   visited are then read from the NEW list and HistoryOK is violated (sanity run of the check). *)
EXTENDS VerifCommon, SequencesExt

CONSTANTS ScanUnlocked

\* entries as seen by one fixed request (user "bob" with a digest verifier that accepts bob's
\* configured credentials): Admits = the entry admits it; Hook = the verifier is called while the
\* entry is evaluated (the entry grants the action and is not 'any'), so a reload can be requested there
Ents == {"bob", "alice", "carol", "np"}     \* np: bob's credentials but no permission for the action
Admits(e) == e = "bob"
Hook(e)   == e \in {"bob", "alice", "carol"}
D(L) == \E i \in 1..Len(L) : Admits(L[i])

Cap == 3
NoRep(L) == \A i, j \in 1..Len(L) : i # j => L[i] # L[j]
Lists == {L \in UNION {[1..n -> Ents] : n \in 1..Cap} : NoRep(L)}

VARIABLES arr, n,        \* backing array and length of the configured list
          pc, i, sn, cur, res,   \* the scan: program counter, index, length seen at the call, entry copy, result
          pend,          \* a requested reload that is not applied yet (<<>>: none)
          seen,          \* lists configured at some instant between the call and the return
          a0, b0, at     \* schedule: initial list, reloaded list, entry index where the reload was requested
vars == <<arr, n, pc, i, sn, cur, res, pend, seen, a0, b0, at>>

ArrOf(L) == [k \in 1..Cap |-> IF k <= Len(L) THEN L[k] ELSE "-"]
Cur == [k \in 1..n |-> arr[k]]

Init == /\ a0 \in Lists /\ arr = ArrOf(a0) /\ n = Len(a0)
        /\ pc = "call" /\ i = 0 /\ sn = 0 /\ cur = "-" /\ res = FALSE
        /\ pend = <<>> /\ seen = {} /\ b0 = <<>> /\ at = 0

Call == /\ pc = "call" /\ pc' = "fetch" /\ i' = 1 /\ sn' = n /\ seen' = {Cur}
        /\ UNCHANGED <<arr, n, cur, res, pend, a0, b0, at>>
\* the loop copies entry i, then evaluates the copy
Fetch == /\ pc = "fetch"
         /\ IF i > sn THEN pc' = "ret" /\ res' = FALSE /\ cur' = cur
            ELSE pc' = "eval" /\ cur' = arr[i] /\ res' = res
         /\ UNCHANGED <<arr, n, i, sn, pend, seen, a0, b0, at>>
\* a reload is requested from inside the evaluation of an entry (once per call)
ReloadCall(L) == /\ pc = "eval" /\ Hook(cur) /\ at = 0 /\ L # a0
                 /\ pend' = L /\ b0' = L /\ at' = i
                 /\ UNCHANGED <<arr, n, pc, i, sn, cur, res, seen, a0>>
\* the reload takes the write lock: layer 1 has to wait for the scan's read lock
ReloadApply == /\ pend # <<>>
               /\ ScanUnlocked \/ pc \in {"call", "done"}
               /\ arr' = [k \in 1..Cap |-> IF k <= Len(pend) THEN pend[k] ELSE arr[k]]   \* overwritten in place
               /\ n' = Len(pend) /\ pend' = <<>>
               /\ seen' = IF pc \in {"fetch", "eval", "ret"} THEN seen \cup {pend} ELSE seen
               /\ UNCHANGED <<pc, i, sn, cur, res, a0, b0, at>>
Eval == /\ pc = "eval"
        /\ IF Admits(cur) THEN pc' = "ret" /\ res' = TRUE /\ i' = i
           ELSE pc' = "fetch" /\ i' = i + 1 /\ res' = res
        /\ UNCHANGED <<arr, n, sn, cur, pend, seen, a0, b0, at>>
Return == /\ pc = "ret" /\ pc' = "done"
          /\ UNCHANGED <<arr, n, i, sn, cur, res, pend, seen, a0, b0, at>>

Next == Call \/ Fetch \/ Eval \/ Return \/ ReloadApply \/ \E L \in Lists : ReloadCall(L)
Spec == Init /\ [][Next]_vars

\* the decision is the decision for one of the lists configured between call and return
HistoryOK == pc = "done" => \E L \in seen : res = D(L)
\* schedules for the real manager: reload to b requested while entry `at` of a is evaluated
EmitSchedules == (pc = "done" /\ at # 0 /\ pend = <<>>) => Emit("SCHED", [a |-> a0, b |-> b0, at |-> at])
=============================================================================
