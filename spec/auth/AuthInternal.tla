---------------------------- MODULE AuthInternal ----------------------------
(* C01  Internal authentication decides exactly per configured users
        (internal/auth/manager.go: Authenticate, authenticateInternal, authenticateWithUser,
         matchesPermission; internal/conf: Credential.Check, IPNetworks.Contains)

   Layer 1 (AuthImpl) follows the code: loop over the users in order; per user the IP guard
   `len(IPs) != 0 && !Contains`, the permission scan of matchesPermission (first permission
   with the action decides for path-less actions; for publish/read/playback empty path, '~'
   regexp, literal path, in this order), the 'any' shortcut, custom verifier or Check/Check.

   Layer 2 (AdmitLo/AdmitHi, AskAllowed) is the property statement:
     admitted  <=>  \E u \in users : IPok(u) /\ Grants(u) /\ CredOK(u)
     admitted   =>  reported user = supplied user
     ask        =>  rejected /\ asking allowed /\ no user and no password supplied
   over ground-truth tables (NetHas: CIDR containment, ReFound: regular expression found in
   path, hash match = equality of the clear text) that are written by hand, not taken from
   the code.

   Open point of the statement (left open, never a verdict): a permission path "~X" whose
   text is *equal* to the request path while X is not found in it ("equal path" vs "a '~'
   regular expression"). AdmitLo reads '~' paths as regular expressions only, AdmitHi also
   accepts the literal equality; the real answer must lie between the two.              *)
EXTENDS VerifCommon, SequencesExt

CONSTANTS Profiles,    \* subset of {"ip", "perm", "cred", "pair"}: which aspect is explored in full
          Big          \* FALSE: quick domains, TRUE: thorough domains

\* ------------------------------------------------------------------ tokens
\* Request IPs. A token without ':' is handed to the code in 4-byte form, the others in
\* 16-byte form ("::ffff:10.0.0.5" is the same IPv4 address in 16-byte form).
AllIPs == {"10.0.0.5", "::ffff:10.0.0.5", "10.0.1.5", "::1", "2001:db8::5", "2001:db8:0:1::5"}

\* Configured networks (text of the configuration) and the ground truth of containment.
AllNets == {"10.0.0.0/24", "10.0.0.5", "2001:db8::/64", "::1", "0.0.0.0/0",
            "::ffff:10.0.0.0/120", "10.0.0.77/24", "10.0.1.4/31"}
NetHas(n) ==
    CASE n = "10.0.0.0/24"         -> {"10.0.0.5", "::ffff:10.0.0.5"}
      [] n = "10.0.0.5"            -> {"10.0.0.5", "::ffff:10.0.0.5"}
      [] n = "2001:db8::/64"       -> {"2001:db8::5"}
      [] n = "::1"                 -> {"::1"}
      [] n = "0.0.0.0/0"           -> {"10.0.0.5", "::ffff:10.0.0.5", "10.0.1.5"}
      [] n = "::ffff:10.0.0.0/120" -> {"10.0.0.5", "::ffff:10.0.0.5"}
      [] n = "10.0.0.77/24"        -> {"10.0.0.5", "::ffff:10.0.0.5"}
      [] n = "10.0.1.4/31"         -> {"10.0.1.5"}

Actions == {"publish", "read", "playback", "api", "metrics", "pprof"}
PathAction(a) == a \in {"publish", "read", "playback"}

\* Request paths; regular expressions (text after '~') and where they are found.
AllPaths == {"cam", "cam1", "xcam1y", "other", "~cam", "~^cam[0-9]$"}
ReFoundIn(re) ==
    CASE re = "^cam[0-9]$" -> {"cam1"}
      [] re = "cam"        -> {"cam", "cam1", "xcam1y", "~cam", "~^cam[0-9]$"}
      [] re = ""           -> AllPaths \cup {"", "zzz"}   \* the empty expression is found everywhere
      [] re = "("          -> {}                \* not a regular expression
      [] re = "^other"     -> {"other"}

\* A permission: action + path of kind empty / literal / regular expression ('~' \o s).
Perm(a, k, s) == [action |-> a, kind |-> k, s |-> s, path |-> IF k = "re" THEN "~" \o s ELSE s]
PPubAll   == Perm("publish", "empty", "")
PReadCam  == Perm("read", "lit", "cam")
PReadRe   == Perm("read", "re", "^cam[0-9]$")
PReadSub  == Perm("read", "re", "cam")
PPlayAll  == Perm("playback", "empty", "")
PApi      == Perm("api", "empty", "")
PMetrics  == Perm("metrics", "empty", "")
PPprof    == Perm("pprof", "empty", "")
PPlayRe   == Perm("playback", "re", "^cam[0-9]$")
PApiPath  == Perm("api", "lit", "zzz")          \* path of a path-less action is irrelevant
PReadBad  == Perm("read", "re", "(")
PPubCam1  == Perm("publish", "lit", "cam1")
PReadAny  == Perm("read", "re", "")
PReadUp   == Perm("read", "lit", "CAM")
PReadOth  == Perm("read", "re", "^other")

\* Credentials of a user entry: encoding + clear text. The user 'any' is plain "any".
Cred(e, v) == [enc |-> e, v |-> v]
IsAny(c) == c.enc = "plain" /\ c.v = "any"
CAny == Cred("plain", "any")
NoPass == Cred("plain", "")

\* Custom verifiers of a request (digest authentication): the verifier is handed the configured
\* user and password texts and decides the match. "acc" accepts exactly ("alice","pw") in plain text.
Verifiers == {"none", "acc", "rej", "all"}
VerifierSays(v, cu, cp) ==
    CASE v = "acc" -> cu = Cred("plain", "alice") /\ cp = Cred("plain", "pw")
      [] v = "rej" -> FALSE
      [] v = "all" -> TRUE

Entry(ips, perms, cu, cp) == [ips |-> ips, perms |-> perms, user |-> cu, pass |-> cp]
Req(a, p, u, pw, tok, ip, ask, ver) ==
    [action |-> a, path |-> p, user |-> u, pass |-> pw, token |-> tok, ip |-> ip, ask |-> ask, ver |-> ver]

\* ------------------------------------------------------------------ layer 2: the statement
\* The boolean structure of the statement over atoms; used here with the ground-truth tables and
\* by TraceAuthInternal.tla with atoms the harness computed independently for random inputs.
\*   "grants that action (for publish/read/playback: empty path, equal path, or a '~' regular
\*    expression found in the path)"
GrantF(actEq, pathAct, kind, eq, found) ==
    actEq /\ (pathAct => \/ kind = "empty"
                         \/ kind = "lit" /\ eq
                         \/ kind = "re" /\ found)
\*   ... with "equal path" read literally for '~' paths as well (the open point)
GrantOpenF(actEq, pathAct, kind, eq, found) ==
    GrantF(actEq, pathAct, kind, eq, found) \/ (actEq /\ eq)
\*   "has an empty IP list or one containing the client IP, grants that action, and either is
\*    'any' or matches the supplied username and password"
EntryF(ipEmpty, ipIn, grants, any, match) == (ipEmpty \/ ipIn) /\ grants /\ (any \/ match)
\*   "admitted iff some entry ...; admitted requests report the supplied username; rejected ones
\*    ask for credentials only when none were supplied and asking is allowed"
\*   lo/hi: the statement's answer with the open points resolved against / in favour of admission
VerdictF(lo, hi, askAllowed, suppliedUser, o) ==
    /\ lo => o.ok
    /\ o.ok => hi
    /\ o.ok => o.user = suppliedUser
    /\ o.ask => ~o.ok /\ askAllowed

IPok(u, r) == \E i \in 1..Len(u.ips) : r.ip \in NetHas(u.ips[i])

PermGrantsLo(p, r) == GrantF(p.action = r.action, PathAction(r.action), p.kind, p.path = r.path,
                             p.kind = "re" /\ r.path \in ReFoundIn(p.s))
PermGrantsHi(p, r) == GrantOpenF(p.action = r.action, PathAction(r.action), p.kind, p.path = r.path,
                                 p.kind = "re" /\ r.path \in ReFoundIn(p.s))
GrantsLo(u, r) == \E i \in 1..Len(u.perms) : PermGrantsLo(u.perms[i], r)
GrantsHi(u, r) == \E i \in 1..Len(u.perms) : PermGrantsHi(u.perms[i], r)

\* plain, sha256 or argon2: the supplied text is the configured clear text;
\* an empty configured password accepts any password
Matches(c, guess) == (c.enc = "plain" /\ c.v = "") \/ c.v = guess
\* with a custom (digest) verifier the verifier decides the match
CredMatch(u, r) ==
    IF r.ver # "none" THEN VerifierSays(r.ver, u.user, u.pass)
    ELSE Matches(u.user, r.user) /\ Matches(u.pass, r.pass)

AdmitLo(users, r) == \E i \in 1..Len(users) :
    EntryF(users[i].ips = <<>>, IPok(users[i], r), GrantsLo(users[i], r), IsAny(users[i].user), CredMatch(users[i], r))
AdmitHi(users, r) == \E i \in 1..Len(users) :
    EntryF(users[i].ips = <<>>, IPok(users[i], r), GrantsHi(users[i], r), IsAny(users[i].user), CredMatch(users[i], r))
\* "none were supplied and asking is allowed"
\* (a supplied token is not a credential of the internal method: left open)
AskAllowed(r) == r.ask /\ r.user = "" /\ r.pass = ""

\* the statement on one observation [ok, user, ask]
ObsOK(users, r, o) == VerdictF(AdmitLo(users, r), AdmitHi(users, r), AskAllowed(r), r.user, o)

\* ------------------------------------------------------------------ layer 1: the code
RECURSIVE ContainsImpl(_, _)
ContainsImpl(nets, ip) ==
    IF nets = <<>> THEN FALSE
    ELSE IF ip \in NetHas(Head(nets)) THEN TRUE ELSE ContainsImpl(Tail(nets), ip)

RECURSIVE MatchesPermImpl(_, _)
MatchesPermImpl(perms, r) ==
    IF perms = <<>> THEN FALSE
    ELSE LET p == Head(perms) IN
      IF p.action = r.action THEN
        IF PathAction(p.action) THEN
          IF p.kind = "empty" THEN TRUE
          ELSE IF p.kind = "re" THEN
                 (IF r.path \in ReFoundIn(p.s) THEN TRUE ELSE MatchesPermImpl(Tail(perms), r))
          ELSE IF p.path = r.path THEN TRUE
          ELSE MatchesPermImpl(Tail(perms), r)
        ELSE TRUE
      ELSE MatchesPermImpl(Tail(perms), r)

CheckImpl(c, guess) ==
    IF c.enc \in {"sha256", "argon2"} THEN c.v = guess
    ELSE IF c.v # "" THEN c.v = guess
    ELSE TRUE

WithUserImpl(u, r) ==
    IF Len(u.ips) # 0 /\ ~ContainsImpl(u.ips, r.ip) THEN FALSE
    ELSE IF ~MatchesPermImpl(u.perms, r) THEN FALSE
    ELSE IF ~IsAny(u.user) THEN
           IF r.ver # "none" THEN VerifierSays(r.ver, u.user, u.pass)
           ELSE CheckImpl(u.user, r.user) /\ CheckImpl(u.pass, r.pass)
    ELSE TRUE

RECURSIVE LoopImpl(_, _)
LoopImpl(users, r) ==
    IF users = <<>> THEN FALSE
    ELSE IF WithUserImpl(Head(users), r) THEN TRUE ELSE LoopImpl(Tail(users), r)

AuthImpl(users, r) ==
    LET ok == LoopImpl(users, r) IN
    [ok |-> ok, user |-> IF ok THEN r.user ELSE "",
     ask |-> ~ok /\ r.ask /\ r.user = "" /\ r.pass = ""]

\* ------------------------------------------------------------------ bounded domains
IPListsAll ==
    {<<>>} \cup {<<n>> : n \in AllNets}
    \cup {<<"10.0.0.5", "2001:db8::/64">>, <<"2001:db8::/64", "10.0.0.0/24">>, <<"::1", "10.0.1.4/31">>}
IPListsLight == {<<>>, <<"10.0.0.0/24">>}

PermSetsAll ==
    {<<>>} \cup {<<p>> : p \in {PPubAll, PReadCam, PReadRe, PReadSub, PPlayAll, PApi, PMetrics, PPprof,
                                 PPlayRe, PApiPath, PReadBad, PPubCam1, PReadAny, PReadUp, PReadOth}}
    \cup {<<PReadRe, PReadCam>>, <<PReadBad, PReadSub>>, <<PReadUp, PReadOth>>, <<PPubCam1, PPubAll>>,
          <<PApi, PReadCam>>, <<PPubAll, PReadSub, PPlayRe>>, <<PReadCam, PPprof, PMetrics>>,
          <<PPubCam1, PReadRe>>}
PermSetsLight == {<<PReadCam>>, <<PPubAll, PReadSub>>}

UserCreds == {CAny, Cred("plain", "alice"), Cred("sha256", "alice"), Cred("argon2", "alice")}
             \cup (IF Big THEN {Cred("sha256", "any"), Cred("plain", "bob")} ELSE {})
PassCreds == {NoPass, Cred("plain", "pw"), Cred("sha256", "pw"), Cred("argon2", "pw")}
             \cup (IF Big THEN {Cred("argon2", ""), Cred("sha256", "")} ELSE {})
CredsAll   == UserCreds \X PassCreds
CredsLight == {<<CAny, NoPass>>, <<Cred("plain", "alice"), Cred("plain", "pw")>>}
              \cup (IF Big THEN {<<Cred("sha256", "alice"), Cred("argon2", "pw")>>} ELSE {})

Entries(ipl, pss, crs) == {Entry(i, p, c[1], c[2]) : i \in ipl, p \in pss, c \in crs}

\* request aspects
APAll == {<<a, p>> : a \in {"publish", "read", "playback"}, p \in AllPaths}
         \cup {<<a, "">> : a \in {"api", "metrics", "pprof"}} \cup {<<"read", "">>, <<"api", "zzz">>}
APLight == {<<"read", "cam">>, <<"publish", "other">>, <<"read", "xcam1y">>}
           \cup (IF Big THEN {<<"api", "">>, <<"playback", "cam1">>} ELSE {})
IPLight == {"10.0.0.5", "10.0.1.5"} \cup (IF Big THEN {"2001:db8::5"} ELSE {})
\* <<user, pass, token, ask, verifier>>
RCAll == {<<u, p, t, k, v>> : u \in {"", "alice", "bob"} \cup (IF Big THEN {"any"} ELSE {}),
                              p \in {"", "pw", "bad"}, t \in {"", "tok"},
                              k \in BOOLEAN, v \in Verifiers}
RCLight == {<<"alice", "pw", "", FALSE, "none">>, <<"", "", "", TRUE, "none">>,
            <<"bob", "pw", "", TRUE, "none">>, <<"alice", "", "tok", TRUE, "none">>}
           \cup (IF Big THEN {<<"alice", "", "", TRUE, "acc">>, <<"alice", "bad", "", FALSE, "none">>,
                              <<"", "", "tok", TRUE, "none">>} ELSE {})

Reqs(aps, ips, rcs) == {Req(ap[1], ap[2], c[1], c[2], c[3], ip, c[4], c[5]) : ap \in aps, ip \in ips, c \in rcs}

\* the universe of the 2-user lists
PairEntries == Entries({<<>>, <<"10.0.0.0/24">>},
                       {<<PReadCam>>, <<PPubAll, PReadSub>>, <<PReadRe, PApi>>},
                       {<<CAny, NoPass>>, <<Cred("plain", "alice"), Cred("plain", "pw")>>,
                        <<Cred("sha256", "alice"), NoPass>>})
PairReqs == Reqs({<<"read", "cam">>, <<"read", "cam1">>, <<"publish", "other">>, <<"api", "">>}
                   \cup (IF Big THEN {<<"read", "xcam1y">>, <<"playback", "cam">>} ELSE {}),
                 {"10.0.0.5", "10.0.1.5"},
                 {<<"alice", "pw", "", FALSE, "none">>, <<"", "", "", TRUE, "none">>,
                  <<"bob", "pw", "", TRUE, "none">>, <<"alice", "bad", "", TRUE, "none">>}
                   \cup (IF Big THEN {<<"alice", "", "", FALSE, "acc">>, <<"bob", "", "tok", TRUE, "none">>} ELSE {}))

UserListsOf(p) ==
    CASE p = "ip"   -> {<<e>> : e \in Entries(IPListsAll, PermSetsLight, CredsLight)}
      [] p = "perm" -> {<<e>> : e \in Entries(IPListsLight, PermSetsAll, CredsLight)}
      [] p = "cred" -> {<<e>> : e \in Entries(IPListsLight, PermSetsLight, CredsAll)}
      [] p = "pair" -> {<<a, b>> : a \in PairEntries, b \in PairEntries} \cup {<<>>}
\* (zero-arity definitions: TLC evaluates each of them once)
ReqSeqIp   == SetToSeq(Reqs(APLight, AllIPs, RCLight))
ReqSeqPerm == SetToSeq(Reqs(APAll, IPLight, RCLight))
ReqSeqCred == SetToSeq(Reqs(APLight, IPLight, RCAll))
ReqSeqPair == SetToSeq(PairReqs)
ReqSeqOf(p) ==
    CASE p = "ip" -> ReqSeqIp [] p = "perm" -> ReqSeqPerm [] p = "cred" -> ReqSeqCred [] p = "pair" -> ReqSeqPair

\* ------------------------------------------------------------------ bounded model
\* one initial state per (profile, user list); one step decides every request of the profile
VARIABLES prof, users, res, done
vars == <<prof, users, res, done>>

Init == prof \in Profiles /\ users \in UserListsOf(prof) /\ res = <<>> /\ done = FALSE
Eval == /\ ~done /\ done' = TRUE
        /\ res' = [i \in 1..Len(ReqSeqOf(prof)) |-> AuthImpl(users, ReqSeqOf(prof)[i])]
        /\ UNCHANGED <<prof, users>>
Next == Eval
Spec == Init /\ [][Next]_vars

\* layer 1 |= layer 2 on the bounded domain, and layer 1 is exactly AdmitLo
ImplSatisfiesProp ==
    done => LET rs == ReqSeqOf(prof) IN
            \A i \in 1..Len(rs) :
              /\ ObsOK(users, rs[i], res[i])
              /\ res[i].ok = AdmitLo(users, rs[i])

\* generator: one row per user list; adm[i] = 0 rejected, 1 admitted, 2 left open by the statement
Code(lo, hi) == IF lo THEN 1 ELSE IF hi THEN 2 ELSE 0
EmitRows ==
    done => LET rs == ReqSeqOf(prof) IN
            Emit("ROW", [prof  |-> prof, users |-> users,
                         adm   |-> [i \in 1..Len(rs) |-> Code(AdmitLo(users, rs[i]), AdmitHi(users, rs[i]))],
                         askok |-> [i \in 1..Len(rs) |-> AskAllowed(rs[i])],
                         l1ask |-> [i \in 1..Len(rs) |-> res[i].ask]])
ASSUME \A p \in Profiles : Emit("REQS", [prof |-> p, reqs |-> ReqSeqOf(p)])
=============================================================================
