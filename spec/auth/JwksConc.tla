------------------------------ MODULE JwksConc ------------------------------
(* C02 (jwt method)  The JWKS cache under concurrency
        (internal/auth/manager.go: pullJWTJWKS downloads the key set while holding m.mutex;
         RefreshJWTJWKS takes the same mutex)

   JwksCache.tla is sequential. Here a download takes time: an Authenticate call is split into
   its start, the instant the JWKS endpoint serves the download (the answer is fixed then: the
   authority's key set of that instant) and the instant the answer arrives; the authority may
   rotate its keys and RefreshJWTJWKS may be called in between, and a second Authenticate call may
   overlap the first one.

   Layer 2, from the statement ("admitted iff ... the token verifies against the JWKS keys"),
   over what can be observed - starts and returns of the calls, the downloads the endpoint served:
     a decision is the decision for the key set of ONE download that was served before the call
     returned (within the cache period an older set may still be used) ...
     ... but once RefreshJWTJWKS has RETURNED, a call that STARTS afterwards is decided against a
     key set downloaded after that return; without such a download it is rejected   (DecisionOK).
   Instants are abstracted to "epochs": the number of RefreshJWTJWKS returns so far.

   Layer 1 follows the code: the download happens under the mutex, so overlapping calls and
   RefreshJWTJWKS wait for it (they serialise). FetchUnlocked = TRUE is the named deviation "the
   key set is downloaded without the mutex and stored afterwards together with the time the
   download STARTED": a refresh that returns while a download is in flight is lost when it
   completes, and DecisionOK is violated (sanity run of the check).

   Driver actions (StartAuth, StartRefresh, Rotate, Release) happen only when the manager is
   quiescent: every started call has returned, waits for the mutex or waits for its download -
   exactly what the harness observes before it takes the next step.                           *)
EXTENDS VerifCommon

CONSTANTS FetchUnlocked,
          MaxEpoch          \* bound on the number of RefreshJWTJWKS returns

Callers == {"A", "B"}
Keys == {"k1", "k2"}
PubOf(stage) == CASE stage = 1 -> {"k1"} [] stage = 2 -> {"k1", "k2"} [] stage = 3 -> {"k2"}

\* ------------------------------------------------------------------ layer 2
\* dls: set of downloads [set, ep]: key set served, epoch at the instant it was served
\* a call that started in epoch ep0 may be decided with any download of an epoch >= ep0
DecisionOK(dls, ep0, k, ok) ==
    LET adm == {x \in dls : x.ep >= ep0} IN
    IF adm = {} THEN ~ok ELSE \E x \in adm : ok = (k \in x.set)

\* ------------------------------------------------------------------ model
VARIABLES stage,                 \* the authority's rotation stage
          has, cs, fresh,        \* manager: a key set is cached, which, and whether it counts as fresh
          lock,                  \* "free" or who holds m.mutex
          call,                  \* per caller [st, k, ep0, set]: st = idle (not started / returned) | want | fetching
          ref,                   \* RefreshJWTJWKS call: idle | want
          epoch, dls,            \* number of refresh returns; downloads served so far
          bad                    \* some decision violated DecisionOK
vars == <<stage, has, cs, fresh, lock, call, ref, epoch, dls, bad>>

Idle == [st |-> "idle", k |-> "k1", ep0 |-> 0, set |-> {}]
Init == /\ stage = 1 /\ has = FALSE /\ cs = {} /\ fresh = FALSE /\ lock = "free"
        /\ call = [c \in Callers |-> Idle] /\ ref = "idle" /\ epoch = 0 /\ dls = {} /\ bad = FALSE

\* --- internal steps of the manager (run to completion before the next driver action)
\* a call gets the mutex (layer 1) / takes its snapshot (deviation): cached and fresh -> decide now,
\* else the download starts and the endpoint serves the current key set
Enter(c) ==
    /\ call[c].st = "want" /\ (FetchUnlocked \/ lock = "free")
    /\ IF has /\ fresh
       THEN /\ call' = [call EXCEPT ![c] = Idle]
            /\ bad' = (bad \/ ~DecisionOK(dls, call[c].ep0, call[c].k, call[c].k \in cs))
            /\ UNCHANGED <<lock, dls>>
       ELSE /\ call' = [call EXCEPT ![c].st = "fetching", ![c].set = PubOf(stage)]
            /\ dls' = dls \cup {[set |-> PubOf(stage), ep |-> epoch]}
            /\ lock' = IF FetchUnlocked THEN lock ELSE c
            /\ UNCHANGED bad
    /\ UNCHANGED <<stage, has, cs, fresh, ref, epoch>>
\* RefreshJWTJWKS gets the mutex, invalidates, returns
RefreshRuns ==
    /\ ref = "want" /\ lock = "free"
    /\ ref' = "idle" /\ fresh' = FALSE /\ epoch' = epoch + 1
    /\ UNCHANGED <<stage, has, cs, lock, call, dls, bad>>
Internal == RefreshRuns \/ \E c \in Callers : Enter(c)
Quiescent == ~ENABLED Internal

\* --- driver actions
StartAuth(c, k) ==
    /\ Quiescent /\ call[c].st = "idle"
    /\ call' = [call EXCEPT ![c] = [st |-> "want", k |-> k, ep0 |-> epoch, set |-> {}]]
    /\ UNCHANGED <<stage, has, cs, fresh, lock, ref, epoch, dls, bad>>
StartRefresh ==
    /\ Quiescent /\ ref = "idle" /\ epoch < MaxEpoch
    /\ ref' = "want"
    /\ UNCHANGED <<stage, has, cs, fresh, lock, call, epoch, dls, bad>>
Rotate ==
    /\ Quiescent /\ stage' = (stage % 3) + 1
    /\ UNCHANGED <<has, cs, fresh, lock, call, ref, epoch, dls, bad>>
\* the answer of the download of call c arrives: store, decide, return, unlock
Release(c) ==
    /\ Quiescent /\ call[c].st = "fetching"
    /\ has' = TRUE /\ cs' = call[c].set /\ fresh' = TRUE
    /\ call' = [call EXCEPT ![c] = Idle]
    /\ bad' = (bad \/ ~DecisionOK(dls, call[c].ep0, call[c].k, call[c].k \in call[c].set))
    /\ lock' = IF FetchUnlocked THEN lock ELSE "free"
    /\ UNCHANGED <<stage, ref, epoch, dls>>

Next == Internal \/ Rotate \/ StartRefresh
        \/ \E c \in Callers : Release(c) \/ \E k \in Keys : StartAuth(c, k)
Spec == Init /\ [][Next]_vars

\* layer 1 |= layer 2
ImplSatisfiesProp == ~bad
\* the mutex is held exactly while a download of layer 1 is in flight
LockSane == FetchUnlocked \/ (lock # "free" <=> \E c \in Callers : call[c].st = "fetching" /\ lock = c)
=============================================================================
