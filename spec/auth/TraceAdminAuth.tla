--------------------------- MODULE TraceAdminAuth ---------------------------
(* Trace validation for C04. One ndjson record per HTTP request that was sent to the REAL
   api.API / metrics.Metrics / pprof.PPROF / playback.Server (each configured with the real
   auth.Manager and the instance's internal users):
     id, inst, rt (index into RouteSeq), svc, kind, rmut (copied from RouteSeq[rt] as TLC printed it),
     tg, cred, xff, pp,
     status, body (class), leak, mut
   TLC evaluates the statement's formula ReqOK of AdminAuth.tla on every record (admission is
   C01's statement formula, not the code's answer), and separately whether the record is what
   layer 1 predicts (DRIFT, never a verdict).                                             *)
EXTENDS AdminAuth

Trace == ndJsonDeserialize("C04_trace.ndjson")

VARIABLE l
TraceInit == l = 0 /\ inst = 1 /\ cred = "none" /\ xff = "none" /\ tab = <<>> /\ done = FALSE
TraceNext == l < Len(Trace) /\ l' = l + 1 /\ UNCHANGED vars
TraceSpec == TraceInit /\ [][TraceNext]_<<l, vars>>

CaseOf(r) == Case(r.inst, r.svc, r.kind, r.rmut, r.tg, r.cred, r.xff, r.pp)
ObsOf(r)  == [status |-> r.status, body |-> r.body, leak |-> r.leak, mut |-> r.mut]

WellFormed(r) ==
    /\ r.inst \in 1..NInst /\ r.tg \in TargetsOf(r) /\ r.cred \in Placements /\ r.xff \in XFFs
    /\ r.pp \in PPathsOf(r, r.tg) /\ r.rmut \in BOOLEAN /\ r.mut \in BOOLEAN /\ r.leak \in BOOLEAN
    /\ r.body \in {"empty", "autherr", "errobj", "stock", "other"}

Verdicts == l >= 1 =>
    LET r == Trace[l] IN
    /\ Assert(WellFormed(r), <<"malformed record", l>>)
    /\ Monitor(ReqOK(CaseOf(r), ObsOf(r)), [l |-> l, id |-> r.id, admit |-> Code(CaseOf(r))])
Drift == l >= 1 => (Conforms(CaseOf(Trace[l]), ObsOf(Trace[l])) \/ Emit("DRIFT", [l |-> l, id |-> Trace[l].id]))
Accepted == TLCGet("stats").diameter - 1 = Len(Trace)
=============================================================================
