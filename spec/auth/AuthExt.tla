------------------------------ MODULE AuthExt ------------------------------
(* C02  HTTP and JWT authentication admit only what the authority grants
        (internal/auth/manager.go: getToken, authenticateHTTP, authenticateJWT, pullJWTJWKS;
         internal/auth/jwt_claims.go)

   Layer 2, the statement:
     http:  admitted <=> excluded \/ the auth server answered 2xx to a POST carrying the request's
                         user, password, token, IP, action, path, protocol and query
            (HTTPObsOK: evaluated on the log written by the auth server of the harness)
     jwt:   admitted <=> excluded \/ (token verifies against the JWKS keys /\ issuer /\ audience
                         /\ expiry /\ the permission claim grants the action on the path)   (JWTAdmit)
     token: token field, else password, else the 'token'/'jwt' query parameter for RTSP/RTMP, or
            for HTTP protocols when allowed                                              (TokenCands)
   Cryptographic verification is an atom fixed by the token class (SigOK); "excluded" and
   "grants" are the permission clause of C01 (GrantF) over a ground-truth table.
   Points the statement leaves open are sets of admissible answers, never verdicts:
     both 'token' and 'jwt' present (no order given), a repeated parameter, MoQ as an "HTTP
     protocol", query tokens of HTTP protocols with the http method (no setting "allows" them),
     a token without expiry claim.
   History independence: the statement decides a request from that request and the
   configuration only.  A sequence case (profiles "jseq", "hseq") is a list of requests handled
   one after the other - and concurrently with other sequences - by ONE manager in one process;
   every step i is judged by the per-request formula applied to StepCase(c, i), which does not
   mention the other steps: nothing a previous (valid, forged, expired, absent) token or a previous
   request's credentials carried may change the answer.

   Layer 1 follows the code (GetTokenImpl, JWTImpl, HTTPImpl).  A 301/303 answer with a
   Location is NOT followed (net/http would turn it into a GET without body): the request is
   rejected; a 307/308 answer is followed with the POST repeated (fix 03c85d2 in /repo; before
   it layer 1 diverged from layer 2 on the behaviours RedirectToGet).                         *)
EXTENDS VerifCommon, SequencesExt

CONSTANTS Profiles,   \* subset of {"hstatus", "htoken", "jclass", "jsig", "jplace", "jexcl", "jseq", "hseq"}
          Big         \* FALSE: quick domains, TRUE: thorough domains

\* ------------------------------------------------------------------ permissions (as in C01)
PathAction(a) == a \in {"publish", "read", "playback"}
GrantF(actEq, pathAct, kind, eq, found) ==
    actEq /\ (pathAct => \/ kind = "empty"
                         \/ kind = "lit" /\ eq
                         \/ kind = "re" /\ found)
ReFoundIn(re) ==
    CASE re = "^cam[0-9]$" -> {"cam1"}
      [] re = "cam"        -> {"cam", "cam1", "xcam1y"}
Perm(a, k, s) == [action |-> a, kind |-> k, s |-> s, path |-> IF k = "re" THEN "~" \o s ELSE s]
GrantsL(perms, action, path) ==
    \E i \in 1..Len(perms) :
      GrantF(perms[i].action = action, PathAction(action), perms[i].kind, perms[i].path = path,
             perms[i].kind = "re" /\ path \in ReFoundIn(perms[i].s))

\* permission lists are referred to by name in cases (exclude lists, permission claims)
PermNames == {"all", "readcam", "mixed", "api", "sub", "readany", "none"}
PermsOf(n) ==
    CASE n = "all"     -> <<Perm("publish", "empty", ""), Perm("read", "empty", ""), Perm("playback", "empty", ""),
                            Perm("api", "empty", ""), Perm("metrics", "empty", ""), Perm("pprof", "empty", "")>>
      [] n = "readcam" -> <<Perm("read", "lit", "cam")>>
      [] n = "mixed"   -> <<Perm("publish", "lit", "other"), Perm("read", "re", "^cam[0-9]$")>>
      [] n = "api"     -> <<Perm("api", "empty", "")>>
      [] n = "sub"     -> <<Perm("playback", "re", "cam"), Perm("metrics", "lit", "zzz")>>
      [] n = "readany" -> <<Perm("read", "empty", "")>>
      [] n = "none"    -> <<>>
Grants(name, action, path) == GrantsL(PermsOf(name), action, path)

\* ------------------------------------------------------------------ tokens
\* One record shape for every token value. k: "none" | "text" (not a JWT) | "jwt".
AudNone == [form |-> "none", v |-> <<>>]
None    == [k |-> "none", s |-> "", sig |-> "", iss |-> "", aud |-> AudNone, time |-> "", form |-> "", perms |-> "none"]
Text(s) == [None EXCEPT !.k = "text", !.s = s]
Jwt(sig, iss, aud, time, form, perms) ==
    [k |-> "jwt", s |-> "", sig |-> sig, iss |-> iss, aud |-> aud, time |-> time, form |-> form, perms |-> perms]

\* signature classes and whether the token verifies against the JWKS keys {k1 (RSA), k2 (EC)}
SigClasses == {"rs256", "es256", "nokid",            \* signed by k1 / k2 / k1 without key id
               "tampered",                           \* payload changed after signing
               "otherkey", "unknownkid", "nokidother", \* signed by a key that is not in the JWKS
               "algnone", "hmacpub",                 \* alg "none"; HS256 keyed with k1's public key
               "nosig", "garbage"}                   \* signature removed; not a JWT at all
SigOK(sig) == sig \in {"rs256", "es256", "nokid"}

AudStr(s)  == [form |-> "str", v |-> <<s>>]
AudList(l) == [form |-> "list", v |-> l]
IssOK(cfgIss, t) == cfgIss = "" \/ t.iss = cfgIss
AudOK(cfgAud, t) == cfgAud = "" \/ \E i \in 1..Len(t.aud.v) : t.aud.v[i] = cfgAud
\* permission claim: a JSON array, or a JSON string holding that array; anything else is unusable
FormOK(t) == t.form \in {"array", "string"}

\* the set of answers the statement allows for one token
JWTAdmitTok(cfg, rq, t) ==
    IF t.k # "jwt" THEN {FALSE}
    ELSE IF ~(SigOK(t.sig) /\ IssOK(cfg.iss, t) /\ AudOK(cfg.aud, t) /\ FormOK(t) /\ Grants(t.perms, rq.action, rq.path))
         THEN {FALSE}
    ELSE CASE t.time = "ok"      -> {TRUE}
           [] t.time = "expired" -> {FALSE}
           [] t.time = "notyet"  -> {FALSE}
           [] t.time = "exponly" -> {TRUE}           \* in date, no nbf/iat claims
           [] t.time = "noexp"   -> {TRUE, FALSE}    \* no expiry claim: left open

\* ------------------------------------------------------------------ where the token is taken from
\* "Tokens are taken from the token field, else the password, else (RTSP/RTMP, or HTTP
\*  protocols when allowed) the 'token'/'jwt' query parameter."
\* Generic in the value type (token records, or the strings the harness rendered).
QueryCands(none, qt, qj) ==
    IF Len(qt) > 1 \/ Len(qj) > 1 THEN {none} \cup Range(qt) \cup Range(qj)   \* repeated parameter: open
    ELSE IF Len(qt) = 1 /\ Len(qj) = 1 THEN {qt[1], qj[1]}                     \* both names: order open
    ELSE IF Len(qt) = 1 THEN {qt[1]}
    ELSE IF Len(qj) = 1 THEN {qj[1]}
    ELSE {none}

HTTPKind(rq) ==
    IF rq.protocol \in {"hls", "webrtc"} \/ rq.action \in {"playback", "api", "metrics", "pprof"} THEN "yes"
    ELSE IF rq.protocol = "moq" THEN "open"
    ELSE "no"
\* is taking tokens from the query of HTTP protocols allowed?  jwt: the JWTInHTTPQuery setting;
\* http method: there is no such setting (open)
Allowed(cfg) == IF cfg.method = "jwt" THEN (IF cfg.inq = "true" THEN "yes" ELSE "no") ELSE "open"

TokenCands(none, tokenV, passV, qt, qj, rq, allowed) ==
    IF tokenV # none THEN {tokenV}
    ELSE IF passV # none THEN {passV}
    ELSE IF rq.protocol \in {"rtsp", "rtmp"} THEN QueryCands(none, qt, qj)
    ELSE IF HTTPKind(rq) = "no" \/ allowed = "no" THEN {none}
    ELSE IF HTTPKind(rq) = "yes" /\ allowed = "yes" THEN QueryCands(none, qt, qj)
    ELSE QueryCands(none, qt, qj) \cup {none}

\* ------------------------------------------------------------------ layer 2: the statement
Excluded(c) == Grants(c.cfg.excl, c.rq.action, c.rq.path)

\* jwt: the set of admissible answers
JWTAdmit(c) ==
    IF Excluded(c) THEN {TRUE}
    ELSE UNION {JWTAdmitTok(c.cfg, c.rq, t) :
                t \in TokenCands(None, c.rq.token, c.rq.pass, c.rq.qtok, c.rq.qjwt, c.rq, Allowed(c.cfg))}

\* http: r = the strings of the request as handed to the manager, log = what the auth server saw
\* and answered: <<[method, status (0 = never answered), body]>>
Carries(b, c, r) ==
    /\ b.user = r.user /\ b.password = r.pass
    /\ b.token \in TokenCands("", r.token, r.pass, r.qtok, r.qjwt, c.rq, Allowed(c.cfg))
    /\ b.ip = r.ip /\ b.action = c.rq.action /\ b.path = c.rq.path
    /\ b.protocol = c.rq.protocol /\ b.query = r.query
Granted2xx(c, r, log) ==
    \E i \in 1..Len(log) : log[i].method = "POST" /\ log[i].status \in 200..299 /\ Carries(log[i].body, c, r)
HTTPObsOK(c, r, ok, log) == ok <=> (Excluded(c) \/ Granted2xx(c, r, log))

\* ------------------------------------------------------------------ layer 1: the code
IsHTTPImpl(rq) == rq.protocol \in {"hls", "webrtc"} \/ rq.action \in {"playback", "api", "metrics", "pprof"}
GetTokenImpl(none, tokenV, passV, qt, qj, rq, inHTTPQuery) ==
    IF tokenV # none THEN tokenV
    ELSE IF passV # none THEN passV
    ELSE IF rq.protocol \in {"rtsp", "rtmp"} \/ (inHTTPQuery /\ IsHTTPImpl(rq)) THEN
           IF Len(qt) = 1 THEN qt[1] ELSE IF Len(qj) = 1 THEN qj[1] ELSE none
    ELSE none

JWTImpl(c) ==
    IF Grants(c.cfg.excl, c.rq.action, c.rq.path) THEN TRUE
    ELSE LET t == GetTokenImpl(None, c.rq.token, c.rq.pass, c.rq.qtok, c.rq.qjwt, c.rq, c.cfg.inq = "true") IN
         /\ t.k = "jwt"
         /\ t.sig \in {"rs256", "es256", "nokid"}
         /\ (c.cfg.iss # "" => t.iss = c.cfg.iss)
         /\ (c.cfg.aud # "" => \E i \in 1..Len(t.aud.v) : t.aud.v[i] = c.cfg.aud)
         /\ t.time \in {"ok", "exponly", "noexp"}   \* the parser does not require an expiry claim
         /\ t.form \in {"array", "string"}
         /\ Grants(t.perms, c.rq.action, c.rq.path)

\* strings of a request whose tokens are texts
TextsOf(seq) == [i \in 1..Len(seq) |-> seq[i].s]
RECURSIVE JoinAmp(_)
JoinAmp(parts) == IF parts = <<>> THEN "" ELSE IF Len(parts) = 1 THEN parts[1]
                  ELSE parts[1] \o "&" \o JoinAmp(Tail(parts))
RenderText(rq) ==
    [user |-> rq.user, pass |-> rq.pass.s, token |-> rq.token.s, ip |-> rq.ip,
     qtok |-> TextsOf(rq.qtok), qjwt |-> TextsOf(rq.qjwt),
     query |-> JoinAmp((IF rq.qextra THEN <<"x=1">> ELSE <<>>)
                       \o [i \in 1..Len(rq.qtok) |-> "token=" \o rq.qtok[i].s]
                       \o [i \in 1..Len(rq.qjwt) |-> "jwt=" \o rq.qjwt[i].s])]

NoBody == [user |-> "", password |-> "", token |-> "", ip |-> "", action |-> "", path |-> "",
           protocol |-> "", query |-> ""]
\* behaviours of the auth server of the harness
Behaviours == {"s200", "s204", "s299", "s300", "s301noloc", "s301get", "s303get", "s307post",
               "s401", "s500", "hang", "refused"}
\* "bycred": an authority that decides by what the POST carries: 200 iff token "T1" or alice/"P1"
ByCredGrants(b) == b.token = "T1" \/ (b.user = "alice" /\ b.password = "P1")
RedirectToGet == {"s301get", "s303get"}
HTTPImpl(c) ==
    IF Grants(c.cfg.excl, c.rq.action, c.rq.path) THEN [ok |-> TRUE, log |-> <<>>]
    ELSE LET r    == RenderText(c.rq)
             tok  == GetTokenImpl("", r.token, r.pass, r.qtok, r.qjwt, c.rq, FALSE)
             body == [user |-> r.user, password |-> r.pass, token |-> tok, ip |-> r.ip, action |-> c.rq.action,
                      path |-> c.rq.path, protocol |-> c.rq.protocol, query |-> r.query]
             post(st) == [method |-> "POST", status |-> st, body |-> body]
         IN CASE c.beh = "s200"      -> [ok |-> TRUE,  log |-> <<post(200)>>]
              [] c.beh = "s204"      -> [ok |-> TRUE,  log |-> <<post(204)>>]
              [] c.beh = "s299"      -> [ok |-> TRUE,  log |-> <<post(299)>>]
              [] c.beh = "s300"      -> [ok |-> FALSE, log |-> <<post(300)>>]
              [] c.beh = "s301noloc" -> [ok |-> FALSE, log |-> <<post(301)>>]
              [] c.beh = "s301get"   -> [ok |-> FALSE, log |-> <<post(301)>>]
              [] c.beh = "s303get"   -> [ok |-> FALSE, log |-> <<post(303)>>]
              [] c.beh = "s307post"  -> [ok |-> TRUE,  log |-> <<post(307), post(200)>>]
              [] c.beh = "s401"      -> [ok |-> FALSE, log |-> <<post(401)>>]
              [] c.beh = "s500"      -> [ok |-> FALSE, log |-> <<post(500)>>]
              [] c.beh = "hang"      -> [ok |-> FALSE, log |-> <<post(0)>>]
              [] c.beh = "refused"   -> [ok |-> FALSE, log |-> <<>>]
              [] c.beh = "bycred"    -> IF ByCredGrants(body) THEN [ok |-> TRUE, log |-> <<post(200)>>]
                                        ELSE [ok |-> FALSE, log |-> <<post(401)>>]

\* ------------------------------------------------------------------ bounded domains
Cfg(method, iss, aud, excl, inq) == [method |-> method, iss |-> iss, aud |-> aud, excl |-> excl, inq |-> inq]
Rq(action, path, protocol, user, pass, token, qtok, qjwt, qextra) ==
    [action |-> action, path |-> path, protocol |-> protocol, user |-> user, pass |-> pass, token |-> token,
     qtok |-> qtok, qjwt |-> qjwt, qextra |-> qextra, ip |-> "10.0.0.5"]
Case(prof, cfg, rq, beh) == [prof |-> prof, cfg |-> cfg, rq |-> rq, beh |-> beh]

ExclLists == {"none", "readany", "mixed", "api"}
\* <<action, path, protocol>>
Targets == {<<"read", "cam", "rtsp">>, <<"publish", "other", "rtmp">>, <<"read", "cam1", "hls">>,
            <<"api", "", "">>, <<"playback", "cam", "">>}
           \cup (IF Big THEN {<<"read", "other", "webrtc">>, <<"publish", "cam1", "srt">>, <<"metrics", "", "">>} ELSE {})
ProtoTargets == {<<"read", "cam", p>> : p \in {"rtsp", "rtmp", "srt", "hls", "webrtc", "moq"}}
                \cup {<<a, "", "">> : a \in {"api", "metrics", "pprof"}} \cup {<<"playback", "cam", "">>}
                \cup (IF Big THEN {<<"publish", "cam", p>> : p \in {"rtsp", "srt", "webrtc", "moq"}} ELSE {})

\* --- http method
HCfg(excl) == Cfg("http", "", "", excl, "nil")
HStatusCases ==
    {Case("hstatus", HCfg(ex), Rq(t[1], t[2], t[3], cr[1], cr[2], cr[3], cr[4], <<>>, FALSE), b) :
        ex \in ExclLists, t \in Targets, b \in Behaviours,
        cr \in {<<"alice", Text("P1"), None, <<>>>>, <<"", None, Text("T1"), <<>>>>, <<"", None, None, <<Text("Q1")>>>>}}
HTokenCases ==
    {Case("htoken", HCfg("none"), Rq(t[1], t[2], t[3], u, p, k, q[1], q[2], q[3]), b) :
        t \in ProtoTargets, b \in {"s200", "s401"}, u \in {"", "alice"}, p \in {None, Text("P1")},
        k \in {None, Text("T1")},
        q \in {<<<<>>, <<>>, FALSE>>, <<<<Text("Q1")>>, <<>>, FALSE>>, <<<<>>, <<Text("J1")>>, TRUE>>,
               <<<<Text("Q1")>>, <<Text("J1")>>, FALSE>>, <<<<Text("Q1"), Text("Q2")>>, <<>>, FALSE>>,
               <<<<>>, <<>>, TRUE>>}}

\* --- jwt method
Good == Jwt("rs256", "iss1", AudStr("aud1"), "ok", "array", "all")
Bad  == Jwt("tampered", "iss1", AudStr("aud1"), "ok", "array", "all")
JCfg(iss, aud, excl, inq) == Cfg("jwt", iss, aud, excl, inq)
InField(t, tok) == Rq(t[1], t[2], t[3], "", None, tok, <<>>, <<>>, FALSE)

Sigs1  == IF Big THEN {"rs256", "es256", "tampered"} ELSE {"rs256", "tampered"}
Isss   == {"iss1", "other", ""}
Auds   == {AudStr("aud1"), AudStr("other"), AudList(<<"x", "aud1">>)}
          \cup (IF Big THEN {AudNone, AudList(<<"x", "y">>), AudList(<<>>)} ELSE {})
Times  == {"ok", "expired", "notyet"} \cup (IF Big THEN {"noexp"} ELSE {})
Forms1 == {"array", "string", "missing"}
FormsAll == {"array", "string", "missing", "number", "object", "badstring", "null", "stringnumber"}
PermLists == {"all", "readcam", "mixed", "none"} \cup (IF Big THEN {"sub"} ELSE {})
JTargets == {<<"read", "cam", "rtsp">>, <<"read", "cam1", "hls">>, <<"publish", "other", "rtmp">>, <<"api", "", "">>}
            \cup (IF Big THEN {<<"playback", "xcam1y", "">>, <<"read", "other", "srt">>} ELSE {})

JClassCases ==
    {Case("jclass", JCfg(ci, ca, "none", "nil"), InField(t, Jwt(sg, is, au, tm, fm, pl)), "") :
        ci \in {"", "iss1"}, ca \in {"", "aud1"}, t \in JTargets,
        sg \in Sigs1, is \in Isss, au \in Auds, tm \in Times, fm \in Forms1, pl \in PermLists}
JSigCases ==
    {Case("jsig", JCfg(ci, "", "none", "nil"), InField(t, Jwt(sg, "iss1", AudStr("aud1"), tm, fm, pl)), "") :
        ci \in {"", "iss1"}, t \in {<<"read", "cam", "rtsp">>, <<"api", "", "">>},
        sg \in SigClasses, tm \in {"ok", "noexp", "expired"}, fm \in FormsAll, pl \in {"all", "readcam"}}
JPlaceCases ==
    {Case("jplace", JCfg("", "", "none", inq), Rq(t[1], t[2], t[3], u, p, k, qt, qj, FALSE), "") :
        inq \in {"nil", "true", "false"}, t \in ProtoTargets, u \in (IF Big THEN {"", "alice"} ELSE {"alice"}),
        p \in {None, Good, Bad, Text("plainpw")}, k \in {None, Good, Bad},
        qt \in {<<>>, <<Good>>, <<Bad>>, <<Good, Bad>>}, qj \in {<<>>, <<Good>>, <<Bad>>}}
JExclCases ==
    {Case("jexcl", JCfg("", "", ex, "nil"), InField(t, k), "") :
        ex \in ExclLists, t \in Targets \cup JTargets, k \in {None, Good, Bad, Jwt("rs256", "", AudNone, "ok", "array", "mixed")}}

\* --- sequences on one manager (history independence)
SeqCase(prof, cfg, steps, beh) == [prof |-> prof, cfg |-> cfg, steps |-> steps, beh |-> beh]
IsSeq(x) == "steps" \in DOMAIN x
StepCase(sc, i) == Case(sc.prof, sc.cfg, sc.steps[i], sc.beh)

FullAud == AudStr("aud1")
Priors == {Good,                                                        \* valid, carries iss and aud
           Bad,                                                         \* forged (payload changed), carries iss and aud
           Jwt("otherkey", "iss1", FullAud, "ok", "array", "all"),      \* forged (foreign key)
           Jwt("rs256", "iss1", FullAud, "expired", "array", "all"),    \* expired
           Jwt("rs256", "iss1", FullAud, "notyet", "array", "readcam"), \* not yet valid, other permissions
           None}
Nexts  == {Jwt("rs256", "", AudNone, "ok", "array", "all"),             \* signed by the JWKS key, no iss / aud
           Jwt("rs256", "", AudNone, "exponly", "string", "all"),
           Jwt("es256", "", FullAud, "ok", "array", "all"),             \* no iss
           Jwt("rs256", "iss1", AudNone, "exponly", "array", "all"),    \* no aud
           Jwt("rs256", "other", AudStr("other"), "ok", "array", "all"),
           Jwt("rs256", "iss1", FullAud, "exponly", "array", "all"),    \* fine, without nbf/iat
           Jwt("rs256", "iss1", FullAud, "ok", "array", "none"),        \* fine, but grants nothing
           Jwt("rs256", "iss1", FullAud, "ok", "missing", "all"),       \* no permission claim
           Good, None}
SeqCfgs == {JCfg("iss1", "aud1", "none", "nil"), JCfg("iss1", "", "none", "nil"), JCfg("", "aud1", "none", "nil")}
SeqT == <<"read", "cam", "rtsp">>
JSeqCases ==
    {SeqCase("jseq", cf, <<InField(SeqT, a), InField(SeqT, b)>>, "") : cf \in SeqCfgs, a \in Priors, b \in Nexts}
    \cup {SeqCase("jseq", cf, <<InField(SeqT, a), InField(SeqT, m), InField(SeqT, b)>>, "") :
            cf \in SeqCfgs, a \in Priors, m \in {None, Bad, Jwt("rs256", "", AudNone, "ok", "array", "readcam")},
            b \in {Jwt("rs256", "", AudNone, "ok", "array", "all"), Jwt("rs256", "iss1", FullAud, "exponly", "array", "all"),
                    Jwt("rs256", "iss1", FullAud, "ok", "missing", "all")}}

\* http method: credentials of one request must not decide another one
HSeqRqs == {Rq("read", "cam", "rtsp", cr[1], cr[2], cr[3], cr[4], <<>>, FALSE) :
             cr \in {<<"alice", Text("P1"), None, <<>>>>,       \* granted
                     <<"bob", Text("P1"), None, <<>>>>,         \* not granted
                     <<"", None, Text("T1"), <<>>>>,            \* granted
                     <<"carol", None, Text("T2"), <<>>>>,       \* not granted
                     <<"", None, None, <<Text("T1")>>>>,        \* granted (query token, RTSP)
                     <<"alice", None, None, <<Text("Q1")>>>>}}  \* not granted
HSeqCases ==
    {SeqCase("hseq", HCfg("none"), <<a, b>>, "bycred") : a \in HSeqRqs, b \in HSeqRqs}
    \cup {SeqCase("hseq", HCfg("none"), <<a, m, b>>, "bycred") : a \in HSeqRqs, m \in HSeqRqs,
            b \in {Rq("read", "cam", "rtsp", "bob", Text("P1"), None, <<>>, <<>>, FALSE),
                   Rq("read", "cam", "rtsp", "carol", None, Text("T2"), <<>>, <<>>, FALSE)}}

CasesOf(p) ==
    CASE p = "hstatus" -> HStatusCases [] p = "htoken" -> HTokenCases [] p = "jclass" -> JClassCases
      [] p = "jsig" -> JSigCases [] p = "jplace" -> JPlaceCases [] p = "jexcl" -> JExclCases
      [] p = "jseq" -> JSeqCases [] p = "hseq" -> HSeqCases

\* ------------------------------------------------------------------ bounded model
VARIABLES c, res, done
vars == <<c, res, done>>

\* layer 1 keeps nothing between requests: a sequence is decided step by step
OneImpl(x) == IF x.cfg.method = "jwt" THEN [ok |-> JWTImpl(x), log |-> <<>>] ELSE HTTPImpl(x)
\* the statement on one decision (r = rendered strings, used by the http method)
OneOK(x, r, ok, log) == IF x.cfg.method = "jwt" THEN ok \in JWTAdmit(x) ELSE HTTPObsOK(x, r, ok, log)

Init == \E p \in Profiles : c \in CasesOf(p) /\ res = <<>> /\ done = FALSE
Eval == /\ ~done /\ done' = TRUE /\ UNCHANGED c
        /\ res' = IF IsSeq(c) THEN [i \in 1..Len(c.steps) |-> OneImpl(StepCase(c, i))] ELSE OneImpl(c)
Next == Eval
Spec == Init /\ [][Next]_vars

\* layer 1 |= layer 2
ImplSatisfiesProp ==
    done => IF IsSeq(c)
            THEN \A i \in 1..Len(c.steps) :
                   OneOK(StepCase(c, i), RenderText(c.steps[i]), res[i].ok, res[i].log)
            ELSE OneOK(c, RenderText(c.rq), res.ok, res.log)
\* a redirect that would drop the request body never admits
RedirectDiverges ==
    (done /\ ~IsSeq(c) /\ c.cfg.method = "http" /\ c.beh \in RedirectToGet /\ ~Excluded(c)) => ~res.ok

EmitCases == done => Emit("CASE", [c |-> c, l1ok |-> IF IsSeq(c) THEN [i \in 1..Len(c.steps) |-> res[i].ok] ELSE res.ok])
ASSUME Emit("PERMS", [n \in PermNames |-> PermsOf(n)])
=============================================================================
