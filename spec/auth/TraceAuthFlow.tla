--------------------------- MODULE TraceAuthFlow ---------------------------
(* Trace validation for C03. One ndjson record per scenario run against a REAL core.Core
   (all servers started in-package from a generated configuration) with real clients
   (gortsplib, gortmplib, gosrt, net/http for HLS and WHIP/WHEP, the WHIP client, quic-go for MoQ):
     id, proto, mode, place, action, name, cls, cred, user, pass, ip, reload, events, attached
   events = what the recorder wrapped around the path manager's authManager field saw for this
   scenario's path name (every Authenticate request and its outcome) and the configuration
   reloads the harness made, in order; attached = the client is listed as source / reader of
   the path by the path manager's API afterwards.
   TLC evaluates ScenarioOK of AuthFlow.tla (the statement) on every record; AnswersAgree and
   ExpectAttached (layer 1) only produce DRIFT.                                            *)
EXTENDS AuthFlow

Trace == ndJsonDeserialize("C03_trace.ndjson")

VARIABLE l
TraceInit == l = 0 /\ Init
TraceNext == l < Len(Trace) /\ l' = l + 1 /\ UNCHANGED vars
TraceSpec == TraceInit /\ [][TraceNext]_<<l, vars>>

Verdicts == l >= 1 => Monitor(ScenarioOK(Trace[l]), [l |-> l, id |-> Trace[l].id])
Drift == l >= 1 =>
    LET r == Trace[l] IN
    (AnswersAgree(r) /\ r.attached = ExpectAttached(r) /\ ReloadsAsExpected(r) /\ AsksAsExpected(r)) \/ Emit("DRIFT", [l |-> l, id |-> r.id, agree |-> AnswersAgree(r)])
Accepted == TLCGet("stats").diameter - 1 = Len(Trace)
=============================================================================
