--------------------------- MODULE TraceReorderer ---------------------------
(* Trace validation for C33. One ndjson record per run of the REAL Reorderer:
     run, mr, mb, pushes: <<[id, size]>>, outs: <<  <<[id, rc]>>  >>, held: <<n>>, heldBytes: <<n>>
   (outs[k] = what push k returned, identified by receipt number; held[k]/heldBytes[k] = what
   the real object holds back after push k, measured from its pending map by the harness).
   TLC evaluates the statement's monitors (Reorderer.tla layer 2) on every prefix of every
   run, and separately whether the run is a behaviour of layer 1 (conformance, DRIFT only).   *)
EXTENDS Reorderer

Trace == ndJsonDeserialize("C33_trace.ndjson")

VARIABLE l
TraceInit == l = 0 /\ Init
TraceNext == l < Len(Trace) /\ l' = l + 1 /\ UNCHANGED vars
TraceSpec == TraceInit /\ [][TraceNext]_<<l, vars>>

HandedUpTo(r, k) == Flatten(SubSeq(r.outs, 1, k))

PrefixOK(r, k, mon) ==
    LET rv == SubSeq(r.pushes, 1, k)
        h  == HandedUpTo(r, k)
        o  == r.outs[k]
    IN CASE mon = "InOrder"   -> StrictlyIncreasing(h)
         [] mon = "Received"  -> EachWasReceived(rv, h)
         [] mon = "Once"      -> NoneTwice(h)
         [] mon = "Immediate" -> ImmediateIfNext(rv, h, o)
         [] mon = "Bounded"   -> Bounded(r.held[k], r.heldBytes[k], r.mr, r.mb)

Monitors == {"InOrder", "Received", "Once", "Immediate", "Bounded"}

RunVerdict(r, ln) ==
    \A mon \in Monitors :
        Monitor(\A k \in 1..Len(r.pushes) : PrefixOK(r, k, mon),
                [l |-> ln, run |-> r.run, monitor |-> mon])

\* ---- conformance with layer 1 (never a verdict)
RECURSIVE SpecRun(_, _, _, _)
SpecRun(st, r, k, acc) ==
    IF k > Len(r.pushes) THEN acc
    ELSE LET n == PushF(st, r.pushes[k].id, r.pushes[k].size, k, r.mr, r.mb)
         IN SpecRun([initialized |-> n.initialized, cur |-> n.cur, pending |-> n.pending,
                     pendingBytes |-> n.pendingBytes], r, k + 1,
                    [outs |-> Append(acc.outs, n.out),
                     held |-> Append(acc.held, Cardinality(PendingIds(n.pending))),
                     bytes |-> Append(acc.bytes, n.pendingBytes)])

Conforms(r) ==
    LET ids == {r.pushes[k].id : k \in 1..Len(r.pushes)}
        s == SpecRun([initialized |-> FALSE, cur |-> 0, pending |-> [i \in ids |-> None],
                      pendingBytes |-> 0], r, 1, [outs |-> <<>>, held |-> <<>>, bytes |-> <<>>])
    IN s.outs = r.outs /\ s.held = r.held /\ s.bytes = r.heldBytes

Verdicts == l >= 1 => RunVerdict(Trace[l], l)
Drift    == l >= 1 => (Conforms(Trace[l]) \/ Emit("DRIFT", [l |-> l, run |-> Trace[l].run]))
Accepted == TLCGet("stats").diameter - 1 = Len(Trace)
=============================================================================
