------------------------------ MODULE TraceWire ------------------------------
(* Trace validation for C32. One ndjson record per case of Wire.tla executed on the REAL codecs:
     id, value, mut, obs: [encLen, inLen, panicked, err, alloc, dec (when decoding succeeded),
                           bytes (varint cases)]
   The harness encodes `value` with the real encoder, applies the malformation `mut` to the bytes,
   decodes with the real decoder under recover() and measures the bytes allocated meanwhile
   (runtime.MemStats.TotalAlloc). TLC evaluates the statement's formulas (Wire.tla layer 2).       *)
EXTENDS Wire

Trace == ndJsonDeserialize("C32_trace.ndjson")

VARIABLE l
TraceInit == l = 0 /\ kind = "varint"
TraceNext == l < Len(Trace) /\ l' = l + 1 /\ UNCHANGED kind
TraceSpec == TraceInit /\ [][TraceNext]_<<l, kind>>

Base(r) == r.mut.op = "none"

MonOK(r, mon) ==
    CASE mon = "NoPanic"      -> NoPanic(r.obs)
      [] mon = "AllocBounded" -> r.obs.panicked \/ AllocBounded(r.value.kind, r.obs)
      [] mon = "RoundTrip"    -> (Base(r) /\ ~r.obs.panicked) => RoundTrip(r.value, r.obs)
      [] mon = "LenAsSpec"    -> Base(r) => LenAsSpec(r.value, r.obs)
      [] mon = "VarintBytes"  -> (Base(r) /\ r.value.kind = "varint") => VarintBytes(r.value, r.obs)

Monitors == {"NoPanic", "AllocBounded", "RoundTrip", "LenAsSpec", "VarintBytes"}

Verdicts == l >= 1 => \A mon \in Monitors :
                Monitor(MonOK(Trace[l], mon), [l |-> l, id |-> Trace[l].id, monitor |-> mon])

\* conformance with the spec's expectation (never a verdict)
Conforms(r) == r.obs.panicked \/ ((r.mut.exp = "err" => r.obs.err) /\ (r.mut.exp = "ok" => ~r.obs.err))
Drift    == l >= 1 => (Conforms(Trace[l]) \/ Emit("DRIFT", [l |-> l, id |-> Trace[l].id]))
Accepted == TLCGet("stats").diameter - 1 = Len(Trace)
=============================================================================
