-------------------------------- MODULE Wire --------------------------------
(* C32  MoQ wire codecs round-trip and reject malformed input safely
   (internal/protocols/moq/{varint, namespace, parameter, property, controlmessage, subgroup})

   The specification works on the framing, not on bytes: a wire value is a sequence of TOKENS
   [n |-> length in bytes, role |-> what the token means]; the variable-length integer is specified
   by its length classes (value class -> encoded length, first-byte prefix); every composite type is
   a grammar over length-prefixed tokens, with the protocol limits as constants.

   Layer 2 (the statement):
     RoundTrip    Decode(Encode(v)) = v                      (judged on what the real codec returned)
     LenAsSpec    len(Encode(v)) = Total(Layout(v))
     NoPanic      decoding any byte string fails or succeeds, it never panics
     AllocBounded decoding allocates no more than the protocol limits allow
   Whether a malformed input is rejected or accepted is left open, as in the statement; the spec's
   expectation (`exp`) is compared for conformance only (DRIFT).

   TLC enumerates structured values (boundary value of every length class, 0-2 elements per list,
   every message type) and, from the token layout of each, structured malformations: truncation at
   every offset (short encodings) or at every token boundary +-1, a length field larger than what
   remains, counts and lengths beyond the limits, unknown types.                                  *)
EXTENDS VerifCommon, SequencesExt

\* ---- protocol limits (draft-17/18/19 and the implementation's caps)
MaxFields      == 32            \* namespace fields
MaxPropsLen    == 131072        \* bytes of properties per object
MaxPayload     == 10485760      \* bytes of payload per object
MaxCtrlPayload == 65535         \* 16-bit length of a control message

\* ---- the variable-length integer: boundary values of the nine length classes
\* s: the value in decimal (TLC integers are 32-bit), k: encoded length, n: the value where it fits
V(s, k, n) == [s |-> s, k |-> k, n |-> n]
VTab == << V("0", 1, 0),                    V("127", 1, 127),
           V("128", 2, 128),                V("16383", 2, 16383),
           V("16384", 3, 16384),            V("2097151", 3, 2097151),
           V("2097152", 4, 2097152),        V("268435455", 4, 268435455),
           V("268435456", 5, 268435456),    V("34359738367", 5, -1),
           V("34359738368", 6, -1),         V("4398046511103", 6, -1),
           V("4398046511104", 7, -1),       V("562949953421311", 7, -1),
           V("562949953421312", 8, -1),     V("72057594037927935", 8, -1),
           V("72057594037927936", 9, -1),   V("18446744073709551615", 9, -1),
           V("9223372036854775807", 9, -1), V("9223372036854775808", 9, -1) >>
VVals   == {VTab[i].s : i \in DOMAIN VTab}
VRec(s) == VTab[CHOOSE i \in DOMAIN VTab : VTab[i].s = s]
VLen(s) == VRec(s).k
\* encoded length of a small number (lengths and counts)
VLenN(n) == IF n < 128 THEN 1 ELSE IF n < 16384 THEN 2 ELSE IF n < 2097152 THEN 3
            ELSE IF n < 268435456 THEN 4 ELSE 5
\* first byte of a k-byte encoding lies in [PrefixLo(k), PrefixHi(k)]
PrefixLo(k) == <<0, 128, 192, 224, 240, 248, 252, 254, 255>>[k]
PrefixHi(k) == <<127, 191, 223, 239, 247, 251, 253, 254, 255>>[k]
\* the k bytes of value n < 2^31 (big endian, prefix bits in the first byte)
RECURSIVE Pow256(_)
Pow256(i) == IF i = 0 THEN 1 ELSE 256 * Pow256(i - 1)
ByteOf(n, i) == IF i >= 4 THEN 0 ELSE (n \div Pow256(i)) % 256     \* i-th byte from the right
VBytes(n, k) == [j \in 1..k |-> IF j = 1 THEN (IF k >= 8 THEN PrefixLo(k) ELSE PrefixLo(k) + ByteOf(n, k - 1))
                                ELSE ByteOf(n, k - j)]

\* ---- tokens and layouts
T(n, role) == [n |-> n, role |-> role]
RECURSIVE Total(_)
Total(lay) == IF lay = <<>> THEN 0 ELSE Head(lay).n + Total(Tail(lay))
Off(lay, i) == Total(SubSeq(lay, 1, i - 1))          \* offset of token i (i = Len+1: the end)

\* byte strings are [len, fill]: the harness fills them with a pattern derived from `fill`
BF(len, fill) == [len |-> len, fill |-> IF len = 0 THEN 0 ELSE fill]
BytesTok(b)   == IF b.len = 0 THEN <<>> ELSE <<T(b.len, "bytes")>>
StrLayout(b)  == <<T(VLenN(b.len), "strlen")>> \o BytesTok(b)
Cat(f)        == Flatten(f)                           \* f: a sequence of layouts

NsLayout(parts) == <<T(VLenN(Len(parts)), "count")>> \o Cat([i \in 1..Len(parts) |-> StrLayout(parts[i])])

\* AUTHORIZATION_TOKEN parameter: type delta, length, alias type (3 = use value), token type, value
ParamInner(p)   == 1 + VLen(p.tt) + p.val.len
ParamLayout(p)  == <<T(1, "ptype"), T(VLenN(ParamInner(p)), "strlen"), T(1, "alias"), T(VLen(p.tt), "val")>>
                   \o BytesTok(p.val)
ParamsLayout(ps) == Cat([i \in 1..Len(ps) |-> ParamLayout(ps[i])])

\* timestamp property: type delta, value
PropsLayout(ts) == Cat([i \in 1..Len(ts) |-> <<T(1, "proptype"), T(VLen(ts[i]), "val")>>])

SetupLike == {"Setup", "ClientSetup", "ServerSetup"}
Opt(b) == IF b.len = 0 THEN <<>> ELSE <<T(1, "opttype")>> \o StrLayout(b)
PCount(m) == <<T(VLenN(Len(m.params)), "pcount")>>
CtrlPayload(m) ==
    CASE m.type \in SetupLike -> Opt(m.path) \o Opt(m.authority)
      [] m.type = "Subscribe" ->
            <<T(VLen(m.requestID), "val")>> \o NsLayout(m.ns) \o StrLayout(m.trackName)
            \o PCount(m) \o ParamsLayout(m.params)
      [] m.type = "SubscribeOk" ->
            <<T(VLen(m.trackAlias), "val")>> \o PCount(m) \o ParamsLayout(m.params) \o PropsLayout(m.props)
      [] m.type = "Publish" ->
            <<T(VLen(m.requestID), "val")>> \o NsLayout(m.ns) \o StrLayout(m.trackName)
            \o <<T(VLen(m.trackAlias), "val")>> \o PCount(m) \o ParamsLayout(m.params) \o PropsLayout(m.props)
      [] m.type \in {"PublishOk", "RequestOk"} ->
            PCount(m) \o ParamsLayout(m.params) \o PropsLayout(m.props)
      [] m.type = "RequestError" ->
            <<T(VLen(m.code), "val"), T(1, "retry")>> \o StrLayout(m.reason)
CtrlLayout(m) == <<T(IF m.type = "Setup" THEN 2 ELSE 1, "mtype"), T(2, "msglen16")>> \o CtrlPayload(m)

\* subgroup stream: header, one object, the end-of-group object
SgLayout(g) ==
    LET pl == PropsLayout(g.ts) IN
    <<T(1, "hdr"), T(VLen(g.alias), "val"), T(VLen(g.group), "val"), T(VLen(g.idDelta), "val")>>
    \o (IF g.props THEN <<T(VLenN(Total(pl)), "propslen")>> \o pl ELSE <<>>)
    \o <<T(VLenN(g.payload.len), "paylen"), T(g.payload.len, "bytes")>>
    \o <<T(1, "val")>> \o (IF g.props THEN <<T(1, "propslen")>> ELSE <<>>) \o <<T(1, "zero"), T(1, "status")>>

Layout(v) ==
    CASE v.kind = "varint"    -> <<T(VLen(v.v), "val")>>
      [] v.kind = "namespace" -> NsLayout(v.parts)
      [] v.kind = "params"    -> ParamsLayout(v.params)
      [] v.kind = "props"     -> PropsLayout(v.ts)
      [] v.kind = "ctrl"      -> CtrlLayout(v)
      [] v.kind = "subgroup"  -> SgLayout(v)

\* ---- layer 2
AllocLimit(kind) ==
    CASE kind = "varint" -> 0
      [] kind = "namespace" -> MaxFields * 16
      [] kind = "params" -> 0
      [] kind = "props" -> 0
      [] kind = "ctrl" -> MaxCtrlPayload + MaxFields * 16
      [] kind = "subgroup" -> MaxPropsLen + MaxPayload
\* what a decoder may allocate: the limits, plus a small multiple of the bytes actually present
\* (copies, strings, element headers), plus constant bookkeeping
AllocBound(kind, inLen) == AllocLimit(kind) + 16 * inLen + 16384

NoPanic(o)            == ~o.panicked
AllocBounded(kind, o) == o.alloc <= AllocBound(kind, o.inLen)
RoundTrip(v, o)       == ~o.err /\ o.dec = v
LenAsSpec(v, o)       == o.encLen = Total(Layout(v))
\* varint only: first byte in the prefix range of the length class; exact bytes where the value fits
VarintBytes(v, o) ==
    LET r == VRec(v.v) IN
    /\ Len(o.bytes) = r.k
    /\ o.bytes[1] >= PrefixLo(r.k) /\ o.bytes[1] <= PrefixHi(r.k)
    /\ r.n >= 0 => o.bytes = VBytes(r.n, r.k)

\* ---- malformations derived from a layout
Huge   == "4611686018427387904"          \* 2^62
Max64  == "18446744073709551615"
HV(val, exp) == [val |-> val, exp |-> exp]
Hostile(role, rem) ==
    CASE role = "strlen"   -> {HV(ToString(rem + 1), "err"), HV(Huge, "err"), HV(Max64, "err")}
      [] role = "count"    -> {HV("33", "err"), HV("1048576", "err"), HV(Huge, "err")}
      [] role = "pcount"   -> {HV("1048576", "err"), HV(Huge, "err"), HV("9223372036854775808", "err")}
      [] role = "propslen" -> {HV(ToString(rem + 1), "err"), HV("131072", "open"), HV("131073", "err"), HV(Huge, "err")}
      [] role = "paylen"   -> {HV("10485760", "open"), HV("10485761", "err"), HV("41943040", "err"), HV(Huge, "err")}
      [] role = "ptype"    -> {HV("1", "open"), HV("4", "open"), HV("16384", "open")}
      [] role = "proptype" -> {HV("1", "open"), HV("2", "open"), HV("7", "open"), HV("16384", "open")}
      [] role = "opttype"  -> {HV("0", "open"), HV("2", "open"), HV("3", "open")}
      [] role = "alias"    -> {HV("0", "err"), HV("4", "err")}
      [] role = "mtype"    -> {HV("2", "err"), HV("63", "err"), HV("3", "open"), HV("29", "open")}
      [] role = "status"   -> {HV("0", "err"), HV("5", "err"), HV("4", "open")}
      [] role = "val"      -> {HV(Max64, "open")}
      [] OTHER             -> {}

CutOffsets(lay) ==
    LET tot  == Total(lay)
        offs == {Off(lay, i) : i \in 1..(Len(lay) + 1)}
        near == UNION {{o - 1, o, o + 1} : o \in offs}
    IN IF tot <= 40 THEN 0..(tot - 1) ELSE near \cap (0..(tot - 1))

NoMut == [op |-> "none", at |-> 0, oldn |-> 0, val |-> "", exp |-> "ok", role |-> ""]
Muts(lay) ==
    {[op |-> "cut", at |-> o, oldn |-> 0, val |-> "", exp |-> "open", role |-> ""] : o \in CutOffsets(lay)}
    \cup UNION {
         IF lay[i].role = "msglen16"
         THEN {[op |-> "set16", at |-> Off(lay, i), oldn |-> 2, val |-> h.val, exp |-> h.exp, role |-> "msglen16"] :
                 h \in {HV(ToString(Total(lay) - Off(lay, i + 1) + 1), "err"), HV("65535", "open"), HV("0", "open")}}
         ELSE IF lay[i].role = "hdr"
         THEN {[op |-> "setbyte", at |-> Off(lay, i), oldn |-> 1, val |-> b, exp |-> "open", role |-> "hdr"] :
                 b \in {"0", "129", "255"}}
         ELSE {[op |-> "setvar", at |-> Off(lay, i), oldn |-> lay[i].n, val |-> h.val, exp |-> h.exp, role |-> lay[i].role] :
                 h \in Hostile(lay[i].role, Total(lay) - Off(lay, i + 1))}
         : i \in 1..Len(lay)}

\* ---- the enumerated values
P(tt, l) == [tt |-> tt, val |-> BF(l, 97)]
OneParam  == {P(tt, l) : tt \in {"0", "127", "128", Max64}, l \in {0, 1, 128}}
FewParams == {P("0", 0), P("128", 1), P(Max64, 128)}
ParamLists == {<<>>} \cup {<<p>> : p \in OneParam} \cup {<<p, q>> : p, q \in FewParams}
TsVals  == {"0", "127", "128", "9223372036854775807", "9223372036854775808", Max64}
TsLists == {<<>>} \cup {<<t>> : t \in TsVals} \cup {<<t, u>> : t, u \in {"0", "128", Max64}}
PartLens == {0, 1, 127, 128}
NsLists == {<<>>} \cup {<<BF(a, 65)>> : a \in PartLens} \cup {<<BF(a, 65), BF(b, 66)>> : a, b \in PartLens}
           \cup {[i \in 1..MaxFields |-> BF(1, 64 + i)]}

Varints    == {[kind |-> "varint", v |-> s] : s \in VVals}
Namespaces == {[kind |-> "namespace", parts |-> ps] : ps \in NsLists}
ParamVals  == {[kind |-> "params", params |-> ps] : ps \in ParamLists}
PropVals   == {[kind |-> "props", ts |-> ts] : ts \in TsLists}

PL0 == {<<>>, <<P("128", 1)>>}
TL0 == {<<>>, <<"128">>}
Ctrls ==
    {[kind |-> "ctrl", type |-> t, path |-> BF(a, 47), authority |-> BF(b, 104)] :
        t \in SetupLike, a \in {0, 1, 128}, b \in {0, 1}}
    \cup {[kind |-> "ctrl", type |-> "Subscribe", requestID |-> r, ns |-> ns, trackName |-> BF(tn, 116), params |-> ps] :
        r \in {"0", "16384"}, ns \in {<<>>, <<BF(1, 65), BF(127, 66)>>}, tn \in {0, 128}, ps \in PL0}
    \cup {[kind |-> "ctrl", type |-> "SubscribeOk", trackAlias |-> a, params |-> ps, props |-> ts] :
        a \in {"0", Max64}, ps \in PL0, ts \in TL0}
    \cup {[kind |-> "ctrl", type |-> "Publish", requestID |-> "127", ns |-> <<BF(1, 65)>>, trackName |-> BF(1, 116),
           trackAlias |-> a, params |-> ps, props |-> ts] :
        a \in {"0", "72057594037927936"}, ps \in PL0, ts \in TL0}
    \cup {[kind |-> "ctrl", type |-> t, params |-> ps, props |-> ts] :
        t \in {"PublishOk", "RequestOk"}, ps \in PL0 \cup {<<P("0", 0), P(Max64, 128)>>}, ts \in TL0}
    \cup {[kind |-> "ctrl", type |-> "RequestError", code |-> c, reason |-> BF(l, 114)] :
        c \in {"0", "127", "128"}, l \in {0, 1, 128}}
\* the largest Setup whose payload still fits the 16-bit length: 1 + 3 + 65531 = 65535
CtrlBig == [kind |-> "ctrl", type |-> "Setup", path |-> BF(65531, 47), authority |-> BF(0, 0)]

SG(props, first, alias, group, idd, ts, pl) ==
    [kind |-> "subgroup", props |-> props, first |-> first, alias |-> alias, group |-> group,
     idDelta |-> idd, ts |-> ts, payload |-> BF(pl, 200)]
AG == {<<"0", "0">>, <<"127", "128">>, <<Max64, "72057594037927935">>}
Subgroups ==
    {SG(pr, fi, ag[1], ag[2], "0", ts, pl) :
        pr \in BOOLEAN, fi \in BOOLEAN, ag \in AG, ts \in TL0, pl \in {1, 127, 128, 16384}}
    \cup {SG(TRUE, TRUE, "0", "0", "128", <<Max64>>, 1), SG(FALSE, TRUE, "0", "0", "16384", <<>>, 128)}
\* objects carry properties only when the header announces them (what the server sends)
SubgroupVals == {g \in Subgroups : g.props \/ g.ts = <<>>}
SgBig == SG(TRUE, TRUE, "0", "127", "0", <<"128">>, MaxPayload)

Kinds == {"varint", "namespace", "params", "props", "ctrl", "subgroup"}
Values(kind) ==
    CASE kind = "varint" -> Varints [] kind = "namespace" -> Namespaces [] kind = "params" -> ParamVals
      [] kind = "props" -> PropVals [] kind = "ctrl" -> Ctrls [] kind = "subgroup" -> SubgroupVals
\* values that are only round-tripped (too large to mutate at every boundary cheaply)
OnlyRoundTrip(kind) == CASE kind = "ctrl" -> {CtrlBig} [] kind = "subgroup" -> {SgBig} [] OTHER -> {}
\* subgroups are mutated for one header variant of each shape
Mutated(v) == v.kind # "subgroup" \/ v.first

\* ---- generator model: one state per kind
VARIABLE kind
Init == kind \in Kinds
Next == UNCHANGED kind
Spec == Init /\ [][Next]_kind

\* design check: every enumerated value has a layout whose tokens are non-empty and whose total
\* respects the limits
LayoutsSane ==
    \A v \in Values(kind) \cup OnlyRoundTrip(kind) :
        LET lay == Layout(v) IN
        /\ \A i \in DOMAIN lay : lay[i].n >= 1
        /\ v.kind = "ctrl" => Total(lay) - Off(lay, 3) <= MaxCtrlPayload
        /\ v.kind = "namespace" => Len(v.parts) <= MaxFields

EmitCases ==
    /\ \A v \in Values(kind) \cup OnlyRoundTrip(kind) : Emit("CASE", [value |-> v, mut |-> NoMut])
    /\ \A v \in {w \in Values(kind) : Mutated(w)} :
          \A m \in Muts(Layout(v)) : Emit("CASE", [value |-> v, mut |-> m])
=============================================================================
