SPECIFICATION TraceSpec
CONSTANTS
  Ids = {1}
  Sizes = {1}
  MaxReordered = 1
  MaxPendingBytes = 1
  MaxPushes = 1
INVARIANTS Verdicts Drift
POSTCONDITION Accepted
CHECK_DEADLOCK FALSE
