SPECIFICATION Spec
INVARIANTS LayoutsSane EmitCases
CHECK_DEADLOCK FALSE
