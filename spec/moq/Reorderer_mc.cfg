SPECIFICATION Spec
CONSTANTS
  Ids = {1,2,3,4,5,6}
  Sizes = {1,3}
  MaxReordered = 2
  MaxPendingBytes = 5
  MaxPushes = 5
INVARIANTS InOrder Received Once Immediate BoundedHold CounterExact PendingAhead CurIsLast
CHECK_DEADLOCK FALSE
