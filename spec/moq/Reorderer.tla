------------------------------ MODULE Reorderer ------------------------------
(* C33  MoQ reorderer delivers groups in order with bounded buffering
   (internal/protocols/moq/reorderer/reorderer.go)

   Layer 1: Push follows Reorderer.Push / flushUpTo branch by branch.
   Layer 2: the statement's monitors over the observable history (what was received,
   what was handed on, what is held back after each push).                              *)
EXTENDS VerifCommon, SequencesExt

CONSTANTS Ids,              \* group ids that can be pushed (a set of naturals)
          Sizes,            \* payload sizes
          MaxReordered, MaxPendingBytes,
          MaxPushes

None == [size |-> 0, rc |-> 0]

VARIABLES initialized, cur, pending, pendingBytes,   \* the reorderer's fields
          recv,      \* history: sequence of [id, size]; index = receipt number rc
          handed,    \* history: sequence of [id, rc] handed on, in hand-on order
          out        \* what the last push returned: sequence of [id, rc]
impl == <<initialized, cur, pending, pendingBytes>>
vars == <<impl, recv, handed, out>>

PendingIds(p) == {i \in DOMAIN p : p[i] # None}
Sorted(S) == SetToSortSeq(S, LAMBDA a, b : a < b)

\* flushUpTo(maxId) on pending map p with byte counter b and current id c
\* returns [out, pending, bytes, cur]
FlushUpTo(p, b, c, maxId) ==
    LET first == {i \in PendingIds(p) : i > c /\ i <= maxId}
        \* the consecutive run maxId+1, maxId+2, ... present in p
        Run == {k \in PendingIds(p) : k > maxId /\ \A j \in (maxId+1)..k : j \in PendingIds(p)}
        all == first \cup Run
        ids == Sorted(first) \o Sorted(Run)
        Bytes(S) == FoldSet(LAMBDA i, acc : acc + p[i].size, 0, S)
    IN [out     |-> [k \in 1..Len(ids) |-> [id |-> ids[k], rc |-> p[ids[k]].rc]],
        pending |-> [i \in DOMAIN p |-> IF i \in all THEN None ELSE p[i]],
        bytes   |-> b - Bytes(all),
        cur     |-> IF Run = {} THEN maxId ELSE CHOOSE k \in Run : \A j \in Run : j <= k]

\* Reorderer.Push as a function on a state record st = [initialized, cur, pending, pendingBytes];
\* rc is the receipt number of the pushed subgroup. Returns the new state plus the output.
PushF(st, id, size, rc, mr, mb) ==
    LET sg == [size |-> size, rc |-> rc]
        me == <<[id |-> id, rc |-> rc]>>
    IN IF ~st.initialized
       THEN [st EXCEPT !.initialized = TRUE, !.cur = id] @@ [out |-> me]
       ELSE IF id <= st.cur
       THEN st @@ [out |-> <<>>]                                             \* skipped
       ELSE IF id = st.cur + 1 /\ PendingIds(st.pending) = {}
       THEN [st EXCEPT !.cur = id] @@ [out |-> me]
       ELSE LET p1 == [st.pending EXCEPT ![id] = sg]
                b1 == st.pendingBytes - st.pending[id].size + size
                diff == id - st.cur
                cnt == Cardinality({i \in PendingIds(p1) : i <= id})
            IN IF \/ cnt = diff
                  \/ Cardinality(PendingIds(p1)) > mr
                  \/ b1 > mb
               THEN LET f == FlushUpTo(p1, b1, st.cur, id)
                    IN [initialized |-> TRUE, cur |-> f.cur, pending |-> f.pending,
                        pendingBytes |-> f.bytes, out |-> f.out]
               ELSE [initialized |-> TRUE, cur |-> st.cur, pending |-> p1,
                     pendingBytes |-> b1, out |-> <<>>]

Push(id, size) ==
    /\ Len(recv) < MaxPushes
    /\ LET n == PushF([initialized |-> initialized, cur |-> cur, pending |-> pending,
                       pendingBytes |-> pendingBytes], id, size, Len(recv) + 1,
                      MaxReordered, MaxPendingBytes)
       IN /\ initialized' = n.initialized /\ cur' = n.cur /\ pending' = n.pending
          /\ pendingBytes' = n.pendingBytes /\ out' = n.out
          /\ recv' = Append(recv, [id |-> id, size |-> size])
          /\ handed' = handed \o n.out

Init == /\ initialized = FALSE /\ cur = 0
        /\ pending = [i \in Ids |-> None] /\ pendingBytes = 0
        /\ recv = <<>> /\ handed = <<>> /\ out = <<>>
Next == \E id \in Ids, size \in Sizes : Push(id, size)
Spec == Init /\ [][Next]_vars

\* ------------------------------------------------------------------ layer 2: the statement
\* All monitors are functions of the observable history only: recv, handed, out and the
\* numbers actually held back (held, heldBytes).
StrictlyIncreasing(h) == \A i, j \in 1..Len(h) : i < j => h[i].id < h[j].id
EachWasReceived(r, h) == \A k \in 1..Len(h) : h[k].rc \in 1..Len(r) /\ r[h[k].rc].id = h[k].id
NoneTwice(h)          == \A i, j \in 1..Len(h) : i # j => h[i].rc # h[j].rc
\* the last push (receipt Len(r)) returned o; before it, `before` had been handed on
ImmediateIfNext(r, h, o) ==
    LET before == SubSeq(h, 1, Len(h) - Len(o)) IN
    (Len(r) >= 1 /\ Len(before) >= 1 /\ r[Len(r)].id = before[Len(before)].id + 1)
        => (Len(o) >= 1 /\ o[1].rc = Len(r))
Bounded(held, heldBytes, mr, mb) == held <= mr /\ heldBytes <= mb

HeldNow == Cardinality(PendingIds(pending))
HeldBytesNow == FoldSet(LAMBDA i, acc : acc + pending[i].size, 0, PendingIds(pending))

InOrder      == StrictlyIncreasing(handed)
Received     == EachWasReceived(recv, handed)
Once         == NoneTwice(handed)
Immediate    == ImmediateIfNext(recv, handed, out)
BoundedHold  == Bounded(HeldNow, HeldBytesNow, MaxReordered, MaxPendingBytes)
\* consistency of the implementation's byte counter (not part of the statement; design check)
CounterExact == pendingBytes = HeldBytesNow
\* everything pending is ahead of the cursor
PendingAhead == \A i \in PendingIds(pending) : i > cur
\* the cursor is the id handed on last
CurIsLast    == handed # <<>> => cur = handed[Len(handed)].id

\* MC view: histories are hidden; the monitors over the history are also checked as
\* step properties below so hiding loses nothing for InOrder/Received/Once.
View == <<impl, Len(recv)>>

\* generator: print each complete push sequence (used with the full state, no VIEW)
EmitRuns == Len(recv) = MaxPushes => Emit("RUN", [pushes |-> recv])
=============================================================================
