"""X03 HLS muxer lifecycle (extension module) — spec/servers/HlsMuxer.tla"""
import json, os, threading
import vf

LEVEL = "model_checking"
LEVEL_TEXT = ("HlsMuxer.tla transcribes the goroutines of internal/servers/hls (Server.run, muxer.run/runInner, muxerInstance.run, "
              "session.initialize; one action per select branch) in an environment that behaves like core/path.go, and states the "
              "module's STATEMENT (S1-S6: one muxer per path and no orphans, always-remux = exactly while ready, on-demand creation / "
              "reuse / close-after, reader slots taken and given back exactly once, crash handling, Close waits) as formulas over "
              "observations. TLC checks the formulas on the bounded model (all interleavings; at every rest point; from rest point "
              "to rest point; the server always comes to rest again), generates one environment walk for every operation at every abstract rest state (exhaustive BFS through a "
              "VIEW), a greedy cover of scenario classes selects from them, each selected walk is replayed on a real hls.Server (real streams, real HTTP "
              "requests, harness path manager), and TLC re-evaluates the same formulas on what the real server showed after every "
              "operation and checks that the run is a behaviour of the model (conformance, DRIFT only)")
LEVEL_NOTE = ("bounded: 2 paths, both configurations (hlsAlwaysRemux with one sourceOnDemand path / on demand), <= 4 environment "
              "operations at rest points / 2 fully interleaved in the quick tier (6 / 4 in the thorough tier), walks of <= 4 (6) operations plus Close; "
              "hlsMuxerCloseAfter = 3 s (activity check every second) is waited for in real time, the 10 s re-creation pause likewise (few walks); time bounds are "
              "only ever used as lower bounds (too early = violation, too late = inconclusive); createInstance failures and session "
              "expiry are not modelled; quiescence of the real server is detected from goroutine states (runtime.Stack), the muxer's "
              "'created automatically' and 'has an instance' are two fields read by name")
TECHNIQUE = ("TLA+ model (TLC): exhaustive bounded MC (safety at rest points, step formulas, liveness of coming to rest) + "
             "TLC-generated environment walks (every operation at every abstract rest state; greedy scenario cover) replayed on the real hls.Server + trace validation of observations and events "
             "(statement formulas) + conformance search against the model")

CFG = """SPECIFICATION %(spec)s
CONSTANTS
  Paths = {"a", "b"}
  Confs <- %(confs)s
  MaxOps = %(ops)d
  MaxMux = %(mux)d
  MaxInst = %(inst)d
  MaxSess = %(sess)d
  MaxHolds = %(holds)d
  MaxIdle = %(idle)d
  MaxPause = %(pause)d
  MaxWait = %(wait)d
  Atomic = %(atomic)s
  Record = %(record)s
  GuardClose = TRUE
%(rest)s
CHECK_DEADLOCK FALSE
"""


def write_cfg(d, name, **kw):
    p = dict(spec="Spec", confs="ConfsBoth", ops=4, holds=1, idle=1, pause=1, wait=1, atomic="TRUE", record="FALSE", rest="")
    p.update(kw)
    p.setdefault("mux", p["ops"] + 2)
    p.setdefault("inst", 2 * p["ops"] + 2)
    p.setdefault("sess", max(p["ops"], 1))
    with open(os.path.join(d, name), "w") as fh:
        fh.write(CFG % p)
    return name


def scenario(conf, o):
    """The class of an (abstract state, operation) pair: the operation, the configuration and what exists on the
    operation's own path (for operations without a path: what exists anywhere)."""
    v = o["v"]

    def summ(m):
        return (m["auto"], m["shown"], m["inst"], m["sess"], m["pc"] == "exit", m["life"])
    if o["p"]:
        mx = sorted(summ(m) for m in v["mx"] if m["p"] == o["p"])
        return json.dumps([conf["always"], o["p"] in conf["sod"], v["srv"], o["k"], o["p"] in v["ready"], o["p"] in v["held"], mx])
    return json.dumps([conf["always"], v["srv"], o["k"], len(v["held"]) > 0, sorted(set(summ(m) for m in v["mx"]))])


def select_walks(cands, seed, n_pause, n_idle, n_plain):
    """Greedy cover of the scenario classes; walks with a pause / an idle operation are rationed (they wait in real time)."""
    import random
    rnd = random.Random(seed)
    uniq = {}
    for c in cands:
        key = json.dumps([c["conf"], c["init"], [(o["k"], o["p"], o["s"]) for o in c["ops"]]], sort_keys=True)
        uniq.setdefault(key, c)
    pool = [uniq[k] for k in sorted(uniq)]
    rnd.shuffle(pool)
    weight, depth = {}, {}
    for c in pool:
        c["_pairs"] = set()
        for i, o in enumerate(c["ops"]):
            sc = scenario(c["conf"], o)
            c["_pairs"].add(sc)
            depth[sc] = min(depth.get(sc, 99), i + 1)
            # bonus for the classes the expensive machinery exists for:
            #  - time: the walks that wait in real time exist for the operations that involve time (time passes; a
            #    request meets a muxer that has aged or that pauses after a crash), the more so the longer the history
            #    of ageing and refreshing behind them is;
            #  - races: a muxer is held in its teardown (where the races with the server's map are)
            mine = [m for m in o["v"]["mx"] if not o["p"] or m["p"] == o["p"]]
            if o["k"] in ("idle", "wait", "pause"):
                weight[sc] = 10 * (1 + max([m["life"] for m in mine] + [0]))
            elif o["k"] == "open" and any(m["life"] > 0 or (m["auto"] and m["shown"] and not m["inst"]) for m in mine):
                weight[sc] = 10
            elif any(m["pc"] == "exit" for m in mine):
                weight[sc] = 8 if len(mine) >= 2 else 4
            else:
                weight[sc] = 0
    # breadth first: a class that a short walk reaches (the plain scenarios) counts more than a deep one
    for sc in weight:
        weight[sc] += 12.0 / depth[sc]
    for c in pool:
        ks = {o["k"] for o in c["ops"]}
        c["_cls"] = "pause" if "pause" in ks else ("idle" if ("idle" in ks or "wait" in ks) else "plain")
    total = set().union(*[c["_pairs"] for c in pool]) if pool else set()
    budget = {"pause": n_pause, "idle": n_idle, "plain": n_plain}
    covered, chosen = set(), []
    while True:
        best, gain = None, 0
        for c in pool:
            if budget[c["_cls"]] <= 0 or c.get("_used"):
                continue
            g = sum(weight[x] for x in c["_pairs"] - covered)
            if g > gain:
                best, gain = c, g
        if best is None:
            break
        best["_used"] = True
        budget[best["_cls"]] -= 1
        covered |= best["_pairs"]
        chosen.append(best)
    return chosen, len(covered), len(total)


def to_walk(n, c):
    ops = [{"k": o["k"], "p": o["p"], "s": o["s"]} for o in c["ops"]]
    held, closed = set(), False
    for o in ops:
        if o["k"] == "hold":
            held.add(o["p"])
        elif o["k"] == "release":
            held.discard(o["p"])
        elif o["k"] == "close":
            closed = True
    # every walk ends at rest with the server closed (observed like every other step)
    if not closed:
        ops.append({"k": "close", "p": "", "s": 0})
    for p in sorted(held):
        ops.append({"k": "release", "p": p, "s": 0})
    has_idle = any(o["k"] in ("idle", "wait") for o in ops)
    return {"walk": n, "always": c["conf"]["always"], "sod": sorted(c["conf"]["sod"]), "init": sorted(c["init"]),
            "closeAfterMs": 3000 if has_idle else 12000, "ops": ops}


def run(ctx):
    d = ctx.specdir()
    # ---------------------------------------------------------------- bounded model (runs beside the replay)
    mc_err = []

    a_ops = ctx.pick(4, 6)
    lock = threading.Lock()

    def mc(module, cfg, **kw):
        # vf.mc, with the evidence counters updated under a lock (two model-checking threads)
        r = vf.tlc(ctx, module, cfg, **kw)
        with lock:
            ctx.add("states", r.distinct)
            ctx.add("transitions", r.generated)
            ctx.cov.setdefault("mc_runs", []).append(
                {"module": module, "cfg": cfg, "distinct": r.distinct, "generated": r.generated,
                 "depth": r.depth, "wall_s": round(r.wall, 2)})
        return r

    def model_check_atomic():
        try:
            mc("HlsMuxer", write_cfg(d, "HlsMuxer_atomic.cfg", ops=a_ops,
                                     rest="INVARIANTS TypeOK InvRest InvAlways InvStep InvStart"),
               workers=2, timeout=1500)
        except Exception as e:  # re-raised in the main thread
            mc_err.append(e)

    def model_check_inter():
        try:
            # every interleaving of environment and internal steps; the hand-written definition of "at rest" is the absence
            # of enabled internal steps; under weak fairness of the internal steps the server always comes to rest again
            if ctx.thorough:
                mc("HlsMuxer", write_cfg(d, "HlsMuxer_inter.cfg", ops=4, atomic="FALSE",
                                         rest="INVARIANTS TypeOK InvRest InvAlways"),
                   workers=1, timeout=1500)
            mc("HlsMuxer", write_cfg(d, "HlsMuxer_live.cfg", spec="FairSpec", ops=ctx.pick(2, 3), atomic="FALSE",
                                     rest="INVARIANTS TypeOK InvRest InvAlways QuiescentDef\nPROPERTY Progress"),
               workers=1, timeout=1500)
        except Exception as e:  # re-raised in the main thread
            mc_err.append(e)

    def warm_build():
        # compiles the harness into the go build cache while TLC generates the walks (no test is run)
        try:
            vf.gotest(ctx, "./internal/servers/hls/", "^TestVerif_X03_NoSuchTest$", timeout=600)
        except Exception:
            pass

    threading.Thread(target=warm_build, daemon=True).start()
    ths = [threading.Thread(target=f) for f in (model_check_atomic, model_check_inter)]
    if os.environ.get("VERIF_X03_REPLAY_ONLY"):  # development aid (mutant runs): the model is the same, skip it
        ths = []
    for th in ths:
        th.start()
    try:
        replay(ctx, d)
    finally:
        import time
        t1 = time.time()
        for th in ths:
            th.join()
        if os.environ.get("VERIF_X03_TIMES"):
            print("x03 waited %.1fs for the model checker; runs: %s" % (time.time() - t1, ctx.cov.get("mc_runs")), flush=True)
    if mc_err:
        raise mc_err[0]
    ctx.set("exhaustive", True)
    ctx.assume("the path manager / path behave like core/path.go: PathReady / PathNotReady once per transition, a path that stops "
               "being ready drops and Close()s every reader and closes its stream; AddReader succeeds exactly while the path is ready")
    ctx.assume("the harness observes at rest points: no goroutine of the process is running, runnable or in a system call "
               "(three consecutive samples of runtime.Stack, no new event in between)")
    ctx.assume("an instance crash is produced by a frame larger than hlsSegmentMaxSize written into the path's real stream")


def replay(ctx, d):
    import time
    t0 = time.time()

    def lap(what):
        if os.environ.get("VERIF_X03_TIMES"):
            print("x03 %-12s %.1fs" % (what, time.time() - t0), flush=True)
    # ---------------------------------------------------------------- walks from TLC (BFS of the atomic model through GenView)
    # exhaustive over the atomic model seen through GenView: one walk (a shortest one) for every operation at every
    # abstract rest state
    g_ops = ctx.pick(4, 6)
    gen = vf.tlc(ctx, "HlsMuxer", write_cfg(d, "HlsMuxer_gen.cfg", ops=g_ops, mux=g_ops + 2, inst=g_ops + 4, sess=g_ops, record="TRUE",
                                            rest="VIEW GenView\nACTION_CONSTRAINT EmitEdge"),
                 workers=1, timeout=900)
    lap("generated")
    cands = gen.tagged("WALK")
    if len(cands) < 50:
        raise vf.Infra("the generator produced only %d walks" % len(cands))
    n_pause, n_idle, n_plain = ctx.pick((1, 4, 70), (10, 70, 420))
    chosen, cov, tot = select_walks(cands, ctx.seed, n_pause, n_idle, n_plain)
    order = {"pause": 0, "idle": 1, "plain": 2}
    chosen.sort(key=lambda c: order[c["_cls"]])
    walks = [to_walk(i, c) for i, c in enumerate(chosen)]
    # the child processes replay their walks one after the other: balance the expected durations
    nshards = 4
    load = [0.0] * nshards
    for wk, c in zip(walks, chosen):
        sh = load.index(min(load))
        wk["shard"] = sh
        load[sh] += {"pause": 12.0, "idle": 4.5, "plain": 0.5}[c["_cls"]]
    ctx.set("walks_generated", len(cands))
    ctx.set("walks_replayed", len(walks))
    ctx.set("scenario_classes_covered", cov)
    ctx.set("scenario_classes_in_model", tot)
    cases = vf.write_ndjson(ctx.path("walks.ndjson"), walks)
    obsf = ctx.path("obs.ndjson")
    vf.gotest_ok(ctx, "./internal/servers/hls/", "^TestVerif_X03_Replay$", cases=cases, out=obsf,
                 params={"SHARDS": nshards}, timeout=ctx.pick(240, 900))
    lap("replayed")
    obs = sorted(vf.read_ndjson(obsf), key=lambda r: r["walk"])
    if [r["walk"] for r in obs] != list(range(len(walks))):
        raise vf.Infra("harness replayed %d of %d walks" % (len(obs), len(walks)))
    for r in obs:
        if len(r["obs"]) != len(r["ops"]) + 1:
            raise vf.Infra("walk %d: %d observations for %d operations" % (r["walk"], len(r["obs"]), len(r["ops"])))
    # a request that the harness could not complete (network error, HTTP client timeout) is a harness problem
    for r in obs:
        for j, o in enumerate(r["obs"]):
            if o["op"]["k"] == "open" and o["res"] not in ("ok", "error", "notfound"):
                raise vf.Infra("walk %d: the request of operation %d %s ended with %r (feeds=%d)"
                               % (r["walk"], j, json.dumps(o["op"]), o["res"], o["feeds"]))
    # ---------------------------------------------------------------- trace validation: verdicts + conformance
    vf.write_ndjson(os.path.join(d, "X03_trace.ndjson"), obs)
    tv = vf.tlc(ctx, "TraceHlsMuxer",
                write_cfg(d, "HlsMuxer_tv.cfg", spec="TraceSpec", ops=100000, mux=14, inst=24, sess=14, holds=100000,
                          idle=100000, pause=100000, wait=100000,
                          rest='  TraceFile = "X03_trace.ndjson"\nINVARIANT Verdicts'),
                workers=1, timeout=1200, java_opts=["-Xmx6g"])
    lap("validated")
    bads = tv.tagged("BAD")
    for bad in bads:
        r = obs[bad["l"] - 1]
        j = bad["step"]
        o = r["obs"][j - 1] if 1 <= j <= len(r["obs"]) else {}
        prev = r["obs"][j - 2] if j >= 2 else None
        rec = {"monitor": bad["monitor"], "always": r["always"], "op": o.get("op", {}).get("k", "")}
        evs = [e for e in r["events"] if e["st"] == j - 1]

        def short(x):
            return None if x is None else {k: v for k, v in x.items() if k not in ("feeds", "quiet")}
        ctx.violation(rec, "formula %s is false on the real hls.Server (hlsAlwaysRemux=%s, sourceOnDemand paths %s, ready at start %s) "
                           "after operation %d %s: before=%s after=%s; events of that operation: %s; operations so far: %s" % (
                               bad["monitor"], r["always"], r["sod"], r["init"], j - 1, json.dumps(o.get("op")),
                               json.dumps(short(prev), sort_keys=True), json.dumps(short(o), sort_keys=True),
                               json.dumps(evs)[:1500], json.dumps(r["ops"][:max(j - 1, 0)])[:800]))
    badwalks = {b["l"] for b in bads}
    # inconclusive observations are never verdicts; without a failing formula they are infrastructure
    for i, r in enumerate(obs):
        if (i + 1) in badwalks:
            continue
        if r["problem"]:
            raise vf.Infra("walk %d: %s" % (r["walk"], r["problem"]))
        for j, o in enumerate(r["obs"]):
            if not o["quiet"]:
                raise vf.Infra("walk %d: the server did not come to rest within the bound after operation %d %s"
                               % (r["walk"], j, json.dumps(o["op"])))
            if o["res"] == "timeout":
                raise vf.Infra("walk %d: inconclusive: the effect of operation %d %s did not show within the time bound "
                               "(not a verdict): %s" % (r["walk"], j, json.dumps(o["op"]), json.dumps(o, sort_keys=True)[:600]))
    # conformance
    at = {}
    for a in tv.tagged("AT"):
        at[a["w"]] = max(at.get(a["w"], 0), a["k"])
    drift = []
    for i, r in enumerate(obs):
        if at.get(i + 1, 0) < len(r["obs"]):
            drift.append((r, at.get(i + 1, 0)))
    ctx.set("drift_walks", len(drift))
    if drift:
        r, kk = drift[0]
        ctx.note("%d of %d walks of the real server are not behaviours of layer 1 (DRIFT, not a verdict); first: walk %d "
                 "(hlsAlwaysRemux=%s) could be followed for %d of %d observations; next operation %s; observation %s"
                 % (len(drift), len(obs), r["walk"], r["always"], kk, len(r["obs"]), json.dumps(r["obs"][kk]["op"]),
                    json.dumps({k: v for k, v in r["obs"][kk].items() if k != "readers"}, sort_keys=True)[:900]))
    nobs = sum(len(r["obs"]) for r in obs)
    ctx.set("traces_validated_against_impl", len(obs))
    ctx.set("observations_validated", nobs)
    ctx.set("events_validated", sum(len(r["events"]) for r in obs))
    ctx.set("conformance_states", tv.distinct)
    ops_count = {}
    for r in obs:
        for o in r["ops"]:
            ops_count[o["k"]] = ops_count.get(o["k"], 0) + 1
    ctx.set("operations_replayed", ops_count)
    for r in obs[:1] + obs[-1:]:
        ctx.sample({"walk": r["walk"], "always": r["always"], "init": r["init"], "ops": r["ops"],
                    "shown_after_each": [[(m["p"], m["id"], m["inst"]) for m in o["muxers"]] for o in r["obs"]]})
