"""C44 API list pagination partitions results — spec/http/Paginate.tla"""
import vf

LEVEL = "model_checking"


def run(ctx):
    # MC + GEN: bounded model, layer 1 |= layer 2, one case per (n, ipp, page)
    r = vf.mc(ctx, "Paginate", "Paginate_gen.cfg", workers=4, timeout=300)
    cases = []
    for i, c in enumerate(r.tagged("CASE")):
        cases.append({"id": i, "in": {"n": c["n"], "ipp": c["ipp"], "page": c["page"]},
                      "exp": {"err": c["err"], "pc": c["pc"], "items": c["items"]}})
    if len(cases) < 1000:
        raise vf.Infra("generator produced only %d cases" % len(cases))
    cf = vf.write_ndjson(ctx.path("cases.ndjson"), cases)
    of = ctx.path("obs.ndjson")
    tf = ctx.specdir() + "/C44_trace.ndjson"
    vf.gotest_ok(ctx, "./internal/api/", "^TestVerif_C44_Replay$", cases=cf, out=of)
    n = vf.compare_cases(ctx, cases, vf.read_ndjson(of))
    ctx.set("cases_enumerated", n)
    ctx.set("exhaustive", True)
    ctx.sample(cases[len(cases) // 2])

    # TV: random lists / parameters through function and HTTP endpoint, judged by TLC
    vf.gotest_ok(ctx, "./internal/api/", "^TestVerif_C44_Trace$", out=tf,
                 params={"RUNS": ctx.pick(150, 3000), "HTTPRUNS": ctx.pick(25, 300)})
    recs = vf.read_ndjson(tf)
    tv = vf.tlc(ctx, "TracePaginate", "TracePaginate.cfg", workers=1, timeout=900)
    for bad in tv.tagged("BAD"):
        rec = recs[bad["l"] - 1]
        small = {k: rec[k] for k in ("via", "n", "ippTok", "pc", "err")}
        ctx.violation({"trace": small}, "pagination property violated on observed record %s pages=%s" % (
            small, str(rec.get("pages"))[:400]))
    ctx.set("traces_validated_against_impl", n + len(recs))
    ctx.set("trace_records", len(recs))
    ctx.sample({"trace_record": {k: recs[0][k] for k in ("via", "n", "ippTok", "pc")}})
    ctx.assume("Go's strconv is not re-verified; validity of parameter tokens is fixed by the spec's token table")
