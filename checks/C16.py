"""C16 At most one publisher per path; replaced publishers are cut off — spec/core/Path.tla"""
import pathcheck

LEVEL = "model_checking"
LEVEL_TEXT = ("Path.tla transcribes the path event loop; TLC checks AtMostOneSource / RejectedUnlessOverride / "
              "ClosedBeforeAttach on every behaviour of the bounded model; edge-covering walks of the state graph are "
              "replayed on the real pathManager+path and TLC evaluates the same monitors on the observed events")
LEVEL_NOTE = ("2 publishers, 2 readers, 1 describe; sequential requests; publishers write units through the (possibly stale) "
              "sub-stream handles they hold and harness stream readers report which publisher's unit reached them; "
              "alwaysAvailable profiles included")


def run(ctx):
    pathcheck.run(ctx, "C16_", ctx.pick(["pub_override", "aa_override"],
                                        ["pub_override", "pub_nooverride", "odpub_override", "rx", "aa_override", "aa_nooverride"]),
                  ["MonC16"])
