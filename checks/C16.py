"""C16 At most one publisher per path; replaced publishers are cut off — spec/core/Path.tla"""
import pathcheck
import stalewriter

LEVEL = "model_checking"
LEVEL_TEXT = ("Path.tla transcribes the path event loop; TLC checks AtMostOneSource / RejectedUnlessOverride / "
              "ClosedBeforeAttach on every behaviour of the bounded model; edge-covering walks of the state graph are "
              "replayed on the real pathManager+path and TLC evaluates the same monitors on the observed events; second "
              "stage (StaleWriter.tla): the lock protocol between a replaced publisher's WriteUnit, the replacement's "
              "SubStream.Initialize and a third-party read-lock holder is model-checked (writer-preferring RW lock) and every "
              "gate schedule of the model is replayed on a real stream.Stream with goroutine parking observed through "
              "runtime.Stack; TLC judges 'no unit of the replaced publisher reaches a reader after the swap'")
LEVEL_NOTE = ("2 publishers, 2 readers, 1 describe; sequential requests; publishers write units through the (possibly stale) "
              "sub-stream handles they hold and harness stream readers report which publisher's unit reached them; "
              "alwaysAvailable profiles included; the stale-writer stage relies on the sync.RWMutex contract (a pending Lock "
              "blocks new RLocks)")


def run(ctx):
    pathcheck.run(ctx, "C16_", ctx.pick(["pub_override", "aa_override"],
                                        ["pub_override", "pub_nooverride", "odpub_override", "rx", "aa_override", "aa_nooverride"]),
                  ["MonC16"])
    stalewriter.run(ctx)
