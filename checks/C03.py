"""C03 Every media publish or read is authorized for that path and action — spec/auth/AuthFlow.tla"""
import json
import threading
import time

import vf

LEVEL = "model_checking"
LEVEL_TEXT = ("AuthFlow.tla models the calls protocol handlers make into the path manager (FindPathConf, Describe, AddReader, "
              "AddPublisher with / without skipAuth and ConfToCompare) interleaved with configuration reloads; TLC checks "
              "AttachOnlyIfAdmitted, SkipAuthOnlyAfterAuth and PublisherConfStillInForce for every flow shape and admission outcome "
              "and enumerates the scenario space; every scenario is played by a real client (gortsplib, gortmplib, gosrt, quic-go, the WHIP client, net/http) "
              "against a real core.Core whose path manager's authManager is wrapped by a recorder; TLC evaluates the statement on "
              "the recorded Authenticate calls, reloads and the attachment read from the path manager's API; 'admitted' is C01's "
              "statement formula over the configured users")
LEVEL_NOTE = ("routes: direct path-manager calls (FindPathConf, AddPublisher with ConfToCompare), real clients for RTSP, RTMP, SRT, MoQ over native QUIC (publish and read), WebRTC WHIP/WHEP (every credential placement at HTTP level; real sessions with the repository's WHIP client over loopback ICE: 9 in quick, the whole space in thorough), HLS (read through a session; media requested directly while the path's CDN session exists); HLS and WebRTC both behind the trusted proxy 127.0.0.1 (client IP = forwarded address) and, on a second Core, with an empty trusted-proxy list (client IP = TCP peer, forged X-Forwarded-For / X-Real-IP); "
              "MoQ over WebTransport, RTSPS and RTMPS are not bound; reload between authorization and attachment (none / another entry / non-hot field / only a hot-reloadable "
              "field of the same entry / name re-homed to a new exact entry; effect measured at the path manager) is "
              "client-driven (RTSP: ANNOUNCE..RECORD, RTMP / SRT: accepted publish request..first tracks); one fresh path name per scenario")
TECHNIQUE = "TLA+ model (TLC): exhaustive bounded MC + generated scenarios replayed on a real Core + trace validation"

PKG = "./internal/core/"


def _full_wanted(ctx, x, rep):
    """WebRTC sessions over loopback ICE take seconds each: a handful in the quick tier, one pass of the
    whole space (client address inside / outside the allowed host) in the thorough tier"""
    if x["proxy"] == "none":
        # no trusted proxy, forged forwarding headers: the IP-restricted user and an unrestricted one
        return rep == 0 and x["reload"] == "none" and x["cls"] == "a" and (ctx.thorough or x["cred"] in ("dave", "alice"))
    if ctx.thorough:
        return rep == 0 and x["ip"] != "10.0.0.50"
    key = (x["action"], x["cred"], x["cls"], x["reload"], x["ip"])
    return key in {
        ("publish", "alice", "a", "none", "10.0.0.5"), ("publish", "alice", "a", "hot", "10.0.0.5"),
        ("publish", "reader", "a", "none", "10.0.0.5"), ("publish", "puba", "b", "none", "10.0.1.5"),
        ("publish", "dave", "a", "none", "10.0.0.50"),
        ("read", "alice", "a", "none", "10.0.1.5"), ("read", "puba", "a", "none", "10.0.0.5"),
        ("read", "none", "b", "none", "10.0.0.5"), ("read", "dave", "a", "none", "10.0.0.5"),
    }


def run(ctx):
    d = ctx.specdir()
    t0 = time.time()
    phases = {}
    with open(d + "/AuthFlow_mc.cfg", "w") as fh:
        fh.write('SPECIFICATION Spec\nCONSTANTS\n  Sessions = {%s}\n  Names = {"n1", "n2"}\n  MaxVer = %d\n'
                 'INVARIANTS AttachOnlyIfAdmitted SkipAuthOnlyAfterAuth PublisherConfStillInForce\nCHECK_DEADLOCK FALSE\n'
                 % (ctx.pick('"s1", "s2"', '"s1", "s2", "s3"'), ctx.pick(2, 3)))
    warm = threading.Thread(target=lambda: vf.gotest(ctx, PKG, "^TestVerif_C03_none$"))
    warm.start()
    try:
        r = vf.mc(ctx, "AuthFlow", "AuthFlow_mc.cfg", workers=4, timeout=900)
    finally:
        warm.join()
    scen = sorted(r.tagged("SCEN"), key=lambda x: json.dumps(x, sort_keys=True))
    users = r.tagged("USERS")
    if len(scen) < 100 or len(users) != 1:
        raise vf.Infra("generator: %d scenarios, %d USERS lines" % (len(scen), len(users)))
    phases["tlc_mc_gen_and_go_build"] = round(time.time() - t0, 1)
    t0 = time.time()

    reps = ctx.pick(1, 4)
    cases = []
    for rep in range(reps):
        for x in scen:
            if x["mode"] == "full" and not _full_wanted(ctx, x, rep):
                continue
            if x["mode"] == "http" and rep > 0:
                continue
            cid = len(cases) + 1
            c = {k: x[k] for k in ("proto", "mode", "place", "action", "cls", "cred", "user", "pass", "ip", "reload", "proxy")}
            c["id"] = cid
            c["name"] = "vf%s%dr%ds%s" % (x["cls"], cid, rep, ctx.seed)
            cases.append(c)
    cf = ctx.path("cases.ndjson")
    vf.write_ndjson(cf, [{"setup": {"users": users[0]["users"]}}] + cases)
    tf = d + "/C03_trace.ndjson"
    vf.gotest_ok(ctx, PKG, "^TestVerif_C03_Scenarios$", cases=cf, out=tf, timeout=900, params={"PAR": 64})
    recs = sorted(vf.read_ndjson(tf), key=lambda x: x["id"])
    if len(recs) != len(cases):
        raise vf.Infra("harness played %d of %d scenarios" % (len(recs), len(cases)))
    vf.write_ndjson(tf, recs)
    phases["go_replay"] = round(time.time() - t0, 1)
    t0 = time.time()

    with open(d + "/TraceAuthFlow.cfg", "w") as fh:
        fh.write('SPECIFICATION TraceSpec\nCONSTANTS\n  Sessions = {"s1"}\n  Names = {"n1"}\n  MaxVer = 1\n'
                 'INVARIANTS Verdicts Drift\nPOSTCONDITION Accepted\nCHECK_DEADLOCK FALSE\n')
    tv = vf.tlc(ctx, "TraceAuthFlow", "TraceAuthFlow.cfg", workers=1, timeout=900)
    seen = set()
    for bad in tv.tagged("BAD"):
        if bad["l"] in seen:
            continue
        seen.add(bad["l"])
        x = recs[bad["l"] - 1]
        rec = {k: x[k] for k in ("proto", "mode", "place", "action", "cls", "cred", "ip", "reload", "proxy")}
        rec["attached"] = x["attached"]
        ctx.violation(rec, "%s %s of path %s (class %s) with credentials %s (placement %s) from %s, reload between authorization and attachment: %s: "
                           "the client is attached although the statement's conditions do not hold; Authenticate calls and "
                           "reloads seen for this path: %s (client: %s)" % (
                               x["proto"], x["action"], x["name"], x["cls"], x["cred"], x["place"], x["ip"], x["reload"],
                               json.dumps(x["events"])[:1500], x.get("note", "")))
    drift = list({x["l"]: x for x in tv.tagged("DRIFT")}.values())
    for dd in drift[:4]:
        x = recs[dd["l"] - 1]
        ctx.note("DRIFT scenario %s: attached=%s, manager answers agree with the statement=%s, note=%s, events=%s" % (
            {k: x[k] for k in ("proto", "mode", "place", "action", "cls", "cred", "ip", "reload")}, x["attached"], dd["agree"],
            x.get("note", ""), json.dumps(x["events"])[:500]))
    phases["tlc_trace_validation"] = round(time.time() - t0, 1)
    ctx.set("phase_wall_s", phases)
    ctx.set("traces_validated_against_impl", len(recs))
    ctx.set("scenarios", len(recs))
    ctx.set("scenarios_attached", sum(1 for x in recs if x["attached"]))
    ctx.set("authenticate_calls_recorded", sum(1 for x in recs for e in x["events"] if e["op"] == "auth"))
    ctx.set("reloads", sum(1 for x in recs for e in x["events"] if e["op"] == "reload"))
    ctx.set("drift_events", len(drift))
    ctx.set("exhaustive", False)  # WebRTC sessions over ICE are a subset of their scenario space in both tiers
    if drift:
        ctx.note("%d scenarios differ from layer 1 without violating the statement (DRIFT)" % len(drift))
    if sum(1 for x in recs if x["attached"]) < 10:
        raise vf.Infra("fewer than 10 scenarios ended attached: the replay does not exercise the property")
    for x in recs:
        if x["attached"] and x["action"] == "publish":
            ctx.sample({k: x[k] for k in ("proto", "action", "name", "cred", "ip", "reload", "events", "attached")})
            break
    for x in recs:
        if x["reload"] in ("hot", "rehome") and not x["attached"] and any(e["op"] == "auth" and e["ok"] for e in x["events"]):
            ctx.sample({k: x[k] for k in ("proto", "action", "name", "cred", "ip", "reload", "events", "attached", "note")})
            break
    ctx.assume("'admitted' is the statement formula of C01 (AuthInternal.tla: EntryF, GrantF) over the users of AuthFlow.tla")
    ctx.assume("the recorder sits at pathManager.authManager: an attachment that bypasses the path manager would not be seen "
               "as authenticated and would be reported")
    ctx.assume("attachment is what the path manager's API lists (source / readers) shortly after the client's handshake")
