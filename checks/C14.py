"""C14 Path configuration resolution is deterministic and precedence-correct — spec/conf/PathName.tla (ResolveSet)"""
import json, os
import vf

LEVEL = "model_checking"
LEVEL_TEXT = ("PathName.tla states validity (character sequences), the order of regular-expression keys and the resolution "
              "outcome; TLC enumerates every name of the bounded model and every configuration set, checks the code-shaped "
              "FindPathConf model against the statement, and judges what the real conf.FindPathConf returned for every "
              "(set, name) over repeated calls on freshly built maps")
LEVEL_NOTE = ("bounded: names of length <= 2 (thorough 3) over {c,a,m,b,0,/,.,~,e-acute} plus ~100 shapes and seeded random "
              "mutations; subsets (<= 3; quick: all of size <= 2 and 40 sampled of size 3) of 12 keys (9 anchored or static, 3 unanchored expressions) respecting the alias rule; regular-expression matching itself is a table "
              "computed with Go's regexp (trusted)")
TECHNIQUE = "TLA+ spec checked by TLC; TLC-enumerated (configuration, name) pairs replayed into conf.FindPathConf; results judged by TLC"

GEN_CFG = """SPECIFICATION Spec
CONSTANTS
  AlphaSel = "c14"
  MaxLen = %d
INVARIANTS ValidAgree StrictInLoose EmitName
CHECK_DEADLOCK FALSE
"""

MC_CFG = """SPECIFICATION MCSpec
CONSTANTS
  AlphaSel = "c14"
  MaxLen = 0
INVARIANTS TablesOK ImplInSpec Verdict
CHECK_DEADLOCK FALSE
"""


def s(chars):
    return "".join(chars)


def run(ctx):
    d = ctx.specdir()
    maxlen = ctx.pick(2, 3)
    with open(d + "/PathNameGen_c14.cfg", "w") as fh:
        fh.write(GEN_CFG % maxlen)
    g = vf.mc(ctx, "PathNameGen", "PathNameGen_c14.cfg", workers=4, timeout=600)
    keys = sorted(g.tagged("KEY"), key=lambda k: k["idx"])
    cfgs = [sorted(c["keys"]) for c in g.tagged("CFG")]
    cfgs.sort()
    all_sets = len(cfgs)
    if not ctx.thorough:
        # quick: every set of at most two keys and a seeded sample of the three-key sets
        import random
        rnd = random.Random(int(ctx.seed) * 104729 + 14)
        triples = [c for c in cfgs if len(c) == 3]
        cfgs = sorted([c for c in cfgs if len(c) < 3] + rnd.sample(triples, min(40, len(triples))))
    tlc_names = [x["chars"] for x in g.tagged("NAME")]
    if len(keys) < 8 or len(cfgs) < 50 or len(tlc_names) < 80:
        raise vf.Infra("generator produced %d keys, %d sets, %d names" % (len(keys), len(cfgs), len(tlc_names)))
    names = []
    seen = set()
    shapes = json.load(open(d + "/PathNameShapes.json"))["names"]
    for nm in [s(x) for x in tlc_names] + shapes:
        if nm not in seen:
            seen.add(nm)
            names.append(nm)
    case = {"keys": [{"idx": k["idx"], "s": s(k["chars"]), "regex": k["regex"], "src": s(k["src"])} for k in keys],
            "cfgs": cfgs, "names": names}
    cf = vf.write_ndjson(ctx.path("c14_cases.ndjson"), [case])
    of = ctx.path("c14_out.ndjson")
    vf.gotest_ok(ctx, "./internal/conf/", "^TestVerif_C14_Resolve$", cases=cf, out=of,
                 params={"REPS": ctx.pick(24, 48), "RANDOM": ctx.pick(200, 1500)})
    rows, obs = [], []
    for rec in vf.read_ndjson(of):
        (rows if rec["t"] == "name" else obs).append(rec)
    rows.sort(key=lambda r: r["n"])
    obs.sort(key=lambda r: r["c"])
    if len(obs) != len(cfgs) or len(rows) < len(names):
        raise vf.Infra("harness returned %d/%d sets, %d/%d names" % (len(obs), len(cfgs), len(rows), len(names)))
    for i, nm in enumerate(names):   # the rows really are the names that were asked for
        if rows[i]["s"] != nm or s(rows[i]["chars"]) != nm:
            raise vf.Infra("table row %d is %r, expected %r" % (i, rows[i]["s"], nm))
    vf.write_ndjson(d + "/C14_cfgs.ndjson", [{"keys": c} for c in cfgs])
    vf.write_ndjson(d + "/C14_table.ndjson", [{"chars": r["chars"], "rx": r["rx"]} for r in rows])
    vf.write_ndjson(d + "/C14_obs.ndjson", [{"res": o["res"]} for o in obs])
    with open(d + "/PathResolveMC.cfg", "w") as fh:
        fh.write(MC_CFG)
    r = vf.mc(ctx, "PathResolveMC", "PathResolveMC.cfg", workers=vf.NCPU, timeout=1800, java_opts=["-Xmx8g"])
    pairs = len(cfgs) * len(rows)
    if r.distinct != pairs + len(cfgs):
        raise vf.Infra("TLC visited %d states, expected %d (configuration sets x names)" % (r.distinct, pairs))
    keystr = {k["idx"]: s(k["chars"]) for k in keys}

    def show(o):
        return {"ok": o["ok"], "conf": keystr.get(o["key"], "?") if o["ok"] else None, "groups": o["groups"]}
    multi = 0
    for bad in r.tagged("BAD"):
        c, n = bad["c"] - 1, bad["n"] - 1
        got = [show(o) for o in obs[c]["res"][n]]
        exp = [dict(show(e), exact=e["exact"]) for e in bad["exp"]]
        rec = {"confs": [keystr[i] for i in cfgs[c]], "name": rows[n]["s"], "observed": got, "expected": exp}
        what = "result depends on map iteration order: " if len(got) > 1 else ""
        ctx.violation(rec, "%sconf.FindPathConf(paths=%s, name=%r) returned %s; the statement admits %s" % (
            what, rec["confs"], rec["name"], json.dumps(got, ensure_ascii=False), json.dumps(exp, ensure_ascii=False)))
    for o in obs:
        multi += sum(1 for x in o["res"] if len(x) > 1)
    ctx.set("exhaustive", ctx.thorough)   # quick samples the three-key sets
    ctx.set("configuration_sets", len(cfgs))
    ctx.set("configuration_sets_of_the_model", all_sets)
    ctx.set("names_bounded_model", len(tlc_names))
    ctx.set("names_shapes", len(names) - len(tlc_names))
    ctx.set("names_random", len(rows) - len(names))
    ctx.set("repeated_calls_per_pair", ctx.pick(24, 48))
    ctx.set("pairs_with_more_than_one_distinct_result", multi)
    ctx.set("traces_validated_against_impl", pairs)
    mid = len(cfgs) // 2
    for nm in ("cam1", "~^cam(.*)$", "cam/../b"):
        if nm in names:
            i = names.index(nm)
            ctx.sample({"confs": [keystr[k] for k in cfgs[mid]], "name": nm, "observed": [show(o) for o in obs[mid]["res"][i]]})
    ctx.assume("Go's regexp package is the ground truth of (expression, name) matching and capture groups")
    ctx.assume("'name order' of configuration keys is byte order (all keys of the model are ASCII)")
    ctx.assume("names with letters outside ASCII are left open by the statement ('letters'): rejection and resolution both pass")
