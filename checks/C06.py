"""C06 Path names cannot escape the recording tree — spec/conf/PathName.tla (Valid, FixedPrefix, Under)"""
import json, random, time
import vf

LEVEL = "model_checking"
LEVEL_TEXT = ("PathName.tla states name validity over character sequences and containment of a file under the fixed "
              "directory prefix of a record path; TLC proves on the bounded name model that the code-shaped validity equals "
              "the statement's and that a valid name cannot leave the prefix for three record path formats; every name of the "
              "model plus traversal shapes (raw, single- and double-percent-encoded, names equal to configuration keys) is "
              "replayed into conf.IsValidPathName/FindPathConf, recordstore.FindSegments, the path manager, the playback "
              "server and the API recordings endpoints on a temporary recording tree with files planted outside it; TLC "
              "evaluates the statement on every observed record")
LEVEL_NOTE = ("bounded: names of length <= 3 (thorough 4) over {a,0,_,-,.,/,~,%,space,e-acute}; HTTP and path-manager entry "
              "points get the shapes and a seeded sample of the bounded names; the recorder's file name is derived with the "
              "real PathAddExtension/Encode as recorder_instance.go does, the recorder and cleaner objects are not run; "
              "containment is lexical (no symlinks)")
TECHNIQUE = "TLA+ spec checked by TLC; TLC-generated names replayed into the real entry points; observed records judged by TLC"

GEN_CFG = """SPECIFICATION Spec
CONSTANTS
  AlphaSel = "c06"
  MaxLen = %d
INVARIANTS ValidAgree StrictInLoose Consequently EmitName
CHECK_DEADLOCK FALSE
"""

TRACE_CFG = """SPECIFICATION TraceSpec
CONSTANT BlockSize = %d
INVARIANTS Verdicts Drift PrefixDrift
CHECK_DEADLOCK FALSE
"""

PKGS = ["./internal/recordstore/", "./internal/playback/", "./internal/api/", "./internal/core/"]
OUTS = ["store", "playback", "api", "core"]

# shapes that are also tried single- and double-percent-encoded (what a client may send hoping
# for one decoding too many)
TRAVERSAL = ["..", "../outside", "../../outside", "../rec-evil/x", "a/../../outside", "cam1/../../outside", "a/./b",
             "/a", "a/", "../../up2", "cam1", "a/b"]


def pct(s, full):
    out = []
    for ch in s:
        if full or ch in "./%":
            out.append("".join("%%%02x" % b for b in ch.encode("utf-8")))
        else:
            out.append(ch)
    return "".join(out)


def run(ctx):
    d = ctx.specdir()
    with open(d + "/PathNameGen_c06.cfg", "w") as fh:
        fh.write(GEN_CFG % ctx.pick(3, 4))
    g = vf.mc(ctx, "PathNameGen", "PathNameGen_c06.cfg", workers=4, timeout=600)
    gen = g.tagged("NAME")
    t1 = time.time()
    if len(gen) < 1000:
        raise vf.Infra("generator produced only %d names" % len(gen))
    model_names = ["".join(x["chars"]) for x in gen]
    ctx.set("names_bounded_model", len(model_names))
    ctx.set("model_names_valid", sum(1 for x in gen if x["valid"]))
    ctx.set("model_names_refused_that_would_escape", sum(1 for x in gen if x["escapes"] and not x["loose"]))
    if any(x["escapes"] and x["loose"] for x in gen):
        raise vf.Infra("the containment lemma of the bounded model is false (TLC should have stopped)")
    ctx.set("exhaustive", True)

    shapes = json.load(open(d + "/PathNameShapes.json"))["names"]
    enc = []
    for t in TRAVERSAL:
        e1, e1f = pct(t, False), pct(t, True)
        enc += [e1, e1f, pct(e1, False), pct(e1f, False), e1.upper() if "%" in e1 else e1]
    shapes_all = []
    for nm in shapes + enc:
        if nm not in shapes_all:
            shapes_all.append(nm)
    rnd = random.Random(int(ctx.seed) * 7919 + 6)
    sample = rnd.sample(model_names, ctx.pick(60, 500))
    names, seen = [], set()
    for nm in model_names + shapes_all:
        if nm not in seen:
            seen.add(nm)
            names.append(nm)
    http_names, seen = [], set()
    for nm in shapes_all + sample:
        if nm not in seen:
            seen.add(nm)
            http_names.append(nm)
    cf = vf.write_ndjson(ctx.path("c06_cases.ndjson"), [{"names": names, "httpNames": http_names, "shapes": shapes_all}])
    of = ctx.path("c06_out")
    vf.gotest_ok(ctx, PKGS[0], "^TestVerif_C06_", cases=cf, out=of, extra=PKGS[1:],
                 params={"FORMATS": ctx.pick(1, 3)}, timeout=1500)
    t2 = time.time()
    recs, prefixes = [], []
    per_pkg = {}
    for o in OUTS:
        try:
            part = vf.read_ndjson(of + "." + o)
        except OSError:
            raise vf.Infra("harness test of %s wrote no output" % o)
        per_pkg[o] = len(part)
        for r in part:
            (prefixes if r["entry"] == "CommonPath" else recs).append(r)
    if min(per_pkg.values()) < 100 or len(prefixes) != 3:
        raise vf.Infra("harness output too small: %s, %d prefixes" % (per_pkg, len(prefixes)))
    direct = sum(1 for r in recs if r["entry"] == "IsValidPathName")
    if direct != len(names):
        raise vf.Infra("IsValidPathName was replayed on %d of %d names" % (direct, len(names)))

    # identical formula inputs (name, accepted, record path, files) are judged once
    uniq, members = {}, []
    for i, r in enumerate(recs):
        k = json.dumps([r["name"], r["accepted"], r["rp"], r["files"], r["entry"] == "IsValidPathName"])
        if k not in uniq:
            uniq[k] = len(members)
            members.append([])
        members[uniq[k]].append(i)
    vf.write_ndjson(d + "/C06_trace.ndjson", [
        {"name": recs[m[0]]["name"], "accepted": recs[m[0]]["accepted"], "rp": recs[m[0]]["rp"],
         "files": recs[m[0]]["files"], "direct": recs[m[0]]["entry"] == "IsValidPathName"} for m in members])
    vf.write_ndjson(d + "/C06_prefix.ndjson", [{"rp": p["rp"], "common": p["common"]} for p in prefixes])
    bs = 400
    with open(d + "/TracePathSafety.cfg", "w") as fh:
        fh.write(TRACE_CFG % bs)
    tv = vf.tlc(ctx, "TracePathSafety", "TracePathSafety.cfg", workers=vf.NCPU, timeout=1800, java_opts=["-Xmx8g"])
    nblocks = (len(members) + bs - 1) // bs
    ctx.set("wall_s_parts", {"generator": round(g.wall, 1), "go_harness": round(t2 - t1, 1), "trace_validation": round(tv.wall, 1)})
    if tv.distinct != len(members) + nblocks:
        raise vf.Infra("TLC judged %d of %d distinct records" % (tv.distinct - nblocks, len(members)))
    if tv.tagged("UNKNOWNCHAR"):
        raise vf.Infra("a record has a name with a character the spec does not classify: %r" % (
            recs[members[tv.tagged("UNKNOWNCHAR")[0]["l"] - 1][0]]["nameS"],))
    ctx.set("distinct_formula_inputs", len(members))

    summary = {}
    bads = [(i, bad["monitor"]) for bad in tv.tagged("BAD") for i in members[bad["l"] - 1]]
    for i, monitor in sorted(bads):
        bad = {"monitor": monitor}
        r = recs[i]
        rec = {"entry": r["entry"], "ctx": r["ctx"], "format": r["format"], "name": r["nameS"], "monitor": monitor,
               "nameIsConfKey": r["nameIsConfKey"]}
        if bad["monitor"] == "name":
            desc = ("%s accepted the path name %r (configuration context '%s'), which the statement forbids"
                    % (r["entry"], r["nameS"], r["ctx"]))
        else:
            rec["files"] = r["filesS"][:4]
            desc = ("%s, path name %r (configuration context '%s', accepted=%s): file(s) %s are not under the fixed "
                    "directory prefix of the record path %s" % (r["entry"], r["nameS"], r["ctx"], r["accepted"],
                                                                r["filesS"][:4], "".join(r["rp"])))
        k = (r["entry"], r["ctx"] + ("/name-is-conf-key" if r["nameIsConfKey"] else ""), bad["monitor"])
        summary[k] = summary.get(k, 0) + 1
        ctx.violation(rec, desc)
    for k in sorted(summary):
        print("monitor failures: entry=%s ctx=%s monitor=%s count=%d" % (k + (summary[k],)), flush=True)

    n_open = sum(len(members[x["l"] - 1]) for x in tv.tagged("OPEN"))
    n_drift = len(tv.tagged("DRIFT"))
    n_pdrift = len({x["i"] for x in tv.tagged("PREFIXDRIFT")})
    if n_open:
        ctx.note("%d accepted names are valid only if letters of other scripts count as letters (left open)" % n_open)
    if n_drift:
        ctx.note("%d IsValidPathName results differ from layer 1 (DRIFT, not a verdict), e.g. %r" % (
            n_drift, recs[members[tv.tagged("DRIFT")[0]["l"] - 1][0]]["nameS"]))
    if n_pdrift:
        ctx.note("recordstore.CommonPath differs from the statement's fixed prefix for %d record path formats (DRIFT)" % n_pdrift)
    ctx.set("drift_events", n_drift + n_pdrift)
    ctx.set("traces_validated_against_impl", len(recs))
    ctx.set("records_by_package", per_pkg)
    ctx.set("records_accepted", sum(1 for r in recs if r["accepted"]))
    ctx.set("records_with_files", sum(1 for r in recs if r["files"]))
    ctx.set("names_direct", len(names))
    ctx.set("names_http_and_path_manager", len(http_names))
    by_entry = {}
    for r in recs:
        by_entry[r["entry"]] = by_entry.get(r["entry"], 0) + 1
    ctx.set("records_by_entry", by_entry)
    for r in recs:
        if r["files"] and r["entry"] in ("playback/get", "api/recordings/deletesegment"):
            ctx.sample({k: r[k] for k in ("entry", "ctx", "nameS", "accepted", "filesS")})
            break
    for r in recs:
        if r["nameS"] == "%2e%2e%2foutside" and r["entry"] == "playback/list":
            ctx.sample({k: r[k] for k in ("entry", "ctx", "nameS", "accepted", "info")})
            break
    ctx.assume("containment is lexical: symbolic links inside the recording tree are not considered")
    ctx.assume("the recorder's segment file name is the one recorder_instance.go derives (real PathAddExtension and Encode); "
               "the recorder and the cleaner objects themselves are not executed")
    ctx.assume("accepted = the entry point returned success (HTTP 200; nil error; for reads also 'no one is publishing')")
