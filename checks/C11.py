"""C11 Configuration copies are independent — spec/conf/ConfStore.tla (Clone, MutateCopy, CloneIndependent, NoSharedCell)"""
import vf

LEVEL = "model_checking"
LEVEL_TEXT = ("ConfStore.tla models the configuration as a tree of cells (inline structs, pointer/slice/map cells, interface "
              "values) with Clone = deepClone kind by kind and MutateCopy(path, op); TLC checks CloneIndependent and "
              "NoSharedCell for every path x operation (two mutations deep) on the abstract tree and generates the operation "
              "table; the Go harness enumerates EVERY mutation path of a fully populated real conf.Conf and conf.Path by "
              "reflection (fields, pointer targets, slice elements, map values, values behind `any`), applies every operation "
              "to a fresh real Clone() and records what the original reads and whether memory is shared; TLC evaluates "
              "IndependentObs on every record, and RejectedObs on edits applied the way Core applies them")
LEVEL_NOTE = ("populated configurations in three container variants (lists of 2 with spare capacity and maps of 2; every list "
              "and map empty but not nil; lists of zero length with capacity) plus validated ones (with paths; after the last "
              "path was deleted); operations per cell kind from the spec's table; the rejected-edit corollary uses a fixed "
              "list of 41 edits on two running configurations, applied with Clone/Patch*/Validate as in core.go, not a running Core")
TECHNIQUE = "TLA+ spec checked by TLC; TLC-generated operation table replayed on the real Clone(); recorded observations validated by TLC"

PKG = "./internal/conf/"


def run(ctx):
    d = ctx.specdir()
    r = vf.mc(ctx, "ConfStore", "ConfStore_c11.cfg", workers=4, timeout=600)
    ops, shapes = {}, set()
    for x in r.tagged("SHAPE"):
        ops.setdefault(x["kind"], set()).update(x["ops"])
        shapes.add(tuple(x["shape"]))
    if len(shapes) < 10 or set(ops) != {"s", "p", "l", "m", "i"}:
        raise vf.Infra("generator produced %d shapes, kinds %s" % (len(shapes), sorted(ops)))
    tb = [{"kind": "ops", "cell": k, "ops": sorted(v)} for k, v in sorted(ops.items())]
    tb += [{"kind": "shape", "shape": list(s)} for s in sorted(shapes)]
    ctx.set("exhaustive", True)
    ctx.set("spec_path_shapes", len(shapes))
    ctx.set("spec_operations", {k: sorted(v) for k, v in sorted(ops.items())})
    if ctx.thorough:
        x = vf.tlc(ctx, "ConfStore", "ConfStore_emptyshared.cfg", workers=2, timeout=300, allow_violation=True)
        if x.violated not in ("NoSharedCell", "CloneIndependent"):
            raise vf.Infra("self-test: the named regression EmptyContainerSharedByClone (EmptyDeep=FALSE) is no longer detected")
        ctx.set("selftest_regression_detected_empty", "EmptyContainerSharedByClone (EmptyDeep=FALSE) violates %s in the model" % x.violated)
        # layer 1 describes the fixed code (IfaceDeep=TRUE); the named regression, re-enabled, must be detected
        x = vf.tlc(ctx, "ConfStore", "ConfStore_ifaceshared.cfg", workers=2, timeout=300, allow_violation=True)
        if x.violated != "CloneIndependent":
            raise vf.Infra("self-test: the named regression InterfaceSharedByClone (IfaceDeep=FALSE) is no longer detected by CloneIndependent")
        ctx.set("selftest_regression_detected", "InterfaceSharedByClone (IfaceDeep=FALSE, code before 8aad5d9) violates CloneIndependent in the model")
    cf = vf.write_ndjson(ctx.path("tables.ndjson"), tb)
    o1 = ctx.path("mutations.ndjson")
    o2 = ctx.path("rejected.ndjson")
    vf.gotest_ok(ctx, PKG, "^TestVerif_C11_(Mutations|Rejected)$", cases=cf, out=o1, params={"OUT2": o2})
    recs = vf.read_ndjson(o1) + vf.read_ndjson(o2)
    muts = [x for x in recs if x["rec"] == "mutation"]
    rej = [x for x in recs if x["rec"] == "rejected"]
    if len(muts) < 1000 or len(rej) < 20:
        raise vf.Infra("harness produced %d mutation and %d edit records" % (len(muts), len(rej)))
    if not any(x["rejected"] for x in rej) or all(x["rejected"] for x in rej):
        raise vf.Infra("edit scenarios are vacuous (need rejected and accepted edits)")
    vf.write_ndjson(d + "/C11_trace.ndjson", recs)
    tv = vf.tlc(ctx, "TraceConfStore", "TraceConfStore_c11.cfg", workers=1, timeout=900, java_opts=["-Xmx4g"])
    groups = {}
    for bad in tv.tagged("BAD"):
        rec = recs[bad["l"] - 1]
        if rec["rec"] == "mutation":
            what = "changed" if rec["origBefore"] != rec["origAfter"] else "shared-memory"
            groups.setdefault((rec["target"], rec["through"], rec["top"], what), []).append(rec)
        else:
            diff = "; ".join(rec["diffAt"])
            ctx.violation({"kind": "rejected", "base": rec["base"], "edit": rec["edit"], "name": rec["name"], "body": rec["body"], "diffAt": diff},
                          "rejected API edit %s(%s, %s) [%s] on a running configuration with %s changed it at %s; the next, valid and "
                          "unrelated edit %s then %s" % (
                              rec["edit"], rec["name"], rec["body"], rec["error"], rec["base"], diff, rec.get("nextEdit"),
                              ("is refused: " + rec["nextEditError"]) if rec.get("nextEditError")
                              else "makes the running paths differ at %s" % rec.get("nextEditPathsDiffer")))
    for (target, through, top, what), rs in sorted(groups.items()):
        ex = rs[0]
        origins = sorted({x["origin"] for x in rs})
        ctx.violation({"kind": "mutation", "target": target, "through": through, "top": top, "what": what},
                      "%s is not a deep copy below %s%s: %d mutation paths through the copy %s the original, e.g. %s %s: "
                      "original read %s before and %s after (shared memory: %s) [%s configuration]" % (
                          target, top, (" (behind interface field %s)" % through) if through else "", len(rs),
                          "change" if what == "changed" else "share memory with", ex["op"], ex["path"],
                          ex["readBefore"], ex["readAfter"], ex["shared"], "/".join(origins)))
    if ctx.thorough:
        # self-test: a clean record with one corrupted field must be rejected by TLC
        clean = next(x for x in muts if x["origBefore"] == x["origAfter"] and not x["shared"])
        vf.write_ndjson(d + "/C11_trace.ndjson", [clean, dict(clean, origAfter="corrupted"), dict(clean, shared=True)])
        st = vf.tlc(ctx, "TraceConfStore", "TraceConfStore_c11.cfg", workers=1, timeout=300)
        if sorted(b["l"] for b in st.tagged("BAD")) != [2, 3]:
            raise vf.Infra("self-test: corrupted trace records were not rejected: %s" % st.tagged("BAD"))
        ctx.set("selftest_corrupted_trace_rejected", True)
    summ = {x["target"] + " of a " + x["origin"] + " configuration": x for x in recs if x["rec"] == "summary"}
    sh = [x for x in recs if x["rec"] == "shapes"][0]
    ctx.set("traces_validated_against_impl", len(muts) + len(rej))
    ctx.set("mutation_records", len(muts))
    ctx.set("mutation_positions", {k: v["positions"] for k, v in summ.items()})
    ctx.set("edit_records", len(rej))
    ctx.set("edits_rejected", len([x for x in rej if x["rejected"]]))
    ctx.set("real_path_shapes", sh["realShapes"])
    ctx.set("spec_shapes_not_in_real_types", sh["specShapesNotInRealTypes"])
    uneq = [x for x in recs if x["rec"] == "cloneequal" and not x["equal"]]
    if uneq:
        only_regexp = all('re("")' in x["firstDifference"] for x in uneq)
        ctx.note("%d of %d clones do not read the same as their original (the statement is about independence; DRIFT)%s: e.g. %s %s"
                 % (len(uneq), len([x for x in recs if x["rec"] == "cloneequal"]),
                    ", each time only because the clone of a *regexp.Regexp is an empty regexp" if only_regexp else "",
                    uneq[0]["target"], uneq[0]["firstDifference"]))
        ctx.set("drift_events", len(uneq))
    ctx.sample({k: muts[len(muts) // 2][k] for k in ("target", "path", "op", "readBefore", "readAfter", "shared")})
    ctx.sample({k: rej[0][k] for k in ("edit", "name", "body", "rejected", "error", "diffAt")})
    ctx.assume("Core applies an API edit as conf.Clone(); Patch*/AddPath/ReplacePath/RemovePath; Validate and swaps only on success "
               "(transcribed from internal/core/core.go doAPIConfig*)")
    ctx.assume("reflection reaches every exported field; unexported state (regexp.Regexp) is compared by its String()")
