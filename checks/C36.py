"""C36 Metrics exposition is always valid and faithful — spec/http/Metrics.tla"""
import os

import vf

LEVEL = "model_checking"
LEVEL_TEXT = ("Metrics.tla states the answer formula (Syntax: Prometheus text format; Unique: no repeated sample; Faithful: every "
              "labelled sample has an entity of its kind with those label values and that counter) and enumerates scenarios: which "
              "kinds are populated (13 kinds or all) x 1-2 entities x 9 classes of client-chosen strings x query filters; the real "
              "metrics.Metrics serves every scenario over HTTP from harness implementations of the defs.API* interfaces, a strict "
              "parser written from the format documentation (checked in every run against lines rendered by the specification) "
              "records the samples, and TLC evaluates the formula on every answer (TraceMetrics.tla)")
LEVEL_NOTE = ("bounded: reader multisets: all 35 of <= 4 readers over 3 types, three paths per scrape (quick: 70 scrapes, thorough 1190); at most 2 entities per kind (quick: two entities for 6 kinds and for all kinds together, one entity and every filter for each of the 13 kinds), one string class per entity (the same string is the path name / session path of "
              "all kinds), fixed states, reader sets by class outside the readers family; counters are distinct numbers per field, metric -> field by name "
              "(snake case vs Go field name; metrics without such a field are left open and counted); samples without labels and "
              "completeness are not constrained by the statement (missing entities are DRIFT); the parser is trusted after its "
              "self-check; failing answers are attributed to the string classes that already fail alone")
TECHNIQUE = "TLC-enumerated scenarios replayed on the real HTTP endpoint + TLC trace validation of the parsed answers"

PKG = "./internal/metrics/"


def s(cps):
    return "".join(chr(c) for c in cps)


def needs_escape(cps):
    return any(c in (92, 34, 10) for c in cps)


def run(ctx):
    cfgs = ctx.pick(["Metrics_quick.cfg"], ["Metrics_gen.cfg"])
    # layer 1 = the current code; VERIF_L1_VARIANT=RawLabelValues selects the pre-fix behaviour as layer 1 (old trees)
    variant = os.environ.get("VERIF_L1_VARIANT", "fixed")
    if variant != "fixed":
        for cfg in cfgs + ["TraceMetrics.cfg"]:
            f = ctx.specdir() + "/" + cfg
            txt = open(f).read().replace('L1Variant = "fixed"', 'L1Variant = "%s"' % variant)
            open(f, "w").write(txt)
    ctx.set("layer1_variant", variant)
    cases, ptests = [], []
    for cfg in cfgs:
        r = vf.mc(ctx, "Metrics", cfg, workers=min(vf.NCPU, 8), timeout=900, java_opts=["-Xmx6g"])
        for c in r.tagged("CASE"):
            c["id"] = len(cases)
            cases.append(c)
        ptests += r.tagged("PTEST") + r.tagged("STEST")
    if len(cases) < 700 or len(ptests) < 35:
        raise vf.Infra("generator produced only %d scenarios / %d parser tests" % (len(cases), len(ptests)))
    ctx.set("exhaustive", True)

    # ---- parser self-check against the specification's rendering
    for i, p in enumerate(ptests):
        p["id"] = i
    pf = vf.write_ndjson(ctx.path("ptests.ndjson"), [{"id": p["id"], "text": p["text"]} for p in ptests])
    po = ctx.path("pobs.ndjson")
    cf = vf.write_ndjson(ctx.path("cases.ndjson"),
                         [{k: c[k] for k in ("id", "ents", "filter", "typeArg", "pathArg")} for c in cases])
    of = ctx.path("obs.ndjson")
    vf.gotest_ok(ctx, PKG, "^TestVerif_C36_Parser$", cases=pf, out=po)
    pobs = {o["id"]: o["parse"] for o in vf.read_ndjson(po)}
    for p in ptests:
        o = pobs.get(p["id"])
        if o is None:
            raise vf.Infra("parser self-check: no observation for test %d" % p["id"])
        if "name" not in p:      # fixed-verdict line: only the parser's acceptance is compared
            if o["parseOK"] != p["conformant"]:
                raise vf.Infra("parser self-check failed on %r: documented verdict %s, parser says %s" % (s(p["text"]), p["conformant"], o))
            continue
        same = (o["parseOK"] and len(o["samples"]) == 1 and o["samples"][0]["name"] == p["name"]
                and o["samples"][0]["labels"] == p["labels"] and o["samples"][0]["val4"] == p["val4"] and o["samples"][0]["valOK"])
        if same != p["conformant"]:
            raise vf.Infra("parser self-check failed on %r (class %s, conformant=%s): parser says %s"
                           % (s(p["text"]), p["class"], p["conformant"], o))
    ctx.set("parser_selfcheck_lines", len(ptests))

    # ---- replay
    vf.gotest_ok(ctx, PKG, "^TestVerif_C36_Replay$", cases=cf, out=of)
    obs = {o["id"]: o for o in vf.read_ndjson(of)}
    recs = []
    nsamples = nopen = nbare = 0
    for c in cases:
        o = obs.get(c["id"])
        if o is None:
            raise vf.Infra("harness produced no observation for scenario %d" % c["id"])
        cnt = {x["g"]: x["counters"] for x in o["counters"]}
        ents = [{"kind": e["kind"], "attrs": e["attrs"], "readers": e["readers"], "counters": cnt[e["g"]]} for e in c["ents"]]
        smp = [{k: x[k] for k in ("kind", "key", "labels", "val4", "valOK")} for x in o["parse"]["samples"]]
        keys = {e["kind"]: {x["k"] for x in e["counters"]} for e in ents}
        for x in smp:
            if x["key"] not in ("", ) and not (x["kind"] == "paths" and x["key"] == "readers") and x["key"] not in keys.get(x["kind"], set()):
                nopen += 1
        nsamples += len(smp)
        nbare += o["parse"]["nBare"]
        recs.append({"status": o["status"], "parseOK": o["parse"]["parseOK"], "dup": o["parse"]["dup"], "ents": ents,
                     "samples": smp, "nofilter": c["filter"] == "none"})

    bad, drift_missing, drift_l1, devof = [], 0, 0, {}
    chunk = 1500
    for i in range(0, len(recs), chunk):
        vf.write_ndjson(ctx.specdir() + "/C36_trace.ndjson", recs[i:i + chunk])
        tv = vf.tlc(ctx, "TraceMetrics", "TraceMetrics.cfg", workers=1, timeout=1500, java_opts=["-Xmx8g"])
        for b in tv.tagged("BAD"):
            for mon in b["monitors"]:
                bad.append((cases[i + b["l"] - 1], mon, b["bad"]))
                devof[(cases[i + b["l"] - 1]["id"], mon)] = b["deviation"]
        for d in tv.tagged("DRIFT"):
            if d["what"] == "missing":
                drift_missing += 1
            else:
                drift_l1 += 1

    # ---- attribution: classes whose string already breaks an answer when it is the only entity string
    def classes_of(c):
        if c["focus"] == "readers":
            return ["nonascii", "plain", "punct"]
        return sorted({c["c1"]} if c["n"] == 1 else {c["c1"], c["c2"]})

    def shape_of_bad(c, badidx):
        """family "readers": the reader multiset <<rtmpConn, rtspSession, webRTCSession>> of the path named by the first bad sample"""
        x = obs[c["id"]]["parse"]["samples"][badidx[0] - 1]
        nm = [lb["v"] for lb in x["labels"] if lb["k"] == "name"]
        for e in c["ents"]:
            if nm and any(a["k"] == "name" and a["v"] == nm[0] for a in e["attrs"]):
                return c["shapes"][e["idx"] - 1]
        return None

    def cstr(c, cls):
        for idx, k in ((1, c["c1"]), (2, c["c2"])):
            if k == cls:
                for e in c["ents"]:
                    if e["idx"] == idx:
                        for a in e["attrs"]:
                            if a["k"] in ("name", "path"):
                                return a["v"]
        return []

    alone, plainfail = {}, {}
    for c, mon, _ in bad:
        if c["n"] == 1:
            alone.setdefault((c["c1"], mon), c)
        if classes_of(c) == ["plain"]:      # the plainest strings already fail: the failure does not depend on the string
            plainfail[(mon, c["focus"], c["n"], c["filter"])] = c
    groups = {}
    for c, mon, badidx in bad:
        if (c["focus"] == "readers" and mon == "Faithful" and
                obs[c["id"]]["parse"]["samples"][badidx[0] - 1]["key"] == "readers"):
            sh = shape_of_bad(c, badidx)
            k = "readers %s" % (sh,)
            g = groups.setdefault((mon, k), {"n": 0, "ex": c, "focuses": set(), "badidx": badidx, "devs": set()})
            g["n"] += 1
            g["focuses"].add(c["focus"])
            g["devs"].add(devof[(c["id"], mon)])
            continue
        keys = [(mon, k, alone[(k, mon)]) for k in classes_of(c) if needs_escape(cstr(c, k)) and (k, mon) in alone]
        pf = plainfail.get((mon, c["focus"], c["n"], c["filter"]))
        if pf is not None:
            keys.append((mon, "(any string)", pf))
        if not keys:
            keys = [(mon, k, alone[(k, mon)]) for k in classes_of(c) if (k, mon) in alone]
        if not keys:
            keys = [(mon, "+".join(classes_of(c)), c)]
        for (m, k, ex) in keys:
            g = groups.setdefault((m, k), {"n": 0, "ex": ex, "focuses": set(), "badidx": None, "devs": set()})
            if k != "(any string)":
                g["devs"].add(devof[(c["id"], mon)])
            g["n"] += 1
            g["focuses"].add(c["focus"])
            if ex is c and g["badidx"] is None:
                g["badidx"] = badidx
    for (mon, cls), g in sorted(groups.items()):
        ex = g["ex"]
        o = obs[ex["id"]]
        cl = classes_of(ex) if cls == "(any string)" or cls.startswith("readers ") else cls.split("+")
        esc = cls != "(any string)" and not cls.startswith("readers ") and any(needs_escape(cstr(ex, k)) for k in cl)
        cause = "label value written without escaping" if esc else "other"
        if mon == "Syntax":
            e0 = o["parse"]["errs"][0] if o["parse"]["errs"] else {"ln": 0, "msg": "HTTP status %s" % o["status"], "text": ""}
            detail = "line %d: %s: %s" % (e0["ln"], e0["msg"], e0["text"])
        elif mon == "Unique":
            detail = "repeated sample %s" % o["parse"]["dupOf"]
        else:
            bi = g["badidx"]
            if bi is None:
                bi = next(b for (c2, m2, b) in bad if c2 is ex and m2 == mon)
            x = o["parse"]["samples"][bi[0] - 1]
            detail = ("line %d: sample %s{%s} %s corresponds to no %s entity (entities: %s)"
                      % (x["ln"], x["name"], ",".join("%s=%r" % (lb["k"], s(lb["v"])) for lb in x["labels"]), x["valTxt"],
                         x["kind"], "; ".join("{%s}%s" % (",".join("%s=%r" % (a["k"], s(a["v"])) for a in e["attrs"]),
                                                           (" readers %s" % [s(r) for r in e["readers"]]) if x["key"] == "readers" else "")
                                              for e in ex["ents"] if e["kind"] == x["kind"])))
        dev = "+".join(sorted(g["devs"] - {"none"})) or "none"
        cause += "; named deviation: " + dev
        ctx.violation({"monitor": mon, "class": cls, "cause": cause.split(";")[0], "deviation": dev},
                      "monitor %s fails when a path name / session path is of class %s (%d answers; populated kinds: %s) "
                      "[cause: %s]; minimal scenario: %s populated with %d entity(ies) per kind, string %r%s, query filter %s -> %s"
                      % (mon, cls, g["n"], ",".join(sorted(g["focuses"])), cause, ex["focus"], ex["n"],
                         "/".join(s(cstr(ex, k)) for k in cl),
                         (", reader multisets <<rtmpConn, rtspSession, webRTCSession>> per path %s" % ex["shapes"]) if ex["shapes"] else "",
                         ex["filter"], detail))

    ctx.set("scenarios", len(cases))
    rd = [c for c in cases if c["focus"] == "readers"]
    ctx.set("reader_multiset_scenarios", len(rd))
    ctx.set("reader_multisets_covered", len({tuple(v) for c in rd for v in c["shapes"]}))
    ctx.set("paths_readers_samples_judged", sum(1 for c in cases for x in obs[c["id"]]["parse"]["samples"]
                                                if x["kind"] == "paths" and x["key"] == "readers"))
    ctx.set("traces_validated_against_impl", len(recs))
    ctx.set("samples_with_labels_checked", nsamples)
    ctx.set("samples_without_labels", nbare)
    ctx.set("samples_left_open_no_such_counter", nopen)
    ctx.set("answers_failing", len({c["id"] for c, _, _ in bad}))
    ctx.set("failing_by_group", {"%s/%s" % k: g["n"] for k, g in sorted(groups.items())})
    ctx.set("drift_missing_entities", drift_missing)
    ctx.set("drift_l1_prediction", drift_l1)
    if drift_missing:
        ctx.note("%d unfiltered answers lack the presence sample of an entity — DRIFT (completeness is not in the statement)" % drift_missing)
    if drift_l1:
        ctx.note("%d answers whose fate differs from layer 1 (label values escaped, or the selected deviation) — DRIFT, not a verdict" % drift_l1)
    okc = [c for c in cases if c["focus"] == "all" and c["n"] == 2 and not c["l1broken"]]
    if okc:
        c = okc[len(okc) // 2]
        o = obs[c["id"]]
        ctx.sample({"scenario": {k: c[k] for k in ("focus", "c1", "c2", "n", "filter")}, "strings": [s(cstr(c, k)) for k in classes_of(c)],
                    "labelled_samples": len(o["parse"]["samples"]), "unlabelled": o["parse"]["nBare"], "bytes": o["bodyLen"],
                    "first_sample": {"name": o["parse"]["samples"][0]["name"], "value": o["parse"]["samples"][0]["valTxt"]}})
    if bad:
        c = bad[0][0]
        ctx.sample({"failing_scenario": {k: c[k] for k in ("focus", "c1", "c2", "n", "filter")}, "monitor": bad[0][1],
                    "errs": obs[c["id"]]["parse"]["errs"][:2]})
    ctx.assume("the harness's text-format parser (written from exposition_formats.md, self-checked against the spec's rendering) is the trusted grammar")
    ctx.assume("metric name -> entity kind by documented prefix, -> counter by the Go field name of the API struct (case and underscores ignored)")
