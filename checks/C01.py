"""C01 Internal authentication decides exactly per configured users — spec/auth/AuthInternal.tla"""
import concurrent.futures
import json
import time
import vf

LEVEL = "model_checking"
LEVEL_TEXT = ("AuthInternal.tla transcribes Authenticate/authenticateWithUser/matchesPermission (layer 1) and states the "
              "iff-formula of the property over ground-truth tables for CIDR containment, regexp-found-in-path and hash "
              "match (layer 2); TLC proves layer 1 |= layer 2 on four bounded profiles (all 1-user lists per aspect, "
              "all 2-user lists of an 18-entry universe) and emits every (user list, request) as a case that the real "
              "auth.Manager decides; random configurations are judged by TLC from atoms the harness computes on its own; "
              "AuthReload.tla models the scan against a concurrent ReloadInternalUsers (decision = decision for ONE list "
              "configured between call and return): its schedules are replayed with the reload requested from inside "
              "the scan (CustomVerifyFunc), the reload goroutine observed returned or parked on the mutex, plus a "
              "concurrent stress (thorough: under the race detector), all judged by the same formula")
LEVEL_NOTE = ("bounded token tables; random runs sample the rest; a supplied token is not counted as a credential of the "
              "internal method; '~X' equal to the request path and IPv4 clients vs. IPv6 prefixes covering ::ffff:0:0/96 "
              "are left open (statement ambiguous)")
TECHNIQUE = "TLA+ model (TLC): exhaustive bounded MC + generated cases replayed on the real code + trace validation"

CFG = """SPECIFICATION Spec
CONSTANTS
  Profiles = {"ip", "perm", "cred", "pair"}
  Big = %s
INVARIANT ImplSatisfiesProp
INVARIANT EmitRows
CHECK_DEADLOCK FALSE
"""

RCFG = """SPECIFICATION Spec
CONSTANTS
  ScanUnlocked = %s
INVARIANT HistoryOK
INVARIANT EmitSchedules
CHECK_DEADLOCK FALSE
"""

PKG = "./internal/auth/"


def _reload_model(ctx):
    """AuthReload.tla: the scan vs. ReloadInternalUsers; exhaustive MC + every schedule (a, b, at)."""
    d = ctx.specdir()
    with open(d + "/AuthReload_gen.cfg", "w") as fh:
        fh.write(RCFG % "FALSE")
    r = vf.tlc(ctx, "AuthReload", "AuthReload_gen.cfg", workers=2, timeout=600)
    seen = {}
    for x in r.tagged("SCHED"):
        seen[json.dumps(x, sort_keys=True)] = x
    return r, [dict(v, id=i) for i, (_, v) in enumerate(sorted(seen.items()))]


def run(ctx):
    d = ctx.specdir()
    t0 = time.time()
    phases = {}
    big = "TRUE" if ctx.thorough else "FALSE"
    lines = []          # case file: {"reqs": [...]} switches the request list, then one row per user list
    rows = []           # (id, profile, users, reqs, adm, askok, l1ask)
    with open(d + "/AuthInternal_gen.cfg", "w") as fh:
        fh.write(CFG % big)
    pool = concurrent.futures.ThreadPoolExecutor(max_workers=1)
    rfut = pool.submit(_reload_model, ctx)                        # runs beside the AuthInternal generation
    r = vf.mc(ctx, "AuthInternal", "AuthInternal_gen.cfg", workers=6, timeout=900, java_opts=["-Xmx6g"])
    rr, scheds = rfut.result()
    pool.shutdown()
    ctx.add("states", rr.distinct)
    ctx.add("transitions", rr.generated)
    ctx.cov.setdefault("mc_runs", []).append({"module": "AuthReload", "cfg": "AuthReload_gen.cfg", "distinct": rr.distinct,
                                              "generated": rr.generated, "depth": rr.depth, "wall_s": round(rr.wall, 2)})
    if len(scheds) < 500:
        raise vf.Infra("AuthReload produced only %d schedules" % len(scheds))
    ctx.set("reload_schedules_in_model", len(scheds))
    if not ctx.thorough:
        import random
        scheds = sorted(random.Random(int(ctx.seed)).sample(scheds, 600), key=lambda x: x["id"])
    reqs_of = {x["prof"]: x["reqs"] for x in r.tagged("REQS")}
    if sorted(reqs_of) != ["cred", "ip", "pair", "perm"]:
        raise vf.Infra("expected one REQS line per profile, got %s" % sorted(reqs_of))
    got = sorted(r.tagged("ROW"), key=lambda x: (x["prof"], json.dumps(x["users"], sort_keys=True)))
    last = None
    for row in got:
        reqs = reqs_of[row["prof"]]
        if not (len(row["adm"]) == len(row["askok"]) == len(row["l1ask"]) == len(reqs)):
            raise vf.Infra("malformed ROW in profile " + row["prof"])
        if row["prof"] != last:
            lines.append({"reqs": reqs})
            last = row["prof"]
        rid = len(rows)
        rows.append((rid, row["prof"], row["users"], reqs, row["adm"], row["askok"], row["l1ask"]))
        lines.append({"id": rid, "users": row["users"]})
    ncases = sum(len(x[3]) for x in rows)
    phases["tlc_mc_gen"] = round(time.time() - t0, 1)
    t0 = time.time()
    if ncases < 20000:
        raise vf.Infra("generator produced only %d cases" % ncases)
    cf = vf.write_ndjson(ctx.path("cases.ndjson"), lines)
    of = ctx.path("obs.ndjson")
    tf = d + "/C01_trace.ndjson"
    # one go test run: replay of the cases, then the random traces (separate output file)
    rcf = vf.write_ndjson(ctx.path("reload_scheds.ndjson"), scheds)
    rof = ctx.path("reload_obs.ndjson")
    gout = vf.gotest_ok(ctx, PKG, "^TestVerif_C01_(Replay|Trace|ReloadReplay)$", cases=cf, out=of, extra=["-v"],
                 params={"TRACEOUT": tf, "RUNS": ctx.pick(300, 4000), "REQS": 12,
                         "RELOADRUNS": ctx.pick(20, 200), "SLOWHASHES": ctx.pick(6, 40),
                         "RELOADCASES": rcf, "RELOADOUT": rof})
    import re
    ctx.set("go_test_seconds", {m.group(1): float(m.group(2))
                                for m in re.finditer(r"--- PASS: TestVerif_C01_(\w+) \(([0-9.]+)s\)", gout)})
    rrecs = vf.read_ndjson(rof)
    if len(rrecs) != 2 * len(scheds):
        raise vf.Infra("harness replayed %d of %d reload schedules" % (len(rrecs) // 2, len(scheds)))
    obs = {o["id"]: o for o in vf.read_ndjson(of)}
    phases["go_replay_and_trace"] = round(time.time() - t0, 1)
    t0 = time.time()

    nviol = 0
    drift = 0
    opened = 0
    for (rid, prof, users, reqs, adm, askok, l1ask) in rows:
        o = obs.get(rid)
        if o is None or len(o["ok"]) != len(reqs):
            raise vf.Infra("harness produced no/short observation for row %d" % rid)
        for i, rq in enumerate(reqs):
            ok, user, ask = o["ok"][i], o["user"][i], o["ask"][i]
            why = None
            if adm[i] == 1 and not ok:
                why = "the statement admits this request but the real manager rejected it"
            elif adm[i] == 0 and ok:
                why = "the statement rejects this request but the real manager admitted it"
            elif ok and user != rq["user"]:
                why = "admitted request reports user %r instead of the supplied %r" % (user, rq["user"])
            elif ask and (ok or not askok[i]):
                why = "credentials are asked for although %s" % (
                    "the request was admitted" if ok else "credentials were supplied or asking is not allowed")
            if adm[i] == 2:
                opened += 1
            if why:
                nviol += 1
                if nviol <= 40:
                    rec = {"users": _concrete(users), "req": rq,
                           "exp": {"admit": {0: False, 1: True, 2: "open"}[adm[i]], "ask_allowed": askok[i]},
                           "obs": {"ok": ok, "user": user, "ask": ask}}
                    ctx.violation(rec, "%s: users=%s request=%s observed=%s" % (
                        why, json.dumps(rec["users"], sort_keys=True), json.dumps(rq, sort_keys=True),
                        json.dumps(rec["obs"], sort_keys=True)))
            elif ask != l1ask[i]:
                drift += 1
    if nviol > 40:
        ctx.note("%d replayed cases violate the statement (first 40 reported)" % nviol)
    ctx.set("cases_enumerated", ncases)
    ctx.set("user_lists", len(rows))
    ctx.set("cases_left_open_by_statement", opened)
    ctx.set("exhaustive", True)
    mid = rows[len(rows) // 2]
    ctx.sample({"users": _concrete(mid[2]), "req": mid[3][0], "admit_code": mid[4][0],
                "obs_ok": obs[mid[0]]["ok"][0]})

    # TV: random CIDRs / regexps / credentials; atoms computed by the harness, structure judged by TLC
    recs = vf.read_ndjson(tf) + rrecs
    race_reports = None
    if ctx.thorough:
        # Authenticate x ReloadInternalUsers under the race detector: the decisions are judged like all others;
        # reports of the detector are counted, they are not verdicts of this property
        sf = ctx.path("stress_trace.ndjson")
        sout = vf.gotest_ok(ctx, PKG, "^TestVerif_C01_Trace$", out=sf, race=True, timeout=1500,
                            env={"GORACE": "halt_on_error=0 exitcode=0"},
                            params={"RUNS": 0, "REQS": 12, "RELOADRUNS": 300, "SLOWHASHES": 0})
        srecs = vf.read_ndjson(sf)
        race_reports = sout.count("WARNING: DATA RACE")
        recs += srecs
        ctx.set("race_stress_records", len(srecs))
        ctx.set("race_detector_reports", race_reports)
        if race_reports:
            ctx.note("%d data race reports in the Authenticate x ReloadInternalUsers stress (not a verdict of C01)" % race_reports)
        # sanity of the model: with the named deviation ScanUnlocked the statement must be violated
        with open(d + "/AuthReload_dev.cfg", "w") as fh:
            fh.write(RCFG % "TRUE")
        sr = vf.tlc(ctx, "AuthReload", "AuthReload_dev.cfg", workers=2, timeout=600, allow_violation=True)
        if sr.violated != "HistoryOK":
            raise vf.Infra("AuthReload.tla with ScanUnlocked=TRUE does not violate HistoryOK (got %r)" % sr.violated)
        ctx.set("deviation_ScanUnlocked_violates", sr.violated)
    if len(recs) < 1000:
        raise vf.Infra("trace harness produced only %d records" % len(recs))
    with open(d + "/TraceAuthInternal.cfg", "w") as fh:
        fh.write('SPECIFICATION TraceSpec\nCONSTANTS\n  Profiles = {}\n  Big = FALSE\n'
                 'INVARIANTS Verdicts Drift\nPOSTCONDITION Accepted\nCHECK_DEADLOCK FALSE\n')
    chunk = 30000
    nbad = 0
    for i in range(0, len(recs), chunk):
        part = recs[i:i + chunk]
        vf.write_ndjson(tf, part)
        tv = vf.tlc(ctx, "TraceAuthInternal", "TraceAuthInternal.cfg", workers=1, timeout=1200,
                    java_opts=["-Xmx8g"])
        for bad in tv.tagged("BAD"):
            rec = part[bad["l"] - 1]
            nbad += 1
            if nbad <= 40:
                small = {"kind": rec["kind"], "desc": rec["desc"],
                         "req": {k: rec["req"][k] for k in ("user", "pass", "token", "ask")}, "obs": rec["obs"]}
                if "sched" in rec:
                    sc = rec["sched"]
                    ctx.violation({"reload": {"a": sc["a"], "b": sc["b"], "at": sc["at"], "obs_ok": rec["obs"]["ok"],
                                              "after_reload": bool(sc.get("after_reload"))}},
                                  "request of bob (digest verifier) %s although %s: user list %s, ReloadInternalUsers(%s) "
                                  "requested while entry %d was being evaluated (reload waited for the scan: %s)" % (
                                      "ADMITTED" if rec["obs"]["ok"] else "REJECTED",
                                      "neither the old nor the new list admits it" if rec["obs"]["ok"]
                                      else "both the old and the new list admit it" if not sc.get("after_reload")
                                      else "the list configured now admits it",
                                      sc["a"], sc["b"], sc["at"], sc.get("reload_waited_for_scan")))
                    continue
                ctx.violation({"trace": small},
                              "statement formula false on a random configuration: %s; atoms=%s" % (
                                  json.dumps(small, sort_keys=True)[:900], json.dumps(rec["users"])[:500]))
        drift += len(tv.tagged("DRIFT"))
    phases["tlc_trace_validation"] = round(time.time() - t0, 1)
    ctx.set("phase_wall_s", phases)
    ctx.set("traces_validated_against_impl", ncases + len(recs))
    ctx.set("trace_records", len(recs))
    ctx.set("trace_records_admitted", sum(1 for r in recs if r["obs"]["ok"]))
    ctx.set("trace_records_reload", sum(1 for r in recs if r["kind"] == "reload"))
    ctx.set("reload_schedules_replayed", len(scheds))
    ctx.set("reload_schedules_where_reload_waited_for_scan",
            sum(1 for r in rrecs if r["sched"].get("reload_waited_for_scan")))
    ctx.set("drift_events", drift)
    if drift:
        ctx.note("%d observations differ from layer 1 without violating the statement (DRIFT)" % drift)
    ctx.sample({"trace_record": {"desc": recs[len(recs) // 2]["desc"], "obs": recs[len(recs) // 2]["obs"]}})
    ctx.assume("ground-truth tables of AuthInternal.tla (CIDR containment, regexp found, clear-text equality) are hand-written")
    ctx.assume("sha256 / argon2 are collision free on the texts used; hashes are produced with crypto/sha256 and x/crypto/argon2")
    ctx.assume("a custom (digest) verifier decides the credential match from the configured user/password texts")


def _concrete(users):
    """user entries of a ROW in a compact, readable form"""
    out = []
    for u in users:
        out.append({"ips": u["ips"], "perms": [[p["action"], p["path"]] for p in u["perms"]],
                    "user": "%s:%s" % (u["user"]["enc"], u["user"]["v"]),
                    "pass": "%s:%s" % (u["pass"]["enc"], u["pass"]["v"])})
    return out
