"""C19 Every held request is answered exactly once — spec/core/Path.tla"""
import pathcheck

LEVEL = "model_checking"
LEVEL_TEXT = ("Path.tla transcribes the on-demand machinery of the path loop (hold queues, ready/close timers, static source "
              "and runOnDemand start/stop); TLC checks at-most-one/exactly-one response, stream-iff-ready, start on first "
              "demand / stop / restart alternation and absence of dead waits; walks (with harness-fired timers and a harness "
              "static source) are replayed on the real code and TLC evaluates the monitors on the observed events")
LEVEL_NOTE = ("timers are fired by the harness only when the code armed them; liveness is checked in its safety form "
              "(no held request without a running start timeout); sequential requests")


def run(ctx):
    pathcheck.run(ctx, "C19_", ctx.pick(["odpub", "sod"],
                                        ["odpub", "odpub_override", "sod", "rx_odpub", "rx_sod", "static", "redirect"]), ["MonC19"])
