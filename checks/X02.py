"""X02 Recorder supervisor and instance lifecycle — spec/record/RecorderSup.tla (extension module)"""
import json, os, random
import vf, walk

LEVEL = "model_checking"
LEVEL_TEXT = ("RecorderSup.tla models the three loops of the recorder (supervisor Recorder.run with its restart timer, "
              "recorderInstance.run, the stream reader running the format's OnData callback) action by action and the "
              "fMP4 / MPEG-TS segment logic as far as it decides the OnSegmentCreate / OnSegmentComplete callbacks; the "
              "statement (callbacks alternate and never reuse a path, at most one reader, an error closes the open segment, "
              "restart after the pause, units are recorded again, Close returns promptly, nothing happens after Close) is "
              "eight formulas over event sequences. TLC checks them exhaustively on the history of the bounded model, "
              "lib/walk.py covers every labelled transition of the state graph, the operation sequences of the walks (and "
              "seeded random sequences with bursts and racing Close calls) are replayed on a real Recorder reading a real "
              "stream.Stream with scripted faults (time drift, oversized sample, unwritable directory, disk full), and TLC "
              "evaluates the same formulas on the recorded event logs and checks that each log is a behaviour of the model")
LEVEL_NOTE = ("one H264 track of IDR units 100 ms apart, part duration 100 ms, segment switches forced by timestamp jumps; "
              "model bounds: 3-4 units, 2 instances, 1 environment change with event history, 5 units / 3 instances / 2 changes "
              "for the state invariants (exhaustive); graph for the walks: 2 instances, unbounded units, the number of walks "
              "is capped per tier and the edge coverage reached is reported; the restart pause is 1 ms or 1 h (the unexported field restartPause), observations are taken "
              "at quiescent points determined from goroutine dumps, never after sleeps; 'disk full' is a link to /dev/full at "
              "the path of every segment that starts while the fault is on; fi.Close() failures are not scripted")
TECHNIQUE = ("TLA+ model (TLC): exhaustive bounded MC with event history + edge-covering walks of the state graph replayed on "
             "the real recorder.Recorder + trace validation (statement formulas and layer-1 conformance) of its event logs")

CFG = """SPECIFICATION %(spec)s
CONSTANTS
  MaxW = %(maxw)d
  MaxGen = %(maxgen)d
  MaxFault = %(maxfault)d
  MaxQ = %(maxq)d
  Kinds = {"n", "j", "d", "b"}
  Faults = {"ok", "nodir", "full"}
  Pauses = {"long", "short"}
  Formats = %(formats)s
  History = %(history)s
  Discipline = %(discipline)s
  CanObserve = %(canobserve)s
  ObsFirst = %(obsfirst)s
%(rest)s
CHECK_DEADLOCK FALSE
"""

ENV_OPS = ("Initialize", "W", "Fault", "CloseCall")


def _cfg(d, name, **kw):
    base = dict(spec="Spec", maxw=100000, maxgen=100000, maxfault=100000, maxq=2, formats='{"fmp4", "mpegts"}',
                history="FALSE", discipline="FALSE", canobserve="FALSE", obsfirst="FALSE", rest="")
    base.update(kw)
    with open(os.path.join(d, name), "w") as fh:
        fh.write(CFG % base)
    return name


def _ops_of_walk(w):
    """(format, operations) of a walk: only the user's operations are replayed; the component's steps happen by themselves"""
    ops, fmt = [], None
    for lab, _ in w:
        kind, args = walk.parse_label(lab)
        if kind not in ENV_OPS:
            continue
        if kind == "Initialize" and len(args) == 2:
            ops.append({"k": "Initialize", "a": args[0]})
            fmt = args[1]
        elif kind == "CloseCall" and len(args) == 1:
            ops.append({"k": "CloseCall", "a": "quiet" if args[0] else "race"})
        elif kind in ("W", "Fault") and len(args) == 1 and isinstance(args[0], str):
            ops.append({"k": kind, "a": args[0]})
        else:
            raise vf.Infra("unexpected edge label " + lab[:80])
    if not ops or ops[0]["k"] != "Initialize" or fmt is None:
        raise vf.Infra("walk does not start with Initialize")
    return fmt, ops


def _stress(rnd, n):
    """seeded random operation sequences: bursts of units written without waiting, racing Close calls"""
    out = []
    for _ in range(n):
        ops = [{"k": "Initialize", "a": rnd.choice(["short", "short", "long"])}]
        for _ in range(rnd.randint(3, 22)):
            x = rnd.random()
            if x < 0.70:
                k = rnd.choice("nnnnnnjdb")
                ops.append({"k": "W", "a": k + ("!" if rnd.random() < 0.5 else "")})
            elif x < 0.82:
                ops.append({"k": "Fault", "a": rnd.choice(["ok", "nodir", "full"])})
            elif x < 0.90:
                ops.append({"k": "Observe", "a": ""})
            else:
                ops.append({"k": "CloseCall", "a": rnd.choice(["quiet", "race", "race"])})
                for _ in range(rnd.randint(0, 2)):
                    ops.append({"k": "W", "a": "n!"})
                break
        # consecutive equal faults are not environment changes
        clean, env = [], "ok"
        for op in ops:
            if op["k"] == "Fault":
                if op["a"] == env:
                    continue
                env = op["a"]
            clean.append(op)
        out.append(clean)
    return out


def run(ctx):
    import time
    t0 = time.time()

    def lap(what):
        ctx.cov.setdefault("phase_wall_s", {})[what] = round(time.time() - t0, 1)
    d = ctx.specdir()
    # layer 1 describes the tree as it is: fMP4 with the deviation InitLeak (findings/X02.md, X02-F1).
    # VERIF_L1_VARIANT=fixed makes the fixed fMP4 ("fmp4fixed") layer 1 (for trees that contain the fix).
    variant = os.environ.get("VERIF_L1_VARIANT", "fixed")  # default: the tree after fix db963bf (X02-F1)
    if variant not in ("InitLeak", "fixed"):
        raise vf.Infra("VERIF_L1_VARIANT must be InitLeak or fixed")
    l1fmp4 = "fmp4" if variant == "InitLeak" else "fmp4fixed"
    ctx.set("layer1_fmp4_variant", variant)
    inv = "INVARIANTS TypeOK InvStatement InvOneReader InvClosed InvNoHang InvRestarts"
    # 1. the statement on the bounded model with event history (the harness acts at rest, Close may race)
    vf.mc(ctx, "RecorderSup", _cfg(d, "RecorderSup_mc.cfg", maxw=ctx.pick(3, 4), maxgen=2, maxfault=1, maxq=2,
                                   formats='{"fmp4fixed", "mpegts"}', history="TRUE", discipline="TRUE",
                                   canobserve="TRUE", obsfirst="TRUE", rest=inv),
          workers=4, timeout=900, java_opts=["-Xmx6g"])
    lap("mc_history")
    # 2. the loops under arbitrary interleavings of the user (units written at any time), state invariants only
    if ctx.thorough:
        vf.mc(ctx, "RecorderSup", _cfg(d, "RecorderSup_mc2.cfg", maxw=5, maxgen=3, maxfault=2, maxq=2,
                                       formats='{"fmp4fixed", "mpegts", "fmp4"}',
                                       rest="INVARIANTS TypeOK InvOneReader InvClosed InvNoHang InvRestarts"),
              workers=4, timeout=900, java_opts=["-Xmx6g"])
    lap("mc_interleavings")
    # 3. the named deviation InitLeak (fMP4 as it is) must make the statement fail on the model: the model explains the finding
    if ctx.thorough:
        leak = vf.tlc(ctx, "RecorderSup", _cfg(d, "RecorderSup_leak.cfg", maxw=3, maxgen=2, maxfault=1, maxq=2,
                                               formats='{"fmp4"}', history="TRUE", discipline="TRUE", canobserve="TRUE",
                                               obsfirst="TRUE", rest="INVARIANTS InvStatement"),
                      workers=4, timeout=600, allow_violation=True)
        ctx.set("model_with_InitLeak_violates_statement", leak.violated == "InvStatement")
        if leak.violated != "InvStatement":
            ctx.note("the model with the deviation InitLeak does not violate the statement (expected: it does)")

    lap("mc_leak")
    # 4. spec -> impl: edge-covering walks over the state graph of the disciplined model
    dot = ctx.path("g.dot")
    view = ctx.pick("GenViewCoarse", "GenView")
    vf.tlc(ctx, "RecorderSup", _cfg(d, "RecorderSup_gen.cfg", maxgen=2, discipline="TRUE", rest="VIEW " + view,
                                    formats='{"%s", "mpegts"}' % l1fmp4),
           workers=1, timeout=600, extra=["-dump", "dot,actionlabels", dot])
    g = walk.load(dot)
    os.remove(dot)
    inits = list(g.init)
    walks, cov, tot = [], 0, g.nedges
    for i0 in inits:     # the formats are disjoint components of the graph
        g.init = [i0]
        ws, c, _ = walk.edge_cover(g, maxlen=60, seed=ctx.seed, limit=ctx.pick(70, 4000))
        walks += ws
        cov += c
    # (the number of walks per format is capped to keep the tiers within their time budgets; the coverage reached
    # is measured and reported, the mpegts component is always covered completely in the thorough tier)
    ctx.set("edges_covered", cov)
    ctx.set("edges_total", tot)
    ctx.set("walks", len(walks))
    # only the user's operations of a walk are replayed: walks with the same operations are one run, and a sequence
    # that is a prefix of another one of the same format adds nothing (every run is closed at its end)
    seqs = sorted({(fmt, tuple((o["k"], o["a"]) for o in ops)) for fmt, ops in map(_ops_of_walk, walks)})
    runs = []
    for i, (fmt, ops) in enumerate(seqs):
        if i + 1 < len(seqs) and seqs[i + 1][0] == fmt and seqs[i + 1][1][:len(ops)] == ops:
            continue
        runs.append({"run": len(runs), "fmt": "mpegts" if fmt == "mpegts" else "fmp4", "src": "walk",
                     "ops": [{"k": k, "a": a} for k, a in ops]})
    nwalkruns = len(runs)
    # 5. impl -> spec: seeded random sequences (bursts without waiting, racing Close)
    rnd = random.Random(ctx.seed * 7919 + 17)
    for ops in _stress(rnd, ctx.pick(30, 400)):
        runs.append({"run": len(runs), "fmt": rnd.choice(["fmp4", "mpegts"]), "src": "random", "ops": ops})
    ctx.set("replayed_walk_sequences", nwalkruns)
    ctx.set("replayed_random_sequences", len(runs) - nwalkruns)
    lap("walks")
    cases = vf.write_ndjson(ctx.path("runs.ndjson"), runs)
    obsf = ctx.path("obs.ndjson")
    vf.gotest_ok(ctx, "./internal/recorder/", "^TestVerif_X02_Replay$", cases=cases, out=obsf, timeout=ctx.pick(600, 1500),
                 params={"SHARDS": 4}, extra=["-p", "4"])
    lap("replay")
    obs = vf.read_ndjson(obsf)
    if len(obs) != len(runs):
        raise vf.Infra("harness replayed %d of %d runs" % (len(obs), len(runs)))
    src = {r["run"]: r["src"] for r in runs}
    infra = [o for o in obs if o["infra"]]
    if infra:
        raise vf.Infra("%d runs failed in the harness; first (run %d, %s): %s\nops=%s\n%s" % (
            len(infra), infra[0]["run"], infra[0]["fmt"], infra[0]["infra"], json.dumps(infra[0]["ops"]), infra[0].get("dump", "")[:3000]))
    # runs without a (confirmed) quiescent point within the time limit are inconclusive: no verdict from them
    inconc = [o for o in obs if o.get("inconclusive")]
    ctx.set("runs_inconclusive", len(inconc))
    if len(inconc) > max(2, len(obs) // 50):
        raise vf.Infra("%d of %d runs were inconclusive (no confirmed quiescent point); first (run %d, %s): %s\nops=%s\n%s" % (
            len(inconc), len(obs), inconc[0]["run"], inconc[0]["fmt"], inconc[0]["inconclusive"], json.dumps(inconc[0]["ops"]),
            inconc[0].get("dump", "")[:3000]))
    if inconc:
        ctx.note("%d runs were inconclusive (%s) and are left out" % (len(inconc), inconc[0]["inconclusive"]))
    obs = [o for o in obs if not o.get("inconclusive")]
    crashed = [o for o in obs if o["crashed"]]
    good = [o for o in obs if not o["crashed"] and o["ev"]]
    if not good:
        raise vf.Infra("no run produced an event log; first crash: " + (crashed[0]["crashed"][:600] if crashed else "-"))
    if not all(o["calib"] for o in good):
        ctx.note("the supervisor's pause select could not be identified by source line; quiescence used a 150 ms stability window")
    for o in good:
        o.pop("dump", None)
        o["format"] = o["fmt"]
        if o["fmt"] == "fmp4":
            o["fmt"] = l1fmp4       # the layer-1 variant the log is compared with
    vf.write_ndjson(os.path.join(d, "X02_trace.ndjson"), good)
    tv = vf.tlc(ctx, "TraceRecorderSup", _cfg(d, "RecorderSup_tv.cfg", spec="TraceSpec", maxq=100000, canobserve="TRUE",
                                              formats='{"%s", "mpegts"}' % l1fmp4, rest="INVARIANTS Verdicts Progress"),
                workers=1, timeout=1500, java_opts=["-Xmx6g"])
    lap("trace_validation")
    # ---- verdicts: the statement's formulas on what the real recorder did
    nbad = 0
    for bad in tv.tagged("BAD"):
        o = good[bad["l"] - 1]
        k = bad["step"]
        ev = o["ev"]
        doomed = bad["p"] in o["doomed"]
        e = ev[k - 1]
        rec = {"monitor": bad["monitor"], "fmt": o["format"], "event": e["k"],
               "segment_created_while_disk_full": doomed}
        lo = max(0, k - 14)
        ctx.violation(rec, "formula %s is false at event %d (%s) of the event log of the real recorder (%s, run %d, %s sequence); "
                           "events %d..%d: %s; paths: %s; operations: %s" % (
                               bad["monitor"], k, _show(e), o["format"], o["run"], src.get(o["run"], "?"), lo + 1, min(len(ev), k + 3),
                               " ".join(_show(x) for x in ev[lo:k + 3]), json.dumps(o["paths"]),
                               " ".join(_showop(x) for x in o["ops"])[:900]))
        nbad += 1
    hung = [o for o in good if o["truncated"]]
    badruns = {b["l"] for b in tv.tagged("BAD")}
    for i, o in enumerate(good):
        if o["truncated"] and (i + 1) not in badruns:
            raise vf.Infra("run %d was cut short (%s) although no formula fails on it" % (o["run"], o["truncated"]))
    # ---- conformance with layer 1 (never a verdict)
    done = {x["l"] for x in tv.tagged("DONE")}
    hw = {}
    for x in tv.tagged("AT"):
        hw[x["l"]] = max(hw.get(x["l"], 0), x["pos"])
    drift = [i + 1 for i in range(len(good)) if (i + 1) not in done]
    ctx.set("traces_validated_against_impl", len(good))
    ctx.set("events_validated", sum(len(o["ev"]) for o in good))
    ctx.set("operations_replayed", sum(len(o["ops"]) for o in good))
    ctx.set("runs_crashed", len(crashed))
    ctx.set("runs_cut_short_with_close_pending", len(hung))
    ctx.set("drift_runs", len(drift))
    ctx.set("statement_failures", nbad)
    if drift:
        o = good[drift[0] - 1]
        at = hw.get(drift[0], 0)
        ctx.note("%d event logs of the real recorder are not behaviours of layer 1 (DRIFT, not a verdict); first: run %d (%s, %s) "
                 "followed up to event %d of %d: %s | ops: %s" % (
                     len(drift), o["run"], o["format"], src.get(o["run"], "?"), at, len(o["ev"]),
                     " ".join(_show(x) for x in o["ev"][max(0, at - 8):at + 4]), " ".join(_showop(x) for x in o["ops"])[:600]))
    if crashed:
        if not badruns:
            raise vf.Infra("the code under test crashed the harness process in %d of %d runs and no formula fails on the others: %s"
                           % (len(crashed), len(obs), crashed[0]["crashed"][:600]))
        ctx.note("the code under test crashed the harness process in %d runs (not a verdict by itself); first: %s"
                 % (len(crashed), crashed[0]["crashed"][:300].replace("\n", " | ")))
    ctx.set("exhaustive", True)    # the bounded models of steps 1-2 are enumerated completely; the walks' edge coverage is reported
    for o in (good[0], good[len(good) // 2], good[-1]):
        ctx.sample({"fmt": o["format"], "ops": " ".join(_showop(x) for x in o["ops"])[:300],
                    "events": " ".join(_show(x) for x in o["ev"])[:900]})
    ctx.assume("the stream delivers units to attached readers in order (stream.Stream / gortsplib ringbuffer are trusted); the "
               "recorder is driven by one user: Initialize once, Close once")
    ctx.assume("a loop of the recorder is 'parked' when runtime.Stack reports it blocked on a channel, select or condition variable; "
               "two identical consecutive dumps without an event in between are a quiescent point")
    ctx.assume("'disk full' is simulated per segment (a link to /dev/full at the segment's path): the file can be created, every "
               "write to it fails with ENOSPC; 'unwritable directory' by replacing the recording directory with a regular file")


def _show(e):
    k = e["k"]
    if k == "q":
        return "q[r%d g%d i%d s%d%s fs%d%s]" % (e["r"], e["g"], e["ig"], e["sg"], " CLOSE-PENDING" if e["cp"] else "", e["fs"],
                                               " confirmed" if e.get("sure") else "")
    if k == "peek":
        return "peek(r%d)" % e["r"]
    if k in ("create", "complete"):
        return "%s(%d)" % (k, e["p"])
    if k == "closeret":
        return "closeret[fs%d]" % e["fs"]
    return k + ("(" + e["a"] + ")" if e["a"] else "")


def _showop(o):
    return o["k"] + ("(" + o["a"] + ")" if o.get("a") else "")
