"""C37 Structured log lines are valid JSON — spec/http/LogJson.tla"""
import os
import random

import vf

LEVEL = "model_checking"
LEVEL_TEXT = ("LogJson.tla states the record formula (one line; RFC 8259 object; timestamp/level/message members decode to the "
              "record's instant, level and message with invalid UTF-8 as U+FFFD, decoder = RFC 3629 written in the spec); TLC "
              "enumerates messages over 26 character classes x levels x call modes, the real logger.Logger (structured, stdout "
              "and file destinations) writes every case, encoding/json (trusted parser) and utf8.Valid measure each line and "
              "TLC evaluates the formula on every measured record (TraceLogJson.tla); longer random class sequences likewise; "
              "concurrent stage: 8 goroutines log distinguishable records through one real Logger (stdout pipe + file), every "
              "output line is judged by the same formula and TLC decides that the lines are the submitted records exactly once each "
              "(LogConc.tla, which also model-checks the lock: atomic calls under the exclusive lock, corruption reachable under "
              "the SharedLock deviation)")
LEVEL_NOTE = ("bounded: all 26 classes to length 2 x 4 levels x 2 call modes, the 16 base classes to length 3 (thorough: 26 classes "
              "to length 3 x 4 levels, base classes to length 4), random sequences to length 12; runs of U+FFFD are compared "
              "collapsed (the statement does not fix one-per-byte vs one-per-subpart); accepted level names are a fixed list; "
              "the timestamp must be RFC 3339; failing records are attributed to the classes that already fail as one-character "
              "messages, anything else is reported with the whole message")
TECHNIQUE = "TLC-enumerated cases replayed on the real code + TLC trace validation of the measured lines"

PKG = "./internal/logger/"
JSON_ESC = b'"\\/bfnrtu'


def cause_of(obs):
    """Reporting only: why the trusted parser refuses the line."""
    b = bytes.fromhex(obs["hex"])
    if not obs["utf8"]:
        return "invalid UTF-8 in the line"
    i = 0
    while i < len(b):
        c = b[i]
        if c == 0x5c and i + 1 < len(b):
            if b[i + 1] not in JSON_ESC:
                return "escape \\" + chr(b[i + 1])
            i += 2
            continue
        if c < 0x20 and not (c == 0x0a and i == len(b) - 1):
            return "raw control byte 0x%02x" % c
        i += 1
    return "other"


def run(ctx):
    cfgs = ctx.pick(["LogJson_all2.cfg", "LogJson_base3.cfg"], ["LogJson_all2.cfg", "LogJson_all3.cfg", "LogJson_base4.cfg"])
    # layer 1 = the current code; VERIF_L1_VARIANT=GoQuoteLiteral selects the pre-fix behaviour as layer 1 (old trees)
    variant = os.environ.get("VERIF_L1_VARIANT", "fixed")
    if variant != "fixed":
        for cfg in cfgs + ["TraceLogJson.cfg"]:
            f = ctx.specdir() + "/" + cfg
            txt = open(f).read().replace('L1Variant = "fixed"', 'L1Variant = "%s"' % variant)
            open(f, "w").write(txt)
    ctx.set("layer1_variant", variant)
    cases, seen = [], set()
    for cfg in cfgs:
        r = vf.mc(ctx, "LogJson", cfg, workers=min(vf.NCPU, 8), timeout=900, java_opts=["-Xmx6g"])
        for c in r.tagged("CASE"):
            key = (tuple(c["msg"]), c["lvl"], c["mode"])
            if key in seen:
                continue
            seen.add(key)
            c["id"] = len(cases)
            c["src"] = "tlc"
            cases.append(c)
    ntlc = len(cases)
    if ntlc < 5000:
        raise vf.Infra("generator produced only %d cases" % ntlc)
    ctx.set("exhaustive", True)

    # class table and time table as the spec gives them (single-class cases); random longer messages
    table = {c["msg"][0]: c["bytes"] for c in cases if len(c["msg"]) == 1}
    times = sorted({(c["sec"], c["nano"], c["zone"]) for c in cases})
    names = sorted(table)
    rnd = random.Random(37000 + ctx.seed)
    for _ in range(ctx.pick(400, 8000)):
        m = [rnd.choice(names) for _ in range(rnd.randint(4, 12))]
        sec, nano, zone = rnd.choice(times)
        cases.append({"id": len(cases), "src": "random", "msg": m, "bytes": [x for k in m for x in table[k]],
                      "lvl": rnd.choice(["debug", "info", "warn", "error"]), "mode": rnd.choice(["arg", "fmt"]),
                      "sec": sec, "nano": nano, "zone": zone})

    cf = vf.write_ndjson(ctx.path("cases.ndjson"),
                         [{k: c[k] for k in ("id", "bytes", "lvl", "mode", "sec", "nano", "zone")} for c in cases])
    of = ctx.path("obs.ndjson")

    # concurrent stage: G goroutines x M records with distinguishable messages ("c<number>:" + a message of the
    # sequential domain, escaping classes included) through ONE Logger, at one fixed instant
    G, M = 8, ctx.pick(100, 1000)
    short = [c for c in cases[:ntlc] if 1 <= len(c["msg"]) <= 2 and c["mode"] == "arg"]
    sec0, nano0, _ = times[0]
    conc = []
    for k in range(1, G * M + 1):
        src = short[(k * 7919) % len(short)]
        conc.append({"id": k, "g": (k - 1) % G, "msg": src["msg"], "bytes": [ord(ch) for ch in "c%d:" % k] + src["bytes"],
                     "lvl": ["debug", "info", "warn", "error"][k % 4], "sec": sec0, "nano": nano0})
    ccf = vf.write_ndjson(ctx.path("conc_cases.ndjson"), [{k: c[k] for k in ("id", "g", "bytes", "lvl", "sec", "nano")} for c in conc])
    cof = ctx.path("conc_obs.ndjson")
    vf.gotest_ok(ctx, PKG, "^TestVerif_C37_(Replay|Conc)$", cases=cf, out=of, env={"VERIF_CASES2": ccf, "VERIF_OUT2": cof})
    obs = vf.read_ndjson(of)
    clines = vf.read_ndjson(cof)
    if not clines:
        raise vf.Infra("the concurrent stage recorded no output line")
    if len(obs) != 2 * len(cases):
        raise vf.Infra("harness recorded %d observations for %d cases" % (len(obs), len(cases)))
    for o in obs:
        if o["dest"] == "stdout" and o["writes"] != 1:
            ctx.note("stdout destination used %d writes for one record (case %d)" % (o["writes"], o["id"]))
            break

    fields = ("nl", "endsNL", "utf8", "json", "obj", "keys", "msgIsStr", "msg", "levelIsStr", "level",
              "tsOK", "tsSec", "tsNano", "lit")
    recs = []
    for o in obs:
        c = cases[o["id"]]
        rec = {k: o[k] for k in fields}
        rec.update({"bytes": c["bytes"], "lvl": c["lvl"], "sec": c["sec"], "nano": c["nano"]})
        recs.append(rec)

    nseq = len(recs)
    orphan = {"bytes": [], "lvl": "info", "sec": sec0, "nano": nano0}
    for o in clines:                      # every output line of the concurrent stage, judged as the record it names
        c = conc[o["claimed"] - 1] if 1 <= o["claimed"] <= len(conc) else orphan
        rec = {k: o[k] for k in fields}
        rec.update({"bytes": c["bytes"], "lvl": c["lvl"], "sec": c["sec"], "nano": c["nano"]})
        recs.append(rec)

    bad = []       # (obs, monitor, named deviation the written literal exhibits)
    cbad = []      # (line of the concurrent stage, monitor)
    drift = 0
    chunk = 40000
    for i in range(0, len(recs), chunk):
        vf.write_ndjson(ctx.specdir() + "/C37_trace.ndjson", recs[i:i + chunk])
        tv = vf.tlc(ctx, "TraceLogJson", "TraceLogJson.cfg", workers=1, timeout=1500, java_opts=["-Xmx8g"])
        for b in tv.tagged("BAD"):
            j = i + b["l"] - 1
            for mon in b["monitors"]:
                if j < nseq:
                    bad.append((obs[j], mon, b["deviation"]))
                else:
                    cbad.append((clines[j - nseq], mon))
        drift += len(tv.tagged("DRIFT"))

    # concurrent stage: multiset verdict by TLC (LogConc.tla; the same run model-checks the lock: calls are atomic under
    # the exclusive lock, and the SharedLock deviation reaches a corrupted output on the tiny instance)
    vf.write_ndjson(ctx.specdir() + "/C37_conc.ndjson",
                    [{"dest": d, "n": len(conc), "ids": [o["claimed"] for o in clines if o["dest"] == d]} for d in ("stdout", "file")])
    cm = vf.mc(ctx, "LogConc", "LogConc.cfg", workers=1, timeout=600)
    if not cm.tagged("CORRUPT"):
        raise vf.Infra("LogConc.tla: the SharedLock deviation did not produce a corrupted output in the model")
    by = {}
    for o, mon in cbad:
        g = by.setdefault((o["dest"], mon), {"n": 0, "ex": o})
        g["n"] += 1
    for (d, mon), g in sorted(by.items()):
        ctx.violation({"stage": "concurrent", "monitor": mon, "dest": d},
                      "concurrent stage (%d goroutines x %d records through one Logger): %d output lines of the %s destination fail "
                      "monitor %s; e.g. line %d: %r" % (G, M, g["n"], d, mon, g["ex"]["lineNo"], bytes.fromhex(g["ex"]["hex"])))
    for b in cm.tagged("BAD"):
        ctx.violation({"stage": "concurrent", "monitor": "Multiset", "dest": b["dest"]},
                      "concurrent stage (%d goroutines x %d records through one Logger): the lines of the %s destination are not the "
                      "submitted records exactly once each: %d records missing (e.g. %s), %d more than once (e.g. %s), %d lines that "
                      "name no submitted record" % (G, M, b["dest"], len(b["missing"]), sorted(b["missing"])[:5], len(b["twice"]),
                                                    sorted(b["twice"])[:5], b["orphans"]))
    ctx.set("concurrent_records_submitted", len(conc))
    ctx.set("concurrent_lines_judged", len(clines))
    if ctx.thorough:
        rc, rout = vf.gotest(ctx, PKG, "^TestVerif_C37_Conc$", race=True, timeout=1200,
                             env={"VERIF_CASES2": ccf, "VERIF_OUT2": ctx.path("conc_obs_race.ndjson")})
        if "DATA RACE" in rout:
            ctx.note("race detector: concurrent Log calls touch shared state without exclusion (layer 1 says every call is atomic) — DRIFT")
            ctx.set("race_detector", "DATA RACE")
        elif rc != 0:
            raise vf.Infra("concurrent stage under -race failed\n" + rout[-3000:])
        else:
            ctx.set("race_detector", "clean")

    # layer-1 prediction of JSON validity against the trusted parser: DRIFT only
    l1diff = sum(1 for o in obs if "l1json" in cases[o["id"]] and cases[o["id"]]["l1json"] != (o["json"] and o["utf8"]))

    # attribution: a failing record is charged to the classes of its message that already fail, with the same
    # monitor, as a one-character message (the domain is closed under sub-sequences, so a failure that does not
    # depend on those classes also shows up in a message without them); otherwise to the whole message
    def cz_of(o, mon):
        return cause_of(o) if mon == "ValidJSON" else mon

    alone, whatever = {}, {}
    for o, mon, _ in bad:
        c = cases[o["id"]]
        if len(c["msg"]) == 1:
            alone.setdefault((c["msg"][0], mon, o["dest"]), o)
        if len(c["msg"]) == 0:          # the empty message fails: the failure does not depend on the message
            whatever.setdefault((mon, cz_of(o, mon), o["dest"]), o)
    groups = {}
    for o, mon, dev in bad:
        c = cases[o["id"]]
        d = o["dest"]
        blamed = sorted({k for k in c["msg"] if (k, mon, d) in alone})
        if (mon, cz_of(o, mon), d) in whatever:
            keys = [(mon, "(any message)", cz_of(o, mon), whatever[(mon, cz_of(o, mon), d)])]
        elif blamed:
            keys = [(mon, k, cz_of(alone[(k, mon, d)], mon), alone[(k, mon, d)]) for k in blamed]
        else:
            keys = [(mon, "+".join(c["msg"]), cz_of(o, mon), o)]
        for (m, k, cz, ex) in keys:
            g = groups.setdefault((m, k, cz), {"n": 0, "dests": set(), "ex": ex, "devs": set()})
            g["devs"].add(dev)
            g["n"] += 1
            g["dests"].add(o["dest"])
    for (mon, cls, cz), g in sorted(groups.items()):
        ex = g["ex"]
        c = cases[ex["id"]]
        line = bytes.fromhex(ex["hex"])
        dev = "+".join(sorted(g["devs"] - {"none"})) or "none"
        ctx.violation({"monitor": mon, "class": cls, "cause": cz, "deviation": dev},
                      "monitor %s fails for messages containing class %s (%d records, destinations %s) [cause: %s; named deviation: %s]; minimal input: "
                      "level %s, instant %d.%09d, message bytes %s (%r), mode %s -> the %s destination wrote %r; decoded message code "
                      "points %s" % (mon, cls, g["n"], "/".join(sorted(g["dests"])), cz, dev, c["lvl"], c["sec"], c["nano"], c["bytes"],
                                     bytes(c["bytes"]), c["mode"], ex["dest"], line, ex["msg"] if ex["json"] else "(not JSON)"))

    ctx.set("cases_enumerated", ntlc)
    ctx.set("cases_random", len(cases) - ntlc)
    ctx.set("traces_validated_against_impl", len(recs) + 2)
    ctx.set("trace_records", len(recs))
    ctx.set("records_failing", len({(o["id"], o["dest"]) for o, _, _ in bad}))
    ctx.set("failing_by_group", {"%s/%s/%s" % k: g["n"] for k, g in sorted(groups.items())})
    ctx.set("drift_events", drift)
    ctx.set("l1_json_prediction_mismatches", l1diff)
    if drift:
        ctx.note("%d records whose message literal differs from layer 1 (json.Marshal of the message, or the selected deviation) — DRIFT, not a verdict" % drift)
    good = [o for o in obs if o["json"] and len(cases[o["id"]]["msg"]) >= 2]
    if good:
        o = good[len(good) // 2]
        ctx.sample({"case": {k: cases[o["id"]][k] for k in ("msg", "bytes", "lvl", "mode", "sec", "nano", "zone")},
                    "dest": o["dest"], "line": bytes.fromhex(o["hex"]).decode("utf-8", "replace"), "msg": o["msg"]})
    if bad:
        o = bad[0][0]
        ctx.sample({"failing": {k: cases[o["id"]][k] for k in ("msg", "bytes", "lvl", "mode")}, "monitor": bad[0][1],
                    "dest": o["dest"], "line": bytes.fromhex(o["hex"]).decode("latin-1")})
    ctx.assume("Go's encoding/json (json.Valid, Decoder) is the trusted RFC 8259 grammar; unicode/utf8.Valid the trusted UTF-8 test of the line")
    ctx.assume("time.Parse(RFC3339Nano) is the trusted timestamp reader; the level is named by one of DEB/INF/WAR/ERR or the long names")
