"""C20 Hooks fire in well-formed start/stop pairs — spec/core/Path.tla"""
import pathcheck

LEVEL = "model_checking"
LEVEL_TEXT = ("hook command starts/stops are events of Path.tla; TLC checks strict alternation, start-command closed when the "
              "stop command is launched, and no open pair after termination, for runOnAvailable(runOnReady)/runOnUnavailable, "
              "runOnOnline/runOnOffline and runOnDemand/runOnUnDemand; the real path is replayed with the external-command "
              "hook observing every Cmd.Start/Close in the caller's order and TLC evaluates the monitors on that sequence")
LEVEL_NOTE = ("per-reader (runOnRead) and per-connection (runOnConnect) hooks live in the protocol servers and are not driven "
              "by this check; commands are intercepted, not executed")


def run(ctx):
    pathcheck.run(ctx, "C20_", ctx.pick(["odpub_override", "sod"],
                                        ["pub_override", "odpub", "odpub_override", "sod", "static", "rx", "rx_odpub"]), ["MonC20"])
