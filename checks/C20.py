"""C20 Hooks fire in well-formed start/stop pairs — spec/core/Path.tla"""
import pathcheck
import connhooks

LEVEL = "model_checking"
LEVEL_TEXT = ("hook command starts/stops are events of Path.tla; TLC checks strict alternation, start-command closed when the "
              "stop command is launched, and no open pair after termination, for runOnAvailable(runOnReady)/runOnUnavailable, "
              "runOnOnline/runOnOffline and runOnDemand/runOnUnDemand; the real path is replayed with the external-command "
              "hook observing every Cmd.Start/Close in the caller's order and TLC evaluates the monitors on that sequence; "
              "second stage (ConnHooks.tla): runOnConnect/runOnDisconnect per connection and runOnRead/runOnUnread per reader "
              "on ONE running Core with real RTSP, RTMP, SRT and HLS clients, kicks through the HTTP API, path configuration "
              "removed/re-added, server re-creation and shutdown: TLC explores the bounded model, edge-covering walks are "
              "replayed on the real Core and TLC judges the recorded hook events per $MTX_CONN_ID / $MTX_READER_ID")
LEVEL_NOTE = ("commands are intercepted, not executed; per-reader / per-connection stage: RTSP (TCP), RTMP, SRT, HLS sessions; "
              "WebRTC and the TLS variants are not driven; sequential client actions (races between a kick and a concurrent "
              "client request are outside the walks)")


def run(ctx):
    pathcheck.run(ctx, "C20_", ctx.pick(["odpub_override", "sod", "aa_override"],
                                        ["pub_override", "odpub", "odpub_override", "sod", "static", "rx", "rx_odpub",
                                         "aa_override", "aa_nooverride"]), ["MonC20"])
    connhooks.run(ctx)
